import Glom.Spec.C18
import Glom.Lemmas.C01
/-
  Helper lemmas for C18: Python slice semantics (`pySlice`), the sequence
  operations on the flat ops tuple, `walk_append` for C01's reference walk, and
  the `eval(repr)` round trip (split / join of token lists, mutual induction
  over arguments, items and steps).
-/
namespace Glom.C18

/-! ### `pySlice` -/

theorem pySlice_map {α β} (f : α → β) (xs : List α) (a b c : Option Int) :
    pySlice (xs.map f) a b c = (pySlice xs a b c).map (List.map f) := by
  unfold pySlice
  simp only [List.length_map]
  split
  · rfl
  · simp only [Option.map_some, Option.some.injEq, List.map_filterMap]
    congr 1
    funext i
    simp [List.getElem?_map]

theorem clampBound_range (n step b : Int) (hn : 0 ≤ n) :
    (0 < step → 0 ≤ clampBound n step b ∧ clampBound n step b ≤ n) ∧
    (step < 0 → -1 ≤ clampBound n step b ∧ clampBound n step b ≤ n - 1) := by
  unfold clampBound
  constructor <;> intro hs <;> split <;> (try split) <;> (try split) <;> omega

theorem sliceStart_range (n step : Int) (s : Option Int) (hn : 0 ≤ n) :
    (0 < step → 0 ≤ sliceStart n step s ∧ sliceStart n step s ≤ n) ∧
    (step < 0 → -1 ≤ sliceStart n step s ∧ sliceStart n step s ≤ n - 1) := by
  cases s with
  | none => simp only [sliceStart]; constructor <;> intro hs <;> (try split) <;> omega
  | some b => exact clampBound_range n step b hn

theorem sliceStop_range (n step : Int) (s : Option Int) (hn : 0 ≤ n) :
    (0 < step → 0 ≤ sliceStop n step s ∧ sliceStop n step s ≤ n) ∧
    (step < 0 → -1 ≤ sliceStop n step s ∧ sliceStop n step s ≤ n - 1) := by
  cases s with
  | none => simp only [sliceStop]; constructor <;> intro hs <;> (try split) <;> omega
  | some b => exact clampBound_range n step b hn

/-- every position a slice selects exists: `0 ≤ start + j·step < n` for `j < len` -/
theorem sliceIdx_lt (n : Nat) (a b : Option Int) (step : Int) (hstep : step ≠ 0) :
    ∀ i ∈ sliceIdx n a b step, i < n := by
  intro i hi
  simp only [sliceIdx, List.mem_map, List.mem_range] at hi
  obtain ⟨j, hj, rfl⟩ := hi
  have hs := sliceStart_range n step a (by omega)
  have he := sliceStop_range n step b (by omega)
  generalize sliceStart (↑n) step a = s at *
  generalize sliceStop (↑n) step b = e at *
  unfold sliceLen at hj
  by_cases hpos : 0 < step
  · have hneg : ¬ step < 0 := by omega
    simp only [hneg, if_false] at hj
    split at hj
    · rename_i hlt
      have hq : (j : Int) ≤ (e - s - 1) / step := by omega
      have := (Int.le_ediv_iff_mul_le hpos).mp hq
      obtain ⟨h1, h2⟩ := hs.1 hpos
      obtain ⟨h3, h4⟩ := he.1 hpos
      have hj0 : (0 : Int) ≤ (j : Int) * step := Int.mul_nonneg (by omega) (by omega)
      omega
    · omega
  · have hneg : step < 0 := by omega
    simp only [hneg, if_true] at hj
    split at hj
    · rename_i hlt
      have hq : (j : Int) ≤ (s - e - 1) / (-step) := by omega
      have := (Int.le_ediv_iff_mul_le (by omega : 0 < -step)).mp hq
      obtain ⟨h1, h2⟩ := hs.2 hneg
      obtain ⟨h3, h4⟩ := he.2 hneg
      have hj0 : (0 : Int) ≤ (j : Int) * (-step) := Int.mul_nonneg (by omega) (by omega)
      have hmul : (j : Int) * (-step) = -((j : Int) * step) := by rw [Int.mul_neg]
      omega
    · omega

theorem filterMap_get_length {α} (xs : List α) (l : List Nat) (hl : ∀ i ∈ l, i < xs.length) :
    (l.filterMap (fun i => xs[i]?)).length = l.length := by
  induction l with
  | nil => rfl
  | cons i r ih =>
    have hi := hl i (by simp)
    simp only [List.filterMap_cons, List.getElem?_eq_getElem hi, List.length_cons]
    rw [ih (fun k hk => hl k (by simp [hk]))]

/-- the length of a slice is the number of selected positions (none is dropped) -/
theorem pySlice_length {α} (xs : List α) (a b c : Option Int) (ys : List α)
    (h : pySlice xs a b c = some ys) :
    ys.length = sliceLen (sliceStart xs.length (c.getD 1) a) (sliceStop xs.length (c.getD 1) b)
      (c.getD 1) := by
  simp only [pySlice] at h
  split at h
  · cases h
  · rename_i hst
    simp only [Option.some.injEq] at h
    subst h
    rw [filterMap_get_length xs _ (sliceIdx_lt xs.length a b (c.getD 1) hst)]
    simp [sliceIdx]

theorem filterMap_range_get {α} (xs : List α) :
    ∀ (n : Nat), n ≤ xs.length → List.filterMap (fun i => xs[i]?) (List.range n) = xs.take n := by
  intro n
  induction n with
  | zero => intro _; simp
  | succ k ih =>
    intro hk
    rw [List.range_succ, List.filterMap_append, ih (by omega)]
    simp only [List.filterMap_cons, List.filterMap_nil]
    rw [List.getElem?_eq_getElem (show k < xs.length by omega)]
    rw [List.take_add_one, List.getElem?_eq_getElem (show k < xs.length by omega)]
    rfl

/-- `xs[:]` is `xs` -/
theorem pySlice_full {α} (xs : List α) : pySlice xs none none none = some xs := by
  unfold pySlice
  simp only [Option.getD_none, show (1 : Int) ≠ 0 by decide, if_false, Option.some.injEq]
  have hidx : sliceIdx xs.length none none 1 = List.range xs.length := by
    simp only [sliceIdx, sliceStart, sliceStop, sliceLen]
    have h1 : ¬ ((1 : Int) < 0) := by decide
    simp only [h1, if_false]
    by_cases hn : (0 : Int) < xs.length
    · simp only [hn, if_true, Int.sub_zero, Int.ediv_one, Int.mul_one, Int.zero_add]
      rw [show ((xs.length : Int) - 1 + 1).toNat = xs.length by omega]
      apply List.ext_getElem
      · simp
      · intro i h1 h2; simp
    · have : xs.length = 0 := by omega
      simp [this]
  rw [hidx, filterMap_range_get xs xs.length (Nat.le_refl _), List.take_length]

/-! ### the sequence operations on the flat tuple -/

section seq
variable {α : Type}

def flatCells (steps : List (String × α)) : List (Cell α) :=
  steps.flatMap (fun s => [Cell.op s.1, Cell.arg s.2])

theorem flatOf_eq (root : String) (steps : List (String × α)) :
    flatOf root steps = .root root :: flatCells steps := rfl

theorem flatCells_cons (s : String × α) (r : List (String × α)) :
    flatCells (s :: r) = .op s.1 :: .arg s.2 :: flatCells r := by
  simp [flatCells, List.flatMap_cons]

theorem flatCells_length (steps : List (String × α)) : (flatCells steps).length = 2 * steps.length := by
  induction steps with
  | nil => rfl
  | cons s r ih => rw [flatCells_cons]; simp [ih]; omega

theorem everyOther_flatCells (steps : List (String × α)) :
    everyOther (flatCells steps) = steps.map (fun s => Cell.op s.1) := by
  induction steps with
  | nil => rfl
  | cons s r ih => rw [flatCells_cons]; simp [everyOther, ih]

theorem everyOther_drop1_flatCells (steps : List (String × α)) :
    everyOther ((flatCells steps).drop 1) = steps.map (fun s => Cell.arg s.2) := by
  induction steps with
  | nil => rfl
  | cons s r ih =>
    rw [flatCells_cons]
    simp only [List.drop_succ_cons, List.drop_zero, List.map_cons]
    cases r with
    | nil => rfl
    | cons s' r' =>
      rw [flatCells_cons] at ih ⊢
      simp only [List.drop_succ_cons, List.drop_zero] at ih
      simp only [everyOther, ih]

theorem pLen_flatOf (root : String) (steps : List (String × α)) :
    pLen (flatOf root steps) = steps.length := by
  simp [pLen, flatOf_eq, flatCells_length]

theorem pValues_flatOf (root : String) (steps : List (String × α)) :
    pValues (flatOf root steps) = steps.map (fun s => Cell.arg s.2) := by
  simp only [pValues, flatOf_eq]
  rw [show (Cell.root root :: flatCells steps).drop 2 = (flatCells steps).drop 1 by simp]
  exact everyOther_drop1_flatCells steps

theorem pItems_flatOf (root : String) (steps : List (String × α)) :
    pItems (flatOf root steps) = steps.map (fun s => (Cell.op s.1, Cell.arg s.2)) := by
  simp only [pItems, flatOf_eq]
  rw [show (Cell.root root :: flatCells steps).drop 2 = (flatCells steps).drop 1 by simp,
    show (Cell.root root :: flatCells steps).drop 1 = flatCells steps by simp,
    everyOther_flatCells, everyOther_drop1_flatCells]
  induction steps with
  | nil => rfl
  | cons s r ih => simp [ih]

theorem rebuild_flatOf (root : String) (steps st : List (String × α)) :
    rebuild (flatOf root steps) (st.map (fun s => (Cell.op s.1, Cell.arg s.2))) = flatOf root st := by
  simp [rebuild, flatOf_eq, flatCells, List.flatMap_map]

theorem pGetSlice_flatOf (root : String) (steps : List (String × α)) (a b c : Option Int) :
    pGetSlice (flatOf root steps) a b c = (pySlice steps a b c).map (flatOf root) := by
  simp only [pGetSlice, pItems_flatOf, pySlice_map, Option.map_map]
  cases pySlice steps a b c with
  | none => rfl
  | some st => simp [rebuild_flatOf]

theorem pGetIdx_flatOf (root : String) (steps : List (String × α)) (i : Int) :
    pGetIdx (flatOf root steps) i =
      match pyIndexNat steps.length i with
      | some j => steps[j]?.map (fun s => flatOf root [s])
      | none => none := by
  simp only [pGetIdx, pItems_flatOf, List.length_map]
  cases pyIndexNat steps.length i with
  | none => rfl
  | some j =>
    simp only [List.getElem?_map, Option.map_map]
    cases steps[j]? with
    | none => rfl
    | some s =>
      have := rebuild_flatOf root steps [s]
      simp only [List.map_cons, List.map_nil] at this
      simp [this]

theorem flatCells_inj : ∀ (a b : List (String × α)), flatCells a = flatCells b → a = b := by
  intro a
  induction a with
  | nil =>
    intro b h
    cases b with
    | nil => rfl
    | cons s r => rw [flatCells_cons] at h; simp [flatCells] at h
  | cons s r ih =>
    intro b h
    cases b with
    | nil => rw [flatCells_cons] at h; simp [flatCells] at h
    | cons s' r' =>
      rw [flatCells_cons, flatCells_cons] at h
      simp only [List.cons.injEq, Cell.op.injEq, Cell.arg.injEq] at h
      obtain ⟨h1, h2, h3⟩ := h
      rw [ih r' h3]
      cases s; cases s'; simp_all

theorem flatOf_inj (r r' : String) (a b : List (String × α)) :
    flatOf r a = flatOf r' b ↔ r = r' ∧ a = b := by
  constructor
  · intro h
    simp only [flatOf_eq, List.cons.injEq, Cell.root.injEq] at h
    exact ⟨h.1, flatCells_inj a b h.2⟩
  · rintro ⟨rfl, rfl⟩; rfl

theorem flatCells_take (steps : List (String × α)) (k : Nat) :
    (flatCells steps).take (2 * k) = flatCells (steps.take k) := by
  induction steps generalizing k with
  | nil => simp [flatCells]
  | cons s r ih =>
    cases k with
    | zero => simp [flatCells]
    | succ k =>
      rw [flatCells_cons, show 2 * (k + 1) = (2 * k + 1) + 1 by omega]
      simp only [List.take_succ_cons]
      rw [ih k, flatCells_cons]

theorem pStartswith_flatOf [DecidableEq α] (r r' : String) (a b : List (String × α)) :
    pStartswith (flatOf r a) (flatOf r' b) = (decide (r = r') && b.isPrefixOf a) := by
  simp only [pStartswith, flatOf_eq, List.length_cons, flatCells_length]
  rw [show 2 * b.length + 1 = (2 * b.length) + 1 by omega, List.take_succ_cons, flatCells_take]
  have hiff : (Cell.root r :: flatCells (a.take b.length) = Cell.root r' :: flatCells b) ↔
      (r = r' ∧ b <+: a) := by
    constructor
    · intro h
      simp only [List.cons.injEq, Cell.root.injEq] at h
      refine ⟨h.1, ?_⟩
      have := flatCells_inj _ _ h.2
      rw [List.prefix_iff_eq_take]; exact this.symm
    · rintro ⟨rfl, hp⟩
      rw [List.prefix_iff_eq_take] at hp
      rw [← hp]
  by_cases h : (r = r' ∧ b <+: a)
  · have h' := hiff.mpr h
    rw [decide_eq_true h']
    simp [h.1, List.isPrefixOf_iff_prefix.mpr h.2]
  · have h' : ¬ _ := fun hh => h (hiff.mp hh)
    simp only [h', decide_false]
    by_cases hr : r = r'
    · have : ¬ b <+: a := fun hp => h ⟨hr, hp⟩
      have : b.isPrefixOf a = false := by
        cases hb : b.isPrefixOf a with
        | false => rfl
        | true => exact absurd (List.isPrefixOf_iff_prefix.mp hb) this
      simp [this]
    · simp [hr]

theorem unflat_flatOf (root : String) (steps : List (String × α)) :
    unflat (flatOf root steps) = some (root, steps) := by
  simp only [unflat, flatOf_eq]
  have : ∀ (st : List (String × α)), unflat.go (flatCells st) = some st := by
    intro st
    induction st with
    | nil => rfl
    | cons s r ih => rw [flatCells_cons]; simp [unflat.go, ih]
  rw [this]; rfl

theorem argsOf_map (steps : List (String × α)) :
    argsOf (steps.map (fun s => Cell.arg s.2)) = some (steps.map (·.2)) := by
  induction steps with
  | nil => rfl
  | cons s r ih => simp only [argsOf, List.map_cons, List.foldr_cons] at ih ⊢; rw [ih]

theorem pairsOf_map (steps : List (String × α)) :
    pairsOf (steps.map (fun s => (Cell.op s.1, Cell.arg s.2))) = some steps := by
  induction steps with
  | nil => rfl
  | cons s r ih => simp only [pairsOf, List.map_cons, List.foldr_cons] at ih ⊢; rw [ih]

/-- every sequence operation of `Path`, run on the flat ops tuple, is the same
    operation on the list of steps -/
theorem seqModel_eq_ref [DecidableEq α] (root : String) (steps : List (String × α))
    (op : SeqOp α) : seqModel root steps op = seqRef root steps op := by
  cases op with
  | len => simp [seqModel, seqRef, pLen_flatOf]
  | idx i =>
    simp only [seqModel, seqRef, pGetIdx_flatOf]
    cases pyIndexNat steps.length i with
    | none => rfl
    | some j =>
      simp only
      cases hs : steps[j]? with
      | none => simp [resOfOps]
      | some s => simp only [resOfOps, Option.map_some, unflat_flatOf]
  | slice a b c =>
    simp only [seqModel, seqRef, pGetSlice_flatOf]
    cases pySlice steps a b c with
    | none => rfl
    | some st => simp [resOfOps, unflat_flatOf]
  | values => simp [seqModel, seqRef, pValues_flatOf, argsOf_map]
  | items => simp [seqModel, seqRef, pItems_flatOf, pairsOf_map]
  | eq oroot other =>
    simp only [seqModel, seqRef, pEq, flatOf_inj]
  | startswith oroot other =>
    simp only [seqModel, seqRef, pStartswith_flatOf]
  | concat other =>
    simp only [seqModel, seqRef, concatFlat, flatOf_eq, List.take_succ_cons, List.take_zero,
      if_true, List.drop_succ_cons, List.drop_zero, List.singleton_append]
    have : Cell.root root :: (flatCells steps ++ flatCells other) = flatOf root (steps ++ other) := by
      simp [flatOf_eq, flatCells]
    rw [this]
    simp [resOfOps, unflat_flatOf]
  | fromT =>
    simp only [seqModel, seqRef, flatOf_eq]
    by_cases hr : root = "S"
    · subst hr
      simp only [pFromT, beq_self_eq_true, if_true]
      rw [← flatOf_eq, resOfOps, unflat_flatOf]
    · have : pFromT (Cell.root root :: flatCells steps) = Cell.root root :: flatCells steps := by
        unfold pFromT
        split
        · rename_i h; simp only [List.cons.injEq, Cell.root.injEq] at h; exact absurd h.1 hr
        · rfl
      rw [this, ← flatOf_eq, resOfOps, unflat_flatOf]
      simp [hr]

end seq

/-! ### concatenation and C01's reference walk -/

open Glom Glom.C01 in
/-- walking `a ++ b` is walking `a`, then walking `b` from the value reached, with
    `b`'s segments numbered after `a`'s -/
theorem walk_append (env : TEnv) (h : Heap) :
    ∀ (a b : List (String × Val)) (k : Nat) (t : Val),
      walk env h (a ++ b) k t =
        match walk env h a k t with
        | .ok v => walk env h b (k + a.length) v
        | .fail j e => .fail j e
        | .unsupported => .unsupported := by
  intro a
  induction a with
  | nil => intro b k t; simp [walk]
  | cons s r ih =>
    obtain ⟨op, arg⟩ := s
    intro b k t
    simp only [List.cons_append, walk, List.length_cons]
    cases refAccess env h op t arg with
    | none => rfl
    | some res =>
      cases res with
      | error e => rfl
      | ok v =>
        simp only
        rw [ih b (k + 1) v, show k + 1 + r.length = k + (r.length + 1) by omega]

open Glom Glom.C01 in
theorem wfSteps_append (a b : List (String × Val)) :
    wfSteps (a ++ b) = (wfSteps a && wfSteps b) := by
  induction a with
  | nil => simp [wfSteps]
  | cons s r ih =>
    obtain ⟨op, arg⟩ := s
    simp only [List.cons_append, wfSteps, ih, Bool.and_assoc]

/-- renumber a failure of the second half of a concatenated path -/
def shiftWalk (n : Nat) : Glom.C01.WalkRes → Glom.C01.WalkRes
  | .fail j e => .fail (j + n) e
  | w => w

open Glom Glom.C01 in
theorem walk_shift (env : TEnv) (h : Heap) :
    ∀ (b : List (String × Val)) (k n : Nat) (t : Val),
      walk env h b (k + n) t = shiftWalk n (walk env h b k t) := by
  intro b
  induction b with
  | nil => intro k n t; rfl
  | cons s r ih =>
    obtain ⟨op, arg⟩ := s
    intro k n t
    simp only [walk]
    cases refAccess env h op t arg with
    | none => rfl
    | some res =>
      cases res with
      | error e => rfl
      | ok v =>
        simp only
        rw [show k + n + 1 = (k + 1) + n by omega, ih]

/-! ### splitting and joining token lists -/

section roundtrip
variable {L : Type}

theorem splitOn_noSep (p : Tok L → Bool) (toks : List (Tok L)) (h : ∀ t ∈ toks, p t = false) :
    splitOn p toks = [toks] := by
  induction toks with
  | nil => rfl
  | cons t r ih =>
    simp only [splitOn, h t (by simp), Bool.false_eq_true, if_false]
    rw [ih (fun x hx => h x (by simp [hx]))]

theorem splitOn_append_sep (p : Tok L → Bool) (x : List (Tok L)) (sep : Tok L) (rest : List (Tok L))
    (hx : ∀ t ∈ x, p t = false) (hsep : p sep = true) :
    splitOn p (x ++ sep :: rest) = x :: splitOn p rest := by
  induction x with
  | nil => simp [splitOn, hsep]
  | cons t r ih =>
    simp only [List.cons_append, splitOn, hx t (by simp), Bool.false_eq_true, if_false]
    rw [ih (fun y hy => hx y (by simp [hy]))]

theorem splitOn_joinSep (p : Tok L → Bool) (sep : Tok L) (hsep : p sep = true) :
    ∀ (pieces : List (List (Tok L))), pieces ≠ [] → (∀ x ∈ pieces, ∀ t ∈ x, p t = false) →
      splitOn p (joinSep sep pieces) = pieces := by
  intro pieces
  induction pieces with
  | nil => intro h; exact absurd rfl h
  | cons x r ih =>
    intro _ hp
    cases r with
    | nil => simpa [joinSep] using splitOn_noSep p x (hp x (by simp))
    | cons y r' =>
      simp only [joinSep]
      rw [splitOn_append_sep p x sep _ (hp x (by simp)) hsep,
        ih (by simp) (fun z hz => hp z (by simp [hz]))]

theorem dropTrailingEmpty_of_last_ne {α} (pieces : List (List α))
    (h : ∀ x, pieces.getLast? = some x → x ≠ []) : dropTrailingEmpty pieces = pieces := by
  unfold dropTrailingEmpty
  split
  · rename_i heq; exact absurd rfl (h [] heq)
  · rfl

theorem allSome_map_some {α β} (f : α → Option β) (g : α → β) :
    ∀ (xs : List α), (∀ x ∈ xs, f x = some (g x)) → allSome (xs.map f) = some (xs.map g) := by
  intro xs
  induction xs with
  | nil => intro _; rfl
  | cons x r ih =>
    intro h
    simp only [List.map_cons, h x (by simp), allSome]
    rw [ih (fun y hy => h y (by simp [hy]))]

/-! ### the top level of a formatted argument has no separators -/

/-- not a separator (`,` `:`) and not a `k=` marker -/
def Tok.isPlain : Tok L → Bool
  | .comma | .colon | .kw _ => false
  | _ => true

theorem plain_not_comma {t : Tok L} (h : t.isPlain = true) : t.isComma = false := by
  cases t <;> simp_all [Tok.isPlain, Tok.isComma]

theorem plain_not_colon {t : Tok L} (h : t.isPlain = true) : t.isColon = false := by
  cases t <;> simp_all [Tok.isPlain, Tok.isColon]

theorem fmtStep_plain (F : FmtFacts) (s : Step L) : ∀ t ∈ fmtStep F s, t.isPlain = true := by
  cases s <;> rw [fmtStep] <;> (try split) <;> simp [Tok.isPlain]

theorem assemblePath_plain (aware : Bool) (root : String) (xs : List (Step L × List (Tok L)))
    (h : ∀ x ∈ xs, ∀ t ∈ x.2, t.isPlain = true) :
    ∀ t ∈ assemblePath aware root xs, t.isPlain = true := by
  unfold assemblePath
  split
  · rename_i g hg
    intro t ht
    simp only [List.mem_cons, List.mem_flatMap] at ht
    rcases ht with rfl | ⟨x, hx, htx⟩
    · rfl
    · -- members of a group are members of xs
      have hsub : ∀ (ys : List (Step L × List (Tok L))) (grp : List (Step L × List (Tok L))),
          .inl grp ∈ groupSteps (fun x => x.1.isSeg) ys → ∀ y ∈ grp, y ∈ ys := by
        intro ys
        induction ys with
        | nil => intro grp hm; simp [groupSteps] at hm
        | cons y r ih =>
          intro grp hm z hz
          simp only [groupSteps] at hm
          split at hm
          · simp only [List.mem_cons, reduceCtorEq, false_or] at hm
            exact List.mem_cons_of_mem _ (ih grp hm z hz)
          · split at hm
            · rename_i g' rest heq
              simp only [List.mem_cons, Sum.inl.injEq] at hm
              rcases hm with rfl | hm
              · simp only [List.mem_cons] at hz
                rcases hz with rfl | hz
                · simp
                · exact List.mem_cons_of_mem _ (ih g' (by rw [heq]; simp) z hz)
              · exact List.mem_cons_of_mem _ (ih grp (by rw [heq]; simp [hm]) z hz)
            · simp only [List.mem_cons, Sum.inl.injEq] at hm
              rcases hm with rfl | hm
              · simp only [List.mem_singleton] at hz; subst hz; simp
              · exact List.mem_cons_of_mem _ (ih grp hm z hz)
      exact h x (hsub xs g (by rw [hg]; simp) x hx) t htx
  · intro t ht
    simp only [List.mem_cons, List.mem_nil_iff, or_false] at ht
    rcases ht with rfl | rfl <;> rfl

theorem assembleT_plain (aware : Bool) (root : String) (xs : List (Step L × List (Tok L)))
    (h : ∀ x ∈ xs, ∀ t ∈ x.2, t.isPlain = true) :
    ∀ t ∈ assembleT aware root xs, t.isPlain = true := by
  unfold assembleT
  split
  · exact assemblePath_plain aware root xs h
  · intro t ht
    simp only [List.mem_cons, List.mem_flatMap] at ht
    rcases ht with rfl | ⟨x, hx, htx⟩
    · rfl
    · exact h x hx t htx

theorem fmtArg_plain (F : FmtFacts) (a : Arg L) : ∀ t ∈ fmtArg F a, t.isPlain = true := by
  cases a with
  | lit v => rw [fmtArg]; simp [Tok.isPlain]
  | t root steps =>
    rw [fmtArg]
    apply assembleT_plain
    intro x hx t ht
    simp only [List.mem_map] at hx
    obtain ⟨s, _, rfl⟩ := hx
    exact fmtStep_plain F s t ht

theorem assemblePath_ne_nil (aware : Bool) (root : String) (xs : List (Step L × List (Tok L))) :
    assemblePath aware root xs ≠ [] := by
  unfold assemblePath; split <;> simp

theorem fmtArg_ne_nil (F : FmtFacts) (a : Arg L) : fmtArg F a ≠ [] := by
  cases a with
  | lit v => rw [fmtArg]; simp
  | t root steps =>
    rw [fmtArg]; unfold assembleT
    split
    · exact assemblePath_ne_nil _ _ _
    · simp

/-! ### unfolding the parser -/

theorem isDunder_iff (n : Name) : isDunder n = true ↔ n = dunder ++ n.drop 2 := by
  unfold isDunder
  rw [List.isPrefixOf_iff_prefix]
  constructor
  · intro h
    obtain ⟨t, rfl⟩ := h
    simp [dunder]
  · intro h; rw [h]; exact List.prefix_append _ _

theorem parseSteps_nil : parseSteps ([] : List (Tok L)) = some [] := by rw [parseSteps]

theorem parseSteps_dunder (s : Name) (r : List (Tok L)) :
    parseSteps (.dot dunder :: .par [.str s] :: r) =
      (parseSteps r).map (Step.attr (dunder ++ s) :: ·) := by
  simp only [dunder]; rw [parseSteps]; rfl

theorem parseSteps_star (r : List (Tok L)) :
    parseSteps (.dot starName :: .par [] :: r) = (parseSteps r).map (Step.star :: ·) := by
  simp only [starName]; rw [parseSteps]

theorem parseSteps_starstar (r : List (Tok L)) :
    parseSteps (.dot starstarName :: .par [] :: r) = (parseSteps r).map (Step.starstar :: ·) := by
  simp only [starstarName]; rw [parseSteps]

theorem parseSteps_dot (n : Name) (r : List (Tok L)) (hn : isDunder n = false) :
    parseSteps (.dot n :: r) = (parseSteps r).map (Step.attr n :: ·) := by
  have h1 : n ≠ ['_', '_'] := by intro h; subst h; simp [isDunder, dunder] at hn
  have h2 : n ≠ ['_', '_', 's', 't', 'a', 'r', '_', '_'] := by
    intro h; subst h; simp [isDunder, dunder] at hn
  have h3 : n ≠ ['_', '_', 's', 't', 'a', 'r', 's', 't', 'a', 'r', '_', '_'] := by
    intro h; subst h; simp [isDunder, dunder] at hn
  rw [parseSteps]
  · simp [hn]
  all_goals (intros; simp_all)

theorem parseSteps_br (ch r : List (Tok L)) :
    parseSteps (.br ch :: r) = consOpt (parseIndex ch) (parseSteps r) := by
  rw [parseSteps]

theorem parseSteps_par (ch r : List (Tok L)) :
    parseSteps (.par ch :: r) = consOpt (parseCall ch) (parseSteps r) := by
  rw [parseSteps]

theorem parseArg_lit (v : L) : parseArg [Tok.lit v] = some (.lit v) := by rw [parseArg]

theorem parseArg_root (r : String) (rest : List (Tok L)) :
    parseArg (.root r :: rest) = (parseSteps rest).map (Arg.t r) := by
  rw [parseArg]

theorem parseItem_def (toks : List (Tok L)) : parseItem toks =
    match splitOn Tok.isColon toks with
    | [p] => (parseArg p).map Item.one
    | [a, b] =>
      slice3 (if a.isEmpty then some none else (parseArg a).map some)
             (if b.isEmpty then some none else (parseArg b).map some) (some none)
    | [a, b, c] =>
      slice3 (if a.isEmpty then some none else (parseArg a).map some)
             (if b.isEmpty then some none else (parseArg b).map some)
             (if c.isEmpty then some none else (parseArg c).map some)
    | _ => none := by
  rw [parseItem]
  split <;> simp_all

theorem parseIndex_def (toks : List (Tok L)) : parseIndex toks =
    if isUnitTok toks then some (.items [])
    else match splitOn Tok.isComma toks with
      | [p] => (parseItem p).map Step.item
      | _ => (allSome ((dropTrailingEmpty (splitOn Tok.isComma toks)).map parseItem)).map
          Step.items := by
  rw [parseIndex]
  split
  · rfl
  · split <;> simp_all

theorem parseCall_def (toks : List (Tok L)) : parseCall toks =
    if toks.isEmpty then some (.call [] [])
    else callOf (allSome ((dropTrailingEmpty (splitOn Tok.isComma toks)).map (fun p =>
          (parseArg (stripKw p).2).map (fun a => ((stripKw p).1, a))))) := by
  rw [parseCall]
  rw [List.attach_map_val (l := dropTrailingEmpty (splitOn Tok.isComma toks))
    (f := fun p => (parseArg (stripKw p).2).map (fun a => ((stripKw p).1, a)))]

/-! ### facts about formatted pieces -/

/-- the formatter of the repaired tree: all three switches on -/
def F1 : FmtFacts := ⟨true, true, true, true⟩

def Tok.isHead : Tok L → Bool
  | .lit _ | .root _ | .name _ => true
  | _ => false

theorem fmtArg_head (F : FmtFacts) (a : Arg L) :
    ∃ t rest, fmtArg F a = t :: rest ∧ t.isHead = true := by
  cases a with
  | lit v => exact ⟨.lit v, [], by rw [fmtArg], rfl⟩
  | t root steps =>
    rw [fmtArg]; unfold assembleT
    split
    · unfold assemblePath
      split
      · exact ⟨_, _, rfl, rfl⟩
      · exact ⟨_, _, rfl, rfl⟩
    · exact ⟨_, _, rfl, rfl⟩

theorem stripKw_fmtArg (F : FmtFacts) (a : Arg L) : stripKw (fmtArg F a) = (none, fmtArg F a) := by
  obtain ⟨t, rest, h, ht⟩ := fmtArg_head F a
  rw [h]
  cases t <;> simp_all [stripKw, Tok.isHead]

theorem fmtArg_not_unit (F : FmtFacts) (a : Arg L) (rest : List (Tok L)) :
    isUnitTok (fmtArg F a ++ rest) = false := by
  obtain ⟨t, r, h, ht⟩ := fmtArg_head F a
  rw [h]
  cases t <;> simp_all [isUnitTok, Tok.isHead]

theorem fmtArg_noComma (F : FmtFacts) (a : Arg L) : ∀ t ∈ fmtArg F a, t.isComma = false :=
  fun t ht => plain_not_comma (fmtArg_plain F a t ht)

theorem fmtArg_noColon (F : FmtFacts) (a : Arg L) : ∀ t ∈ fmtArg F a, t.isColon = false :=
  fun t ht => plain_not_colon (fmtArg_plain F a t ht)

def fmtOpt (F : FmtFacts) : Option (Arg L) → List (Tok L)
  | none => []
  | some x => fmtArg F x

theorem fmtItem_slice (F : FmtFacts) (a b c : Option (Arg L)) :
    fmtItem F (.slice a b c) = fmtOpt F a ++ [Tok.colon] ++ fmtOpt F b ++
      (match c with | none => [] | some x => Tok.colon :: fmtArg F x) := by
  cases a <;> cases b <;> cases c <;> simp [fmtItem, fmtOpt]

theorem fmtOpt_noColon (F : FmtFacts) (a : Option (Arg L)) : ∀ t ∈ fmtOpt F a, t.isColon = false := by
  cases a with
  | none => intro t ht; simp [fmtOpt] at ht
  | some x => exact fmtArg_noColon F x

theorem fmtOpt_noComma (F : FmtFacts) (a : Option (Arg L)) : ∀ t ∈ fmtOpt F a, t.isComma = false := by
  cases a with
  | none => intro t ht; simp [fmtOpt] at ht
  | some x => exact fmtArg_noComma F x

theorem fmtItem_noComma (F : FmtFacts) (i : Item L) : ∀ t ∈ fmtItem F i, t.isComma = false := by
  cases i with
  | one a => rw [fmtItem]; exact fmtArg_noComma F a
  | slice a b c =>
    rw [fmtItem_slice]
    intro t ht
    simp only [List.mem_append, List.mem_singleton] at ht
    rcases ht with ((ht | rfl) | ht) | ht
    · exact fmtOpt_noComma F a t ht
    · rfl
    · exact fmtOpt_noComma F b t ht
    · cases c with
      | none => simp at ht
      | some x =>
        simp only [List.mem_cons] at ht
        rcases ht with rfl | ht
        · rfl
        · exact fmtArg_noComma F x t ht

theorem fmtItem_ne_nil (F : FmtFacts) (i : Item L) : fmtItem F i ≠ [] := by
  cases i with
  | one a => rw [fmtItem]; exact fmtArg_ne_nil F a
  | slice a b c => rw [fmtItem_slice]; simp

theorem fmtItem_not_unit (F : FmtFacts) (i : Item L) (rest : List (Tok L)) :
    isUnitTok (fmtItem F i ++ rest) = false := by
  cases i with
  | one a => rw [fmtItem]; exact fmtArg_not_unit F a rest
  | slice a b c =>
    rw [fmtItem_slice]
    cases a with
    | none => simp [fmtOpt, isUnitTok]
    | some x =>
      simp only [fmtOpt, List.append_assoc]
      exact fmtArg_not_unit F x _

theorem assembleT_noseg (F : FmtFacts) (root : String) (steps : List (Step L))
    (h : ∀ s ∈ steps, s.isSeg = false) :
    assembleT F.pathRootAware root (steps.map (fun s => (s, fmtStep F s))) =
      .root root :: steps.flatMap (fmtStep F) := by
  unfold assembleT
  have : (steps.map (fun s => (s, fmtStep F s))).any (fun x => x.1.isSeg) = false := by
    simp only [List.any_map, List.any_eq_false]
    intro s hs; simp [h s hs]
  simp only [this, Bool.false_eq_true, if_false, List.flatMap_map]

theorem parseSteps_flatMap (F : FmtFacts) (steps : List (Step L))
    (h : ∀ s ∈ steps, ∀ rest, parseSteps (fmtStep F s ++ rest) =
      (parseSteps rest).map (normStep s :: ·)) :
    parseSteps (steps.flatMap (fmtStep F)) = some (steps.map normStep) := by
  induction steps with
  | nil => simp [parseSteps_nil]
  | cons s r ih =>
    simp only [List.flatMap_cons, List.map_cons]
    rw [h s (by simp), ih (fun x hx => h x (by simp [hx]))]
    rfl

theorem all_id_map {α} (f : α → Bool) (xs : List α) :
    (xs.map f).all id = true ↔ ∀ x ∈ xs, f x = true := by
  simp [List.all_eq_true]


/-! ### indexes with a tuple, and calls -/

theorem joinSep_cons_cons (sep : Tok L) (p q : List (Tok L)) (r : List (List (Tok L))) :
    joinSep sep (p :: q :: r) = p ++ sep :: joinSep sep (q :: r) := rfl

theorem getLast?_map_ne_nil {α} (f : α → List (Tok L)) (xs : List α) (hf : ∀ x ∈ xs, f x ≠ []) :
    ∀ y, (xs.map f).getLast? = some y → y ≠ [] := by
  intro y hy
  have := List.mem_of_getLast? hy
  simp only [List.mem_map] at this
  obtain ⟨x, hx, rfl⟩ := this
  exact hf x hx

/-- the token list of a tuple index -/
def itemsToks (is : List (Item L)) : List (Tok L) :=
  joinSep .comma (is.map (fun i => fmtItem F1 i)) ++ (if is.length == 1 then [Tok.comma] else [])

theorem parseIndex_items (is : List (Item L)) (hne : is ≠ [])
    (hi : ∀ i ∈ is, parseItem (fmtItem F1 i) = some (normItem i)) :
    parseIndex (itemsToks is) = some (.items (is.map normItem)) := by
  rw [parseIndex_def]
  match is, hne, hi with
  | [i], _, hi =>
    simp only [itemsToks, List.map_cons, List.map_nil, joinSep, List.length_singleton, beq_self_eq_true,
      if_true]
    rw [fmtItem_not_unit F1 i [Tok.comma]]
    simp only [Bool.false_eq_true, if_false]
    rw [splitOn_append_sep _ _ _ _ (fmtItem_noComma F1 i) rfl]
    simp only [splitOn, dropTrailingEmpty, List.getLast?, List.getLast, List.dropLast, List.map_cons,
      List.map_nil, hi i (by simp), allSome, Option.map_some]
  | i :: j :: r, _, hi =>
    have hlen : ((i :: j :: r).length == 1) = false := by simp
    simp only [itemsToks, hlen, Bool.false_eq_true, if_false, List.append_nil]
    have hu : isUnitTok (joinSep Tok.comma ((i :: j :: r).map (fun i => fmtItem F1 i))) = false := by
      simp only [List.map_cons, joinSep_cons_cons]
      exact fmtItem_not_unit F1 i _
    rw [hu]
    simp only [Bool.false_eq_true, if_false]
    rw [splitOn_joinSep _ _ rfl _ (by simp) (by
      intro x hx; simp only [List.mem_map] at hx; obtain ⟨y, _, rfl⟩ := hx
      exact fmtItem_noComma F1 y)]
    rw [dropTrailingEmpty_of_last_ne _ (getLast?_map_ne_nil _ _ (fun x _ => fmtItem_ne_nil F1 x))]
    have h := allSome_map_some (fun x => parseItem (fmtItem F1 x)) normItem (i :: j :: r)
      (fun x hx => hi x hx)
    simp only [List.map_cons, List.map_map, Function.comp_def] at h ⊢
    rw [h]; rfl

theorem sortKw_map_snd {α β : Type} (f : α → β) (l : List (String × α)) :
    sortKw (l.map (fun p => (p.1, f p.2))) = (sortKw l).map (fun p => (p.1, f p.2)) := by
  unfold sortKw
  exact (List.map_mergeSort (r := fun a b => decide (a.1 ≤ b.1))
    (s := fun a b => decide (a.1 ≤ b.1)) (f := fun (p : String × α) => (p.1, f p.2)) (l := l)
    (fun a _ b _ => rfl)).symm

theorem sortKw_nodup {α} (l : List (String × α)) (h : (l.map (fun p => p.1)).Nodup) :
    ((sortKw l).map (fun p => p.1)).Nodup :=
  ((List.mergeSort_perm l _).map _).nodup_iff.mpr h

theorem takeWhile_none_append (pos : List (Arg L)) (kws : List (String × Arg L)) :
    ((pos.map (fun a => ((none : Option String), a))) ++ kws.map (fun p => (some p.1, p.2))).takeWhile
      (fun p => p.1.isNone) = pos.map (fun a => (none, a)) := by
  induction pos with
  | nil => cases kws <;> simp
  | cons a r ih => simp [ih]

theorem dropWhile_none_append (pos : List (Arg L)) (kws : List (String × Arg L)) :
    ((pos.map (fun a => ((none : Option String), a))) ++ kws.map (fun p => (some p.1, p.2))).dropWhile
      (fun p => p.1.isNone) = kws.map (fun p => (some p.1, p.2)) := by
  induction pos with
  | nil => cases kws <;> simp
  | cons a r ih => simp [ih]

theorem splitCallArgs_mk (pos : List (Arg L)) (kws : List (String × Arg L))
    (hnd : (kws.map (fun p => p.1)).Nodup) :
    splitCallArgs ((pos.map (fun a => ((none : Option String), a))) ++
      kws.map (fun p => (some p.1, p.2))) = some (pos, kws) := by
  unfold splitCallArgs
  simp only [takeWhile_none_append, dropWhile_none_append]
  have hall : (kws.map (fun p => ((some p.1 : Option String), p.2))).all (fun p => p.1.isSome) = true := by
    simp [List.all_eq_true]
  have hfm : ∀ (l : List (String × Arg L)),
      (l.map (fun p => ((some p.1 : Option String), p.2))).filterMap
        (fun p => p.1.map (fun k => (k, p.2))) = l := by
    intro l
    induction l with
    | nil => rfl
    | cons k r ih => simp only [List.map_cons, List.filterMap_cons, Option.map_some, ih]
  simp only [hall, if_true, hfm, hnd, List.map_map]
  simp [Function.comp_def]

/-- the token list inside the parentheses of a call -/
def callToks (args : List (Arg L)) (kwargs : List (String × Arg L)) : List (Tok L) :=
  joinSep .comma ((args.map (fun a => fmtArg F1 a)) ++
    (sortKw (kwargs.map (fun p => (p.1, fmtArg F1 p.2)))).map (fun p => Tok.kw p.1 :: p.2))

theorem joinSep_ne_nil (sep : Tok L) (pieces : List (List (Tok L))) (hne : pieces ≠ [])
    (hp : ∀ x ∈ pieces, x ≠ []) : joinSep sep pieces ≠ [] := by
  match pieces, hne, hp with
  | [p], _, hp => simpa [joinSep] using hp p (by simp)
  | p :: q :: r, _, hp =>
    rw [joinSep_cons_cons]
    have := hp p (by simp)
    cases p with
    | nil => exact absurd rfl this
    | cons t ts => simp

theorem parseCall_fmt (args : List (Arg L)) (kwargs : List (String × Arg L))
    (ha : ∀ a ∈ args, parseArg (fmtArg F1 a) = some (normArg a))
    (hk : ∀ p ∈ kwargs, parseArg (fmtArg F1 p.2) = some (normArg p.2))
    (hnd : (kwargs.map (fun p => p.1)).Nodup) :
    parseCall (callToks args kwargs) =
      some (.call (args.map normArg) (sortKw (kwargs.map (fun p => (p.1, normArg p.2))))) := by
  rw [parseCall_def]
  unfold callToks
  rw [sortKw_map_snd, sortKw_map_snd, List.map_map]
  generalize hpieces : (args.map (fun a => fmtArg F1 a)) ++
    (sortKw kwargs).map ((fun p => Tok.kw p.1 :: p.2) ∘ fun p => (p.1, fmtArg F1 p.2)) = pieces
  by_cases hemp : args = [] ∧ kwargs = []
  · obtain ⟨rfl, rfl⟩ := hemp
    simp only [List.map_nil, sortKw, List.mergeSort_nil, List.append_nil] at hpieces ⊢
    subst hpieces
    simp [joinSep]
  · have hpne : pieces ≠ [] := by
      subst hpieces
      intro h
      simp only [List.append_eq_nil_iff, List.map_eq_nil_iff] at h
      apply hemp
      refine ⟨h.1, ?_⟩
      have hperm := List.mergeSort_perm kwargs (fun a b => decide (a.1 ≤ b.1))
      have : sortKw kwargs = [] := h.2
      unfold sortKw at this
      rw [this] at hperm
      exact List.Perm.nil_eq hperm |>.symm
    have hpieces_ne : ∀ x ∈ pieces, x ≠ [] := by
      subst hpieces
      intro x hx
      simp only [List.mem_append, List.mem_map, Function.comp] at hx
      rcases hx with ⟨a, _, rfl⟩ | ⟨p, _, rfl⟩
      · exact fmtArg_ne_nil F1 a
      · simp
    have hpieces_nc : ∀ x ∈ pieces, ∀ t ∈ x, Tok.isComma t = false := by
      subst hpieces
      intro x hx
      simp only [List.mem_append, List.mem_map, Function.comp] at hx
      rcases hx with ⟨a, _, rfl⟩ | ⟨p, _, rfl⟩
      · exact fmtArg_noComma F1 a
      · intro t ht
        simp only [List.mem_cons] at ht
        rcases ht with rfl | ht
        · rfl
        · exact fmtArg_noComma F1 p.2 t ht
    have hjne : (joinSep Tok.comma pieces).isEmpty = false := by
      simp only [List.isEmpty_eq_false_iff]
      exact joinSep_ne_nil _ pieces hpne hpieces_ne
    simp only [hjne, Bool.false_eq_true, if_false]
    rw [splitOn_joinSep _ _ rfl pieces hpne hpieces_nc,
      dropTrailingEmpty_of_last_ne pieces (fun y hy => hpieces_ne y (List.mem_of_getLast? hy))]
    subst hpieces
    have hmem : ∀ p ∈ sortKw kwargs, p ∈ kwargs := fun p hp => by
      unfold sortKw at hp; exact List.mem_mergeSort.mp hp
    have hres : allSome (List.map (fun p => Option.map (fun a => ((stripKw p).fst, a))
        (parseArg (stripKw p).snd))
        (List.map (fun a => fmtArg F1 a) args ++
          List.map ((fun p => Tok.kw p.fst :: p.snd) ∘ fun p => (p.fst, fmtArg F1 p.snd))
            (sortKw kwargs))) =
        some ((args.map normArg).map (fun a => ((none : Option String), a)) ++
          ((sortKw kwargs).map (fun p => (p.1, normArg p.2))).map (fun p => (some p.1, p.2))) := by
      rw [List.map_append, List.map_map, List.map_map]
      have h1 : List.map ((fun p => Option.map (fun a => ((stripKw p).fst, a))
          (parseArg (stripKw p).snd)) ∘ fun a => fmtArg F1 a) args =
          args.map (fun a => some ((none : Option String), normArg a)) := by
        apply List.map_congr_left
        intro a haa
        simp only [Function.comp, stripKw_fmtArg, ha a haa, Option.map_some]
      have h2 : List.map ((fun p => Option.map (fun a => ((stripKw p).fst, a))
          (parseArg (stripKw p).snd)) ∘
            ((fun p => Tok.kw p.fst :: p.snd) ∘ fun p => (p.fst, fmtArg F1 p.snd))) (sortKw kwargs) =
          (sortKw kwargs).map (fun p => some ((some p.1 : Option String), normArg p.2)) := by
        apply List.map_congr_left
        intro p hp
        simp only [Function.comp, stripKw, hk p (hmem p hp), Option.map_some]
      rw [h1, h2]
      have : (args.map (fun a => some ((none : Option String), normArg a)) ++
          (sortKw kwargs).map (fun p => some ((some p.1 : Option String), normArg p.2))) =
          ((args.map normArg).map (fun a => ((none : Option String), a)) ++
            ((sortKw kwargs).map (fun p => (p.1, normArg p.2))).map
              (fun p => ((some p.1 : Option String), p.2))).map some := by
        simp [List.map_map, Function.comp_def]
      rw [this]
      exact (allSome_map_some some id _ (fun _ _ => rfl)).trans (by simp)
    rw [hres]
    simp only [callOf]
    rw [splitCallArgs_mk _ _ (by
      have := sortKw_nodup kwargs hnd
      simpa [List.map_map, Function.comp_def] using this)]
    rfl

theorem consOpt_some {α} (x : α) (r : Option (List α)) : consOpt (some x) r = r.map (x :: ·) := by
  cases r <;> rfl

theorem validArg_t (root : String) (steps : List (Step L)) :
    validArg (.t root steps) = true ↔ ∀ s ∈ steps, s.isSeg = false ∧ validStep s = true := by
  rw [validArg, all_id_map]
  simp

theorem getLast?_mem {α} {l : List α} {x : α} (h : l.getLast? = some x) : x ∈ l :=
  List.mem_of_getLast? h

theorem normItem_slice (a b c : Option (Arg L)) :
    normItem (.slice a b c) =
      .slice (a.map normArg) (b.map normArg) (c.map normArg) := by
  cases a <;> cases b <;> cases c <;> simp [normItem]

/-- the optional parts of a slice -/
theorem parseOpt_fmt (a : Option (Arg L))
    (ih : ∀ x, a = some x → parseArg (fmtArg F1 x) = some (normArg x)) :
    (if (fmtOpt F1 a).isEmpty then some none else (parseArg (fmtOpt F1 a)).map some) =
      some (a.map normArg) := by
  cases a with
  | none => simp [fmtOpt]
  | some x =>
    have hne : (fmtArg F1 x).isEmpty = false := by
      simp only [List.isEmpty_eq_false_iff]; exact fmtArg_ne_nil F1 x
    simp only [fmtOpt, hne, Bool.false_eq_true, if_false, ih x rfl, Option.map_some]

mutual
  theorem parseArg_fmt : ∀ (a : Arg L), validArg a = true →
      parseArg (fmtArg F1 a) = some (normArg a)
    | .lit v, _ => by rw [fmtArg, parseArg_lit, normArg]
    | .t root steps, hv => by
      rw [validArg_t] at hv
      rw [fmtArg, assembleT_noseg F1 root steps (fun s hs => (hv s hs).1), parseArg_root,
        parseSteps_flatMap F1 steps (fun s hs rest =>
          parseStep_fmt s (hv s hs).2 (hv s hs).1 rest), normArg]
      rfl
  termination_by a => sizeOf a
  decreasing_by all_goals c18_dec

  theorem parseItem_fmt : ∀ (i : Item L), validItem i = true →
      parseItem (fmtItem F1 i) = some (normItem i)
    | .one a, hv => by
      unfold validItem at hv
      rw [fmtItem, parseItem_def, splitOn_noSep _ _ (fmtArg_noColon F1 a)]
      simp only [parseArg_fmt a hv, Option.map_some, normItem]
    | .slice a b none, hv => by
      unfold validItem at hv
      simp only [Bool.and_eq_true] at hv
      have ha := parseOpt_fmt a (fun x hx => parseArg_fmt x (by subst hx; exact hv.1.1))
      have hb := parseOpt_fmt b (fun x hx => parseArg_fmt x (by subst hx; exact hv.1.2))
      rw [fmtItem_slice, parseItem_def, normItem_slice]
      simp only [List.append_nil, List.append_assoc, List.singleton_append]
      rw [splitOn_append_sep _ _ _ _ (fmtOpt_noColon F1 a) rfl,
        splitOn_noSep _ _ (fmtOpt_noColon F1 b)]
      simp only [ha, hb, slice3, Option.map_none]
    | .slice a b (some x), hv => by
      unfold validItem at hv
      simp only [Bool.and_eq_true] at hv
      have ha := parseOpt_fmt a (fun y hy => parseArg_fmt y (by subst hy; exact hv.1.1))
      have hb := parseOpt_fmt b (fun y hy => parseArg_fmt y (by subst hy; exact hv.1.2))
      have hne : (fmtArg F1 x).isEmpty = false := by
        simp only [List.isEmpty_eq_false_iff]; exact fmtArg_ne_nil F1 x
      have hc := parseArg_fmt x hv.2
      rw [fmtItem_slice, parseItem_def, normItem_slice]
      simp only [List.append_assoc, List.cons_append, List.nil_append]
      rw [splitOn_append_sep _ _ _ _ (fmtOpt_noColon F1 a) rfl,
        splitOn_append_sep _ _ _ _ (fmtOpt_noColon F1 b) rfl,
        splitOn_noSep _ _ (fmtArg_noColon F1 x)]
      simp only [ha, hb, hc, hne, slice3, Bool.false_eq_true, if_false, Option.map_some]
  termination_by i => sizeOf i
  decreasing_by
    all_goals simp_wf
    all_goals (try subst_vars)
    all_goals (first | omega | (simp <;> omega))

  theorem parseStep_fmt : ∀ (s : Step L), validStep s = true → s.isSeg = false →
      ∀ (rest : List (Tok L)),
      parseSteps (fmtStep F1 s ++ rest) = (parseSteps rest).map (normStep s :: ·)
    | .seg v, _, hs, _ => by simp [Step.isSeg] at hs
    | .star, _, _, rest => by rw [fmtStep, normStep]; exact parseSteps_star rest
    | .starstar, _, _, rest => by rw [fmtStep, normStep]; exact parseSteps_starstar rest
    | .attr n, _, _, rest => by
      rw [fmtStep, normStep]
      by_cases hd : isDunder n = true
      · simp only [F1, hd, Bool.and_self, if_true, List.cons_append, List.nil_append]
        rw [parseSteps_dunder, ← (isDunder_iff n).mp hd]
      · have hd' : isDunder n = false := by simpa using hd
        simp only [hd', Bool.and_false, Bool.false_eq_true, if_false, List.cons_append,
          List.nil_append]
        exact parseSteps_dot n rest hd'
    | .item i, hv, _, rest => by
      unfold validStep at hv
      rw [fmtStep, normStep]
      simp only [List.cons_append, List.nil_append]
      rw [parseSteps_br, parseIndex_def]
      have hu := fmtItem_not_unit F1 i []
      simp only [List.append_nil] at hu
      simp only [hu, Bool.false_eq_true, if_false]
      rw [splitOn_noSep _ _ (fmtItem_noComma F1 i)]
      simp only [parseItem_fmt i hv, Option.map_some, consOpt_some]
    | .items is, hv, _, rest => by
      unfold validStep at hv
      rw [all_id_map] at hv
      have hi : ∀ i ∈ is, parseItem (fmtItem F1 i) = some (normItem i) :=
        fun i hi => parseItem_fmt i (hv i hi)
      rw [fmtStep, normStep]
      by_cases hemp : is = []
      · subst hemp
        simp only [F1, List.isEmpty_nil, Bool.and_self, if_true, List.cons_append, List.nil_append,
          List.map_nil]
        rw [parseSteps_br, parseIndex_def]
        simp only [isUnitTok, if_true, consOpt_some]
      · have hne : (is.isEmpty && F1.tupleEmptyParen) = false := by
          cases is with
          | nil => exact absurd rfl hemp
          | cons _ _ => rfl
        simp only [hne, Bool.false_eq_true, if_false, List.cons_append, List.nil_append]
        rw [parseSteps_br]
        have := parseIndex_items is hemp hi
        simp only [itemsToks] at this
        have hsc : F1.singletonComma = true := rfl
        simp only [hsc, Bool.and_true]
        rw [this, consOpt_some]
    | .call args kwargs, hv, _, rest => by
      unfold validStep at hv
      simp only [Bool.and_eq_true, all_id_map, decide_eq_true_eq] at hv
      have ha : ∀ a ∈ args, parseArg (fmtArg F1 a) = some (normArg a) :=
        fun a haa => parseArg_fmt a (hv.1.1 a haa)
      have hk : ∀ p ∈ kwargs, parseArg (fmtArg F1 p.2) = some (normArg p.2) :=
        fun p hp => parseArg_fmt p.2 (hv.1.2 p hp)
      rw [fmtStep, normStep]
      simp only [List.cons_append, List.nil_append]
      rw [parseSteps_par]
      have := parseCall_fmt args kwargs ha hk hv.2
      simp only [callToks] at this
      rw [this, consOpt_some]
  termination_by s => sizeOf s
  decreasing_by all_goals c18_dec
end

/-! ### whole objects -/

theorem validT_iff (steps : List (Step L)) :
    validT steps = true ↔ ∀ s ∈ steps, s.isSeg = false ∧ validStep s = true := by
  simp [validT, List.all_eq_true]

theorem parseSteps_fmt (steps : List (Step L)) (hv : validT steps = true) :
    parseSteps (steps.flatMap (fmtStep F1)) = some (normSteps steps) := by
  rw [validT_iff] at hv
  exact parseSteps_flatMap F1 steps (fun s hs rest => parseStep_fmt s (hv s hs).2 (hv s hs).1 rest)

/-- `eval(repr(t))` of a T expression gives back its root and (normalised) steps -/
theorem parseObj_fmtT (root : String) (steps : List (Step L)) (hv : validT steps = true) :
    parseObj (fmtT F1 root steps) = some (.tobj root (normSteps steps)) := by
  have hns : ∀ s ∈ steps, s.isSeg = false := fun s hs => ((validT_iff steps).mp hv s hs).1
  unfold fmtT fmtSteps
  rw [assembleT_noseg F1 root steps hns]
  rw [parseObj, parseSteps_fmt steps hv]
  rfl

/-! ### Paths: grouping into parts and `Path.__init__` -/

/-- a group of steps, each step paired with `f` of it -/
def liftG {α β} (f : α → β) : List α ⊕ α → List β ⊕ β
  | .inl l => .inl (l.map f)
  | .inr x => .inr (f x)

theorem groupSteps_map {α β} (p : α → Bool) (f : α → β) (q : β → Bool) (hq : ∀ a, q (f a) = p a) :
    ∀ (xs : List α), groupSteps q (xs.map f) = (groupSteps p xs).map (liftG f) := by
  intro xs
  induction xs with
  | nil => rfl
  | cons x r ih =>
    simp only [List.map_cons, groupSteps, hq]
    split
    · simp [ih, liftG]
    · rw [ih]
      cases groupSteps p r with
      | nil => rfl
      | cons g rest => cases g <;> rfl

/-- the steps a group stands for -/
def unGroup {α} : List α ⊕ α → List α
  | .inl g => g
  | .inr x => [x]

theorem groupSteps_flatten {α} (p : α → Bool) :
    ∀ (xs : List α), (groupSteps p xs).flatMap unGroup = xs := by
  intro xs
  induction xs with
  | nil => rfl
  | cons x r ih =>
    simp only [groupSteps]
    split
    · simp [unGroup, ih]
    · revert ih
      cases groupSteps p r with
      | nil => intro ih; simp [unGroup] at ih ⊢; exact ih
      | cons g rest =>
        cases g with
        | inl l => intro ih; simp [unGroup] at ih ⊢; exact ih
        | inr y => intro ih; simp [unGroup] at ih ⊢; exact ih

theorem groupSteps_spec {α} (p : α → Bool) :
    ∀ (xs : List α), ∀ g ∈ groupSteps p xs,
      match g with
      | .inl l => l ≠ [] ∧ ∀ x ∈ l, p x = false
      | .inr x => p x = true := by
  intro xs
  induction xs with
  | nil => intro g hg; simp [groupSteps] at hg
  | cons x r ih =>
    intro g hg
    simp only [groupSteps] at hg
    split at hg
    · rename_i hp
      simp only [List.mem_cons] at hg
      rcases hg with rfl | hg
      · exact hp
      · exact ih g hg
    · rename_i hp
      have hp' : p x = false := by simpa using hp
      split at hg
      · rename_i l rest heq
        simp only [List.mem_cons] at hg
        rcases hg with rfl | hg
        · have := ih (.inl l) (by rw [heq]; simp)
          simp only at this
          refine ⟨by simp, ?_⟩
          intro y hy
          simp only [List.mem_cons] at hy
          rcases hy with rfl | hy
          · exact hp'
          · exact this.2 y hy
        · exact ih g (by rw [heq]; simp [hg])
      · simp only [List.mem_cons] at hg
        rcases hg with rfl | hg
        · exact ⟨by simp, by intro y hy; simp at hy; subst hy; exact hp'⟩
        · exact ih g hg

theorem tChild_ok (r : String) (steps : List (Step L)) (st : Step L)
    (h : r = "A" → st.okOnA = true) : tChild r steps st = some (steps ++ [st]) := by
  cases st <;> simp [tChild]
  all_goals (intro hr; have := h hr; simp [Step.okOnA] at this)

theorem foldlM_tChild (r : String) (s : List (Step L)) :
    (r = "A" → ∀ st ∈ s, st.okOnA = true) →
    ∀ (acc : List (Step L)), s.foldlM (fun steps st => tChild r steps st) acc = some (acc ++ s) := by
  induction s with
  | nil => intro _ acc; simp
  | cons st rest ih =>
    intro h acc
    rw [List.foldlM_cons, tChild_ok r acc st (fun hr => h hr st (by simp))]
    simp only [Option.bind_eq_bind, Option.bind_some]
    rw [ih (fun hr x hx => h hr x (by simp [hx]))]; simp

/-- the steps a parsed part contributes -/
def partSteps : Part L → List (Step L)
  | .plain v => [.seg v]
  | .texpr _ s => s
  | .path _ s => s

def partOk : Part L → Bool
  | .plain _ => true
  | .texpr r _ => r == "T"
  | .path r _ => r == "T"

theorem pathStep_ok (r : String) (acc : List (Step L)) (part : Part L) (hp : partOk part = true)
    (hA : r = "A" → ∀ st ∈ partSteps part, st.okOnA = true) :
    pathStep (r, acc) part = some (r, acc ++ partSteps part) := by
  cases part with
  | plain v =>
    simp only [pathStep, partSteps]
    rw [tChild_ok r acc (.seg v) (fun _ => rfl)]; rfl
  | texpr rt s =>
    simp only [partOk, beq_iff_eq] at hp; subst hp
    simp only [partSteps] at hA
    simp [pathStep, foldlM_tChild r s hA, partSteps]
  | path rt s =>
    simp only [partOk, beq_iff_eq] at hp; subst hp
    simp only [partSteps] at hA
    simp [pathStep, foldlM_tChild r s hA, partSteps]

theorem pathInit_fold (r : String) (parts : List (Part L)) :
    (∀ x ∈ parts, partOk x = true) →
    (r = "A" → ∀ st ∈ parts.flatMap partSteps, st.okOnA = true) →
    ∀ (acc : List (Step L)),
    parts.foldlM pathStep (r, acc) = some (r, acc ++ parts.flatMap partSteps) := by
  induction parts with
  | nil => intro _ _ acc; simp
  | cons x rest ih =>
    intro hp hA acc
    rw [List.foldlM_cons, pathStep_ok r acc x (hp x (by simp))
      (fun hr st hst => hA hr st (by simp [hst]))]
    simp only [Option.bind_eq_bind, Option.bind_some]
    rw [ih (fun y hy => hp y (by simp [hy])) (fun hr st hst => hA hr st (by
      simp only [List.flatMap_cons, List.mem_append]; exact Or.inr hst))]
    simp

/-- `Path(t, *others)` whose first part is a T expression with any root: its root, its steps,
    then the steps of the other parts (which must be rooted at T) -/
theorem pathInit_rooted (r : String) (s : List (Step L)) (others : List (Part L))
    (hp : ∀ x ∈ others, partOk x = true)
    (hA : r = "A" → ∀ st ∈ others.flatMap partSteps, st.okOnA = true) :
    pathInit (.texpr r s :: others) = some (r, s ++ others.flatMap partSteps) := by
  simp only [pathInit]
  exact pathInit_fold r others hp hA s

/-- `Path(p, *others)` whose first part is a Path with any root -/
theorem pathInit_rooted_path (r : String) (s : List (Step L)) (others : List (Part L))
    (hp : ∀ x ∈ others, partOk x = true)
    (hA : r = "A" → ∀ st ∈ others.flatMap partSteps, st.okOnA = true) :
    pathInit (.path r s :: others) = some (r, s ++ others.flatMap partSteps) := by
  simp only [pathInit]
  exact pathInit_fold r others hp hA s

/-- `Path(*parts)` for parts rooted at T: the steps of the parts, in order -/
theorem pathInit_ok (parts : List (Part L)) (hp : ∀ x ∈ parts, partOk x = true) :
    pathInit parts = some ("T", parts.flatMap partSteps) := by
  have hA : ("T" : String) = "A" → ∀ st ∈ parts.flatMap partSteps, Step.okOnA st = true := by
    intro h; exact absurd h (by decide)
  cases parts with
  | nil => rfl
  | cons first others =>
    cases first with
    | texpr r s =>
      have := hp (.texpr r s) (by simp)
      simp only [partOk, beq_iff_eq] at this
      subst this
      rw [pathInit_rooted "T" s others (fun y hy => hp y (by simp [hy]))
        (fun h => absurd h (by decide))]
      simp [partSteps]
    | plain v =>
      simp only [pathInit]
      have := pathInit_fold "T" (.plain v :: others) hp hA []
      simpa using this
    | path r s =>
      have := hp (.path r s) (by simp)
      simp only [partOk, beq_iff_eq] at this
      subst this
      simp only [pathInit]
      rw [pathInit_fold "T" others (fun y hy => hp y (by simp [hy]))
        (fun h => absurd h (by decide)) s]
      simp [partSteps]

/-- the text of one part of `Path(…)` -/
def pieceToks (F : FmtFacts) (root : String) : List (Step L) ⊕ Step L → List (Tok L)
  | .inl g => .root root :: g.flatMap (fmtStep F)
  | .inr s => fmtStep F s

/-- the texts of all parts: only the first can carry a root other than T -/
def pieceList (F : FmtFacts) (root : String) : List (List (Step L) ⊕ Step L) → List (List (Tok L))
  | [] => []
  | g :: rest => pieceToks F root g :: rest.map (pieceToks F "T")

theorem groupToks_liftG (F : FmtFacts) (root : String) (g : List (Step L) ⊕ Step L) :
    groupToks root (liftG (fun s => (s, fmtStep F s)) g) = pieceToks F root g := by
  cases g <;> simp [groupToks, liftG, pieceToks, List.flatMap_map]

theorem withRootPart_map {α β} (f : α → β) (r : String) (gs : List (List α ⊕ α)) :
    withRootPart r (gs.map (liftG f)) = (withRootPart r gs).map (liftG f) := by
  unfold withRootPart
  split
  · cases gs with
    | nil => rfl
    | cons g rest => cases g <;> rfl
  · rfl

theorem partToks_liftG (F : FmtFacts) (root : String) (gs : List (List (Step L) ⊕ Step L)) :
    partToks root (gs.map (liftG (fun s => (s, fmtStep F s)))) = pieceList F root gs := by
  cases gs with
  | nil => rfl
  | cons g rest =>
    simp only [List.map_cons, partToks, pieceList, groupToks_liftG, List.map_map]
    congr 1
    apply List.map_congr_left
    intro x _
    exact groupToks_liftG F "T" x

theorem assemblePath_eq (F : FmtFacts) (root : String) (steps : List (Step L)) :
    assemblePath F.pathRootAware root (fmtSteps F steps) =
      match groupSteps Step.isSeg steps with
      | [.inl g] => .root (effRoot F.pathRootAware root) :: g.flatMap (fmtStep F)
      | gs => [.name "Path", .par (joinSep .comma (pieceList F (effRoot F.pathRootAware root)
          (withRootPart (effRoot F.pathRootAware root) gs)))] := by
  unfold assemblePath fmtSteps
  rw [groupSteps_map Step.isSeg (fun s => (s, fmtStep F s)) (fun x => x.1.isSeg) (fun _ => rfl)]
  have hmm := fun gs => (withRootPart_map (fun (s : Step L) => (s, fmtStep F s))
    (effRoot F.pathRootAware root) gs).trans rfl
  match h : groupSteps Step.isSeg steps with
  | [] => simp only [List.map_nil]; rw [← List.map_nil (f := liftG _), hmm, partToks_liftG]
  | [.inl g] => simp [liftG, List.flatMap_map]
  | [.inr x] =>
    have := hmm [.inr x]
    simp only [List.map_cons, List.map_nil, liftG] at this ⊢
    rw [this, partToks_liftG]
  | a :: b :: r =>
    have := hmm (a :: b :: r)
    cases a <;> (simp only [List.map_cons, liftG] at this ⊢; rw [this, partToks_liftG])

theorem validP_iff (steps : List (Step L)) :
    validP steps = true ↔ ∀ s ∈ steps, validStep s = true := by
  simp [validP, List.all_eq_true]

theorem mem_group_mem {α} (p : α → Bool) (xs : List α) (g : List α ⊕ α)
    (hg : g ∈ groupSteps p xs) : ∀ x ∈ unGroup g, x ∈ xs := by
  intro x hx
  rw [← groupSteps_flatten p xs]
  simp only [List.mem_flatMap]
  exact ⟨g, hg, hx⟩

theorem pieceToks_plain (root : String) (g : List (Step L) ⊕ Step L) :
    ∀ t ∈ pieceToks F1 root g, t.isPlain = true := by
  cases g with
  | inl l =>
    intro t ht
    simp only [pieceToks, List.mem_cons, List.mem_flatMap] at ht
    rcases ht with rfl | ⟨s, _, hts⟩
    · rfl
    · exact fmtStep_plain F1 s t hts
  | inr s => exact fmtStep_plain F1 s

theorem fmtStep_ne_nil (F : FmtFacts) (s : Step L) : fmtStep F s ≠ [] := by
  cases s <;> rw [fmtStep] <;> (try split) <;> simp

theorem pieceToks_ne_nil (root : String) (g : List (Step L) ⊕ Step L) :
    pieceToks F1 root g ≠ [] := by
  cases g with
  | inl l => simp [pieceToks]
  | inr s => exact fmtStep_ne_nil F1 s

/-- the part a group is read back as -/
def partOfGroup (root : String) : List (Step L) ⊕ Step L → Part L
  | .inl g => .texpr root (normSteps g)
  | .inr (.seg v) => .plain v
  | .inr s => .texpr "T" [normStep s]      -- not produced by `groupSteps Step.isSeg`

theorem partOfGroup_ok (g : List (Step L) ⊕ Step L) : partOk (partOfGroup "T" g) = true := by
  cases g with
  | inl l => rfl
  | inr s => cases s <;> rfl

theorem partOfGroup_steps (root : String) (g : List (Step L) ⊕ Step L) :
    partSteps (partOfGroup root g) = normSteps (unGroup g) := by
  cases g with
  | inl l => rfl
  | inr s => cases s <;> simp [partOfGroup, partSteps, unGroup, normSteps, normStep]

/-- the text `Path(part, …)` for at least one part is read back part by part -/
theorem parseObj_path (r : String) (g0 : List (Step L) ⊕ Step L)
    (rest : List (List (Step L) ⊕ Step L))
    (hp0 : parsePart (pieceToks F1 r g0) = some (partOfGroup r g0))
    (hp : ∀ g ∈ rest, parsePart (pieceToks F1 "T" g) = some (partOfGroup "T" g))
    (r' : String) (st : List (Step L))
    (hinit : pathInit (partOfGroup r g0 :: rest.map (partOfGroup "T")) = some (r', st)) :
    parseObj [.name "Path", .par (joinSep .comma (pieceList F1 r (g0 :: rest)))] =
      some (.pobj r' st) := by
  have hpne : pieceList F1 r (g0 :: rest) ≠ [] := by simp [pieceList]
  have hmem : ∀ x ∈ pieceList F1 r (g0 :: rest), ∃ rt g, x = pieceToks F1 rt g := by
    intro x hx
    simp only [pieceList, List.mem_cons, List.mem_map] at hx
    rcases hx with rfl | ⟨g, _, rfl⟩
    · exact ⟨r, g0, rfl⟩
    · exact ⟨"T", g, rfl⟩
  have hpieces_ne : ∀ x ∈ pieceList F1 r (g0 :: rest), x ≠ [] := by
    intro x hx; obtain ⟨rt, g, rfl⟩ := hmem x hx; exact pieceToks_ne_nil rt g
  have hpieces_nc : ∀ x ∈ pieceList F1 r (g0 :: rest), ∀ t ∈ x, Tok.isComma t = false := by
    intro x hx t ht; obtain ⟨rt, g, rfl⟩ := hmem x hx
    exact plain_not_comma (pieceToks_plain rt g t ht)
  have hjne : (joinSep Tok.comma (pieceList F1 r (g0 :: rest))).isEmpty = false := by
    simp only [List.isEmpty_eq_false_iff]
    exact joinSep_ne_nil _ _ hpne hpieces_ne
  rw [parseObj]
  simp only [hjne, Bool.false_eq_true, if_false]
  rw [splitOn_joinSep _ _ rfl _ hpne hpieces_nc,
    dropTrailingEmpty_of_last_ne _ (fun y hy => hpieces_ne y (List.mem_of_getLast? hy))]
  simp only [pieceList, List.map_cons, hp0, allSome, List.map_map]
  rw [allSome_map_some (parsePart ∘ pieceToks F1 "T") (partOfGroup "T") rest hp]
  simp only [objOfParts, hinit, Option.map_some]

theorem normStep_okOnA (s : Step L) : (normStep s).okOnA = s.okOnA := by
  cases s <;> rw [normStep] <;> rfl

/-- `Path.__init__` on the parts that were printed: the root and the steps come back -/
theorem pathInit_groups (root : String) (g0 : List (Step L) ⊕ Step L)
    (rest : List (List (Step L) ⊕ Step L))
    (hfirst : root ≠ "T" → ∃ l, g0 = .inl l)
    (hA : root = "A" → ∀ g ∈ rest, ∀ s ∈ unGroup g, s.okOnA = true) :
    pathInit (partOfGroup root g0 :: rest.map (partOfGroup "T")) =
      some (root, (g0 :: rest).flatMap (fun g => normSteps (unGroup g))) := by
  have hrest_ok : ∀ x ∈ rest.map (partOfGroup "T"), partOk x = true := by
    intro x hx; simp only [List.mem_map] at hx; obtain ⟨g, _, rfl⟩ := hx; exact partOfGroup_ok g
  have hrest_steps : (rest.map (partOfGroup "T")).flatMap partSteps =
      rest.flatMap (fun g => normSteps (unGroup g)) := by
    simp only [List.flatMap_map, partOfGroup_steps]
  cases g0 with
  | inl l =>
    simp only [partOfGroup]
    rw [pathInit_rooted root (normSteps l) _ hrest_ok (by
      intro hr st hst
      rw [hrest_steps] at hst
      simp only [List.mem_flatMap, normSteps, List.mem_map] at hst
      obtain ⟨g, hg, s, hs, rfl⟩ := hst
      rw [normStep_okOnA]; exact hA hr g hg s hs), hrest_steps]
    simp [unGroup]
  | inr s =>
    have hroot : root = "T" := by
      apply Classical.byContradiction
      intro hne
      obtain ⟨l, hl⟩ := hfirst hne
      cases hl
    subst hroot
    rw [pathInit_ok _ (by
      intro x hx
      simp only [List.mem_cons] at hx
      rcases hx with rfl | hx
      · exact partOfGroup_ok _
      · exact hrest_ok x hx)]
    simp only [List.flatMap_cons, partOfGroup_steps, hrest_steps]

/-- `eval(repr(p))` of a Path with any root gives back the root and the (normalised)
    steps of `p`: as a T expression when the path is one run of non-segment steps (reading 6
    of DESIGN.md), else as a Path -/
theorem parseObj_fmtPath (root : String) (steps : List (Step L)) (hv : validP steps = true)
    (hA : aOk root steps = true) :
    (parseObj (fmtPath F1 root steps) = some (.tobj root (normSteps steps)) ∧
      steps ≠ [] ∧ ∀ s ∈ steps, s.isSeg = false) ∨
    parseObj (fmtPath F1 root steps) = some (.pobj root (normSteps steps)) := by
  rw [validP_iff] at hv
  have hAll : root = "A" → ∀ s ∈ steps, s.okOnA = true := by
    intro hr
    simp only [aOk, hr, bne_self_eq_false, Bool.false_or, List.all_eq_true] at hA
    exact hA
  unfold fmtPath
  rw [assemblePath_eq]
  have heff : effRoot F1.pathRootAware root = root := rfl
  rw [heff]
  have hflat := groupSteps_flatten Step.isSeg steps
  have hspec := groupSteps_spec Step.isSeg steps
  have hmem := mem_group_mem Step.isSeg steps
  generalize groupSteps Step.isSeg steps = gs at hflat hspec hmem
  have hsteps : normSteps steps = gs.flatMap (fun g => normSteps (unGroup g)) := by
    rw [← hflat]; simp [normSteps, List.map_flatMap]
  -- what every group is read back as, whichever root it is printed with
  have hpiece : ∀ (r : String), ∀ g ∈ gs, parsePart (pieceToks F1 r g) = some (partOfGroup r g) := by
    intro r g hg
    cases g with
    | inl l =>
      have hsp := hspec _ hg
      simp only at hsp
      have hvl : validT l = true := by
        rw [validT_iff]
        intro s hs
        exact ⟨hsp.2 s hs, hv s (hmem _ hg s (by simpa [unGroup] using hs))⟩
      simp only [pieceToks, parsePart, parseSteps_fmt l hvl, Option.map_some, partOfGroup]
    | inr s =>
      have hsp := hspec _ hg
      simp only at hsp
      cases s with
      | seg v => simp only [pieceToks, partOfGroup]; rw [fmtStep]; rfl
      | _ => simp [Step.isSeg] at hsp
  have hempty : ∀ (r : String),
      parsePart (pieceToks F1 r (.inl ([] : List (Step L)))) = some (partOfGroup r (.inl [])) := by
    intro r
    simp [pieceToks, parsePart, parseSteps_nil, partOfGroup, normSteps]
  -- the general `Path(…)` case, for a non-empty list of parts
  have hgen : ∀ (g0 : List (Step L) ⊕ Step L) (rest : List (List (Step L) ⊕ Step L)),
      (g0 ∈ gs ∨ g0 = .inl []) → (∀ g ∈ rest, g ∈ gs) →
      (root ≠ "T" → ∃ l, g0 = .inl l) →
      (g0 :: rest).flatMap (fun g => normSteps (unGroup g)) = normSteps steps →
      parseObj [.name "Path", .par (joinSep .comma (pieceList F1 root (g0 :: rest)))] =
        some (.pobj root (normSteps steps)) := by
    intro g0 rest h0 hr hfirst hst
    apply parseObj_path root g0 rest
    · rcases h0 with h0 | rfl
      · exact hpiece root g0 h0
      · exact hempty root
    · intro g hg; exact hpiece "T" g (hr g hg)
    · rw [pathInit_groups root g0 rest hfirst (fun hroot g hg s hs =>
        hAll hroot s (hmem g (hr g hg) s hs)), hst]
  match gs, hflat, hspec, hmem, hpiece, hsteps, hgen with
  | [.inl g], hflat, hspec, _, hpiece, hsteps, _ =>
    left
    have hparse := hpiece root (.inl g) (by simp)
    simp only [pieceToks, parsePart, partOfGroup] at hparse
    have hsp := hspec (.inl g) (by simp)
    simp only at hsp
    simp only [List.flatMap_cons, List.flatMap_nil, List.append_nil, unGroup] at hflat
    subst hflat
    refine ⟨?_, hsp.1, hsp.2⟩
    simp only
    rw [parseObj]
    cases hps : parseSteps (g.flatMap (fmtStep F1)) with
    | none => rw [hps] at hparse; simp at hparse
    | some st =>
      rw [hps] at hparse
      simp only [Option.map_some, Option.some.injEq, Part.texpr.injEq, true_and] at hparse
      rw [hparse]; rfl
  | [], _, _, _, _, hsteps, hgen =>
    right
    by_cases hroot : root = "T"
    · subst hroot
      rw [hsteps]
      simp [withRootPart, pieceList, joinSep, parseObj]
    · have hw : withRootPart root ([] : List (List (Step L) ⊕ Step L)) = [.inl []] := by
        simp [withRootPart, hroot]
      simp only [hw]
      exact hgen (.inl []) [] (Or.inr rfl) (by simp) (fun _ => ⟨[], rfl⟩)
        (by rw [hsteps]; simp [unGroup, normSteps])
  | [.inr x], _, _, _, _, hsteps, hgen =>
    right
    by_cases hroot : root = "T"
    · have hw : withRootPart root [(.inr x : List (Step L) ⊕ Step L)] = [.inr x] := by
        simp [withRootPart, hroot]
      simp only [hw]
      exact hgen (.inr x) [] (Or.inl (by simp)) (by simp) (fun h => absurd hroot h) hsteps.symm
    · have hw : withRootPart root [(.inr x : List (Step L) ⊕ Step L)] = [.inl [], .inr x] := by
        simp [withRootPart, hroot]
      simp only [hw]
      exact hgen (.inl []) [.inr x] (Or.inr rfl) (by simp) (fun _ => ⟨[], rfl⟩)
        (by rw [hsteps]; simp [unGroup, normSteps])
  | a :: b :: r, _, _, _, _, hsteps, hgen =>
    right
    cases a with
    | inl l =>
      have hw : withRootPart root ((.inl l : List (Step L) ⊕ Step L) :: b :: r) = .inl l :: b :: r := by
        simp only [withRootPart]; split <;> rfl
      simp only [hw]
      exact hgen (.inl l) (b :: r) (Or.inl (by simp)) (fun g hg => by simp [hg])
        (fun _ => ⟨l, rfl⟩) hsteps.symm
    | inr x =>
      by_cases hroot : root = "T"
      · have hw : withRootPart root ((.inr x : List (Step L) ⊕ Step L) :: b :: r) = .inr x :: b :: r := by
          simp [withRootPart, hroot]
        simp only [hw]
        exact hgen (.inr x) (b :: r) (Or.inl (by simp)) (fun g hg => by simp [hg])
          (fun h => absurd hroot h) hsteps.symm
      · have hw : withRootPart root ((.inr x : List (Step L) ⊕ Step L) :: b :: r) =
            .inl [] :: .inr x :: b :: r := by
          simp [withRootPart, hroot]
        simp only [hw]
        exact hgen (.inl []) (.inr x :: b :: r) (Or.inr rfl) (fun g hg => by simpa using hg)
          (fun _ => ⟨[], rfl⟩) (by rw [hsteps]; simp [unGroup, normSteps])

/-! ### the reconstructed object has the same repr -/

theorem normStep_isSeg (s : Step L) : (normStep s).isSeg = s.isSeg := by
  cases s <;> rw [normStep] <;> rfl

theorem groupToks_liftG_congr (root : String) (h : Step L × List (Tok L) → Step L × List (Tok L))
    (htok : ∀ x, (h x).2 = x.2) (g : List (Step L × List (Tok L)) ⊕ (Step L × List (Tok L))) :
    groupToks root (liftG h g) = groupToks root g := by
  cases g with
  | inl l => simp [groupToks, liftG, List.flatMap_map, htok]
  | inr x => simp [groupToks, liftG, htok]

theorem partToks_liftG_congr (root : String) (h : Step L × List (Tok L) → Step L × List (Tok L))
    (htok : ∀ x, (h x).2 = x.2)
    (gs : List (List (Step L × List (Tok L)) ⊕ (Step L × List (Tok L)))) :
    partToks root (gs.map (liftG h)) = partToks root gs := by
  cases gs with
  | nil => rfl
  | cons g rest =>
    simp only [List.map_cons, partToks, groupToks_liftG_congr root h htok, List.map_map]
    congr 1
    apply List.map_congr_left
    intro x _
    exact groupToks_liftG_congr "T" h htok x

theorem assemblePath_congr (aware : Bool) (root : String)
    (h : Step L × List (Tok L) → Step L × List (Tok L))
    (hseg : ∀ x, (h x).1.isSeg = x.1.isSeg) (htok : ∀ x, (h x).2 = x.2)
    (xs : List (Step L × List (Tok L))) :
    assemblePath aware root (xs.map h) = assemblePath aware root xs := by
  unfold assemblePath
  rw [groupSteps_map (fun x => x.1.isSeg) h (fun x => x.1.isSeg) hseg]
  have hmm : ∀ (gs : List (List (Step L × List (Tok L)) ⊕ (Step L × List (Tok L)))),
      partToks (effRoot aware root) (withRootPart (effRoot aware root) (gs.map (liftG h))) =
        partToks (effRoot aware root) (withRootPart (effRoot aware root) gs) := by
    intro gs
    rw [withRootPart_map, partToks_liftG_congr _ h htok]
  generalize groupSteps (fun x => x.1.isSeg) xs = gs
  match gs with
  | [] => have := hmm []; simp only [List.map_nil] at this ⊢
  | [.inl g] => simp [liftG, List.flatMap_map, htok]
  | [.inr x] => have := hmm [.inr x]; simp only [List.map_cons, List.map_nil, liftG] at this ⊢; rw [this]
  | a :: b :: r =>
    have := hmm (a :: b :: r)
    cases a <;> (simp only [List.map_cons, liftG] at this ⊢; rw [this])

theorem assembleT_congr (aware : Bool) (root : String)
    (h : Step L × List (Tok L) → Step L × List (Tok L))
    (hseg : ∀ x, (h x).1.isSeg = x.1.isSeg) (htok : ∀ x, (h x).2 = x.2)
    (xs : List (Step L × List (Tok L))) :
    assembleT aware root (xs.map h) = assembleT aware root xs := by
  unfold assembleT
  rw [assemblePath_congr aware root h hseg htok]
  simp only [List.any_map, Function.comp_def, hseg, List.flatMap_map, htok]

theorem sortKw_idem {α : Type} (l : List (String × α)) : sortKw (sortKw l) = sortKw l := by
  unfold sortKw
  apply List.mergeSort_of_pairwise
  apply List.pairwise_mergeSort
  · intro a b c hab hbc
    simp only [decide_eq_true_eq] at *
    exact String.le_trans hab hbc
  · intro a b
    simp only [Bool.or_eq_true, decide_eq_true_eq]
    exact String.le_total a.1 b.1

theorem fmtOpt_norm (F : FmtFacts) (a : Option (Arg L))
    (h : ∀ x, a = some x → fmtArg F (normArg x) = fmtArg F x) :
    fmtOpt F (a.map normArg) = fmtOpt F a := by
  cases a with
  | none => rfl
  | some x => simp only [Option.map_some, fmtOpt, h x rfl]

mutual
  theorem fmtArg_norm (F : FmtFacts) : ∀ (a : Arg L), fmtArg F (normArg a) = fmtArg F a
    | .lit v => by rw [normArg]
    | .t root steps => by
      have hs : ∀ s ∈ steps, fmtStep F (normStep s) = fmtStep F s := fun s _ => fmtStep_norm F s
      rw [normArg, fmtArg, fmtArg, List.map_map]
      have : steps.map ((fun s => (s, fmtStep F s)) ∘ fun s => normStep s) =
          (steps.map (fun s => (s, fmtStep F s))).map
            (fun (x : Step L × List (Tok L)) => (normStep x.1, x.2)) := by
        rw [List.map_map]
        apply List.map_congr_left
        intro s hs'
        simp only [Function.comp, hs s hs']
      rw [this]
      exact assembleT_congr _ root (fun (x : Step L × List (Tok L)) => (normStep x.1, x.2))
        (fun x => normStep_isSeg x.1) (fun _ => rfl) _
  termination_by a => sizeOf a
  decreasing_by all_goals c18_dec

  theorem fmtItem_norm (F : FmtFacts) : ∀ (i : Item L), fmtItem F (normItem i) = fmtItem F i
    | .one a => by rw [normItem, fmtItem, fmtItem, fmtArg_norm F a]
    | .slice a b c => by
      have ha := fmtOpt_norm F a (fun x _ => fmtArg_norm F x)
      have hb := fmtOpt_norm F b (fun x _ => fmtArg_norm F x)
      have hc : ∀ x, c = some x → fmtArg F (normArg x) = fmtArg F x := fun x _ => fmtArg_norm F x
      rw [normItem_slice, fmtItem_slice, fmtItem_slice, ha, hb]
      cases c with
      | none => rfl
      | some x => simp only [Option.map_some, hc x rfl]
  termination_by i => sizeOf i
  decreasing_by
    all_goals simp_wf
    all_goals (try subst_vars)
    all_goals (first | omega | (simp <;> omega))

  theorem fmtStep_norm (F : FmtFacts) : ∀ (s : Step L), fmtStep F (normStep s) = fmtStep F s
    | .attr n => by rw [normStep]
    | .seg v => by rw [normStep]
    | .star => by rw [normStep]
    | .starstar => by rw [normStep]
    | .item i => by rw [normStep, fmtStep, fmtStep, fmtItem_norm F i]
    | .items is => by
      have hi : ∀ i ∈ is, fmtItem F (normItem i) = fmtItem F i := fun i _ => fmtItem_norm F i
      rw [normStep, fmtStep, fmtStep, List.map_map]
      have : is.map ((fun i => fmtItem F i) ∘ fun i => normItem i) = is.map (fun i => fmtItem F i) :=
        List.map_congr_left (fun i hii => hi i hii)
      rw [this]
      simp only [List.isEmpty_map, List.length_map]
    | .call args kwargs => by
      have ha : ∀ a ∈ args, fmtArg F (normArg a) = fmtArg F a := fun a _ => fmtArg_norm F a
      have hk : ∀ p ∈ kwargs, fmtArg F (normArg p.2) = fmtArg F p.2 := fun p _ => fmtArg_norm F p.2
      rw [normStep, fmtStep, fmtStep, List.map_map]
      have h1 : args.map ((fun a => fmtArg F a) ∘ fun a => normArg a) = args.map (fun a => fmtArg F a) :=
        List.map_congr_left (fun a haa => ha a haa)
      have h2 : sortKw ((sortKw (kwargs.map (fun p => (p.1, normArg p.2)))).map
          (fun p => (p.1, fmtArg F p.2))) = sortKw (kwargs.map (fun p => (p.1, fmtArg F p.2))) := by
        rw [← sortKw_map_snd, sortKw_idem, List.map_map]
        congr 1
        apply List.map_congr_left
        intro p hp
        simp only [Function.comp, hk p hp]
      rw [h1, h2]
  termination_by s => sizeOf s
  decreasing_by all_goals c18_dec
end

theorem fmtSteps_norm (F : FmtFacts) (steps : List (Step L)) :
    fmtSteps F (normSteps steps) =
      (fmtSteps F steps).map (fun (x : Step L × List (Tok L)) => (normStep x.1, x.2)) := by
  simp only [fmtSteps, normSteps, List.map_map]
  apply List.map_congr_left
  intro s _
  simp only [Function.comp, fmtStep_norm F s]

theorem fmtT_norm (F : FmtFacts) (root : String) (steps : List (Step L)) :
    fmtT F root (normSteps steps) = fmtT F root steps := by
  unfold fmtT
  rw [fmtSteps_norm]
  exact assembleT_congr _ root (fun (x : Step L × List (Tok L)) => (normStep x.1, x.2))
    (fun x => normStep_isSeg x.1) (fun _ => rfl) _

theorem fmtPath_norm (F : FmtFacts) (root : String) (steps : List (Step L)) :
    fmtPath F root (normSteps steps) = fmtPath F root steps := by
  unfold fmtPath
  rw [fmtSteps_norm]
  exact assemblePath_congr _ root (fun (x : Step L × List (Tok L)) => (normStep x.1, x.2))
    (fun x => normStep_isSeg x.1) (fun _ => rfl) _

/-- a Path without plain segments prints like the T expression with the same steps -/
theorem fmtPath_noseg (F : FmtFacts) (root : String) (steps : List (Step L)) (hne : steps ≠ [])
    (hns : ∀ s ∈ steps, s.isSeg = false) :
    fmtPath F root steps = fmtT F (effRoot F.pathRootAware root) steps := by
  have hgen : ∀ (r : List (Step L)) (s : Step L), (∀ x ∈ s :: r, x.isSeg = false) →
      groupSteps Step.isSeg (s :: r) = [.inl (s :: r)] := by
    intro r
    induction r with
    | nil => intro s h; simp [groupSteps, h s (by simp)]
    | cons s' r' ih =>
      intro s h
      have := ih s' (fun x hx => h x (by simp [hx]))
      simp only [groupSteps, h s (by simp), Bool.false_eq_true, if_false] at this ⊢
      rw [this]
  have hg : groupSteps Step.isSeg steps = [.inl steps] := by
    cases steps with
    | nil => exact absurd rfl hne
    | cons s r => exact hgen r s hns
  unfold fmtPath fmtT
  rw [assemblePath_eq, hg]
  simp only
  unfold fmtSteps
  rw [assembleT_noseg F _ steps hns]

/-- … and the object read back prints as the original did -/
theorem parseObj_fmtPath_repr (root : String) (steps : List (Step L)) (hv : validP steps = true)
    (hA : aOk root steps = true) :
    ∃ y, parseObj (fmtPath F1 root steps) = some y ∧ y.root = root ∧ y.steps = normSteps steps ∧
      reprObj F1 y = fmtPath F1 root steps := by
  rcases parseObj_fmtPath root steps hv hA with ⟨hy, hne, hns⟩ | hy
  · refine ⟨_, hy, rfl, rfl, ?_⟩
    simp only [reprObj, fmtT_norm]
    exact (fmtPath_noseg F1 root steps hne hns).symm
  · refine ⟨_, hy, rfl, rfl, ?_⟩
    simp only [reprObj, fmtPath_norm]

end roundtrip

/-! ### facts -/

theorem wf_fmt {F : Facts} (h : WF F = true) : F.fmt = F1 := by
  simp only [WF, Bool.and_eq_true] at h
  obtain ⟨⟨⟨⟨⟨⟨⟨⟨h1, h2⟩, h3⟩, h4⟩, _⟩, _⟩, _⟩, _⟩, _⟩ := h
  cases hf : F.fmt with
  | mk a b c d =>
    rw [hf] at h1 h2 h3 h4; simp only at h1 h2 h3 h4; subst h1; subst h2; subst h3; subst h4; rfl

theorem pickle_roundtrip {L : Type} (F : Facts) (hwf : WF F = true) (root : String)
    (hr : root ∈ ["T", "S", "A"]) (steps : List (Step L)) :
    (getstate F.getstateRoots root steps).bind (setstate F.setstateRoots) = some (root, steps) := by
  simp only [WF, Bool.and_eq_true, List.all_eq_true] at hwf
  have := hwf.1.1.1.1.2 root hr
  obtain ⟨h1, h2⟩ := this
  simp only [List.contains_eq_mem, decide_eq_true_eq] at h1 h2
  simp [getstate, setstate, h1, h2]

theorem pickleObj_valid {L : Type} (F : Facts) (hwf : WF F = true) (x : Obj L)
    (hv : validObj x = true) : pickleObj F x = some x := by
  cases x with
  | tobj r s =>
    simp only [validObj, Bool.and_eq_true, List.contains_eq_mem, decide_eq_true_eq] at hv
    simp only [pickleObj, pickle_roundtrip F hwf r hv.1 s, Option.map_some]
  | pobj r s =>
    simp only [validObj, Bool.and_eq_true, List.contains_eq_mem, decide_eq_true_eq] at hv
    simp only [pickleObj, pickle_roundtrip F hwf r hv.1.1 s, Option.map_some]


end Glom.C18
