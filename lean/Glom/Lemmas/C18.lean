import Glom.Spec.C18
import Glom.Lemmas.C01
/-
  Helper lemmas for C18: Python slice semantics (`pySlice`), the sequence
  operations on the flat ops tuple, `walk_append` for C01's reference walk, and
  the `eval(repr)` round trip (split / join of token lists, mutual induction
  over arguments, items and steps).
-/
namespace Glom.C18

/-! ### `pySlice` -/

theorem pySlice_map {α β} (f : α → β) (xs : List α) (a b c : Option Int) :
    pySlice (xs.map f) a b c = (pySlice xs a b c).map (List.map f) := by
  unfold pySlice
  simp only [List.length_map]
  split
  · rfl
  · simp only [Option.map_some, Option.some.injEq, List.map_filterMap]
    congr 1
    funext i
    simp [List.getElem?_map]

theorem clampBound_range (n step b : Int) (hn : 0 ≤ n) :
    (0 < step → 0 ≤ clampBound n step b ∧ clampBound n step b ≤ n) ∧
    (step < 0 → -1 ≤ clampBound n step b ∧ clampBound n step b ≤ n - 1) := by
  unfold clampBound
  constructor <;> intro hs <;> split <;> (try split) <;> (try split) <;> omega

theorem sliceStart_range (n step : Int) (s : Option Int) (hn : 0 ≤ n) :
    (0 < step → 0 ≤ sliceStart n step s ∧ sliceStart n step s ≤ n) ∧
    (step < 0 → -1 ≤ sliceStart n step s ∧ sliceStart n step s ≤ n - 1) := by
  cases s with
  | none => simp only [sliceStart]; constructor <;> intro hs <;> (try split) <;> omega
  | some b => exact clampBound_range n step b hn

theorem sliceStop_range (n step : Int) (s : Option Int) (hn : 0 ≤ n) :
    (0 < step → 0 ≤ sliceStop n step s ∧ sliceStop n step s ≤ n) ∧
    (step < 0 → -1 ≤ sliceStop n step s ∧ sliceStop n step s ≤ n - 1) := by
  cases s with
  | none => simp only [sliceStop]; constructor <;> intro hs <;> (try split) <;> omega
  | some b => exact clampBound_range n step b hn

/-- every position a slice selects exists: `0 ≤ start + j·step < n` for `j < len` -/
theorem sliceIdx_lt (n : Nat) (a b : Option Int) (step : Int) (hstep : step ≠ 0) :
    ∀ i ∈ sliceIdx n a b step, i < n := by
  intro i hi
  simp only [sliceIdx, List.mem_map, List.mem_range] at hi
  obtain ⟨j, hj, rfl⟩ := hi
  have hs := sliceStart_range n step a (by omega)
  have he := sliceStop_range n step b (by omega)
  generalize sliceStart (↑n) step a = s at *
  generalize sliceStop (↑n) step b = e at *
  unfold sliceLen at hj
  by_cases hpos : 0 < step
  · have hneg : ¬ step < 0 := by omega
    simp only [hneg, if_false] at hj
    split at hj
    · rename_i hlt
      have hq : (j : Int) ≤ (e - s - 1) / step := by omega
      have := (Int.le_ediv_iff_mul_le hpos).mp hq
      obtain ⟨h1, h2⟩ := hs.1 hpos
      obtain ⟨h3, h4⟩ := he.1 hpos
      have hj0 : (0 : Int) ≤ (j : Int) * step := Int.mul_nonneg (by omega) (by omega)
      omega
    · omega
  · have hneg : step < 0 := by omega
    simp only [hneg, if_true] at hj
    split at hj
    · rename_i hlt
      have hq : (j : Int) ≤ (s - e - 1) / (-step) := by omega
      have := (Int.le_ediv_iff_mul_le (by omega : 0 < -step)).mp hq
      obtain ⟨h1, h2⟩ := hs.2 hneg
      obtain ⟨h3, h4⟩ := he.2 hneg
      have hj0 : (0 : Int) ≤ (j : Int) * (-step) := Int.mul_nonneg (by omega) (by omega)
      have hmul : (j : Int) * (-step) = -((j : Int) * step) := by rw [Int.mul_neg]
      omega
    · omega

theorem filterMap_get_length {α} (xs : List α) (l : List Nat) (hl : ∀ i ∈ l, i < xs.length) :
    (l.filterMap (fun i => xs[i]?)).length = l.length := by
  induction l with
  | nil => rfl
  | cons i r ih =>
    have hi := hl i (by simp)
    simp only [List.filterMap_cons, List.getElem?_eq_getElem hi, List.length_cons]
    rw [ih (fun k hk => hl k (by simp [hk]))]

/-- the length of a slice is the number of selected positions (none is dropped) -/
theorem pySlice_length {α} (xs : List α) (a b c : Option Int) (ys : List α)
    (h : pySlice xs a b c = some ys) :
    ys.length = sliceLen (sliceStart xs.length (c.getD 1) a) (sliceStop xs.length (c.getD 1) b)
      (c.getD 1) := by
  simp only [pySlice] at h
  split at h
  · cases h
  · rename_i hst
    simp only [Option.some.injEq] at h
    subst h
    rw [filterMap_get_length xs _ (sliceIdx_lt xs.length a b (c.getD 1) hst)]
    simp [sliceIdx]

theorem filterMap_range_get {α} (xs : List α) :
    ∀ (n : Nat), n ≤ xs.length → List.filterMap (fun i => xs[i]?) (List.range n) = xs.take n := by
  intro n
  induction n with
  | zero => intro _; simp
  | succ k ih =>
    intro hk
    rw [List.range_succ, List.filterMap_append, ih (by omega)]
    simp only [List.filterMap_cons, List.filterMap_nil]
    rw [List.getElem?_eq_getElem (show k < xs.length by omega)]
    rw [List.take_add_one, List.getElem?_eq_getElem (show k < xs.length by omega)]
    rfl

/-- `xs[:]` is `xs` -/
theorem pySlice_full {α} (xs : List α) : pySlice xs none none none = some xs := by
  unfold pySlice
  simp only [Option.getD_none, show (1 : Int) ≠ 0 by decide, if_false, Option.some.injEq]
  have hidx : sliceIdx xs.length none none 1 = List.range xs.length := by
    simp only [sliceIdx, sliceStart, sliceStop, sliceLen]
    have h1 : ¬ ((1 : Int) < 0) := by decide
    simp only [h1, if_false]
    by_cases hn : (0 : Int) < xs.length
    · simp only [hn, if_true, Int.sub_zero, Int.ediv_one, Int.mul_one, Int.zero_add]
      rw [show ((xs.length : Int) - 1 + 1).toNat = xs.length by omega]
      apply List.ext_getElem
      · simp
      · intro i h1 h2; simp
    · have : xs.length = 0 := by omega
      simp [this]
  rw [hidx, filterMap_range_get xs xs.length (Nat.le_refl _), List.take_length]

/-! ### the sequence operations on the flat tuple -/

section seq
variable {α : Type}

def flatCells (steps : List (String × α)) : List (Cell α) :=
  steps.flatMap (fun s => [Cell.op s.1, Cell.arg s.2])

theorem flatOf_eq (root : String) (steps : List (String × α)) :
    flatOf root steps = .root root :: flatCells steps := rfl

theorem flatCells_cons (s : String × α) (r : List (String × α)) :
    flatCells (s :: r) = .op s.1 :: .arg s.2 :: flatCells r := by
  simp [flatCells, List.flatMap_cons]

theorem flatCells_length (steps : List (String × α)) : (flatCells steps).length = 2 * steps.length := by
  induction steps with
  | nil => rfl
  | cons s r ih => rw [flatCells_cons]; simp [ih]; omega

theorem everyOther_flatCells (steps : List (String × α)) :
    everyOther (flatCells steps) = steps.map (fun s => Cell.op s.1) := by
  induction steps with
  | nil => rfl
  | cons s r ih => rw [flatCells_cons]; simp [everyOther, ih]

theorem everyOther_drop1_flatCells (steps : List (String × α)) :
    everyOther ((flatCells steps).drop 1) = steps.map (fun s => Cell.arg s.2) := by
  induction steps with
  | nil => rfl
  | cons s r ih =>
    rw [flatCells_cons]
    simp only [List.drop_succ_cons, List.drop_zero, List.map_cons]
    cases r with
    | nil => rfl
    | cons s' r' =>
      rw [flatCells_cons] at ih ⊢
      simp only [List.drop_succ_cons, List.drop_zero] at ih
      simp only [everyOther, ih]

theorem pLen_flatOf (root : String) (steps : List (String × α)) :
    pLen (flatOf root steps) = steps.length := by
  simp [pLen, flatOf_eq, flatCells_length]

theorem pValues_flatOf (root : String) (steps : List (String × α)) :
    pValues (flatOf root steps) = steps.map (fun s => Cell.arg s.2) := by
  simp only [pValues, flatOf_eq]
  rw [show (Cell.root root :: flatCells steps).drop 2 = (flatCells steps).drop 1 by simp]
  exact everyOther_drop1_flatCells steps

theorem pItems_flatOf (root : String) (steps : List (String × α)) :
    pItems (flatOf root steps) = steps.map (fun s => (Cell.op s.1, Cell.arg s.2)) := by
  simp only [pItems, flatOf_eq]
  rw [show (Cell.root root :: flatCells steps).drop 2 = (flatCells steps).drop 1 by simp,
    show (Cell.root root :: flatCells steps).drop 1 = flatCells steps by simp,
    everyOther_flatCells, everyOther_drop1_flatCells]
  induction steps with
  | nil => rfl
  | cons s r ih => simp [ih]

theorem rebuild_flatOf (root : String) (steps st : List (String × α)) :
    rebuild (flatOf root steps) (st.map (fun s => (Cell.op s.1, Cell.arg s.2))) = flatOf root st := by
  simp [rebuild, flatOf_eq, flatCells, List.flatMap_map]

theorem pGetSlice_flatOf (root : String) (steps : List (String × α)) (a b c : Option Int) :
    pGetSlice (flatOf root steps) a b c = (pySlice steps a b c).map (flatOf root) := by
  simp only [pGetSlice, pItems_flatOf, pySlice_map, Option.map_map]
  cases pySlice steps a b c with
  | none => rfl
  | some st => simp [rebuild_flatOf]

theorem pGetIdx_flatOf (root : String) (steps : List (String × α)) (i : Int) :
    pGetIdx (flatOf root steps) i =
      match pyIndexNat steps.length i with
      | some j => steps[j]?.map (fun s => flatOf root [s])
      | none => none := by
  simp only [pGetIdx, pItems_flatOf, List.length_map]
  cases pyIndexNat steps.length i with
  | none => rfl
  | some j =>
    simp only [List.getElem?_map, Option.map_map]
    cases steps[j]? with
    | none => rfl
    | some s =>
      have := rebuild_flatOf root steps [s]
      simp only [List.map_cons, List.map_nil] at this
      simp [this]

theorem flatCells_inj : ∀ (a b : List (String × α)), flatCells a = flatCells b → a = b := by
  intro a
  induction a with
  | nil =>
    intro b h
    cases b with
    | nil => rfl
    | cons s r => rw [flatCells_cons] at h; simp [flatCells] at h
  | cons s r ih =>
    intro b h
    cases b with
    | nil => rw [flatCells_cons] at h; simp [flatCells] at h
    | cons s' r' =>
      rw [flatCells_cons, flatCells_cons] at h
      simp only [List.cons.injEq, Cell.op.injEq, Cell.arg.injEq] at h
      obtain ⟨h1, h2, h3⟩ := h
      rw [ih r' h3]
      cases s; cases s'; simp_all

theorem flatOf_inj (r r' : String) (a b : List (String × α)) :
    flatOf r a = flatOf r' b ↔ r = r' ∧ a = b := by
  constructor
  · intro h
    simp only [flatOf_eq, List.cons.injEq, Cell.root.injEq] at h
    exact ⟨h.1, flatCells_inj a b h.2⟩
  · rintro ⟨rfl, rfl⟩; rfl

theorem flatCells_take (steps : List (String × α)) (k : Nat) :
    (flatCells steps).take (2 * k) = flatCells (steps.take k) := by
  induction steps generalizing k with
  | nil => simp [flatCells]
  | cons s r ih =>
    cases k with
    | zero => simp [flatCells]
    | succ k =>
      rw [flatCells_cons, show 2 * (k + 1) = (2 * k + 1) + 1 by omega]
      simp only [List.take_succ_cons]
      rw [ih k, flatCells_cons]

theorem pStartswith_flatOf [DecidableEq α] (r r' : String) (a b : List (String × α)) :
    pStartswith (flatOf r a) (flatOf r' b) = (decide (r = r') && b.isPrefixOf a) := by
  simp only [pStartswith, flatOf_eq, List.length_cons, flatCells_length]
  rw [show 2 * b.length + 1 = (2 * b.length) + 1 by omega, List.take_succ_cons, flatCells_take]
  have hiff : (Cell.root r :: flatCells (a.take b.length) = Cell.root r' :: flatCells b) ↔
      (r = r' ∧ b <+: a) := by
    constructor
    · intro h
      simp only [List.cons.injEq, Cell.root.injEq] at h
      refine ⟨h.1, ?_⟩
      have := flatCells_inj _ _ h.2
      rw [List.prefix_iff_eq_take]; exact this.symm
    · rintro ⟨rfl, hp⟩
      rw [List.prefix_iff_eq_take] at hp
      rw [← hp]
  by_cases h : (r = r' ∧ b <+: a)
  · have h' := hiff.mpr h
    rw [decide_eq_true h']
    simp [h.1, List.isPrefixOf_iff_prefix.mpr h.2]
  · have h' : ¬ _ := fun hh => h (hiff.mp hh)
    simp only [h', decide_false]
    by_cases hr : r = r'
    · have : ¬ b <+: a := fun hp => h ⟨hr, hp⟩
      have : b.isPrefixOf a = false := by
        cases hb : b.isPrefixOf a with
        | false => rfl
        | true => exact absurd (List.isPrefixOf_iff_prefix.mp hb) this
      simp [this]
    · simp [hr]

theorem unflat_flatOf (root : String) (steps : List (String × α)) :
    unflat (flatOf root steps) = some (root, steps) := by
  simp only [unflat, flatOf_eq]
  have : ∀ (st : List (String × α)), unflat.go (flatCells st) = some st := by
    intro st
    induction st with
    | nil => rfl
    | cons s r ih => rw [flatCells_cons]; simp [unflat.go, ih]
  rw [this]; rfl

theorem argsOf_map (steps : List (String × α)) :
    argsOf (steps.map (fun s => Cell.arg s.2)) = some (steps.map (·.2)) := by
  induction steps with
  | nil => rfl
  | cons s r ih => simp only [argsOf, List.map_cons, List.foldr_cons] at ih ⊢; rw [ih]

theorem pairsOf_map (steps : List (String × α)) :
    pairsOf (steps.map (fun s => (Cell.op s.1, Cell.arg s.2))) = some steps := by
  induction steps with
  | nil => rfl
  | cons s r ih => simp only [pairsOf, List.map_cons, List.foldr_cons] at ih ⊢; rw [ih]

/-- every sequence operation of `Path`, run on the flat ops tuple, is the same
    operation on the list of steps -/
theorem seqModel_eq_ref [DecidableEq α] (root : String) (steps : List (String × α))
    (op : SeqOp α) : seqModel root steps op = seqRef root steps op := by
  cases op with
  | len => simp [seqModel, seqRef, pLen_flatOf]
  | idx i =>
    simp only [seqModel, seqRef, pGetIdx_flatOf]
    cases pyIndexNat steps.length i with
    | none => rfl
    | some j =>
      simp only
      cases hs : steps[j]? with
      | none => simp [resOfOps]
      | some s => simp only [resOfOps, Option.map_some, unflat_flatOf]
  | slice a b c =>
    simp only [seqModel, seqRef, pGetSlice_flatOf]
    cases pySlice steps a b c with
    | none => rfl
    | some st => simp [resOfOps, unflat_flatOf]
  | values => simp [seqModel, seqRef, pValues_flatOf, argsOf_map]
  | items => simp [seqModel, seqRef, pItems_flatOf, pairsOf_map]
  | eq oroot other =>
    simp only [seqModel, seqRef, pEq, flatOf_inj]
  | startswith oroot other =>
    simp only [seqModel, seqRef, pStartswith_flatOf]
  | concat other =>
    simp only [seqModel, seqRef, concatFlat, flatOf_eq]
    by_cases hr : root = "T"
    · subst hr
      simp only [List.take_succ_cons, List.take_zero, and_self, if_true, List.drop_succ_cons,
        List.drop_zero]
      have : Cell.root "T" :: (flatCells steps ++ flatCells other) = flatOf "T" (steps ++ other) := by
        simp [flatOf_eq, flatCells]
      rw [this]
      simp [resOfOps, unflat_flatOf]
    · simp [hr, resOfOps]
  | fromT =>
    simp only [seqModel, seqRef, flatOf_eq]
    by_cases hr : root = "S"
    · subst hr
      simp only [pFromT, beq_self_eq_true, if_true]
      rw [← flatOf_eq, resOfOps, unflat_flatOf]
    · have : pFromT (Cell.root root :: flatCells steps) = Cell.root root :: flatCells steps := by
        unfold pFromT
        split
        · rename_i h; simp only [List.cons.injEq, Cell.root.injEq] at h; exact absurd h.1 hr
        · rfl
      rw [this, ← flatOf_eq, resOfOps, unflat_flatOf]
      simp [hr]

end seq

/-! ### concatenation and C01's reference walk -/

open Glom Glom.C01 in
/-- walking `a ++ b` is walking `a`, then walking `b` from the value reached, with
    `b`'s segments numbered after `a`'s -/
theorem walk_append (env : TEnv) (h : Heap) :
    ∀ (a b : List (String × Val)) (k : Nat) (t : Val),
      walk env h (a ++ b) k t =
        match walk env h a k t with
        | .ok v => walk env h b (k + a.length) v
        | .fail j e => .fail j e
        | .unsupported => .unsupported := by
  intro a
  induction a with
  | nil => intro b k t; simp [walk]
  | cons s r ih =>
    obtain ⟨op, arg⟩ := s
    intro b k t
    simp only [List.cons_append, walk, List.length_cons]
    cases refAccess env h op t arg with
    | none => rfl
    | some res =>
      cases res with
      | error e => rfl
      | ok v =>
        simp only
        rw [ih b (k + 1) v, show k + 1 + r.length = k + (r.length + 1) by omega]

open Glom Glom.C01 in
theorem wfSteps_append (a b : List (String × Val)) :
    wfSteps (a ++ b) = (wfSteps a && wfSteps b) := by
  induction a with
  | nil => simp [wfSteps]
  | cons s r ih =>
    obtain ⟨op, arg⟩ := s
    simp only [List.cons_append, wfSteps, ih, Bool.and_assoc]

/-- renumber a failure of the second half of a concatenated path -/
def shiftWalk (n : Nat) : Glom.C01.WalkRes → Glom.C01.WalkRes
  | .fail j e => .fail (j + n) e
  | w => w

open Glom Glom.C01 in
theorem walk_shift (env : TEnv) (h : Heap) :
    ∀ (b : List (String × Val)) (k n : Nat) (t : Val),
      walk env h b (k + n) t = shiftWalk n (walk env h b k t) := by
  intro b
  induction b with
  | nil => intro k n t; rfl
  | cons s r ih =>
    obtain ⟨op, arg⟩ := s
    intro k n t
    simp only [walk]
    cases refAccess env h op t arg with
    | none => rfl
    | some res =>
      cases res with
      | error e => rfl
      | ok v =>
        simp only
        rw [show k + n + 1 = (k + 1) + n by omega, ih]

/-! ### splitting and joining token lists -/

section roundtrip
variable {L : Type}

theorem splitOn_noSep (p : Tok L → Bool) (toks : List (Tok L)) (h : ∀ t ∈ toks, p t = false) :
    splitOn p toks = [toks] := by
  induction toks with
  | nil => rfl
  | cons t r ih =>
    simp only [splitOn, h t (by simp), Bool.false_eq_true, if_false]
    rw [ih (fun x hx => h x (by simp [hx]))]

theorem splitOn_append_sep (p : Tok L → Bool) (x : List (Tok L)) (sep : Tok L) (rest : List (Tok L))
    (hx : ∀ t ∈ x, p t = false) (hsep : p sep = true) :
    splitOn p (x ++ sep :: rest) = x :: splitOn p rest := by
  induction x with
  | nil => simp [splitOn, hsep]
  | cons t r ih =>
    simp only [List.cons_append, splitOn, hx t (by simp), Bool.false_eq_true, if_false]
    rw [ih (fun y hy => hx y (by simp [hy]))]

theorem splitOn_joinSep (p : Tok L → Bool) (sep : Tok L) (hsep : p sep = true) :
    ∀ (pieces : List (List (Tok L))), pieces ≠ [] → (∀ x ∈ pieces, ∀ t ∈ x, p t = false) →
      splitOn p (joinSep sep pieces) = pieces := by
  intro pieces
  induction pieces with
  | nil => intro h; exact absurd rfl h
  | cons x r ih =>
    intro _ hp
    cases r with
    | nil => simpa [joinSep] using splitOn_noSep p x (hp x (by simp))
    | cons y r' =>
      simp only [joinSep]
      rw [splitOn_append_sep p x sep _ (hp x (by simp)) hsep,
        ih (by simp) (fun z hz => hp z (by simp [hz]))]

theorem dropTrailingEmpty_of_last_ne {α} (pieces : List (List α))
    (h : ∀ x, pieces.getLast? = some x → x ≠ []) : dropTrailingEmpty pieces = pieces := by
  unfold dropTrailingEmpty
  split
  · rename_i heq; exact absurd rfl (h [] heq)
  · rfl

theorem allSome_map_some {α β} (f : α → Option β) (g : α → β) :
    ∀ (xs : List α), (∀ x ∈ xs, f x = some (g x)) → allSome (xs.map f) = some (xs.map g) := by
  intro xs
  induction xs with
  | nil => intro _; rfl
  | cons x r ih =>
    intro h
    simp only [List.map_cons, h x (by simp), allSome]
    rw [ih (fun y hy => h y (by simp [hy]))]

/-! ### the top level of a formatted argument has no separators -/

/-- not a separator (`,` `:`) and not a `k=` marker -/
def Tok.isPlain : Tok L → Bool
  | .comma | .colon | .kw _ => false
  | _ => true

theorem plain_not_comma {t : Tok L} (h : t.isPlain = true) : t.isComma = false := by
  cases t <;> simp_all [Tok.isPlain, Tok.isComma]

theorem plain_not_colon {t : Tok L} (h : t.isPlain = true) : t.isColon = false := by
  cases t <;> simp_all [Tok.isPlain, Tok.isColon]

theorem fmtStep_plain (F : FmtFacts) (s : Step L) : ∀ t ∈ fmtStep F s, t.isPlain = true := by
  cases s <;> rw [fmtStep] <;> (try split) <;> simp [Tok.isPlain]

theorem assemblePath_plain (xs : List (Step L × List (Tok L)))
    (h : ∀ x ∈ xs, ∀ t ∈ x.2, t.isPlain = true) : ∀ t ∈ assemblePath xs, t.isPlain = true := by
  unfold assemblePath
  split
  · rename_i g hg
    intro t ht
    simp only [List.mem_cons, List.mem_flatMap] at ht
    rcases ht with rfl | ⟨x, hx, htx⟩
    · rfl
    · -- members of a group are members of xs
      have hsub : ∀ (ys : List (Step L × List (Tok L))) (grp : List (Step L × List (Tok L))),
          .inl grp ∈ groupSteps (fun x => x.1.isSeg) ys → ∀ y ∈ grp, y ∈ ys := by
        intro ys
        induction ys with
        | nil => intro grp hm; simp [groupSteps] at hm
        | cons y r ih =>
          intro grp hm z hz
          simp only [groupSteps] at hm
          split at hm
          · simp only [List.mem_cons, reduceCtorEq, false_or] at hm
            exact List.mem_cons_of_mem _ (ih grp hm z hz)
          · split at hm
            · rename_i g' rest heq
              simp only [List.mem_cons, Sum.inl.injEq] at hm
              rcases hm with rfl | hm
              · simp only [List.mem_cons] at hz
                rcases hz with rfl | hz
                · simp
                · exact List.mem_cons_of_mem _ (ih g' (by rw [heq]; simp) z hz)
              · exact List.mem_cons_of_mem _ (ih grp (by rw [heq]; simp [hm]) z hz)
            · simp only [List.mem_cons, Sum.inl.injEq] at hm
              rcases hm with rfl | hm
              · simp only [List.mem_singleton] at hz; subst hz; simp
              · exact List.mem_cons_of_mem _ (ih grp hm z hz)
      exact h x (hsub xs g (by rw [hg]; simp) x hx) t htx
  · intro t ht
    simp only [List.mem_cons, List.mem_nil_iff, or_false] at ht
    rcases ht with rfl | rfl <;> rfl

theorem assembleT_plain (root : String) (xs : List (Step L × List (Tok L)))
    (h : ∀ x ∈ xs, ∀ t ∈ x.2, t.isPlain = true) : ∀ t ∈ assembleT root xs, t.isPlain = true := by
  unfold assembleT
  split
  · exact assemblePath_plain xs h
  · intro t ht
    simp only [List.mem_cons, List.mem_flatMap] at ht
    rcases ht with rfl | ⟨x, hx, htx⟩
    · rfl
    · exact h x hx t htx

theorem fmtArg_plain (F : FmtFacts) (a : Arg L) : ∀ t ∈ fmtArg F a, t.isPlain = true := by
  cases a with
  | lit v => rw [fmtArg]; simp [Tok.isPlain]
  | t root steps =>
    rw [fmtArg]
    apply assembleT_plain
    intro x hx t ht
    simp only [List.mem_map] at hx
    obtain ⟨s, _, rfl⟩ := hx
    exact fmtStep_plain F s t ht

theorem assemblePath_ne_nil (xs : List (Step L × List (Tok L))) : assemblePath xs ≠ [] := by
  unfold assemblePath; split <;> simp

theorem fmtArg_ne_nil (F : FmtFacts) (a : Arg L) : fmtArg F a ≠ [] := by
  cases a with
  | lit v => rw [fmtArg]; simp
  | t root steps =>
    rw [fmtArg]; unfold assembleT
    split
    · exact assemblePath_ne_nil _
    · simp

/-! ### unfolding the parser -/

theorem isDunder_iff (n : Name) : isDunder n = true ↔ n = dunder ++ n.drop 2 := by
  unfold isDunder
  rw [List.isPrefixOf_iff_prefix]
  constructor
  · intro h
    obtain ⟨t, rfl⟩ := h
    simp [dunder]
  · intro h; rw [h]; exact List.prefix_append _ _

theorem parseSteps_nil : parseSteps ([] : List (Tok L)) = some [] := by rw [parseSteps]

theorem parseSteps_dunder (s : Name) (r : List (Tok L)) :
    parseSteps (.dot dunder :: .par [.str s] :: r) =
      (parseSteps r).map (Step.attr (dunder ++ s) :: ·) := by
  simp only [dunder]; rw [parseSteps]; rfl

theorem parseSteps_star (r : List (Tok L)) :
    parseSteps (.dot starName :: .par [] :: r) = (parseSteps r).map (Step.star :: ·) := by
  simp only [starName]; rw [parseSteps]

theorem parseSteps_starstar (r : List (Tok L)) :
    parseSteps (.dot starstarName :: .par [] :: r) = (parseSteps r).map (Step.starstar :: ·) := by
  simp only [starstarName]; rw [parseSteps]

theorem parseSteps_dot (n : Name) (r : List (Tok L)) (hn : isDunder n = false) :
    parseSteps (.dot n :: r) = (parseSteps r).map (Step.attr n :: ·) := by
  have h1 : n ≠ ['_', '_'] := by intro h; subst h; simp [isDunder, dunder] at hn
  have h2 : n ≠ ['_', '_', 's', 't', 'a', 'r', '_', '_'] := by
    intro h; subst h; simp [isDunder, dunder] at hn
  have h3 : n ≠ ['_', '_', 's', 't', 'a', 'r', 's', 't', 'a', 'r', '_', '_'] := by
    intro h; subst h; simp [isDunder, dunder] at hn
  rw [parseSteps]
  · simp [hn]
  all_goals (intros; simp_all)

theorem parseSteps_br (ch r : List (Tok L)) :
    parseSteps (.br ch :: r) = consOpt (parseIndex ch) (parseSteps r) := by
  rw [parseSteps]

theorem parseSteps_par (ch r : List (Tok L)) :
    parseSteps (.par ch :: r) = consOpt (parseCall ch) (parseSteps r) := by
  rw [parseSteps]

theorem parseArg_lit (v : L) : parseArg [Tok.lit v] = some (.lit v) := by rw [parseArg]

theorem parseArg_root (r : String) (rest : List (Tok L)) :
    parseArg (.root r :: rest) = (parseSteps rest).map (Arg.t r) := by
  rw [parseArg]
  intro v h; simp at h

theorem parseItem_def (toks : List (Tok L)) : parseItem toks =
    match splitOn Tok.isColon toks with
    | [p] => (parseArg p).map Item.one
    | [a, b] =>
      slice3 (if a.isEmpty then some none else (parseArg a).map some)
             (if b.isEmpty then some none else (parseArg b).map some) (some none)
    | [a, b, c] =>
      slice3 (if a.isEmpty then some none else (parseArg a).map some)
             (if b.isEmpty then some none else (parseArg b).map some)
             (if c.isEmpty then some none else (parseArg c).map some)
    | _ => none := by
  rw [parseItem]
  split <;> simp_all

theorem parseIndex_def (toks : List (Tok L)) : parseIndex toks =
    if isUnitTok toks then some (.items [])
    else match splitOn Tok.isComma toks with
      | [p] => (parseItem p).map Step.item
      | _ => (allSome ((dropTrailingEmpty (splitOn Tok.isComma toks)).map parseItem)).map
          Step.items := by
  rw [parseIndex]
  split
  · rfl
  · split <;> simp_all

theorem parseCall_def (toks : List (Tok L)) : parseCall toks =
    if toks.isEmpty then some (.call [] [])
    else callOf (allSome ((dropTrailingEmpty (splitOn Tok.isComma toks)).map (fun p =>
          (parseArg (stripKw p).2).map (fun a => ((stripKw p).1, a))))) := by
  rw [parseCall]
  rw [List.attach_map_val (l := dropTrailingEmpty (splitOn Tok.isComma toks))
    (f := fun p => (parseArg (stripKw p).2).map (fun a => ((stripKw p).1, a)))]

end roundtrip

end Glom.C18
