import Glom.Lemmas.C17
import Glom.Lemmas.C17Source
import Glom.Spec.C17Streams
/-
  C17 — several live streams on a heap: frame lemmas, well-formedness, isolation.
-/
namespace Glom.C17

/-! ### reading and writing cells -/

theorem writeCells_nil_left (h : List StageSt) (sts : List StageSt) : writeCells h [] sts = h := by
  cases sts <;> rfl

theorem writeCells_nil_right (h : List StageSt) (cs : List Nat) : writeCells h cs [] = h := by
  cases cs <;> rfl

theorem writeCells_cons (h : List StageSt) (a : Nat) (as : List Nat) (s : StageSt) (ss : List StageSt) :
    writeCells h (a :: as) (s :: ss) = writeCells (h.set a s) as ss := rfl

theorem writeCells_length : ∀ (cs : List Nat) (sts : List StageSt) (h : List StageSt),
    (writeCells h cs sts).length = h.length
  | [], sts, h => by rw [writeCells_nil_left]
  | _ :: _, [], h => by rw [writeCells_nil_right]
  | a :: as, s :: ss, h => by rw [writeCells_cons, writeCells_length as ss, List.length_set]

theorem getD_writeCells_of_not_mem (a : Nat) : ∀ (cs : List Nat) (sts : List StageSt) (h : List StageSt),
    a ∉ cs → (writeCells h cs sts).getD a default = h.getD a default
  | [], sts, h, _ => by rw [writeCells_nil_left]
  | _ :: _, [], h, _ => by rw [writeCells_nil_right]
  | c :: cs, s :: ss, h, hn => by
    have hc : c ≠ a := fun e => hn (by rw [e]; exact List.mem_cons_self ..)
    have hcs : a ∉ cs := fun e => hn (List.mem_cons_of_mem _ e)
    rw [writeCells_cons, getD_writeCells_of_not_mem a cs ss _ hcs]
    simp only [List.getD_eq_getElem?_getD, List.getElem?_set_ne hc]

theorem readCells_writeCells_disj (h : List StageSt) (cs cs' : List Nat) (sts : List StageSt)
    (hd : ∀ a ∈ cs', a ∉ cs) : readCells (writeCells h cs sts) cs' = readCells h cs' := by
  unfold readCells
  apply List.map_congr_left
  intro a ha
  exact getD_writeCells_of_not_mem a cs sts h (hd a ha)

theorem readCells_writeCells_self : ∀ (cs : List Nat) (sts : List StageSt) (h : List StageSt),
    cs.Nodup → (∀ a ∈ cs, a < h.length) → cs.length = sts.length → readCells (writeCells h cs sts) cs = sts
  | [], sts, h, _, _, hl => by
    cases sts with
    | nil => rfl
    | cons _ _ => cases hl
  | c :: cs, [], h, _, _, hl => by cases hl
  | c :: cs, s :: ss, h, hnd, hb, hl => by
    have hc : c ∉ cs := (List.nodup_cons.mp hnd).1
    have hnd' : cs.Nodup := (List.nodup_cons.mp hnd).2
    have hclt : c < h.length := hb c (List.mem_cons_self ..)
    rw [writeCells_cons]
    show (writeCells (h.set c s) cs ss).getD c default :: readCells (writeCells (h.set c s) cs ss) cs = s :: ss
    rw [getD_writeCells_of_not_mem c cs ss _ hc,
      readCells_writeCells_self cs ss (h.set c s) hnd'
        (fun a ha => by rw [List.length_set]; exact hb a (List.mem_cons_of_mem _ ha))
        (by simpa using hl)]
    simp [List.getD_eq_getElem?_getD, hclt]

theorem readCells_append (h ex : List StageSt) (cs : List Nat) (hb : ∀ a ∈ cs, a < h.length) :
    readCells (h ++ ex) cs = readCells h cs := by
  unfold readCells
  apply List.map_congr_left
  intro a ha
  simp only [List.getD_eq_getElem?_getD, List.getElem?_append_left (hb a ha)]

theorem readCells_alloc (h sts : List StageSt) :
    readCells (h ++ sts) ((List.range sts.length).map (· + h.length)) = sts := by
  apply List.ext_getElem
  · simp [readCells]
  · intro n h1 h2
    simp only [readCells, List.length_map, List.length_range] at h1
    simp [readCells, List.getD_eq_getElem?_getD, List.getElem?_append_right, h1]

theorem readCells_length (h : List StageSt) (cs : List Nat) : (readCells h cs).length = cs.length := by
  simp [readCells]

/-! ### well-formed worlds: every stream owns its cells -/

structure World.WF (w : World) : Prop where
  bound : ∀ id s, w.streams id = some s → ∀ a ∈ s.cells, a < w.heap.length
  nodup : ∀ id s, w.streams id = some s → s.cells.Nodup
  disj : ∀ id s id' s', w.streams id = some s → w.streams id' = some s' → id ≠ id' → ∀ a ∈ s.cells, a ∉ s'.cells

theorem World.empty_wf : World.empty.WF := by
  refine ⟨?_, ?_, ?_⟩
  · intro id s h; simp [World.empty] at h
  · intro id s h; simp [World.empty] at h
  · intro id s id' s' h; simp [World.empty] at h

/-- every stream reads the source that belongs to it (`own id`), and so does every event -/
def World.Owns (own : Nat → Nat) (w : World) : Prop := ∀ id s, w.streams id = some s → s.src = own id

def Ev.srcOk (own : Nat → Nat) : Ev → Prop
  | .open id _ si => si = own id
  | .next _ => True
  | .all id _ si => si = own id
  | .first id _ si _ => si = own id

theorem setStream_same (l : Nat → Option Stream) (id : Nat) (s : Stream) : setStream l id s id = some s := by
  simp [setStream]

theorem setStream_other (l : Nat → Option Stream) (id j : Nat) (s : Stream) (h : j ≠ id) : setStream l id s j = l j := by
  simp [setStream, h]

theorem setPos_same (p : Nat → Nat) (si v : Nat) : setPos p si v si = v := by simp [setPos]

theorem setPos_other (p : Nat → Nat) (si j v : Nat) (h : j ≠ si) : setPos p si v j = p j := by simp [setPos, h]

theorem mem_alloc {n base a : Nat} (h : a ∈ (List.range n).map (· + base)) : base ≤ a ∧ a < base + n := by
  simp only [List.mem_map, List.mem_range] at h
  obtain ⟨k, hk, rfl⟩ := h
  omega

theorem alloc_nodup (n base : Nat) : ((List.range n).map (· + base)).Nodup := by
  have h : (List.range n).Pairwise (· ≠ ·) := List.nodup_range
  exact List.Pairwise.map _ (fun a b hab => by omega) h

/-- marking a stream as ended keeps the ownership structure -/
theorem wf_mark_dead (w : World) (hw : w.WF) (id : Nat) (s : Stream) (hs : w.streams id = some s)
    (heap' : List StageSt) (hl : heap'.length = w.heap.length) (pos' : Nat → Nat) :
    World.WF { heap := heap', pos := pos', streams := setStream w.streams id { s with dead := true } } := by
  refine ⟨?_, ?_, ?_⟩
  · intro j t ht a ha
    simp only at ht ⊢
    rw [hl]
    by_cases hj : j = id
    · subst hj; rw [setStream_same] at ht; cases ht; exact hw.bound _ s hs a ha
    · rw [setStream_other _ _ _ _ hj] at ht; exact hw.bound j t ht a ha
  · intro j t ht
    simp only at ht
    by_cases hj : j = id
    · subst hj; rw [setStream_same] at ht; cases ht; exact hw.nodup _ s hs
    · rw [setStream_other _ _ _ _ hj] at ht; exact hw.nodup j t ht
  · intro j t j' t' ht ht' hne a ha
    simp only at ht ht'
    by_cases hj : j = id
    · subst hj
      rw [setStream_same] at ht; cases ht
      rw [setStream_other _ _ _ _ (Ne.symm hne)] at ht'
      exact hw.disj _ s j' t' hs ht' hne a ha
    · rw [setStream_other _ _ _ _ hj] at ht
      by_cases hj' : j' = id
      · subst hj'
        rw [setStream_same] at ht'; cases ht'
        exact hw.disj j t _ s ht hs hne a ha
      · rw [setStream_other _ _ _ _ hj'] at ht'
        exact hw.disj j t j' t' ht ht' hne a ha

theorem wf_heap_pos (w : World) (hw : w.WF) (heap' : List StageSt) (hl : heap'.length = w.heap.length)
    (pos' : Nat → Nat) : World.WF { heap := heap', pos := pos', streams := w.streams } :=
  ⟨fun j t ht a ha => by simp only; rw [hl]; exact hw.bound j t ht a ha, hw.nodup, hw.disj⟩

/-- `glomit`: the new stream gets the cells at the end of the heap -/
theorem wf_open (w : World) (hw : w.WF) (id si : Nat) (hnone : w.streams id = none) (sts : List StageSt)
    (pos' : Nat → Nat) :
    World.WF { heap := w.heap ++ sts, pos := pos',
               streams := setStream w.streams id ⟨si, (List.range sts.length).map (· + w.heap.length), false⟩ } := by
  refine ⟨?_, ?_, ?_⟩
  · intro j t ht a ha
    simp only [List.length_append] at ht ⊢
    by_cases hj : j = id
    · subst hj; rw [setStream_same] at ht; cases ht
      have := mem_alloc ha; omega
    · rw [setStream_other _ _ _ _ hj] at ht
      have := hw.bound j t ht a ha; omega
  · intro j t ht
    simp only at ht
    by_cases hj : j = id
    · subst hj; rw [setStream_same] at ht; cases ht; exact alloc_nodup _ _
    · rw [setStream_other _ _ _ _ hj] at ht; exact hw.nodup j t ht
  · intro j t j' t' ht ht' hne a ha
    simp only at ht ht'
    by_cases hj : j = id
    · subst hj
      rw [setStream_same] at ht; cases ht
      rw [setStream_other _ _ _ _ (Ne.symm hne)] at ht'
      intro ha'
      have h1 := mem_alloc ha
      have h2 := hw.bound j' t' ht' a ha'
      omega
    · rw [setStream_other _ _ _ _ hj] at ht
      by_cases hj' : j' = id
      · subst hj'
        rw [setStream_same] at ht'; cases ht'
        intro ha'
        have h1 := mem_alloc ha'
        have h2 := hw.bound j t ht a ha
        omega
      · rw [setStream_other _ _ _ _ hj'] at ht'
        exact hw.disj j t j' t' ht ht' hne a ha

theorem wf_open_err (w : World) (hw : w.WF) (id si : Nat) (hnone : w.streams id = none) (pos' : Nat → Nat) :
    World.WF { heap := w.heap, pos := pos', streams := setStream w.streams id ⟨si, [], true⟩ } := by
  refine ⟨?_, ?_, ?_⟩
  · intro j t ht a ha
    simp only at ht ⊢
    by_cases hj : j = id
    · subst hj; rw [setStream_same] at ht; cases ht; cases ha
    · rw [setStream_other _ _ _ _ hj] at ht; exact hw.bound j t ht a ha
  · intro j t ht
    simp only at ht
    by_cases hj : j = id
    · subst hj; rw [setStream_same] at ht; cases ht; exact List.nodup_nil
    · rw [setStream_other _ _ _ _ hj] at ht; exact hw.nodup j t ht
  · intro j t j' t' ht ht' hne a ha
    simp only at ht ht'
    by_cases hj : j = id
    · subst hj; rw [setStream_same] at ht; cases ht; cases ha
    · rw [setStream_other _ _ _ _ hj] at ht
      by_cases hj' : j' = id
      · subst hj'; rw [setStream_same] at ht'; cases ht'; exact List.not_mem_nil
      · rw [setStream_other _ _ _ _ hj'] at ht'
        exact hw.disj j t j' t' ht ht' hne a ha

/-! ### one event -/

theorem step_open_some (srcs : List Src) (fuel : Nat) (w : World) (id : Nat) (kinds : List Kind) (si : Nat) (s : Stream)
    (h : w.streams id = some s) : w.step srcs fuel (.open id kinds si) = (w, .dead) := by
  simp [World.step, World.lookup, h]

theorem step_open_none (srcs : List Src) (fuel : Nat) (w : World) (id : Nat) (kinds : List Kind) (si : Nat)
    (h : w.streams id = none) : w.step srcs fuel (.open id kinds si) =
      w.afterOpen id si (construct (srcs.getD si (.fin [] none)) fuel kinds [] (w.pos si)) := by
  simp only [World.step, World.lookup, h]

theorem step_next_none (srcs : List Src) (fuel : Nat) (w : World) (id : Nat)
    (h : w.streams id = none) : w.step srcs fuel (.next id) = (w, .dead) := by
  simp [World.step, World.lookup, h]

theorem step_next_dead (srcs : List Src) (fuel : Nat) (w : World) (id : Nat) (s : Stream)
    (h : w.streams id = some s) (hd : s.dead = true) : w.step srcs fuel (.next id) = (w, .dead) := by
  simp [World.step, World.lookup, h, hd]

theorem step_next_live (srcs : List Src) (fuel : Nat) (w : World) (id : Nat) (s : Stream)
    (h : w.streams id = some s) (hd : s.dead = false) : w.step srcs fuel (.next id) =
      w.afterNext id s (pullFrom (srcs.getD s.src (.fin [] none)) fuel (readCells w.heap s.cells) (w.pos s.src)) := by
  simp only [World.step, World.lookup, h, hd, Bool.false_eq_true, ↓reduceIte]

theorem step_all_some (srcs : List Src) (fuel : Nat) (w : World) (id : Nat) (kinds : List Kind) (si : Nat) (s : Stream)
    (h : w.streams id = some s) : w.step srcs fuel (.all id kinds si) = (w, .dead) := by
  simp [World.step, World.lookup, h]

theorem step_all_none (srcs : List Src) (fuel : Nat) (w : World) (id : Nat) (kinds : List Kind) (si : Nat)
    (h : w.streams id = none) : w.step srcs fuel (.all id kinds si) =
      ({ w with pos := setPos w.pos si (runAllFrom kinds (srcs.getD si (.fin [] none)) fuel (w.pos si)).pulls,
                streams := setStream w.streams id ⟨si, [], true⟩ },
       .ran (runAllFrom kinds (srcs.getD si (.fin [] none)) fuel (w.pos si))) := by
  simp only [World.step, World.lookup, h]

theorem step_first_some (srcs : List Src) (fuel : Nat) (w : World) (id : Nat) (kinds : List Kind) (si : Nat) (key : Fn)
    (s : Stream) (h : w.streams id = some s) : w.step srcs fuel (.first id kinds si key) = (w, .dead) := by
  simp [World.step, World.lookup, h]

theorem step_first_none (srcs : List Src) (fuel : Nat) (w : World) (id : Nat) (kinds : List Kind) (si : Nat) (key : Fn)
    (h : w.streams id = none) : w.step srcs fuel (.first id kinds si key) =
      ({ w with pos := setPos w.pos si (runFirstFrom kinds (srcs.getD si (.fin [] none)) fuel key (w.pos si)).2,
                streams := setStream w.streams id ⟨si, [], true⟩ },
       .first (runFirstFrom kinds (srcs.getD si (.fin [] none)) fuel key (w.pos si)).1
         (runFirstFrom kinds (srcs.getD si (.fin [] none)) fuel key (w.pos si)).2) := by
  simp only [World.step, World.lookup, h]

theorem step_wf (srcs : List Src) (fuel : Nat) (w : World) (hw : w.WF) (e : Ev) : (w.step srcs fuel e).1.WF := by
  cases e with
  | «open» id kinds si =>
    cases hl : w.streams id with
    | some s => rw [step_open_some srcs fuel w id kinds si s hl]; exact hw
    | none =>
      rw [step_open_none srcs fuel w id kinds si hl]
      cases construct (srcs.getD si (.fin [] none)) fuel kinds [] (w.pos si) with
      | ok sts pos' => exact wf_open w hw id si hl _ _
      | err e pos' => exact wf_open_err w hw id si hl _
      | oof => exact hw
  | next id =>
    cases hl : w.streams id with
    | none => rw [step_next_none srcs fuel w id hl]; exact hw
    | some s =>
      cases hd : s.dead with
      | true => rw [step_next_dead srcs fuel w id s hl hd]; exact hw
      | false =>
        rw [step_next_live srcs fuel w id s hl hd]
        rcases pullFrom (srcs.getD s.src (.fin [] none)) fuel (readCells w.heap s.cells) (w.pos s.src) with ⟨r, sts', pos'⟩
        cases r with
        | item v => exact wf_heap_pos w hw _ (writeCells_length _ _ _) _
        | eof => exact wf_mark_dead w hw id s hl _ (writeCells_length _ _ _) _
        | err e => exact wf_mark_dead w hw id s hl _ (writeCells_length _ _ _) _
        | oof => exact hw
  | all id kinds si =>
    cases hl : w.streams id with
    | some s => rw [step_all_some srcs fuel w id kinds si s hl]; exact hw
    | none => rw [step_all_none srcs fuel w id kinds si hl]; exact wf_open_err w hw id si hl _
  | first id kinds si key =>
    cases hl : w.streams id with
    | some s => rw [step_first_some srcs fuel w id kinds si key s hl]; exact hw
    | none => rw [step_first_none srcs fuel w id kinds si key hl]; exact wf_open_err w hw id si hl _

theorem step_owns (own : Nat → Nat) (srcs : List Src) (fuel : Nat) (w : World) (ho : w.Owns own) (e : Ev)
    (he : e.srcOk own) : (w.step srcs fuel e).1.Owns own := by
  have hmark : ∀ (id : Nat) (t : Stream) (heap' : List StageSt) (pos' : Nat → Nat), t.src = own id →
      World.Owns own { heap := heap', pos := pos', streams := setStream w.streams id t } := by
    intro id t heap' pos' ht j u hu
    simp only at hu
    by_cases hj : j = id
    · subst hj; rw [setStream_same] at hu; cases hu; exact ht
    · rw [setStream_other _ _ _ _ hj] at hu; exact ho j u hu
  cases e with
  | «open» id kinds si =>
    simp only [Ev.srcOk] at he
    cases hl : w.streams id with
    | some s => rw [step_open_some srcs fuel w id kinds si s hl]; exact ho
    | none =>
      rw [step_open_none srcs fuel w id kinds si hl]
      cases construct (srcs.getD si (.fin [] none)) fuel kinds [] (w.pos si) with
      | ok sts pos' => exact hmark id _ _ _ he
      | err e pos' => exact hmark id _ _ _ he
      | oof => exact ho
  | next id =>
    cases hl : w.streams id with
    | none => rw [step_next_none srcs fuel w id hl]; exact ho
    | some s =>
      cases hd : s.dead with
      | true => rw [step_next_dead srcs fuel w id s hl hd]; exact ho
      | false =>
        rw [step_next_live srcs fuel w id s hl hd]
        rcases pullFrom (srcs.getD s.src (.fin [] none)) fuel (readCells w.heap s.cells) (w.pos s.src) with ⟨r, sts', pos'⟩
        cases r with
        | item v => exact ho
        | eof => exact hmark id _ _ _ (ho id s hl)
        | err e => exact hmark id _ _ _ (ho id s hl)
        | oof => exact ho
  | all id kinds si =>
    simp only [Ev.srcOk] at he
    cases hl : w.streams id with
    | some s => rw [step_all_some srcs fuel w id kinds si s hl]; exact ho
    | none => rw [step_all_none srcs fuel w id kinds si hl]; exact hmark id _ _ _ he
  | first id kinds si key =>
    simp only [Ev.srcOk] at he
    cases hl : w.streams id with
    | some s => rw [step_first_some srcs fuel w id kinds si key s hl]; exact ho
    | none => rw [step_first_none srcs fuel w id kinds si key hl]; exact hmark id _ _ _ he

/-! ### frame: an event of another stream leaves a stream as it was -/

/-- what stream `i` is (its stage states, the position of its source, ended or not), and
    where the source that belongs to it stands — the same in two worlds -/
def World.Agree (own : Nat → Nat) (i : Nat) (w1 w2 : World) : Prop :=
  w1.view i = w2.view i ∧ w1.pos (own i) = w2.pos (own i)

theorem view_frame (w : World) (i : Nat) (heap' : List StageSt) (pos' : Nat → Nat) (streams' : Nat → Option Stream)
    (hs : streams' i = w.streams i)
    (hh : ∀ t, w.streams i = some t → readCells heap' t.cells = readCells w.heap t.cells)
    (hp : ∀ t, w.streams i = some t → pos' t.src = w.pos t.src) :
    World.view ⟨heap', pos', streams'⟩ i = w.view i := by
  simp only [World.view, World.lookup, hs]
  cases ht : w.streams i with
  | none => rfl
  | some t => simp only [Option.map_some, hh t ht, hp t ht]

theorem step_other (own : Nat → Nat) (hinj : ∀ a b, own a = own b → a = b) (srcs : List Src) (fuel : Nat)
    (w : World) (hw : w.WF) (ho : w.Owns own) (e : Ev) (he : e.srcOk own) (i : Nat) (hne : e.id ≠ i) :
    (w.step srcs fuel e).1.view i = w.view i ∧ (w.step srcs fuel e).1.pos (own i) = w.pos (own i) := by
  have hown : ∀ id, id ≠ i → own i ≠ own id := fun id h e => h (hinj _ _ e).symm
  cases e with
  | «open» id kinds si =>
    simp only [Ev.id] at hne
    simp only [Ev.srcOk] at he
    cases hl : w.streams id with
    | some s => rw [step_open_some srcs fuel w id kinds si s hl]; exact ⟨rfl, rfl⟩
    | none =>
      rw [step_open_none srcs fuel w id kinds si hl]
      cases construct (srcs.getD si (.fin [] none)) fuel kinds [] (w.pos si) with
      | ok sts pos' =>
        refine ⟨view_frame w i _ _ _ (setStream_other _ _ _ _ (Ne.symm hne)) ?_ ?_, ?_⟩
        · intro t ht; exact readCells_append _ _ _ (hw.bound i t ht)
        · intro t ht; exact setPos_other _ _ _ _ (by rw [ho i t ht, he]; exact hown id hne)
        · exact setPos_other _ _ _ _ (by rw [he]; exact hown id hne)
      | err e pos' =>
        refine ⟨view_frame w i _ _ _ (setStream_other _ _ _ _ (Ne.symm hne)) (fun _ _ => rfl) ?_, ?_⟩
        · intro t ht; exact setPos_other _ _ _ _ (by rw [ho i t ht, he]; exact hown id hne)
        · exact setPos_other _ _ _ _ (by rw [he]; exact hown id hne)
      | oof => exact ⟨rfl, rfl⟩
  | next id =>
    simp only [Ev.id] at hne
    cases hl : w.streams id with
    | none => rw [step_next_none srcs fuel w id hl]; exact ⟨rfl, rfl⟩
    | some s =>
      cases hd : s.dead with
      | true => rw [step_next_dead srcs fuel w id s hl hd]; exact ⟨rfl, rfl⟩
      | false =>
        rw [step_next_live srcs fuel w id s hl hd]
        have hsrc : s.src = own id := ho id s hl
        have hcells : ∀ (sts' : List StageSt) (t : Stream), w.streams i = some t →
            readCells (writeCells w.heap s.cells sts') t.cells = readCells w.heap t.cells :=
          fun sts' t ht => readCells_writeCells_disj _ _ _ _ (fun a ha => hw.disj i t id s ht hl (Ne.symm hne) a ha)
        have hpos : ∀ (pos' : Nat) (t : Stream), w.streams i = some t → setPos w.pos s.src pos' t.src = w.pos t.src :=
          fun pos' t ht => setPos_other _ _ _ _ (by rw [ho i t ht, hsrc]; exact hown id hne)
        have hpos2 : ∀ pos' : Nat, setPos w.pos s.src pos' (own i) = w.pos (own i) :=
          fun pos' => setPos_other _ _ _ _ (by rw [hsrc]; exact hown id hne)
        rcases pullFrom (srcs.getD s.src (.fin [] none)) fuel (readCells w.heap s.cells) (w.pos s.src) with ⟨r, sts', pos'⟩
        cases r with
        | item v => exact ⟨view_frame w i _ _ _ rfl (hcells sts') (hpos pos'), hpos2 pos'⟩
        | eof =>
          exact ⟨view_frame w i _ _ _ (setStream_other _ _ _ _ (Ne.symm hne)) (hcells sts') (hpos pos'), hpos2 pos'⟩
        | err e =>
          exact ⟨view_frame w i _ _ _ (setStream_other _ _ _ _ (Ne.symm hne)) (hcells sts') (hpos pos'), hpos2 pos'⟩
        | oof => exact ⟨rfl, rfl⟩
  | all id kinds si =>
    simp only [Ev.id] at hne
    simp only [Ev.srcOk] at he
    cases hl : w.streams id with
    | some s => rw [step_all_some srcs fuel w id kinds si s hl]; exact ⟨rfl, rfl⟩
    | none =>
      rw [step_all_none srcs fuel w id kinds si hl]
      refine ⟨view_frame w i _ _ _ (setStream_other _ _ _ _ (Ne.symm hne)) (fun _ _ => rfl) ?_, ?_⟩
      · intro t ht; exact setPos_other _ _ _ _ (by rw [ho i t ht, he]; exact hown id hne)
      · exact setPos_other _ _ _ _ (by rw [he]; exact hown id hne)
  | first id kinds si key =>
    simp only [Ev.id] at hne
    simp only [Ev.srcOk] at he
    cases hl : w.streams id with
    | some s => rw [step_first_some srcs fuel w id kinds si key s hl]; exact ⟨rfl, rfl⟩
    | none =>
      rw [step_first_none srcs fuel w id kinds si key hl]
      refine ⟨view_frame w i _ _ _ (setStream_other _ _ _ _ (Ne.symm hne)) (fun _ _ => rfl) ?_, ?_⟩
      · intro t ht; exact setPos_other _ _ _ _ (by rw [ho i t ht, he]; exact hown id hne)
      · exact setPos_other _ _ _ _ (by rw [he]; exact hown id hne)

/-! ### an event of the stream itself is a function of what the stream is -/

theorem view_some (w : World) (i : Nat) (t : Stream) (h : w.streams i = some t) :
    w.view i = some (readCells w.heap t.cells, w.pos t.src, t.dead, t.src) := by
  simp [World.view, World.lookup, h]

theorem view_mk (heap : List StageSt) (pos : Nat → Nat) (streams : Nat → Option Stream) (i : Nat) (t : Stream)
    (h : streams i = some t) :
    World.view ⟨heap, pos, streams⟩ i = some (readCells heap t.cells, pos t.src, t.dead, t.src) := by
  simp [World.view, World.lookup, h]

theorem view_none (w : World) (i : Nat) (h : w.streams i = none) : w.view i = none := by
  simp [World.view, World.lookup, h]

theorem step_own (own : Nat → Nat) (srcs : List Src) (fuel : Nat) (w1 w2 : World) (hw1 : w1.WF) (hw2 : w2.WF)
    (ho1 : w1.Owns own) (ho2 : w2.Owns own) (e : Ev) (he : e.srcOk own) (i : Nat) (hid : e.id = i)
    (ha : World.Agree own i w1 w2) :
    (w1.step srcs fuel e).2 = (w2.step srcs fuel e).2 ∧
    World.Agree own i (w1.step srcs fuel e).1 (w2.step srcs fuel e).1 := by
  obtain ⟨hv, hp⟩ := ha
  cases e with
  | «open» id kinds si =>
    simp only [Ev.id] at hid; subst hid
    simp only [Ev.srcOk] at he; subst he
    cases h1 : w1.streams id with
    | some s1 =>
      cases h2 : w2.streams id with
      | none => rw [view_some w1 id s1 h1, view_none w2 id h2] at hv; cases hv
      | some s2 =>
        rw [step_open_some srcs fuel w1 id kinds _ s1 h1, step_open_some srcs fuel w2 id kinds _ s2 h2]
        exact ⟨rfl, hv, hp⟩
    | none =>
      cases h2 : w2.streams id with
      | some s2 => rw [view_none w1 id h1, view_some w2 id s2 h2] at hv; cases hv
      | none =>
        rw [step_open_none srcs fuel w1 id kinds _ h1, step_open_none srcs fuel w2 id kinds _ h2, hp]
        cases construct (srcs.getD (own id) (.fin [] none)) fuel kinds [] (w2.pos (own id)) with
        | ok sts pos' =>
          refine ⟨rfl, ?_, ?_⟩
          · simp only [World.afterOpen]
            rw [view_some _ id _ (setStream_same _ _ _), view_some _ id _ (setStream_same _ _ _)]
            simp only [readCells_alloc, setPos_same]
          · simp only [World.afterOpen, setPos_same]
        | err e pos' =>
          refine ⟨rfl, ?_, ?_⟩
          · simp only [World.afterOpen]
            rw [view_some _ id _ (setStream_same _ _ _), view_some _ id _ (setStream_same _ _ _)]
            simp only [readCells, List.map_nil, setPos_same]
          · simp only [World.afterOpen, setPos_same]
        | oof => exact ⟨rfl, by simp only [World.afterOpen]; rw [view_none w1 id h1, view_none w2 id h2], hp⟩
  | next id =>
    simp only [Ev.id] at hid; subst hid
    cases h1 : w1.streams id with
    | none =>
      cases h2 : w2.streams id with
      | some s2 => rw [view_none w1 id h1, view_some w2 id s2 h2] at hv; cases hv
      | none =>
        rw [step_next_none srcs fuel w1 id h1, step_next_none srcs fuel w2 id h2]
        exact ⟨rfl, hv, hp⟩
    | some s1 =>
      cases h2 : w2.streams id with
      | none => rw [view_some w1 id s1 h1, view_none w2 id h2] at hv; cases hv
      | some s2 =>
        have hv' := hv
        rw [view_some w1 id s1 h1, view_some w2 id s2 h2] at hv'
        simp only [Option.some.injEq, Prod.mk.injEq] at hv'
        obtain ⟨hcells, hpos, hdead, hsrc⟩ := hv'
        cases hd : s1.dead with
        | true =>
          rw [step_next_dead srcs fuel w1 id s1 h1 hd, step_next_dead srcs fuel w2 id s2 h2 (by rw [← hdead]; exact hd)]
          exact ⟨rfl, hv, hp⟩
        | false =>
          rw [step_next_live srcs fuel w1 id s1 h1 hd, step_next_live srcs fuel w2 id s2 h2 (by rw [← hdead]; exact hd),
            hcells, hpos, hsrc]
          have hlen := pullFrom_length (srcs.getD s2.src (.fin [] none)) fuel (readCells w2.heap s2.cells) (w2.pos s2.src)
          have hown1 : own id = s1.src := (ho1 id s1 h1).symm
          have hown2 : own id = s2.src := (ho2 id s2 h2).symm
          rcases hpf : pullFrom (srcs.getD s2.src (.fin [] none)) fuel (readCells w2.heap s2.cells) (w2.pos s2.src)
            with ⟨r, sts', pos'⟩
          rw [hpf] at hlen
          simp only at hlen
          have hl1 : s1.cells.length = sts'.length := by
            rw [hlen, ← hcells, readCells_length]
          have hl2 : s2.cells.length = sts'.length := by
            rw [hlen, readCells_length]
          have hrw1 : readCells (writeCells w1.heap s1.cells sts') s1.cells = sts' :=
            readCells_writeCells_self _ _ _ (hw1.nodup id s1 h1) (hw1.bound id s1 h1) hl1
          have hrw2 : readCells (writeCells w2.heap s2.cells sts') s2.cells = sts' :=
            readCells_writeCells_self _ _ _ (hw2.nodup id s2 h2) (hw2.bound id s2 h2) hl2
          cases r with
          | item v =>
            refine ⟨rfl, ?_, ?_⟩
            · simp only [World.afterNext]
              rw [view_mk _ _ _ id s1 h1, view_mk _ _ _ id s2 h2]
              simp only [hrw1, hrw2, hsrc, setPos_same, hdead]
            · simp only [World.afterNext, hown1, hsrc, setPos_same]
          | eof =>
            refine ⟨rfl, ?_, ?_⟩
            · simp only [World.afterNext]
              rw [view_some _ id _ (setStream_same _ _ _), view_some _ id _ (setStream_same _ _ _)]
              simp only [hrw1, hrw2, hsrc, setPos_same]
            · simp only [World.afterNext, hown1, hsrc, setPos_same]
          | err e =>
            refine ⟨rfl, ?_, ?_⟩
            · simp only [World.afterNext]
              rw [view_some _ id _ (setStream_same _ _ _), view_some _ id _ (setStream_same _ _ _)]
              simp only [hrw1, hrw2, hsrc, setPos_same]
            · simp only [World.afterNext, hown1, hsrc, setPos_same]
          | oof => exact ⟨rfl, hv, hp⟩
  | all id kinds si =>
    simp only [Ev.id] at hid; subst hid
    simp only [Ev.srcOk] at he; subst he
    cases h1 : w1.streams id with
    | some s1 =>
      cases h2 : w2.streams id with
      | none => rw [view_some w1 id s1 h1, view_none w2 id h2] at hv; cases hv
      | some s2 =>
        rw [step_all_some srcs fuel w1 id kinds _ s1 h1, step_all_some srcs fuel w2 id kinds _ s2 h2]
        exact ⟨rfl, hv, hp⟩
    | none =>
      cases h2 : w2.streams id with
      | some s2 => rw [view_none w1 id h1, view_some w2 id s2 h2] at hv; cases hv
      | none =>
        rw [step_all_none srcs fuel w1 id kinds _ h1, step_all_none srcs fuel w2 id kinds _ h2, hp]
        refine ⟨rfl, ?_, by simp only [setPos_same]⟩
        rw [view_mk _ _ _ id _ (setStream_same _ _ _), view_mk _ _ _ id _ (setStream_same _ _ _)]
        simp only [readCells, List.map_nil, setPos_same]
  | first id kinds si key =>
    simp only [Ev.id] at hid; subst hid
    simp only [Ev.srcOk] at he; subst he
    cases h1 : w1.streams id with
    | some s1 =>
      cases h2 : w2.streams id with
      | none => rw [view_some w1 id s1 h1, view_none w2 id h2] at hv; cases hv
      | some s2 =>
        rw [step_first_some srcs fuel w1 id kinds _ key s1 h1, step_first_some srcs fuel w2 id kinds _ key s2 h2]
        exact ⟨rfl, hv, hp⟩
    | none =>
      cases h2 : w2.streams id with
      | some s2 => rw [view_none w1 id h1, view_some w2 id s2 h2] at hv; cases hv
      | none =>
        rw [step_first_none srcs fuel w1 id kinds _ key h1, step_first_none srcs fuel w2 id kinds _ key h2, hp]
        refine ⟨rfl, ?_, by simp only [setPos_same]⟩
        rw [view_mk _ _ _ id _ (setStream_same _ _ _), view_mk _ _ _ id _ (setStream_same _ _ _)]
        simp only [readCells, List.map_nil, setPos_same]

/-! ### a whole schedule: induction over it -/

theorem run_wf (srcs : List Src) (fuel : Nat) : ∀ (sched : List Ev) (w : World), w.WF → (w.run srcs fuel sched).1.WF
  | [], _, hw => hw
  | e :: es, w, hw => run_wf srcs fuel es _ (step_wf srcs fuel w hw e)

theorem run_owns (own : Nat → Nat) (srcs : List Src) (fuel : Nat) : ∀ (sched : List Ev) (w : World), w.Owns own →
    (∀ e ∈ sched, e.srcOk own) → (w.run srcs fuel sched).1.Owns own
  | [], _, ho, _ => ho
  | e :: es, w, ho, hs =>
    run_owns own srcs fuel es _ (step_owns own srcs fuel w ho e (hs e (List.mem_cons_self ..)))
      (fun e' he' => hs e' (List.mem_cons_of_mem _ he'))

/-- **Isolation, in general form.**  Two worlds in which stream `i` is the same thing; in the
    first the whole schedule runs, in the second only the events of stream `i`.  Stream `i`
    goes through the same outputs and ends up the same thing. -/
theorem run_isolated (own : Nat → Nat) (hinj : ∀ a b, own a = own b → a = b) (srcs : List Src) (fuel : Nat) (i : Nat) :
    ∀ (sched : List Ev) (w1 w2 : World), w1.WF → w2.WF → w1.Owns own → w2.Owns own →
      (∀ e ∈ sched, e.srcOk own) → World.Agree own i w1 w2 →
      (w1.run srcs fuel sched).2.filter (·.1 == i) = (w2.run srcs fuel (sched.filter (·.id == i))).2 ∧
      World.Agree own i (w1.run srcs fuel sched).1 (w2.run srcs fuel (sched.filter (·.id == i))).1 := by
  intro sched
  induction sched with
  | nil => intro w1 w2 _ _ _ _ _ ha; exact ⟨rfl, ha⟩
  | cons e es ih =>
    intro w1 w2 hw1 hw2 ho1 ho2 hs ha
    have he := hs e (List.mem_cons_self ..)
    have hs' : ∀ e' ∈ es, e'.srcOk own := fun e' he' => hs e' (List.mem_cons_of_mem _ he')
    by_cases hid : e.id = i
    · have hf : (e :: es).filter (·.id == i) = e :: es.filter (·.id == i) := by simp [hid]
      obtain ⟨hout, ha'⟩ := step_own own srcs fuel w1 w2 hw1 hw2 ho1 ho2 e he i hid ha
      obtain ⟨h1, h2⟩ := ih _ _ (step_wf srcs fuel w1 hw1 e) (step_wf srcs fuel w2 hw2 e)
        (step_owns own srcs fuel w1 ho1 e he) (step_owns own srcs fuel w2 ho2 e he) hs' ha'
      rw [hf]
      simp only [World.run, List.filter_cons, hid, beq_self_eq_true, ↓reduceIte]
      exact ⟨by rw [h1, hout], h2⟩
    · have hf : (e :: es).filter (·.id == i) = es.filter (·.id == i) := by simp [hid]
      obtain ⟨hv, hp⟩ := step_other own hinj srcs fuel w1 hw1 ho1 e he i hid
      have ha' : World.Agree own i (w1.step srcs fuel e).1 w2 := ⟨by rw [hv]; exact ha.1, by rw [hp]; exact ha.2⟩
      obtain ⟨h1, h2⟩ := ih _ _ (step_wf srcs fuel w1 hw1 e) hw2 (step_owns own srcs fuel w1 ho1 e he) ho2 hs' ha'
      rw [hf]
      have hb : (e.id == i) = false := by simpa using hid
      simp only [World.run, List.filter_cons, hb, Bool.false_eq_true, ↓reduceIte]
      exact ⟨h1, h2⟩

/-! ### one more item of a `take` -/

/-- what `take (k+1)` is once `take k` has delivered its `k` items: one more demand -/
def afterPull (items : List V) : Res × List StageSt × Nat → RunOut × List StageSt
  | (.item v, s, p) => (⟨items ++ [v], .gotK, p⟩, s)
  | (.eof, s, p) => (⟨items, .exhausted, p⟩, s)
  | (.err e, s, p) => (⟨items, .raised e, p⟩, s)
  | (.oof, s, p) => (⟨items, .oof, p⟩, s)

theorem takeK_succ (src : Src) (fuel k : Nat) (sts : List StageSt) (pos : Nat) (acc : List V) :
    takeK src fuel (k + 1) sts pos acc =
      match pullFrom src fuel sts pos with
      | (.item v, sts', pos') => takeK src fuel k sts' pos' (acc ++ [v])
      | (.eof, sts', pos') => (⟨acc, .exhausted, pos'⟩, sts')
      | (.err e, sts', pos') => (⟨acc, .raised e, pos'⟩, sts')
      | (.oof, sts', pos') => (⟨acc, .oof, pos'⟩, sts') := rfl

theorem takeK_snoc (src : Src) (fuel : Nat) : ∀ (k : Nat) (sts : List StageSt) (pos : Nat) (acc items : List V) (p : Nat)
    (sts' : List StageSt), takeK src fuel k sts pos acc = (⟨items, .gotK, p⟩, sts') →
    takeK src fuel (k + 1) sts pos acc = afterPull items (pullFrom src fuel sts' p) := by
  intro k
  induction k with
  | zero =>
    intro sts pos acc items p sts' h
    simp only [takeK, Prod.mk.injEq, RunOut.mk.injEq, true_and] at h
    obtain ⟨⟨rfl, rfl⟩, rfl⟩ := h
    rw [takeK_succ]
    rcases pullFrom src fuel sts pos with ⟨r, s, q⟩
    cases r <;> rfl
  | succ k ih =>
    intro sts pos acc items p sts' h
    rw [takeK_succ] at h
    rw [takeK_succ (k := k + 1)]
    rcases hpf : pullFrom src fuel sts pos with ⟨r, s, q⟩
    rw [hpf] at h
    cases r with
    | item v => exact ih s q (acc ++ [v]) items p sts' h
    | eof => simp at h
    | err e => simp at h
    | oof => simp at h

/-! ### the stream checker on the model -/

theorem checkStreams_cons (srcs : List (List V × Option Err)) (e : Ev) (es : List Ev) (o : EvObs) (os : List EvObs)
    (mem : Mem) : checkStreams srcs (e :: es) (o :: os) mem =
    (match e, o with
    | .open id kinds si, .opened pulls =>
      (mem id).isNone && checkTake kinds (srcOfFin srcs si) 0 ⟨[], .gotK, pulls⟩ &&
        checkStreams srcs es os (memSet mem id { kinds := kinds, src := si })
    | .open id kinds si, .openErr err pulls =>
      (mem id).isNone && checkTake kinds (srcOfFin srcs si) 0 ⟨[], .raised err, pulls⟩ &&
        checkStreams srcs es os (memSet mem id { kinds := kinds, src := si, ended := true })
    | .next id, .item v pulls =>
      (match mem id with
       | some m => !m.ended && checkTake m.kinds (srcOfFin srcs m.src) (m.asked + 1) ⟨m.items ++ [v], .gotK, pulls⟩ &&
          checkStreams srcs es os (memSet mem id { m with items := m.items ++ [v], asked := m.asked + 1 })
       | none => false)
    | .next id, .eof pulls =>
      (match mem id with
       | some m => !m.ended && checkTake m.kinds (srcOfFin srcs m.src) (m.asked + 1) ⟨m.items, .exhausted, pulls⟩ &&
          checkStreams srcs es os (memSet mem id { m with asked := m.asked + 1, ended := true })
       | none => false)
    | .next id, .err err pulls =>
      (match mem id with
       | some m => !m.ended && checkTake m.kinds (srcOfFin srcs m.src) (m.asked + 1) ⟨m.items, .raised err, pulls⟩ &&
          checkStreams srcs es os (memSet mem id { m with asked := m.asked + 1, ended := true })
       | none => false)
    | .next id, .dead =>
      (match mem id with | some m => m.ended | none => true) && checkStreams srcs es os mem
    | .all id kinds si, .ran t =>
      (mem id).isNone && checkAll kinds (srcOfFin srcs si) t &&
        checkStreams srcs es os (memSet mem id { kinds := kinds, src := si, ended := true })
    | .first id kinds si key, .first f pulls =>
      (mem id).isNone && checkFirst kinds (srcOfFin srcs si) key f pulls &&
        checkStreams srcs es os (memSet mem id { kinds := kinds, src := si, ended := true })
    | .open id _ _, .dead => (mem id).isSome && checkStreams srcs es os mem
    | .all id _ _, .dead => (mem id).isSome && checkStreams srcs es os mem
    | .first id _ _ _, .dead => (mem id).isSome && checkStreams srcs es os mem
    | _, _ => false) := by
  cases e <;> cases o <;> simp only [checkStreams]
  all_goals (split <;> rename_i h <;> simp only [h])

/-- the sources of a checked case, as the model takes them -/
def srcsOfFin (srcsFin : List (List V × Option Err)) : List Src := srcsFin.map fun p => .fin p.1 p.2

theorem srcsOfFin_getD (srcsFin : List (List V × Option Err)) (si : Nat) :
    (srcsOfFin srcsFin).getD si (.fin [] none) = srcOfFin srcsFin si := by
  simp only [srcsOfFin, srcOfFin, List.getD_eq_getElem?_getD, List.getElem?_map]
  cases srcsFin[si]? <;> rfl

/-- the checker's memory of stream `id` describes the stream `id` of the world: never started
    (its source is untouched), or started — and if it has not ended, what it has yielded so far
    is a `take` of as many items as were asked of it, run alone from the start of its source -/
def StreamInv (own : Nat → Nat) (srcsFin : List (List V × Option Err)) (fuel : Nat) (w : World) (mem : Mem) (id : Nat) : Prop :=
  match mem id with
  | none => w.streams id = none ∧ w.pos (own id) = 0
  | some m => m.src = own id ∧ ∃ sts p, w.view id = some (sts, p, m.ended, m.src) ∧
      (m.ended = false → ∃ sts0 pos0, construct (srcOfFin srcsFin m.src) fuel m.kinds [] 0 = .ok sts0 pos0 ∧
        takeK (srcOfFin srcsFin m.src) fuel m.asked sts0 pos0 [] = (⟨m.items, .gotK, p⟩, sts))

theorem memSet_same (mem : Mem) (id : Nat) (m : StreamMem) : memSet mem id m id = some m := by simp [memSet]

theorem memSet_other (mem : Mem) (id j : Nat) (m : StreamMem) (h : j ≠ id) : memSet mem id m j = mem j := by
  simp [memSet, h]

/-- the invariant of every OTHER stream survives an event (frame) -/
theorem streamInv_other (own : Nat → Nat) (hinj : ∀ a b, own a = own b → a = b) (srcsFin : List (List V × Option Err))
    (fuel : Nat) (w : World) (hw : w.WF) (ho : w.Owns own) (e : Ev) (he : e.srcOk own) (mem mem' : Mem)
    (hmem : ∀ j, j ≠ e.id → mem' j = mem j) (i : Nat) (hne : i ≠ e.id)
    (hi : StreamInv own srcsFin fuel w mem i) :
    StreamInv own srcsFin fuel (w.step (srcsOfFin srcsFin) fuel e).1 mem' i := by
  obtain ⟨hv, hp⟩ := step_other own hinj (srcsOfFin srcsFin) fuel w hw ho e he i (Ne.symm hne)
  unfold StreamInv at hi ⊢
  rw [hmem i hne]
  cases hm : mem i with
  | none =>
    rw [hm] at hi
    simp only at hi ⊢
    refine ⟨?_, by rw [hp]; exact hi.2⟩
    have : (w.step (srcsOfFin srcsFin) fuel e).1.view i = none := by rw [hv, view_none w i hi.1]
    cases hs : (w.step (srcsOfFin srcsFin) fuel e).1.streams i with
    | none => rfl
    | some t => rw [view_some _ i t hs] at this; cases this
  | some m =>
    rw [hm] at hi
    simp only at hi ⊢
    obtain ⟨h1, sts, p, h2, h3⟩ := hi
    exact ⟨h1, sts, p, by rw [hv]; exact h2, h3⟩

theorem runTake_of_construct (kinds : List Kind) (src : Src) (fuel k : Nat) (sts0 : List StageSt) (pos0 : Nat)
    (hc : construct src fuel kinds [] 0 = .ok sts0 pos0) :
    runTake kinds src fuel k = (takeK src fuel k sts0 pos0 []).1 := by
  simp only [runTake, hc]

theorem checkTake_model (kinds : List Kind) (srcsFin : List (List V × Option Err)) (si fuel k : Nat)
    (items : List V) (fin : Fin) (pulls : Nat)
    (hrun : runTake kinds (srcOfFin srcsFin si) fuel k = ⟨items, fin, pulls⟩) (hfin : fin ≠ .oof) :
    checkTake kinds (srcOfFin srcsFin si) k ⟨items, fin, pulls⟩ = true := by
  have hne : (runTake kinds (srcOfFin srcsFin si) fuel k).fin ≠ .oof := by rw [hrun]; exact hfin
  have := checkTake_of_spec kinds _ _ k _ hne (runTake_spec (srcOfFin srcsFin si) fuel kinds k hne)
  rw [hrun] at this
  exact this

/-- what one event establishes: the head of the checker passes, and a memory that describes the new world -/
def StepChecked (own : Nat → Nat) (srcsFin : List (List V × Option Err)) (fuel : Nat) (w : World) (e : Ev) (mem : Mem) : Prop :=
  ∃ mem', (∀ i, StreamInv own srcsFin fuel (w.step (srcsOfFin srcsFin) fuel e).1 mem' i) ∧
    ∀ es os, checkStreams srcsFin (e :: es) ((w.step (srcsOfFin srcsFin) fuel e).2.obs :: os) mem =
      checkStreams srcsFin es os mem'

theorem streams_of_view {w : World} {i : Nat} {x : List StageSt × Nat × Bool × Nat} (h : w.view i = some x) :
    ∃ s, w.streams i = some s ∧ x = (readCells w.heap s.cells, w.pos s.src, s.dead, s.src) := by
  cases hs : w.streams i with
  | none => rw [view_none w i hs] at h; cases h
  | some s => rw [view_some w i s hs] at h; exact ⟨s, rfl, by injection h with h; exact h.symm⟩

theorem step_check_open (own : Nat → Nat) (hinj : ∀ a b, own a = own b → a = b) (srcsFin : List (List V × Option Err))
    (fuel : Nat) (w : World) (hw : w.WF) (ho : w.Owns own) (id : Nat) (kinds : List Kind) (si : Nat)
    (he : (Ev.open id kinds si).srcOk own) (mem : Mem) (hinv : ∀ i, StreamInv own srcsFin fuel w mem i)
    (hoof : (w.step (srcsOfFin srcsFin) fuel (.open id kinds si)).2.isOof = false) :
    StepChecked own srcsFin fuel w (.open id kinds si) mem := by
  have hother : ∀ mem' : Mem, (∀ j, j ≠ id → mem' j = mem j) → ∀ i, i ≠ id →
      StreamInv own srcsFin fuel (w.step (srcsOfFin srcsFin) fuel (.open id kinds si)).1 mem' i :=
    fun mem' hm' i hne => streamInv_other own hinj srcsFin fuel w hw ho _ he mem mem' hm' i hne (hinv i)
  have hsi : si = own id := he
  subst hsi
  have hi := hinv id
  unfold StreamInv at hi
  unfold StepChecked
  cases hm : mem id with
  | some m =>
    rw [hm] at hi
    obtain ⟨_, sts, p, hview, _⟩ := hi
    obtain ⟨s, hs, _⟩ := streams_of_view hview
    have hstep := step_open_some (srcsOfFin srcsFin) fuel w id kinds (own id) s hs
    refine ⟨mem, ?_, ?_⟩
    · rw [hstep]; exact hinv
    · intro es os
      rw [hstep, checkStreams_cons]
      simp [EvOut.obs, hm]
  | none =>
    rw [hm] at hi
    obtain ⟨hs, hp0⟩ := hi
    have hstep := step_open_none (srcsOfFin srcsFin) fuel w id kinds (own id) hs
    rw [srcsOfFin_getD, hp0] at hstep
    rw [hstep] at hoof hother ⊢
    cases hc : construct (srcOfFin srcsFin (own id)) fuel kinds [] 0 with
    | ok sts pos' =>
      rw [hc] at hother
      refine ⟨memSet mem id { kinds := kinds, src := own id }, ?_, ?_⟩
      · intro i
        by_cases hid : i = id
        · subst hid
          unfold StreamInv
          rw [memSet_same]
          refine ⟨rfl, sts, pos', ?_, fun _ => ⟨sts, pos', hc, rfl⟩⟩
          simp only [World.afterOpen]
          rw [view_mk _ _ _ i _ (setStream_same _ _ _)]
          simp only [readCells_alloc, setPos_same]
        · exact hother _ (fun j hj => memSet_other _ _ _ _ hj) i hid
      · intro es os
        rw [checkStreams_cons]
        have hck := checkTake_model kinds srcsFin (own id) fuel 0 [] .gotK pos'
          (by rw [runTake_of_construct kinds _ fuel 0 sts pos' hc]; rfl) (by simp)
        simp [World.afterOpen, EvOut.obs, hm, hck]
    | err e pos' =>
      rw [hc] at hother
      refine ⟨memSet mem id { kinds := kinds, src := own id, ended := true }, ?_, ?_⟩
      · intro i
        by_cases hid : i = id
        · subst hid
          unfold StreamInv
          rw [memSet_same]
          refine ⟨rfl, [], pos', ?_, fun h => by cases h⟩
          simp only [World.afterOpen]
          rw [view_mk _ _ _ i _ (setStream_same _ _ _)]
          simp only [readCells, List.map_nil, setPos_same]
        · exact hother _ (fun j hj => memSet_other _ _ _ _ hj) i hid
      · intro es os
        rw [checkStreams_cons]
        have hck := checkTake_model kinds srcsFin (own id) fuel 0 [] (.raised e) pos'
          (by simp only [runTake, hc]) (by simp)
        simp [World.afterOpen, EvOut.obs, hm, hck]
    | oof => rw [hc] at hoof; simp [World.afterOpen, EvOut.isOof] at hoof

theorem step_check_next (own : Nat → Nat) (hinj : ∀ a b, own a = own b → a = b) (srcsFin : List (List V × Option Err))
    (fuel : Nat) (w : World) (hw : w.WF) (ho : w.Owns own) (id : Nat)
    (mem : Mem) (hinv : ∀ i, StreamInv own srcsFin fuel w mem i)
    (hoof : (w.step (srcsOfFin srcsFin) fuel (.next id)).2.isOof = false) :
    StepChecked own srcsFin fuel w (.next id) mem := by
  have hother : ∀ mem' : Mem, (∀ j, j ≠ id → mem' j = mem j) → ∀ i, i ≠ id →
      StreamInv own srcsFin fuel (w.step (srcsOfFin srcsFin) fuel (.next id)).1 mem' i :=
    fun mem' hm' i hne => streamInv_other own hinj srcsFin fuel w hw ho (.next id) trivial mem mem' hm' i hne (hinv i)
  have hi := hinv id
  unfold StreamInv at hi
  unfold StepChecked
  cases hm : mem id with
  | none =>
    rw [hm] at hi
    have hstep := step_next_none (srcsOfFin srcsFin) fuel w id hi.1
    refine ⟨mem, ?_, ?_⟩
    · rw [hstep]; exact hinv
    · intro es os
      rw [hstep, checkStreams_cons]
      simp [EvOut.obs, hm]
  | some m =>
    rw [hm] at hi
    obtain ⟨hsrc, sts, p, hview, htake⟩ := hi
    obtain ⟨s, hs, hx⟩ := streams_of_view hview
    simp only [Prod.mk.injEq] at hx
    obtain ⟨hsts, hp, hdead, hssrc⟩ := hx
    cases hd : m.ended with
    | true =>
      have hstep := step_next_dead (srcsOfFin srcsFin) fuel w id s hs (by rw [← hdead]; exact hd)
      refine ⟨mem, ?_, ?_⟩
      · rw [hstep]; exact hinv
      · intro es os
        rw [hstep, checkStreams_cons]
        simp [EvOut.obs, hm, hd]
    | false =>
      have hstep := step_next_live (srcsOfFin srcsFin) fuel w id s hs (by rw [← hdead]; exact hd)
      rw [srcsOfFin_getD, ← hsts, ← hp, ← hssrc] at hstep
      obtain ⟨sts0, pos0, hc, htk⟩ := htake hd
      have hsnoc := takeK_snoc _ fuel m.asked sts0 pos0 [] m.items p sts htk
      have hlen := pullFrom_length (srcOfFin srcsFin m.src) fuel sts p
      rw [hstep] at hoof hother ⊢
      rcases hpf : pullFrom (srcOfFin srcsFin m.src) fuel sts p with ⟨r, sts', pos'⟩
      rw [hpf] at hsnoc hlen hoof hother
      simp only at hlen
      have hl : s.cells.length = sts'.length := by rw [hlen, hsts, readCells_length]
      have hrw : readCells (writeCells w.heap s.cells sts') s.cells = sts' :=
        readCells_writeCells_self _ _ _ (hw.nodup id s hs) (hw.bound id s hs) hl
      have hrun := runTake_of_construct m.kinds _ fuel (m.asked + 1) sts0 pos0 hc
      rw [hsnoc] at hrun
      cases r with
      | item v =>
        refine ⟨memSet mem id { m with items := m.items ++ [v], asked := m.asked + 1 }, ?_, ?_⟩
        · intro i
          by_cases hid : i = id
          · subst hid
            unfold StreamInv
            rw [memSet_same]
            refine ⟨hsrc, sts', pos', ?_, fun _ => ⟨sts0, pos0, hc, hsnoc⟩⟩
            simp only [World.afterNext]
            rw [view_mk _ _ _ i s hs]
            simp only [hrw, setPos_same, ← hdead, hssrc]
          · exact hother _ (fun j hj => memSet_other _ _ _ _ hj) i hid
        · intro es os
          rw [checkStreams_cons]
          have hck := checkTake_model m.kinds srcsFin m.src fuel (m.asked + 1) (m.items ++ [v]) .gotK pos' hrun (by simp)
          simp [World.afterNext, EvOut.obs, hm, hd, hck]
      | eof =>
        refine ⟨memSet mem id { m with asked := m.asked + 1, ended := true }, ?_, ?_⟩
        · intro i
          by_cases hid : i = id
          · subst hid
            unfold StreamInv
            rw [memSet_same]
            refine ⟨hsrc, sts', pos', ?_, fun h => by cases h⟩
            simp only [World.afterNext]
            rw [view_mk _ _ _ i _ (setStream_same _ _ _)]
            simp only [hrw, setPos_same, hssrc]
          · exact hother _ (fun j hj => memSet_other _ _ _ _ hj) i hid
        · intro es os
          rw [checkStreams_cons]
          have hck := checkTake_model m.kinds srcsFin m.src fuel (m.asked + 1) m.items .exhausted pos' hrun (by simp)
          simp [World.afterNext, EvOut.obs, hm, hd, hck]
      | err e =>
        refine ⟨memSet mem id { m with asked := m.asked + 1, ended := true }, ?_, ?_⟩
        · intro i
          by_cases hid : i = id
          · subst hid
            unfold StreamInv
            rw [memSet_same]
            refine ⟨hsrc, sts', pos', ?_, fun h => by cases h⟩
            simp only [World.afterNext]
            rw [view_mk _ _ _ i _ (setStream_same _ _ _)]
            simp only [hrw, setPos_same, hssrc]
          · exact hother _ (fun j hj => memSet_other _ _ _ _ hj) i hid
        · intro es os
          rw [checkStreams_cons]
          have hck := checkTake_model m.kinds srcsFin m.src fuel (m.asked + 1) m.items (.raised e) pos' hrun (by simp)
          simp [World.afterNext, EvOut.obs, hm, hd, hck]
      | oof => simp [World.afterNext, EvOut.isOof] at hoof

theorem runAllFrom_zero (kinds : List Kind) (src : Src) (fuel : Nat) :
    runAllFrom kinds src fuel 0 = runAll kinds src fuel := rfl

theorem runFirstFrom_zero (kinds : List Kind) (src : Src) (fuel : Nat) (key : Fn) :
    runFirstFrom kinds src fuel key 0 = runFirst kinds src fuel key := rfl

theorem step_check_all (own : Nat → Nat) (hinj : ∀ a b, own a = own b → a = b) (srcsFin : List (List V × Option Err))
    (fuel : Nat) (w : World) (hw : w.WF) (ho : w.Owns own) (id : Nat) (kinds : List Kind) (si : Nat)
    (he : (Ev.all id kinds si).srcOk own) (mem : Mem) (hinv : ∀ i, StreamInv own srcsFin fuel w mem i)
    (hoof : (w.step (srcsOfFin srcsFin) fuel (.all id kinds si)).2.isOof = false) :
    StepChecked own srcsFin fuel w (.all id kinds si) mem := by
  have hother : ∀ mem' : Mem, (∀ j, j ≠ id → mem' j = mem j) → ∀ i, i ≠ id →
      StreamInv own srcsFin fuel (w.step (srcsOfFin srcsFin) fuel (.all id kinds si)).1 mem' i :=
    fun mem' hm' i hne => streamInv_other own hinj srcsFin fuel w hw ho _ he mem mem' hm' i hne (hinv i)
  have hsi : si = own id := he
  subst hsi
  have hi := hinv id
  unfold StreamInv at hi
  unfold StepChecked
  cases hm : mem id with
  | some m =>
    rw [hm] at hi
    obtain ⟨_, sts, p, hview, _⟩ := hi
    obtain ⟨s, hs, _⟩ := streams_of_view hview
    have hstep := step_all_some (srcsOfFin srcsFin) fuel w id kinds (own id) s hs
    refine ⟨mem, ?_, ?_⟩
    · rw [hstep]; exact hinv
    · intro es os
      rw [hstep, checkStreams_cons]
      simp [EvOut.obs, hm]
  | none =>
    rw [hm] at hi
    obtain ⟨hs, hp0⟩ := hi
    have hstep := step_all_none (srcsOfFin srcsFin) fuel w id kinds (own id) hs
    rw [srcsOfFin_getD, hp0, runAllFrom_zero] at hstep
    rw [hstep] at hoof hother ⊢
    have hne : (runAll kinds (srcOfFin srcsFin (own id)) fuel).fin ≠ .oof := by
      intro h; simp [EvOut.isOof, h] at hoof
    have hck : checkAll kinds (srcOfFin srcsFin (own id)) ⟨(runAll kinds (srcOfFin srcsFin (own id)) fuel).items,
        (runAll kinds (srcOfFin srcsFin (own id)) fuel).fin, (runAll kinds (srcOfFin srcsFin (own id)) fuel).pulls⟩ = true :=
      checkAll_of_spec kinds _ _ _ (runAll_spec (srcOfFin srcsFin (own id)) fuel kinds hne)
    refine ⟨memSet mem id { kinds := kinds, src := own id, ended := true }, ?_, ?_⟩
    · intro i
      by_cases hid : i = id
      · subst hid
        unfold StreamInv
        rw [memSet_same]
        refine ⟨rfl, [], (runAll kinds (srcOfFin srcsFin (own i)) fuel).pulls, ?_, fun h => by cases h⟩
        rw [view_mk _ _ _ i _ (setStream_same _ _ _)]
        simp only [readCells, List.map_nil, setPos_same]
      · exact hother _ (fun j hj => memSet_other _ _ _ _ hj) i hid
    · intro es os
      rw [checkStreams_cons]
      simp [EvOut.obs, hm, hck]

theorem step_check_first (own : Nat → Nat) (hinj : ∀ a b, own a = own b → a = b) (srcsFin : List (List V × Option Err))
    (fuel : Nat) (w : World) (hw : w.WF) (ho : w.Owns own) (id : Nat) (kinds : List Kind) (si : Nat) (key : Fn)
    (he : (Ev.first id kinds si key).srcOk own) (mem : Mem) (hinv : ∀ i, StreamInv own srcsFin fuel w mem i)
    (hoof : (w.step (srcsOfFin srcsFin) fuel (.first id kinds si key)).2.isOof = false) :
    StepChecked own srcsFin fuel w (.first id kinds si key) mem := by
  have hother : ∀ mem' : Mem, (∀ j, j ≠ id → mem' j = mem j) → ∀ i, i ≠ id →
      StreamInv own srcsFin fuel (w.step (srcsOfFin srcsFin) fuel (.first id kinds si key)).1 mem' i :=
    fun mem' hm' i hne => streamInv_other own hinj srcsFin fuel w hw ho _ he mem mem' hm' i hne (hinv i)
  have hsi : si = own id := he
  subst hsi
  have hi := hinv id
  unfold StreamInv at hi
  unfold StepChecked
  cases hm : mem id with
  | some m =>
    rw [hm] at hi
    obtain ⟨_, sts, p, hview, _⟩ := hi
    obtain ⟨s, hs, _⟩ := streams_of_view hview
    have hstep := step_first_some (srcsOfFin srcsFin) fuel w id kinds (own id) key s hs
    refine ⟨mem, ?_, ?_⟩
    · rw [hstep]; exact hinv
    · intro es os
      rw [hstep, checkStreams_cons]
      simp [EvOut.obs, hm]
  | none =>
    rw [hm] at hi
    obtain ⟨hs, hp0⟩ := hi
    have hstep := step_first_none (srcsOfFin srcsFin) fuel w id kinds (own id) key hs
    rw [srcsOfFin_getD, hp0, runFirstFrom_zero] at hstep
    rw [hstep] at hoof hother ⊢
    have hne : (match (runFirst kinds (srcOfFin srcsFin (own id)) fuel key).1 with | .oof => False | _ => True) := by
      revert hoof
      cases (runFirst kinds (srcOfFin srcsFin (own id)) fuel key).1 <;> simp [EvOut.isOof]
    have hck : checkFirst kinds (srcOfFin srcsFin (own id)) key
        (firstObsOf (runFirst kinds (srcOfFin srcsFin (own id)) fuel key).1)
        (runFirst kinds (srcOfFin srcsFin (own id)) fuel key).2 = true :=
      checkFirst_of_spec kinds _ _ key _ _ (runFirst_spec (srcOfFin srcsFin (own id)) fuel kinds key hne)
    refine ⟨memSet mem id { kinds := kinds, src := own id, ended := true }, ?_, ?_⟩
    · intro i
      by_cases hid : i = id
      · subst hid
        unfold StreamInv
        rw [memSet_same]
        refine ⟨rfl, [], (runFirst kinds (srcOfFin srcsFin (own i)) fuel key).2, ?_, fun h => by cases h⟩
        rw [view_mk _ _ _ i _ (setStream_same _ _ _)]
        simp only [readCells, List.map_nil, setPos_same]
      · exact hother _ (fun j hj => memSet_other _ _ _ _ hj) i hid
    · intro es os
      rw [checkStreams_cons]
      simp [EvOut.obs, hm, hck]

/-- **The stream checker holds of the model**, for every schedule: any number of streams, opened
    and pulled in any order, each on the source that belongs to it. -/
theorem checkStreams_model (own : Nat → Nat) (hinj : ∀ a b, own a = own b → a = b) (srcsFin : List (List V × Option Err))
    (fuel : Nat) : ∀ (sched : List Ev) (w : World) (mem : Mem), w.WF → w.Owns own → (∀ e ∈ sched, e.srcOk own) →
      (∀ i, StreamInv own srcsFin fuel w mem i) →
      (∀ o ∈ (w.run (srcsOfFin srcsFin) fuel sched).2, o.2.isOof = false) →
      checkStreams srcsFin sched ((w.run (srcsOfFin srcsFin) fuel sched).2.map (fun o => o.2.obs)) mem = true := by
  intro sched
  induction sched with
  | nil => intro w mem _ _ _ _ _; rfl
  | cons e es ih =>
    intro w mem hw ho hs hinv hoof
    have he := hs e (List.mem_cons_self ..)
    have hoof1 : (w.step (srcsOfFin srcsFin) fuel e).2.isOof = false :=
      hoof (e.id, (w.step (srcsOfFin srcsFin) fuel e).2) (by simp [World.run])
    have hsc : StepChecked own srcsFin fuel w e mem := by
      cases e with
      | «open» id kinds si => exact step_check_open own hinj srcsFin fuel w hw ho id kinds si he mem hinv hoof1
      | next id => exact step_check_next own hinj srcsFin fuel w hw ho id mem hinv hoof1
      | all id kinds si => exact step_check_all own hinj srcsFin fuel w hw ho id kinds si he mem hinv hoof1
      | first id kinds si key => exact step_check_first own hinj srcsFin fuel w hw ho id kinds si key he mem hinv hoof1
    obtain ⟨mem', hinv', hck⟩ := hsc
    simp only [World.run, List.map_cons]
    rw [hck]
    exact ih _ mem' (step_wf _ fuel w hw e) (step_owns own _ fuel w ho e he)
      (fun e' he' => hs e' (List.mem_cons_of_mem _ he')) hinv'
      (fun o ho' => hoof o (by simp only [World.run]; exact List.mem_cons_of_mem _ ho'))

theorem streamInv_empty (own : Nat → Nat) (srcsFin : List (List V × Option Err)) (fuel : Nat) (i : Nat) :
    StreamInv own srcsFin fuel World.empty (fun _ => none) i := by
  unfold StreamInv
  exact ⟨rfl, rfl⟩

end Glom.C17
