import Glom.Lemmas.C20
/-
  C20 — the error trace of a call does not see the re-entrant calls made inside it.

  Two runs of one call: `A` (as it is: custom specs make their inner calls, which allocate scope maps
  and lists of their own) and `B` (the same call in which no inner call is made, `erase`).  The heap
  of `B` embeds into the heap of `A` (`Emb`: an injection of addresses under which related frames
  have related fields); every operation of `_glom` preserves the embedding, an inner call (covered)
  leaves the image untouched, and the trace rendered from related roots is the same list of lines.
-/
namespace Glom.C20.Re

/-! ### the embedding -/

def PRel (φ : List Nat) (x y : Nat) : Prop := φ[x]? = some y

def ORel (φ : List Nat) : Option Nat → Option Nat → Prop
  | none, none => True
  | some x, some y => φ[x]? = some y
  | _, _ => False

/-- lists of addresses related item by item -/
inductive LRel (φ : List Nat) : List Nat → List Nat → Prop where
  | nil : LRel φ [] []
  | cons {x y : Nat} {xs ys : List Nat} : PRel φ x y → LRel φ xs ys → LRel φ (x :: xs) (y :: ys)

structure FrameRel (φ ψ : List Nat) (f g : BFrame) : Prop where
  spec : f.spec = g.spec
  up : ORel φ f.up g.up
  ce : ψ[f.childErrors]? = some g.childErrors
  lc : ORel φ f.lastChild g.lastChild
  err : f.curError = g.curError
  np : f.noPyframe = g.noPyframe

structure Emb (φ ψ : List Nat) (B A : BSt) : Prop where
  lenF : φ.length = B.frames.length
  lenL : ψ.length = B.lists.length
  leF : B.frames.length ≤ A.frames.length
  bndF : ∀ (b a : Nat), φ[b]? = some a → a < A.frames.length
  bndL : ∀ (l a : Nat), ψ[l]? = some a → a < A.lists.length
  injF : ∀ (b b' a : Nat), φ[b]? = some a → φ[b']? = some a → b = b'
  injL : ∀ (l l' a : Nat), ψ[l]? = some a → ψ[l']? = some a → l = l'
  fr : ∀ (b a : Nat), φ[b]? = some a → ∃ f g, B.frames[b]? = some f ∧ A.frames[a]? = some g ∧ FrameRel φ ψ f g
  ls : ∀ (l a : Nat), ψ[l]? = some a → ∃ xs ys, B.lists[l]? = some xs ∧ A.lists[a]? = some ys ∧ LRel φ xs ys

theorem snoc_getElem? (l : List Nat) (x i : Nat) :
    (l ++ [x])[i]? = if i < l.length then l[i]? else if i = l.length then some x else none := by
  by_cases h : i < l.length
  · simp [h, List.getElem?_append_left h]
  · simp only [h, if_false]
    rw [List.getElem?_append_right (by omega)]
    by_cases h2 : i = l.length
    · simp [h2]
    · simp only [h2, if_false]
      have : i - l.length ≠ 0 := by omega
      cases hk : i - l.length with
      | zero => exact absurd hk this
      | succ k => simp

theorem PRel.mono {φ : List Nat} (φ' : List Nat) {x y : Nat} (h : PRel φ x y) : PRel (φ ++ φ') x y := by
  unfold PRel at *
  have : x < φ.length := (List.getElem?_eq_some_iff.mp h).1
  rw [List.getElem?_append_left this]; exact h

theorem ORel.mono {φ : List Nat} (φ' : List Nat) {x y : Option Nat} (h : ORel φ x y) : ORel (φ ++ φ') x y := by
  cases x <;> cases y <;> simp only [ORel] at h ⊢
  exact PRel.mono φ' h

theorem FrameRel.mono {φ ψ : List Nat} (φ' ψ' : List Nat) {f g : BFrame} (h : FrameRel φ ψ f g) :
    FrameRel (φ ++ φ') (ψ ++ ψ') f g :=
  ⟨h.spec, h.up.mono φ', PRel.mono ψ' h.ce, h.lc.mono φ', h.err, h.np⟩

theorem LRel.mono {φ : List Nat} (φ' : List Nat) {xs ys : List Nat} (h : LRel φ xs ys) :
    LRel (φ ++ φ') xs ys := by
  induction h with
  | nil => exact .nil
  | cons h1 _ ih => exact .cons (PRel.mono φ' h1) ih

/-- the run `A` goes on by itself (an inner call): what existed is untouched, so the embedding stays -/
theorem Emb.grow {φ ψ : List Nat} {B A A' : BSt} (h : Emb φ ψ B A)
    (hF : ∀ i, i < A.frames.length → A'.frames[i]? = A.frames[i]?)
    (hL : ∀ l, l < A.lists.length → A'.lists[l]? = A.lists[l]?)
    (gF : A.frames.length ≤ A'.frames.length) (gL : A.lists.length ≤ A'.lists.length) : Emb φ ψ B A' := by
  refine ⟨h.lenF, h.lenL, Nat.le_trans h.leF gF, fun b a hb => by have := h.bndF b a hb; omega, fun l a hl => by have := h.bndL l a hl; omega,
    h.injF, h.injL, ?_, ?_⟩
  · intro b a hb
    obtain ⟨f, g, h1, h2, h3⟩ := h.fr b a hb
    exact ⟨f, g, h1, by rw [hF a (h.bndF b a hb)]; exact h2, h3⟩
  · intro l a hl
    obtain ⟨xs, ys, h1, h2, h3⟩ := h.ls l a hl
    exact ⟨xs, ys, h1, by rw [hL a (h.bndL l a hl)]; exact h2, h3⟩

/-- `new_child` on both sides -/
theorem Emb.alloc {φ ψ : List Nat} {B A : BSt} (h : Emb φ ψ B A) (spec : Label) (uB uA : Option Nat)
    (hu : ORel φ uB uA) :
    Emb (φ ++ [A.frames.length]) (ψ ++ [A.lists.length]) (B.alloc spec uB).1 (A.alloc spec uA).1 := by
  have hφ : ∀ b a, (φ ++ [A.frames.length])[b]? = some a →
      (b < φ.length ∧ φ[b]? = some a) ∨ (b = φ.length ∧ a = A.frames.length) := by
    intro b a hb
    rw [snoc_getElem?] at hb
    by_cases h1 : b < φ.length
    · simp only [h1, if_true] at hb; exact Or.inl ⟨h1, hb⟩
    · simp only [h1, if_false] at hb
      by_cases h2 : b = φ.length
      · simp only [h2, if_true] at hb; injection hb with hb; exact Or.inr ⟨h2, hb.symm⟩
      · simp [h2] at hb
  have hψ : ∀ b a, (ψ ++ [A.lists.length])[b]? = some a →
      (b < ψ.length ∧ ψ[b]? = some a) ∨ (b = ψ.length ∧ a = A.lists.length) := by
    intro b a hb
    rw [snoc_getElem?] at hb
    by_cases h1 : b < ψ.length
    · simp only [h1, if_true] at hb; exact Or.inl ⟨h1, hb⟩
    · simp only [h1, if_false] at hb
      by_cases h2 : b = ψ.length
      · simp only [h2, if_true] at hb; injection hb with hb; exact Or.inr ⟨h2, hb.symm⟩
      · simp [h2] at hb
  refine ⟨by simp [BSt.alloc, h.lenF], by simp [BSt.alloc, h.lenL], by simp [BSt.alloc]; exact h.leF, ?_, ?_, ?_, ?_, ?_, ?_⟩
  · intro b a hb
    simp only [BSt.alloc, List.length_append, List.length_cons, List.length_nil]
    rcases hφ b a hb with ⟨_, h1⟩ | ⟨_, h1⟩
    · have := h.bndF b a h1; omega
    · omega
  · intro l a hl
    simp only [BSt.alloc, List.length_append, List.length_cons, List.length_nil]
    rcases hψ l a hl with ⟨_, h1⟩ | ⟨_, h1⟩
    · have := h.bndL l a h1; omega
    · omega
  · intro b b' a hb hb'
    rcases hφ b a hb with ⟨_, h1⟩ | ⟨h1, h1'⟩ <;> rcases hφ b' a hb' with ⟨_, h2⟩ | ⟨h2, h2'⟩
    · exact h.injF b b' a h1 h2
    · have := h.bndF b a h1; omega
    · have := h.bndF b' a h2; omega
    · omega
  · intro b b' a hb hb'
    rcases hψ b a hb with ⟨_, h1⟩ | ⟨h1, h1'⟩ <;> rcases hψ b' a hb' with ⟨_, h2⟩ | ⟨h2, h2'⟩
    · exact h.injL b b' a h1 h2
    · have := h.bndL b a h1; omega
    · have := h.bndL b' a h2; omega
    · omega
  · intro b a hb
    simp only [BSt.alloc]
    rcases hφ b a hb with ⟨hlt, h1⟩ | ⟨h1, h1'⟩
    · obtain ⟨f, g, e1, e2, e3⟩ := h.fr b a h1
      refine ⟨f, g, ?_, ?_, e3.mono _ _⟩
      · rw [List.getElem?_append_left (by rw [← h.lenF]; exact hlt)]; exact e1
      · rw [List.getElem?_append_left (h.bndF b a h1)]; exact e2
    · subst h1'
      refine ⟨⟨spec, uB, B.lists.length, none, none, false⟩, ⟨spec, uA, A.lists.length, none, none, false⟩, ?_, ?_, ?_⟩
      · rw [h1, h.lenF]; simp
      · simp
      · refine ⟨rfl, hu.mono _, ?_, trivial, rfl, rfl⟩
        simp only
        rw [snoc_getElem?, h.lenL]; simp
  · intro l a hl
    simp only [BSt.alloc]
    rcases hψ l a hl with ⟨hlt, h1⟩ | ⟨h1, h1'⟩
    · obtain ⟨xs, ys, e1, e2, e3⟩ := h.ls l a h1
      refine ⟨xs, ys, ?_, ?_, e3.mono _⟩
      · rw [List.getElem?_append_left (by rw [← h.lenL]; exact hlt)]; exact e1
      · rw [List.getElem?_append_left (h.bndL l a h1)]; exact e2
    · subst h1'
      refine ⟨[], [], ?_, ?_, .nil⟩
      · rw [h1, h.lenL]; simp
      · simp

theorem Emb.modFrame {φ ψ : List Nat} {B A : BSt} (h : Emb φ ψ B A) (b a : Nat) (hb : φ[b]? = some a)
    (gB gA : BFrame → BFrame) (hg : ∀ f g, FrameRel φ ψ f g → FrameRel φ ψ (gB f) (gA g)) :
    Emb φ ψ (B.modFrame b gB) (A.modFrame a gA) := by
  refine ⟨by simp [BSt.modFrame, modAt_length, h.lenF], by simp [BSt.modFrame, h.lenL],
    by simp [BSt.modFrame, modAt_length]; exact h.leF, ?_, ?_, h.injF, h.injL, ?_, ?_⟩
  · intro b' a' hb'; simp only [BSt.modFrame, modAt_length]; exact h.bndF b' a' hb'
  · intro l a' hl; simp only [BSt.modFrame]; exact h.bndL l a' hl
  · intro b' a' hb'
    obtain ⟨f, g, e1, e2, e3⟩ := h.fr b' a' hb'
    simp only [BSt.modFrame, modAt_getElem?]
    by_cases hbb : b' = b
    · subst hbb
      have : a' = a := by rw [hb] at hb'; injection hb' with hb'; exact hb'.symm
      subst this
      exact ⟨gB f, gA g, by simp [e1], by simp [e2], hg f g e3⟩
    · have : a' ≠ a := fun haa => hbb (h.injF b' b a (haa ▸ hb') hb)
      exact ⟨f, g, by simp [hbb, e1], by simp [this, e2], e3⟩
  · intro l a' hl; simp only [BSt.modFrame]; exact h.ls l a' hl

theorem Emb.modList {φ ψ : List Nat} {B A : BSt} (h : Emb φ ψ B A) (l a : Nat) (hl : ψ[l]? = some a)
    (gB gA : List Nat → List Nat) (hg : ∀ xs ys, LRel φ xs ys → LRel φ (gB xs) (gA ys)) :
    Emb φ ψ (B.modList l gB) (A.modList a gA) := by
  refine ⟨by simp [BSt.modList, h.lenF], by simp [BSt.modList, modAt_length, h.lenL],
    by simp [BSt.modList]; exact h.leF, ?_, ?_, h.injF, h.injL, ?_, ?_⟩
  · intro b' a' hb'; simp only [BSt.modList]; exact h.bndF b' a' hb'
  · intro l' a' hl'; simp only [BSt.modList, modAt_length]; exact h.bndL l' a' hl'
  · intro b' a' hb'; simp only [BSt.modList]; exact h.fr b' a' hb'
  · intro l' a' hl'
    obtain ⟨xs, ys, e1, e2, e3⟩ := h.ls l' a' hl'
    simp only [BSt.modList, modAt_getElem?]
    by_cases hll : l' = l
    · subst hll
      have : a' = a := by rw [hl] at hl'; injection hl' with hl'; exact hl'.symm
      subst this
      exact ⟨gB xs, gA ys, by simp [e1], by simp [e2], hg xs ys e3⟩
    · have : a' ≠ a := fun haa => hll (h.injL l' l a (haa ▸ hl') hl)
      exact ⟨xs, ys, by simp [hll, e1], by simp [this, e2], e3⟩

theorem LRel.snoc {φ : List Nat} {xs ys : List Nat} {x y : Nat} (h : LRel φ xs ys) (hx : PRel φ x y) :
    LRel φ (xs ++ [x]) (ys ++ [y]) := by
  induction h with
  | nil => exact .cons hx .nil
  | cons h1 _ ih => exact .cons h1 ih

/-! ### the run without inner calls: every scope map has the list of its own address, parents are
older, children and failed branches younger -/

structure WFB (st : BSt) : Prop where
  len : st.lists.length = st.frames.length
  ce : ∀ (a : Nat) (f : BFrame), st.frames[a]? = some f → f.childErrors = a
  up : ∀ (a : Nat) (f : BFrame), st.frames[a]? = some f → ∀ u, f.up = some u → u < a
  lc : ∀ (a : Nat) (f : BFrame), st.frames[a]? = some f → ∀ c, f.lastChild = some c → a < c ∧ c < st.frames.length
  ls : ∀ (a : Nat) (xs : List Nat), st.lists[a]? = some xs → ∀ x ∈ xs, a < x ∧ x < st.frames.length

theorem WFB.modFrame {st : BSt} (h : WFB st) (a : Nat) (g : BFrame → BFrame)
    (hce : ∀ f, (g f).childErrors = f.childErrors) (hup : ∀ f, (g f).up = f.up)
    (hlc : ∀ f, st.frames[a]? = some f → ∀ c, (g f).lastChild = some c → a < c ∧ c < st.frames.length) :
    WFB (st.modFrame a g) := by
  refine ⟨by simp [BSt.modFrame, modAt_length, h.len], ?_, ?_, ?_, ?_⟩
  · intro b f hf
    simp only [BSt.modFrame, modAt_getElem?] at hf
    by_cases hb : b = a
    · subst hb
      cases hx : st.frames[b]? with
      | none => simp [hx] at hf
      | some x => simp [hx] at hf; subst hf; rw [hce]; exact h.ce b x hx
    · simp only [if_neg hb] at hf; exact h.ce b f hf
  · intro b f hf u hu
    simp only [BSt.modFrame, modAt_getElem?] at hf
    by_cases hb : b = a
    · subst hb
      cases hx : st.frames[b]? with
      | none => simp [hx] at hf
      | some x => simp [hx] at hf; subst hf; rw [hup] at hu; exact h.up b x hx u hu
    · simp only [if_neg hb] at hf; exact h.up b f hf u hu
  · intro b f hf c hc
    simp only [BSt.modFrame, modAt_getElem?, modAt_length] at hf ⊢
    by_cases hb : b = a
    · subst hb
      cases hx : st.frames[b]? with
      | none => simp [hx] at hf
      | some x => simp [hx] at hf; subst hf; exact hlc x hx c hc
    · simp only [if_neg hb] at hf; exact h.lc b f hf c hc
  · intro b xs hxs x hx
    simp only [BSt.modFrame, modAt_length] at hxs ⊢
    exact h.ls b xs hxs x hx

theorem WFB.modList {st : BSt} (h : WFB st) (l : Nat) (g : List Nat → List Nat)
    (hg : ∀ xs, st.lists[l]? = some xs → ∀ x ∈ g xs, l < x ∧ x < st.frames.length) : WFB (st.modList l g) := by
  refine ⟨by simp [BSt.modList, modAt_length, h.len], h.ce, h.up, h.lc, ?_⟩
  intro b xs hxs x hx
  simp only [BSt.modList, modAt_getElem?] at hxs ⊢
  by_cases hb : b = l
  · subst hb
    cases hy : st.lists[b]? with
    | none => simp [hy] at hxs
    | some y => simp [hy] at hxs; subst hxs; exact hg y hy x hx
  · simp only [if_neg hb] at hxs; exact h.ls b xs hxs x hx

theorem WFB.alloc {st : BSt} (h : WFB st) (spec : Label) (up : Option Nat) (hup : ∀ u, up = some u → u < st.frames.length) :
    WFB (st.alloc spec up).1 := by
  refine ⟨by simp [BSt.alloc, h.len], ?_, ?_, ?_, ?_⟩
  · intro a f hf
    simp only [BSt.alloc] at hf
    by_cases ha : a < st.frames.length
    · rw [List.getElem?_append_left ha] at hf; exact h.ce a f hf
    · rw [List.getElem?_append_right (by omega)] at hf
      cases hk : a - st.frames.length with
      | zero => simp [hk] at hf; subst hf; simp only; rw [h.len]; omega
      | succ k => simp [hk] at hf
  · intro a f hf u hu
    simp only [BSt.alloc] at hf
    by_cases ha : a < st.frames.length
    · rw [List.getElem?_append_left ha] at hf; exact h.up a f hf u hu
    · rw [List.getElem?_append_right (by omega)] at hf
      cases hk : a - st.frames.length with
      | zero => simp [hk] at hf; subst hf; simp only at hu; have := hup u hu; omega
      | succ k => simp [hk] at hf
  · intro a f hf c hc
    simp only [BSt.alloc, List.length_append, List.length_cons, List.length_nil] at hf ⊢
    by_cases ha : a < st.frames.length
    · rw [List.getElem?_append_left ha] at hf; have := h.lc a f hf c hc; omega
    · rw [List.getElem?_append_right (by omega)] at hf
      cases hk : a - st.frames.length with
      | zero => simp [hk] at hf; subst hf; simp at hc
      | succ k => simp [hk] at hf
  · intro a xs hxs x hx
    simp only [BSt.alloc, List.length_append, List.length_cons, List.length_nil] at hxs ⊢
    by_cases ha : a < st.lists.length
    · rw [List.getElem?_append_left ha] at hxs; have := h.ls a xs hxs x hx; omega
    · rw [List.getElem?_append_right (by omega)] at hxs
      cases hk : a - st.lists.length with
      | zero => simp [hk] at hxs; subst hxs; simp at hx
      | succ k => simp [hk] at hxs

theorem Emb.dom {φ ψ : List Nat} {B A : BSt} (h : Emb φ ψ B A) {b a : Nat} (hb : φ[b]? = some a) : b < B.frames.length := by
  rw [← h.lenF]; exact (List.getElem?_eq_some_iff.mp hb).1

/-! ### the operations of `_glom` on both sides -/

theorem enter_emb {φ ψ : List Nat} {B A : BSt} (h : Emb φ ψ B A) (w : WFB B) (pB pA : Nat) (hp : φ[pB]? = some pA)
    (l : Label) :
    Emb (φ ++ [A.frames.length]) (ψ ++ [A.lists.length]) (enter B pB l).1 (enter A pA l).1 ∧
    WFB (enter B pB l).1 ∧
    (φ ++ [A.frames.length])[(enter B pB l).2]? = some (enter A pA l).2 := by
  have hdom := h.dom hp
  have h1 := h.alloc l (some pB) (some pA) hp
  have hnew : (φ ++ [A.frames.length])[B.frames.length]? = some A.frames.length := by
    rw [snoc_getElem?, h.lenF]; simp
  refine ⟨?_, ?_, ?_⟩
  · simp only [enter]
    apply h1.modFrame pB pA (PRel.mono _ hp)
    intro f g hfg
    exact ⟨hfg.spec, hfg.up, hfg.ce, hnew, hfg.err, hfg.np⟩
  · simp only [enter]
    apply (w.alloc l (some pB) (by intro u hu; cases hu; exact hdom)).modFrame
    · intro f; rfl
    · intro f; rfl
    · intro f _ c hc
      simp only [BSt.alloc] at hc ⊢
      injection hc with hc
      subst hc
      simp; exact hdom
  · simp only [enter, BSt.alloc]; exact hnew

theorem record_emb {φ ψ : List Nat} {B A : BSt} (h : Emb φ ψ B A) (w : WFB B) (cB cA : Nat) (hc : φ[cB]? = some cA)
    (fuB fuA : BFrame) (hfu : FrameRel φ ψ fuB fuA) (hlt : fuB.childErrors < cB) (e : Err) :
    Emb φ ψ (record B cB fuB e) (record A cA fuA e) ∧ WFB (record B cB fuB e) := by
  have hdom := h.dom hc
  refine ⟨?_, ?_⟩
  · simp only [record]
    apply (h.modList fuB.childErrors fuA.childErrors hfu.ce (· ++ [cB]) (· ++ [cA])
      (fun xs ys hxy => hxy.snoc hc)).modFrame cB cA hc
    intro f g hfg
    exact ⟨hfg.spec, hfg.up, hfg.ce, hfg.lc, rfl, hfg.np⟩
  · simp only [record]
    apply (w.modList fuB.childErrors (· ++ [cB]) ?_).modFrame
    · intro f; rfl
    · intro f; rfl
    · intro f hf c hc'
      simp only [BSt.modList] at hf ⊢
      exact w.lc cB f hf c hc'
    · intro xs hxs x hx
      simp only [List.mem_append, List.mem_singleton] at hx
      rcases hx with hx | hx
      · exact w.ls _ xs hxs x hx
      · subst hx; exact ⟨hlt, hdom⟩

theorem walk_emb (e : Err) : ∀ (n m : Nat) (B A : BSt) (φ ψ : List Nat) (cB cA : Nat), n ≤ m → cB < n →
    Emb φ ψ B A → WFB B → φ[cB]? = some cA →
    Emb φ ψ (walk e n B cB).1 (walk e m A cA).1 ∧ WFB (walk e n B cB).1 ∧ (walk e n B cB).2 = (walk e m A cA).2 := by
  intro n
  induction n with
  | zero => intro m B A φ ψ cB cA _ hlt; omega
  | succ n ih =>
    intro m B A φ ψ cB cA hnm hlt h w hc
    obtain ⟨j, rfl⟩ : ∃ j, m = j + 1 := ⟨m - 1, by omega⟩
    obtain ⟨f, g, hf, hg, hfg⟩ := h.fr cB cA hc
    simp only [walk, hf, hg]
    rw [← hfg.np]
    by_cases hn : f.noPyframe = true
    · simp only [hn, if_true]
      have hup := hfg.up
      cases huB : f.up with
      | none =>
        rw [huB] at hup
        cases huA : g.up with
        | none => exact ⟨h, w, rfl⟩
        | some u' => rw [huA] at hup; simp [ORel] at hup
      | some u =>
        rw [huB] at hup
        cases huA : g.up with
        | none => rw [huA] at hup; simp [ORel] at hup
        | some u' =>
          rw [huA] at hup
          simp only [ORel] at hup
          obtain ⟨fu, gu, hfu, hgu, hfgu⟩ := h.fr u u' hup
          simp only [hfu, hgu]
          have hult : u < cB := w.up cB f hf u huB
          have hr := record_emb h w cB cA hc fu gu hfgu (by rw [w.ce u fu hfu]; exact hult) e
          exact ih j _ _ φ ψ u u' (by omega) (by omega) hr.1 hr.2 hup
    · simp only [hn]
      exact ⟨h, w, rfl⟩

theorem onError_emb {φ ψ : List Nat} {B A : BSt} (h : Emb φ ψ B A) (w : WFB B) (aB aA : Nat) (ha : φ[aB]? = some aA)
    (e : Err) :
    Emb φ ψ (onError B aB e).1 (onError A aA e).1 ∧ WFB (onError B aB e).1 ∧ (onError B aB e).2 = (onError A aA e).2 := by
  obtain ⟨f, g, hf, hg, hfg⟩ := h.fr aB aA ha
  simp only [onError, hf, hg]
  have hup := hfg.up
  cases huB : f.up with
  | none =>
    rw [huB] at hup
    cases huA : g.up with
    | none => exact ⟨h, w, rfl⟩
    | some u' => rw [huA] at hup; simp [ORel] at hup
  | some p =>
    rw [huB] at hup
    cases huA : g.up with
    | none => rw [huA] at hup; simp [ORel] at hup
    | some p' =>
      rw [huA] at hup
      simp only [ORel] at hup
      obtain ⟨fp, gp, hfp, hgp, hfgp⟩ := h.fr p p' hup
      simp only [hfp, hgp]
      have hplt : p < aB := w.up aB f hf p huB
      have hr := record_emb h w aB aA ha fp gp hfgp (by rw [w.ce p fp hfp]; exact hplt) e
      have hlen : (record B aB fp e).frames.length = B.frames.length := by
        simp [record, BSt.modFrame, BSt.modList, modAt_length]
      have hlenA : (record A aA gp e).frames.length = A.frames.length := by
        simp [record, BSt.modFrame, BSt.modList, modAt_length]
      exact walk_emb e _ _ _ _ φ ψ p p' (by rw [hlen, hlenA]; exact h.leF) (by rw [hlen]; exact h.dom hup) hr.1 hr.2 hup

theorem chainChild_emb {φ ψ : List Nat} {B A : BSt} (h : Emb φ ψ B A) (w : WFB B) (aB aA : Nat) (ha : φ[aB]? = some aA) :
    Emb φ ψ (chainChild B aB).1 (chainChild A aA).1 ∧ WFB (chainChild B aB).1 ∧
    φ[(chainChild B aB).2]? = some (chainChild A aA).2 := by
  obtain ⟨f, g, hf, hg, hfg⟩ := h.fr aB aA ha
  simp only [chainChild, hf, hg]
  have hlc := hfg.lc
  cases hcB : f.lastChild with
  | none =>
    rw [hcB] at hlc
    cases hcA : g.lastChild with
    | none => exact ⟨h, w, ha⟩
    | some c' => rw [hcA] at hlc; simp [ORel] at hlc
  | some c =>
    rw [hcB] at hlc
    cases hcA : g.lastChild with
    | none => rw [hcA] at hlc; simp [ORel] at hlc
    | some c' =>
      rw [hcA] at hlc
      simp only [ORel] at hlc
      obtain ⟨fc, gc, hfc, hgc, hfgc⟩ := h.fr c c' hlc
      simp only [hfc, hgc]
      have hup := hfgc.up
      cases huB : fc.up with
      | none =>
        rw [huB] at hup
        cases huA : gc.up with
        | none => exact ⟨h, w, ha⟩
        | some u' => rw [huA] at hup; simp [ORel] at hup
      | some u =>
        rw [huB] at hup
        cases huA : gc.up with
        | none => rw [huA] at hup; simp [ORel] at hup
        | some u' =>
          simp only
          refine ⟨?_, ?_, hlc⟩
          · apply (h.modFrame c c' hlc (fun f => { f with noPyframe := true }) (fun f => { f with noPyframe := true })
              (fun f g hfg => ⟨hfg.spec, hfg.up, hfg.ce, hfg.lc, hfg.err, rfl⟩)).modList fc.childErrors gc.childErrors hfgc.ce
            intro _ _ _; exact .nil
          · apply (w.modFrame c (fun f => { f with noPyframe := true }) (fun _ => rfl) (fun _ => rfl)
              (fun f hf c2 hc2 => w.lc c f hf c2 hc2)).modList
            intro xs _ x hx; simp at hx

/-! ### the evaluation on both sides -/

/-- what `_glom` does with the outcome of the spec it evaluated in the scope `a`: return it, or run
    the handler -/
def finish (st : BSt) (a : Nat) : Except Err Nat → BSt × Except Err Nat
  | .ok v => (st, .ok v)
  | .error e => ((onError st a e).1, .error (onError st a e).2)

theorem eval_sub_eq (l : Label) (c : RSpec) (st : BSt) (p : Nat) :
    eval (.sub l c) st p =
      finish (eval c (enter st p l).1 (enter st p l).2).1 (enter st p l).2 (eval c (enter st p l).1 (enter st p l).2).2 := by
  simp only [eval]
  rcases h : eval c (enter st p l).1 (enter st p l).2 with ⟨st2, v | e⟩ <;> simp [finish]

theorem eval_coal_eq (l : Label) (c : RSpec) (st : BSt) (p : Nat) :
    eval (.coal l c) st p =
      finish (eval c (enter st p l).1 (enter st p l).2).1 (enter st p l).2
        (match (eval c (enter st p l).1 (enter st p l).2).2 with | .ok v => .ok v | .error _ => .error (.coalesce l)) := by
  simp only [eval]
  rcases h : eval c (enter st p l).1 (enter st p l).2 with ⟨st2, v | e⟩ <;> simp [finish]

theorem eval_leaf_eq (l : Label) (r : Except Err Nat) (st : BSt) (p : Nat) :
    eval (.leaf l r) st p = finish (enter st p l).1 (enter st p l).2 r := by
  cases r <;> simp [eval, finish]

theorem eval_reent_eq (l : Label) (how : How) (inner after : RSpec) (st : BSt) (p : Nat) :
    eval (.reent l how inner after) st p =
      let s1 := enter st p l
      let st3 := (eval inner (start s1.1 s1.2 how).1 (start s1.1 s1.2 how).2).1
      finish (eval after st3 s1.2).1 s1.2 (eval after st3 s1.2).2 := by
  simp only [eval]
  rcases h : eval after (eval inner (start (enter st p l).1 (enter st p l).2 how).1
      (start (enter st p l).1 (enter st p l).2 how).2).1 (enter st p l).2 with ⟨st2, v | e⟩ <;> simp [finish]

theorem finish_emb {φ ψ : List Nat} {B A : BSt} (h : Emb φ ψ B A) (w : WFB B) (aB aA : Nat) (ha : φ[aB]? = some aA)
    (r : Except Err Nat) :
    Emb φ ψ (finish B aB r).1 (finish A aA r).1 ∧ WFB (finish B aB r).1 ∧ (finish B aB r).2 = (finish A aA r).2 := by
  cases r with
  | ok v => exact ⟨h, w, rfl⟩
  | error e =>
    have := onError_emb h w aB aA ha e
    exact ⟨this.1, this.2.1, by simp only [finish]; rw [this.2.2]⟩

/-- a covered inner call leaves what existed untouched -/
theorem reentry_same (st : BSt) (a : Nat) (how : How) (inner : RSpec) (hhow : how.covers = true)
    (hin : inner.covered = true) :
    Step st.frames.length st.lists.length st (eval inner (start st a how).1 (start st a how).2).1 := by
  have hown : Own st.frames.length st.lists.length st :=
    ⟨Nat.le_refl _, Nat.le_refl _, fun b f hb hf => by
      have := (List.getElem?_eq_some_iff.mp hf).1; omega⟩
  obtain ⟨s1, s2, s3⟩ := step_start hown a how hhow
  exact s1.trans (eval_owned st.frames.length st.lists.length inner _ _ hin s1.own s2 s3).1

theorem chainChild_length (st : BSt) (a : Nat) : (chainChild st a).1.frames.length = st.frames.length := by
  simp only [chainChild]
  split
  · rfl
  · split
    · rfl
    · split
      · rfl
      · split
        · rfl
        · simp [BSt.modList, BSt.modFrame, modAt_length]

theorem eval_emb : ∀ (s : RSpec), s.covered = true → ∀ (B A : BSt) (φ ψ : List Nat) (pB pA : Nat),
    Emb φ ψ B A → WFB B → φ[pB]? = some pA →
    ∃ φ' ψ', Emb (φ ++ φ') (ψ ++ ψ') (eval (erase s) B pB).1 (eval s A pA).1 ∧ WFB (eval (erase s) B pB).1 ∧
      (eval (erase s) B pB).2 = (eval s A pA).2 ∧
      ((φ' = [] ∧ (eval s A pA).1.frames.length = A.frames.length) ∨ ∃ t, φ' = A.frames.length :: t) := by
  intro s
  induction s with
  | pure v =>
    intro _ B A φ ψ pB pA h w hp
    exact ⟨[], [], by simpa [erase, eval] using h, by simpa [erase, eval] using w, rfl, Or.inl ⟨rfl, rfl⟩⟩
  | leaf l r =>
    intro _ B A φ ψ pB pA h w hp
    obtain ⟨e1, e2, e3⟩ := enter_emb h w pB pA hp l
    simp only [erase, eval_leaf_eq]
    have := finish_emb e1 e2 _ _ e3 r
    exact ⟨_, _, this.1, this.2.1, this.2.2, Or.inr ⟨[], rfl⟩⟩
  | sub l c ih =>
    intro hc B A φ ψ pB pA h w hp
    obtain ⟨e1, e2, e3⟩ := enter_emb h w pB pA hp l
    obtain ⟨φ', ψ', i1, i2, i3, _⟩ := ih (by simpa [RSpec.covered] using hc) _ _ _ _ _ _ e1 e2 e3
    simp only [erase, eval_sub_eq]
    rw [i3]
    have := finish_emb i1 i2 _ _ (PRel.mono φ' e3)
      (eval c (enter A pA l).1 (enter A pA l).2).2
    exact ⟨[A.frames.length] ++ φ', [A.lists.length] ++ ψ',
      by rw [← List.append_assoc, ← List.append_assoc]; exact this.1, this.2.1, this.2.2, Or.inr ⟨φ', rfl⟩⟩
  | coal l c ih =>
    intro hc B A φ ψ pB pA h w hp
    obtain ⟨e1, e2, e3⟩ := enter_emb h w pB pA hp l
    obtain ⟨φ', ψ', i1, i2, i3, _⟩ := ih (by simpa [RSpec.covered] using hc) _ _ _ _ _ _ e1 e2 e3
    simp only [erase, eval_coal_eq]
    rw [i3]
    have := finish_emb i1 i2 _ _ (PRel.mono φ' e3)
      (match (eval c (enter A pA l).1 (enter A pA l).2).2 with | .ok v => .ok v | .error _ => .error (.coalesce l))
    exact ⟨[A.frames.length] ++ φ', [A.lists.length] ++ ψ',
      by rw [← List.append_assoc, ← List.append_assoc]; exact this.1, this.2.1, this.2.2, Or.inr ⟨φ', rfl⟩⟩
  | both x y ihx ihy =>
    intro hc B A φ ψ pB pA h w hp
    simp only [RSpec.covered, Bool.and_eq_true] at hc
    obtain ⟨φ1, ψ1, i1, i2, i3, i4⟩ := ihx hc.1 B A φ ψ pB pA h w hp
    simp only [erase, eval]
    rcases hB : eval (erase x) B pB with ⟨stB, e | v⟩ <;> rcases hA : eval x A pA with ⟨stA, e' | v'⟩ <;>
      simp only [hB, hA] at i1 i2 i3 i4 ⊢
    · exact ⟨φ1, ψ1, i1, i2, i3, i4⟩
    · cases i3
    · cases i3
    · obtain ⟨φ2, ψ2, j1, j2, j3, j4⟩ := ihy hc.2 stB stA _ _ pB pA i1 i2 (PRel.mono φ1 hp)
      refine ⟨φ1 ++ φ2, ψ1 ++ ψ2, by rw [← List.append_assoc, ← List.append_assoc]; exact j1, j2, j3, ?_⟩
      rcases i4 with ⟨k1, k2⟩ | ⟨t, k1⟩
      · subst k1; rw [k2] at j4; simpa using j4
      · exact Or.inr ⟨t ++ φ2, by rw [k1]; rfl⟩
  | orElse x y ihx ihy =>
    intro hc B A φ ψ pB pA h w hp
    simp only [RSpec.covered, Bool.and_eq_true] at hc
    obtain ⟨φ1, ψ1, i1, i2, i3, i4⟩ := ihx hc.1 B A φ ψ pB pA h w hp
    simp only [erase, eval]
    rcases hB : eval (erase x) B pB with ⟨stB, e | v⟩ <;> rcases hA : eval x A pA with ⟨stA, e' | v'⟩ <;>
      simp only [hB, hA] at i1 i2 i3 i4 ⊢
    · obtain ⟨φ2, ψ2, j1, j2, j3, j4⟩ := ihy hc.2 stB stA _ _ pB pA i1 i2 (PRel.mono φ1 hp)
      refine ⟨φ1 ++ φ2, ψ1 ++ ψ2, by rw [← List.append_assoc, ← List.append_assoc]; exact j1, j2, j3, ?_⟩
      rcases i4 with ⟨k1, k2⟩ | ⟨t, k1⟩
      · subst k1; rw [k2] at j4; simpa using j4
      · exact Or.inr ⟨t ++ φ2, by rw [k1]; rfl⟩
    · cases i3
    · cases i3
    · exact ⟨φ1, ψ1, i1, i2, i3, i4⟩
  | andThen x y ihx ihy =>
    intro hc B A φ ψ pB pA h w hp
    simp only [RSpec.covered, Bool.and_eq_true] at hc
    obtain ⟨φ1, ψ1, i1, i2, i3, i4⟩ := ihx hc.1 B A φ ψ pB pA h w hp
    simp only [erase, eval]
    rcases hB : eval (erase x) B pB with ⟨stB, e | v⟩ <;> rcases hA : eval x A pA with ⟨stA, e' | v'⟩ <;>
      simp only [hB, hA] at i1 i2 i3 i4 ⊢
    · exact ⟨φ1, ψ1, i1, i2, i3, i4⟩
    · cases i3
    · cases i3
    · obtain ⟨c1, c2, c3⟩ := chainChild_emb i1 i2 pB pA (PRel.mono φ1 hp)
      obtain ⟨φ2, ψ2, j1, j2, j3, j4⟩ := ihy hc.2 _ _ _ _ _ _ c1 c2 c3
      refine ⟨φ1 ++ φ2, ψ1 ++ ψ2, by rw [← List.append_assoc, ← List.append_assoc]; exact j1, j2, j3, ?_⟩
      rw [chainChild_length] at j4
      rcases i4 with ⟨k1, k2⟩ | ⟨t, k1⟩
      · subst k1; rw [k2] at j4; simpa using j4
      · exact Or.inr ⟨t ++ φ2, by rw [k1]; rfl⟩
  | reent l how inner after _ iha =>
    intro hc B A φ ψ pB pA h w hp
    simp only [RSpec.covered, Bool.and_eq_true] at hc
    obtain ⟨e1, e2, e3⟩ := enter_emb h w pB pA hp l
    -- the inner call: only `A` makes it
    have hst := reentry_same (enter A pA l).1 (enter A pA l).2 how inner hc.1.1 hc.1.2
    have e1' := e1.grow hst.same.fr hst.same.ls hst.growF hst.growL
    obtain ⟨φ', ψ', i1, i2, i3, _⟩ := iha hc.2 _ _ _ _ _ _ e1' e2 e3
    simp only [erase, eval_sub_eq, eval_reent_eq]
    rw [i3]
    have := finish_emb i1 i2 _ _ (PRel.mono φ' e3)
      (eval after (eval inner (start (enter A pA l).1 (enter A pA l).2 how).1 (start (enter A pA l).1 (enter A pA l).2 how).2).1
        (enter A pA l).2).2
    exact ⟨[A.frames.length] ++ φ', [A.lists.length] ++ ψ',
      by rw [← List.append_assoc, ← List.append_assoc]; exact this.1, this.2.1, this.2.2, Or.inr ⟨φ', rfl⟩⟩

/-! ### the rendered trace -/

abbrev Entry := Nat × Option Err × List Nat

/-- two lists related item by item -/
inductive L2 {α β : Type} (R : α → β → Prop) : List α → List β → Prop where
  | nil : L2 R [] []
  | cons {x : α} {y : β} {xs : List α} {ys : List β} : R x y → L2 R xs ys → L2 R (x :: xs) (y :: ys)

def ERel (φ : List Nat) (x y : Entry) : Prop := PRel φ x.1 y.1 ∧ x.2.1 = y.2.1 ∧ LRel φ x.2.2 y.2.2

theorem LRel.length_eq {φ : List Nat} {xs ys : List Nat} (h : LRel φ xs ys) : xs.length = ys.length := by
  induction h with
  | nil => rfl
  | cons _ _ ih => simp [ih]

/-- `xs == [c]` on one side iff on the other: addresses are related one to one -/
theorem LRel.singleton_iff {φ : List Nat} {xs ys : List Nat} {c c' : Nat} (h : LRel φ xs ys) (hc : PRel φ c c')
    (inj : ∀ (b b' a : Nat), φ[b]? = some a → φ[b']? = some a → b = b') : xs = [c] ↔ ys = [c'] := by
  cases h with
  | nil => simp
  | @cons x y _ _ h1 ht =>
    cases ht with
    | nil =>
      constructor
      · intro hx
        have : x = c := by simpa using hx
        subst this
        unfold PRel at h1 hc
        rw [h1] at hc; injection hc with hc; rw [hc]
      · intro hy
        have : y = c' := by simpa using hy
        subst this
        rw [inj x c y h1 hc]
    | cons _ _ => simp

theorem LRel.mem_iff {φ : List Nat} {xs ys : List Nat} {c c' : Nat} (h : LRel φ xs ys) (hc : PRel φ c c')
    (inj : ∀ (b b' a : Nat), φ[b]? = some a → φ[b']? = some a → b = b') : c ∈ xs ↔ c' ∈ ys := by
  induction h with
  | nil => simp
  | @cons x y xs ys h1 _ ih =>
    simp only [List.mem_cons]
    constructor
    · rintro (rfl | hm)
      · left; unfold PRel at h1 hc; rw [h1] at hc; injection hc with hc; exact hc.symm
      · right; exact ih.mp hm
    · rintro (rfl | hm)
      · left; exact inj c x c' hc h1
      · right; exact ih.mpr hm

theorem flatMap_LRel {γ : Type} {φ : List Nat} {xs ys : List Nat} (h : LRel φ xs ys) (f g : Nat → List γ)
    (hfg : ∀ x y, x ∈ xs → PRel φ x y → f x = g y) : xs.flatMap f = ys.flatMap g := by
  induction h with
  | nil => rfl
  | @cons x y xs ys h1 _ ih =>
    simp only [List.flatMap_cons]
    rw [hfg x y (List.mem_cons_self ..) h1, ih (fun a b ha hab => hfg a b (List.mem_cons_of_mem _ ha) hab)]

theorem flatMap_L2 {α β γ : Type} {R : α → β → Prop} {xs : List α} {ys : List β} (h : L2 R xs ys) (f : α → List γ)
    (g : β → List γ) (hfg : ∀ x y, x ∈ xs → R x y → f x = g y) : xs.flatMap f = ys.flatMap g := by
  induction h with
  | nil => rfl
  | @cons x y xs ys h1 _ ih =>
    simp only [List.flatMap_cons]
    rw [hfg x y (List.mem_cons_self ..) h1, ih (fun a b ha hab => hfg a b (List.mem_cons_of_mem _ ha) hab)]

/-- what the entries of an unpacked stack of the run without inner calls look like: scopes at or
    after the start, branches younger than their scope -/
def EOK (B : BSt) (a : Nat) (x : Entry) : Prop := a ≤ x.1 ∧ ∀ b ∈ x.2.2, x.1 < b ∧ b < B.frames.length

theorem unpack_emb {φ ψ : List Nat} {B A : BSt} (h : Emb φ ψ B A) (w : WFB B) :
    ∀ (n m : Nat) (a a' : Nat), n ≤ m → B.frames.length - a < n → φ[a]? = some a' →
    L2 (ERel φ) (unpack n B a) (unpack m A a') ∧ ∀ x ∈ unpack n B a, EOK B a x := by
  intro n
  induction n with
  | zero => intro m a a' _ hlt; omega
  | succ n ih =>
    intro m a a' hnm hlt ha
    obtain ⟨j, rfl⟩ : ∃ j, m = j + 1 := ⟨m - 1, by omega⟩
    obtain ⟨f, g, hf, hg, hfg⟩ := h.fr a a' ha
    simp only [unpack, hf, hg]
    have hlc := hfg.lc
    cases hcB : f.lastChild with
    | none =>
      rw [hcB] at hlc
      cases hcA : g.lastChild with
      | some c' => rw [hcA] at hlc; simp [ORel] at hlc
      | none =>
        simp only
        refine ⟨.cons ⟨ha, hfg.err, .nil⟩ .nil, ?_⟩
        intro x hx
        simp only [List.mem_singleton] at hx
        subst hx
        exact ⟨Nat.le_refl _, by intro b hb; simp at hb⟩
    | some c =>
      rw [hcB] at hlc
      cases hcA : g.lastChild with
      | none => rw [hcA] at hlc; simp [ORel] at hlc
      | some c' =>
        rw [hcA] at hlc
        simp only [ORel] at hlc
        simp only
        obtain ⟨xs, ys, hxs, hys, hxy⟩ := h.ls _ _ hfg.ce
        rw [hxs, hys]
        simp only [Option.getD_some]
        have hce := w.ce a f hf
        have hxsb : ∀ b ∈ xs, a < b ∧ b < B.frames.length := by
          intro b hb; rw [hce] at hxs; exact w.ls a xs hxs b hb
        have hsing : (xs == [c]) = (ys == [c']) := by
          rw [Bool.eq_iff_iff]; simp only [beq_iff_eq]; exact hxy.singleton_iff hlc h.injF
        rw [hsing]
        have hbr : LRel φ (if (ys == [c']) = true then [] else xs) (if (ys == [c']) = true then [] else ys) := by
          split
          · exact .nil
          · exact hxy
        have hbrb : ∀ b ∈ (if (ys == [c']) = true then [] else xs), a < b ∧ b < B.frames.length := by
          intro b hb
          split at hb
          · simp at hb
          · exact hxsb b hb
        generalize (if (ys == [c']) = true then [] else xs) = brB at hbr hbrb ⊢
        generalize (if (ys == [c']) = true then [] else ys) = brA at hbr ⊢
        have hcont : brB.contains c = brA.contains c' := by
          rw [Bool.eq_iff_iff]; simp only [List.contains_iff_mem]; exact hbr.mem_iff hlc h.injF
        rw [hcont]
        have hhere : ERel φ (a, f.curError, brB) (a', g.curError, brA) := ⟨ha, hfg.err, hbr⟩
        have hhok : EOK B a (a, f.curError, brB) := ⟨Nat.le_refl _, hbrb⟩
        have hone : L2 (ERel φ) [(a, f.curError, brB)] [(a', g.curError, brA)] ∧
            ∀ x ∈ [((a, f.curError, brB) : Entry)], EOK B a x := by
          refine ⟨.cons hhere .nil, ?_⟩
          intro x hx
          simp only [List.mem_singleton] at hx
          subst hx; exact hhok
        by_cases hcn : brA.contains c' = true
        · simp only [hcn, ↓reduceIte]
          exact hone
        · simp only [hcn, Bool.false_eq_true, ↓reduceIte]
          obtain ⟨fc, gc, hfc, hgc, hfgc⟩ := h.fr c c' hlc
          rw [hfc, hgc]
          simp only [Option.bind_some]
          rw [← hfgc.err]
          cases hce2 : fc.curError with
          | none => exact hone
          | some e =>
            simp only
            have hcl := w.lc a f hf c hcB
            obtain ⟨r1, r2⟩ := ih j c c' (by omega) (by omega) hlc
            refine ⟨.cons hhere r1, ?_⟩
            intro x hx
            simp only [List.mem_cons] at hx
            rcases hx with hx | hx
            · subst hx; exact hhok
            · have := r2 x hx
              exact ⟨by have := this.1; omega, this.2⟩

theorem pushDown_L2 {φ : List Nat} : ∀ (l l' : List Entry), L2 (ERel φ) l l' → L2 (ERel φ) (pushDown l) (pushDown l')
  | [], _, h => by cases h; exact .nil
  | [x], _, h => by
    cases h with
    | cons h1 ht => cases ht; exact .cons h1 .nil
  | x :: y :: r, _, h => by
    cases h with
    | cons h1 ht =>
      cases ht with
      | cons h2 ht2 =>
        rename_i x' y' r'
        simp only [pushDown]
        have ih := pushDown_L2 (y :: r) (y' :: r') (.cons h2 ht2)
        refine .cons ?_ ih
        rw [h1.2.1, h2.2.1]
        split
        · exact ⟨h1.1, rfl, h1.2.2⟩
        · exact h1

theorem pushDown_mem : ∀ (l : List Entry) (x : Entry), x ∈ pushDown l → ∃ y ∈ l, x.1 = y.1 ∧ x.2.2 = y.2.2
  | [], x, h => by simp [pushDown] at h
  | [y], x, h => by
    simp only [pushDown, List.mem_singleton] at h
    exact ⟨y, by simp, by rw [h], by rw [h]⟩
  | y :: z :: r, x, h => by
    simp only [pushDown, List.mem_cons] at h
    rcases h with h | h
    · refine ⟨y, by simp, ?_⟩
      subst h
      split <;> simp
    · obtain ⟨y2, hy2, e1, e2⟩ := pushDown_mem (z :: r) x (by simpa [List.mem_cons] using h)
      exact ⟨y2, List.mem_cons_of_mem _ hy2, e1, e2⟩

theorem trimTail_L2 {φ : List Nat} : ∀ (l l' : List Entry), L2 (ERel φ) l l' → L2 (ERel φ) (trimTail l) (trimTail l')
  | [], _, h => by cases h; exact .nil
  | [x], _, h => by
    cases h with
    | cons h1 ht => cases ht; exact .cons h1 .nil
  | x :: y :: r, _, h => by
    cases h with
    | cons h1 ht =>
      cases ht with
      | cons h2 ht2 =>
        rename_i x' y' r'
        have ih := trimTail_L2 (y :: r) (y' :: r') (.cons h2 ht2)
        simp only [trimTail]
        generalize trimTail (y :: r) = t at ih
        generalize trimTail (y' :: r') = t' at ih
        cases ih with
        | nil => exact .cons h1 .nil
        | cons k1 kt =>
          cases kt with
          | nil =>
            simp only
            rw [k1.2.1]
            split
            · exact .cons h1 .nil
            · exact .cons h1 (.cons k1 .nil)
          | cons k2 kt2 => exact .cons h1 (.cons k1 (.cons k2 kt2))

theorem trimTail_mem : ∀ (l : List Entry) (x : Entry), x ∈ trimTail l → x ∈ l
  | [], x, h => by simp [trimTail] at h
  | [y], x, h => by simpa [trimTail] using h
  | y :: z :: r, x, h => by
    simp only [trimTail] at h
    have ih := trimTail_mem (z :: r)
    generalize trimTail (z :: r) = t at h ih
    match t, h, ih with
    | [], h, _ => simp at h; rw [h]; simp
    | [w], h, ih =>
      simp only at h
      split at h
      · simp at h; rw [h]; simp
      · simp only [List.mem_cons, List.not_mem_nil, or_false] at h
        rcases h with h | h
        · rw [h]; simp
        · exact List.mem_cons_of_mem _ (ih x (by rw [h]; simp))
    | w :: w2 :: t2, h, ih =>
      simp only [List.mem_cons] at h
      rcases h with h | h
      · rw [h]; simp
      · exact List.mem_cons_of_mem _ (ih x (by simpa [List.mem_cons] using h))

theorem render_emb {φ ψ : List Nat} {B A : BSt} (h : Emb φ ψ B A) (w : WFB B) (root : Err) :
    ∀ (n m : Nat) (d a a' : Nat), n ≤ m → B.frames.length - a < n → φ[a]? = some a' →
    render root n B d a = render root m A d a' := by
  intro n
  induction n with
  | zero => intro m d a a' _ hlt; omega
  | succ n ih =>
    intro m d a a' hnm hlt ha
    obtain ⟨j, rfl⟩ : ∃ j, m = j + 1 := ⟨m - 1, by omega⟩
    simp only [render]
    obtain ⟨u1, u2⟩ := unpack_emb h w (B.frames.length + 1) (A.frames.length + 1) a a'
      (by have := h.leF; omega) (by omega) ha
    have t1 := trimTail_L2 _ _ (pushDown_L2 _ _ u1)
    apply flatMap_L2 t1
    intro x y hx hxy
    obtain ⟨z, hz, z1, z2⟩ := pushDown_mem _ x (trimTail_mem _ x hx)
    have hok : a ≤ x.1 ∧ ∀ b ∈ x.2.2, x.1 < b ∧ b < B.frames.length := by
      rw [z1, z2]; exact u2 z hz
    obtain ⟨s, err, br⟩ := x
    obtain ⟨s', err', br'⟩ := y
    obtain ⟨r1, r2, r3⟩ := hxy
    simp only at r1 r2 r3 hok ⊢
    subst r2
    obtain ⟨f, g, hf, hg, hfg⟩ := h.fr s s' r1
    rw [hf, hg]
    simp only [Option.map_some, Option.getD_some, hfg.spec]
    have hemp : br.isEmpty = br'.isEmpty := by
      cases r3 with
      | nil => rfl
      | cons _ _ => rfl
    rw [hemp]
    have hbr : br.flatMap (render root n B (d + 1)) = br'.flatMap (render root j A (d + 1)) := by
      apply flatMap_LRel r3
      intro b b' hb hbb
      have := hok.2 b hb
      exact ih j (d + 1) b b' (by omega) (by have := hok.1; omega) hbb
    rw [hbr]

/-! ### the whole call -/

theorem emb_root : Emb [0] [0] (newRoot ⟨[], []⟩).1 (newRoot ⟨[], []⟩).1 := by
  have hlk : ∀ (b a : Nat), ([0] : List Nat)[b]? = some a → b = 0 ∧ a = 0 := by
    intro b a h
    cases b with
    | zero => simp at h; exact ⟨rfl, h.symm⟩
    | succ k => simp at h
  refine ⟨rfl, rfl, Nat.le_refl _, ?_, ?_, ?_, ?_, ?_, ?_⟩
  · intro b a h; obtain ⟨_, rfl⟩ := hlk b a h; simp [newRoot, BSt.alloc]
  · intro b a h; obtain ⟨_, rfl⟩ := hlk b a h; simp [newRoot, BSt.alloc]
  · intro b b' a h h'; rw [(hlk b a h).1, (hlk b' a h').1]
  · intro b b' a h h'; rw [(hlk b a h).1, (hlk b' a h').1]
  · intro b a h
    obtain ⟨rfl, rfl⟩ := hlk b a h
    exact ⟨_, _, rfl, rfl, ⟨rfl, trivial, rfl, trivial, rfl, rfl⟩⟩
  · intro b a h
    obtain ⟨rfl, rfl⟩ := hlk b a h
    exact ⟨_, _, rfl, rfl, .nil⟩

theorem wfb_root : WFB (newRoot ⟨[], []⟩).1 := by
  refine ⟨rfl, ?_, ?_, ?_, ?_⟩
  · intro a f hf
    cases a with
    | zero => simp [newRoot, BSt.alloc] at hf; subst hf; rfl
    | succ k => simp [newRoot, BSt.alloc] at hf
  · intro a f hf u hu
    cases a with
    | zero => simp [newRoot, BSt.alloc] at hf; subst hf; simp at hu
    | succ k => simp [newRoot, BSt.alloc] at hf
  · intro a f hf c hc
    cases a with
    | zero => simp [newRoot, BSt.alloc] at hf; subst hf; simp at hc
    | succ k => simp [newRoot, BSt.alloc] at hf
  · intro a xs hxs x hx
    cases a with
    | zero => simp [newRoot, BSt.alloc] at hxs; subst hxs; simp at hx
    | succ k => simp [newRoot, BSt.alloc] at hxs

theorem render_none (root : Err) (n : Nat) (st : BSt) (d a : Nat) (h : st.frames[a]? = none) : render root n st d a = [] := by
  cases n with
  | zero => rfl
  | succ n => simp [render, unpack, h, pushDown, trimTail]

/-- **the call is what it is when no custom spec makes its inner call**: outcome and rendered trace -/
theorem runCall_erase (spec : RSpec) (hc : spec.covered = true) : runCall spec = runCall (erase spec) := by
  obtain ⟨φ', ψ', e1, e2, e3, e4⟩ := eval_emb spec hc _ _ [0] [0] 0 0 emb_root wfb_root rfl
  simp only [runCall]
  have h0 : (newRoot ⟨[], []⟩).2 = 0 := rfl
  rw [h0]
  rcases hB : eval (erase spec) (newRoot ⟨[], []⟩).1 0 with ⟨stB, e | v⟩ <;>
    rcases hA : eval spec (newRoot ⟨[], []⟩).1 0 with ⟨stA, e' | v'⟩ <;>
    simp only [hB, hA] at e1 e2 e3 e4 ⊢
  · injection e3 with e3
    subst e3
    congr 1
    rcases e4 with ⟨k1, k2⟩ | ⟨t, k1⟩
    · subst k1
      have hlenA : stA.frames.length = 1 := by rw [k2]; rfl
      have hlenB : stB.frames.length = 1 := by rw [← e1.lenF]; rfl
      rw [render_none e _ stA 0 1 (by rw [List.getElem?_eq_none_iff]; omega),
        render_none e _ stB 0 1 (by rw [List.getElem?_eq_none_iff]; omega)]
    · subst k1
      have hone : ([0] ++ (newRoot ⟨[], []⟩).1.frames.length :: t)[1]? = some 1 := rfl
      exact (render_emb e1 e2 e (stB.frames.length + 1) (stA.frames.length + 1) 0 1 1
        (by have := e1.leF; omega) (by omega) hone).symm
  · cases e3
  · cases e3
  · injection e3 with e3
    rw [e3]

end Glom.C20.Re
