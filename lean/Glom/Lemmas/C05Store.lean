import Glom.Spec.C05Tree
/-
  C05 — helper lemmas about the frame store: `modFrame`, `push`, one `step`, runs of events.
-/
namespace Glom.C05

theorem modFrame_size (fs : Array Frame) (i : Nat) (g : Frame → Frame) :
    (modFrame fs i g).size = fs.size := by
  unfold modFrame; split <;> simp

theorem modFrame_get (fs : Array Frame) (i : Nat) (g : Frame → Frame) (j : Nat) :
    (modFrame fs i g)[j]? = if j = i then fs[j]?.map g else fs[j]? := by
  unfold modFrame
  split
  · rename_i h
    by_cases hj : j = i
    · subst hj; simp [h]
    · rw [if_neg hj, Array.getElem?_set]
      rw [if_neg (fun h' => hj h'.symm)]
  · rename_i h
    by_cases hj : j = i
    · subst hj
      have : fs[j]? = none := by simp at h; simp [h]
      simp [this]
    · rw [if_neg hj]

theorem push_get (fs : Array Frame) (x : Frame) (j : Nat) :
    (fs.push x)[j]? = if j = fs.size then some x else fs[j]? := by
  rw [Array.getElem?_push]

/-- a run of events from a state -/
def run (s : RState) (evs : List Ev) : RState := evs.foldl step s

theorem run_nil (s : RState) : run s [] = s := rfl
theorem run_cons (s : RState) (e : Ev) (evs : List Ev) : run s (e :: evs) = run (step s e) evs := rfl
theorem run_append (s : RState) (a b : List Ev) : run s (a ++ b) = run (run s a) b := by
  simp [run, List.foldl_append]

theorem replay_eq_run (evs : List Ev) : replay evs = (run { frames := #[rootFrame] } evs).frames := rfl


/-! ### one step -/

def enterUpd (fl : Bool) (id : Nat) (f : Frame) : Frame :=
  { f with noPy := fl || f.noPy, childErrors := if fl then [] else f.childErrors, lastChild := some id }

theorem step_enter_frames (s : RState) (par : Nat) (fl : Bool) (spec target : Str) (tid : Nat)
    (tlen slen : Option Nat) (hp : par < s.frames.size) (j : Nat) :
    (step s (.enter par fl spec target tid tlen slen)).frames[j]? =
      if j = s.frames.size then some { spec, target, tid, tlen, slen, up := par }
      else if j = par then s.frames[j]?.map (enterUpd fl s.frames.size)
      else s.frames[j]? := by
  have hne : par ≠ s.frames.size := by omega
  by_cases h1 : j = s.frames.size
  · have h1' : j ≠ par := by omega
    cases fl <;> simp only [step, Bool.false_eq_true, if_false, if_true, modFrame_get, push_get, modFrame_size, if_neg h1', if_pos h1]
  · by_cases h2 : j = par
    · subst h2
      cases fl
      · simp only [step, Bool.false_eq_true, if_false, modFrame_get, push_get, if_true, if_neg h1]
        cases s.frames[j]? <;> simp [enterUpd]
      · simp only [step, if_true, modFrame_get, push_get, modFrame_size, if_neg h1]
        cases s.frames[j]? <;> simp [enterUpd]
    · cases fl <;> simp only [step, Bool.false_eq_true, if_false, if_true, modFrame_get, push_get, modFrame_size, if_neg h1, if_neg h2]

theorem step_enter_size (s : RState) (par : Nat) (fl : Bool) (spec target : Str) (tid : Nat)
    (tlen slen : Option Nat) :
    (step s (.enter par fl spec target tid tlen slen)).frames.size = s.frames.size + 1 := by
  cases fl <;> simp [step, modFrame_size]

theorem step_enter_stack (s : RState) (par : Nat) (fl : Bool) (spec target : Str) (tid : Nat)
    (tlen slen : Option Nat) :
    (step s (.enter par fl spec target tid tlen slen)).stack = s.frames.size :: s.stack := by
  cases fl <;> simp [step, modFrame_size]

theorem walkUp_size (e : Nat) : ∀ (fuel cur : Nat) (fs : Array Frame), (walkUp e fuel cur fs).size = fs.size := by
  intro fuel
  induction fuel with
  | zero => intro cur fs; rfl
  | succ fuel ih =>
    intro cur fs
    unfold walkUp
    split
    · split
      · rw [ih]; simp [modFrame_size]
      · rfl
    · rfl

theorem walkUp_stop (e fuel cur : Nat) (fs : Array Frame)
    (h : (fs[cur]?.map (·.noPy)) = some false) : walkUp e fuel cur fs = fs := by
  cases fuel with
  | zero => rfl
  | succ fuel =>
    unfold walkUp
    cases hc : fs[cur]? with
    | none => rfl
    | some f =>
      simp only
      rw [hc] at h
      simp at h
      simp [h]

/-- leaving a call with an error: `scope.maps[1][CHILD_ERRORS].append(scope)`, CUR_ERROR, then the
    NO_PYFRAME walk (which does nothing when the parent is not flagged) -/
theorem step_exitErr (s : RState) (e c : Nat) (rest : List Nat) (fc : Frame)
    (hs : s.stack = c :: rest) (hc : s.frames[c]? = some fc) :
    step s (.exitErr e) =
      { frames := walkUp e s.frames.size fc.up
          (modFrame (modFrame s.frames fc.up (fun p => { p with childErrors := p.childErrors ++ [c] })) c
            (fun x => { x with curError := some e })),
        stack := rest } := by
  simp only [step, hs, hc, Option.map_some, Option.getD_some, modFrame_size]
  congr 1
  split
  · rfl
  · rename_i h
    cases hu : (modFrame (modFrame s.frames fc.up fun p => { p with childErrors := p.childErrors ++ [c] }) c fun x =>
        { x with curError := some e })[fc.up]? with
    | none =>
      cases hsz : s.frames.size with
      | zero => rfl
      | succ k => unfold walkUp; rw [hu]
    | some fu =>
      rw [hu] at h
      simp at h
      rw [walkUp_stop]
      rw [hu]; simp [h]

theorem step_exitOk (s : RState) : step s .exitOk = { s with stack := s.stack.tail } := rfl

end Glom.C05
