import Glom.Model.C14
import Glom.Generated.C14Facts
/-
  C14 environment: the decision shape of the wildcard code as read from /repo's AST on this run.
-/
namespace Glom.C14

/-- `_extend_children` has the keys+get / iterate structure with exactly these `except` clauses;
    the 'x'/'X' branch seeds `sofar` with the root, grows `nxt` while walking it, inserts the root in
    front, evaluates the remaining ops per child swallowing PathAccessError only, and breaks;
    `__stars__` counts both wildcards; `Path.from_text` maps `*` / `**`; `_apply_for_each` flattens
    `layers - 1` times; and `_t_eval` dispatches 'x' / 'X' to that branch (no earlier branch of the
    dispatch chain takes them), `TType.__star__` / `__starstar__` record exactly these op characters;
    `Path.from_text` maps `*` / `**` to them iff the module switch `PATH_STAR` is on and keeps them as
    plain segments otherwise (`c14PathStarSwitch`); the remainder of the path
    evaluated on every child is rooted at T for T-rooted **and for S-rooted** paths (it continues
    from the child — rooted at S it would start again from the scope and ignore the child) -/
def remainderAtT (root : String) : Bool :=
  (Generated.c14RemainderRoot.find? (·.1 == root)).map (·.2) == some "T"

def factsOK : Bool :=
  remainderAtT "T" && remainderAtT "S" &&
  Generated.c14ExtendChildrenShape &&
  Generated.c14ExtendChildrenCaught ==
    [("keys_get", ["UnregisteredTarget"]), ("iterate_lookup", ["UnregisteredTarget"]),
     ("iterate_run", ["Exception"]), ("get_item", ["Exception"]), ("keys_run", ["Exception"])] &&
  -- (the order of the types in the `isinstance` guard is immaterial)
  seqGuard.all (Generated.c14SeqGuardTypes.contains ·) && Generated.c14SeqGuardTypes.all (seqGuard.contains ·) &&
  Generated.c14StarBranchShape && Generated.c14RecursionCaught == ["PathAccessError"] &&
  Generated.c14StarsCountsBoth && Generated.c14FromTextMapsStars && Generated.c14ApplyForEachShape &&
  Generated.c14PathStarSwitch &&
  Generated.c14Dispatch == [("x", "star"), ("X", "starstar")] &&
  Generated.c14Recorded == [("__star__", "x"), ("__starstar__", "X")]

end Glom.C14
