import Glom.Model.C14
import Glom.Generated.C14Facts
import Glom.Generated.TFacts
/-
  C14 environment: the decision shape of the wildcard code as read from /repo's AST on this run.
-/
namespace Glom.C14

/-- `_extend_children` has the keys+get / iterate structure with exactly these `except` clauses;
    the 'x'/'X' branch seeds `sofar` with the root, grows `nxt` while walking it, inserts the root in
    front, evaluates the remaining ops per child swallowing PathAccessError only, and breaks;
    `__stars__` counts both wildcards; `Path.from_text` maps `*` / `**`; `_apply_for_each` flattens
    `layers - 1` times; and `_t_eval` dispatches 'x' / 'X' to that branch; the remainder of the path
    evaluated on every child is rooted at T for T-rooted **and for S-rooted** paths (it continues
    from the child — rooted at S it would start again from the scope and ignore the child) -/
def remainderAtT (root : String) : Bool :=
  (Generated.c14RemainderRoot.find? (·.1 == root)).map (·.2) == some "T"

def factsOK : Bool :=
  remainderAtT "T" && remainderAtT "S" &&
  Generated.c14ExtendChildrenShape &&
  Generated.c14ExtendChildrenCaught ==
    [("keys_get", ["UnregisteredTarget"]), ("iterate_lookup", ["UnregisteredTarget"]),
     ("iterate_run", ["Exception"]), ("get_item", ["Exception"]), ("keys_run", ["Exception"])] &&
  Generated.c14SeqGuardTypes == seqGuard &&
  Generated.c14StarBranchShape && Generated.c14RecursionCaught == ["PathAccessError"] &&
  Generated.c14StarsCountsBoth && Generated.c14FromTextMapsStars && Generated.c14ApplyForEachShape &&
  (Generated.tDispatch.find? (·.1 == "x")).map (·.2.1) == some "star" &&
  (Generated.tDispatch.find? (·.1 == "X")).map (·.2.1) == some "starstar" &&
  (Generated.tRecorded.find? (·.1 == "__star__")).map (·.2) == some "x" &&
  (Generated.tRecorded.find? (·.1 == "__starstar__")).map (·.2) == some "X"

end Glom.C14
