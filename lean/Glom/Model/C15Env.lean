import Glom.Spec.C15
import Glom.Generated.RegFacts
import Glom.Generated.ExcFacts
import Glom.Generated.RedFacts
/-
  The environment of C15 instantiated with the facts regenerated from /repo:
  default `iterate` registrations, `_AbstractIterable`'s exclusions, the
  `except` clause of Fold.glomit, the exception MROs, and the source-shape
  facts of glom/reduction.py.  The classes of the harness (Acc, generator,
  chain, Obj) are fixed.
-/
namespace Glom.C15
open Glom

def userClasses : ClassTable :=
  [("Acc", ["Acc", "list", "object"]), ("generator", ["generator", "object"]),
   ("chain", ["chain", "object"]), ("Obj", ["Obj", "object"])]

def genEnv : Env :=
  { ct := userClasses ++ Generated.targetClassTable
    iterReg := Generated.defaultReg_iterate
    absIterExcluded := Generated.redAbsIterExcluded
    foldCatch := Generated.redFoldCatch
    excTable := Generated.excTable }

/-- the environment the PROPERTY is stated in: the documented behaviour, hard-coded (the
    values `WF` demands of the extracted facts).  The correspondence driver evaluates the
    checker with this environment on the implementation's observation, so a change of
    /repo that alters one of these facts yields a concrete failing input, not only a
    failing facts obligation. -/
def specEnv : Env :=
  { ct := userClasses ++ [("object", ["object"]), ("dict", ["dict", "object"]),
      ("OrderedDict", ["OrderedDict", "dict", "object"]), ("list", ["list", "object"]),
      ("tuple", ["tuple", "object"]), ("str", ["str", "object"]), ("int", ["int", "object"]),
      ("bool", ["bool", "int", "object"]), ("NoneType", ["NoneType", "object"])]
    iterReg := [("object", "False"), ("dict", "iter"), ("list", "iter"), ("tuple", "iter"),
      ("OrderedDict", "iter"), ("_AbstractIterable", "iter")]
    absIterExcluded := ["str", "bytes"]
    foldCatch := [("UnregisteredTarget", "FoldError")]
    excTable := [("FoldError", ["FoldError", "GlomError", "Exception", "BaseException", "object"]),
      ("PathAccessError", ["PathAccessError", "GlomError", "AttributeError", "KeyError", "IndexError",
        "LookupError", "Exception", "BaseException", "object"]),
      ("UnregisteredTarget", ["UnregisteredTarget", "GlomError", "Exception", "BaseException", "object"])] }

def genSrc : SrcFacts :=
  { initCalls := Generated.redInitCalls
    defaults := Generated.redDefaults ++ Generated.redFnDefaults
    superArgs := Generated.redSuperArgs
    ctorLogic := Generated.redCtorLogic
    foldBodies := Generated.redFoldBodies
    flattenFn := Generated.redFlattenFn
    mergeFn := Generated.redMergeFn }

/-- the default of a constructor / function parameter, as source text -/
def defaultSrc (cls param : String) : Option String :=
  (genSrc.defaults.find? (fun e => e.1 == cls && e.2.1 == param)).map (·.2.2)

end Glom.C15
