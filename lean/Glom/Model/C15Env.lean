import Glom.Spec.C15
import Glom.Model.C13Env
import Glom.Generated.ExcFacts
import Glom.Generated.RedFacts
/-
  The environment of C15 instantiated with the facts regenerated from /repo:
  the `except` clauses of Fold.glomit and target_iter, the exception MROs, the
  source-shape facts of glom/reduction.py and grouping.target_iter, and — shared
  with C13 — the registration sequences of `TargetRegistry.__init__` /
  `_register_default_types` from which the registry every history starts is built.
  The class hierarchy (`Hier`: `__mro__`, `isinstance`, `issubclass`, the
  auto-discovery functions) of the builtins and of the harness classes comes with
  each case (Python's own answers, as in C13).
-/
namespace Glom.C15
open Glom

/-- the conversions of exceptions, as extracted; the handler table is filled in per call -/
def genEnv : Env :=
  { lk := fun _ => .error .unregistered
    run := runHandler
    foldCatch := Generated.redFoldCatch
    iterCatch := Generated.redTargetIterCatch
    excTable := Generated.excTable }

/-- the registry a process (the module-level default registry, a `Glommer()`) starts from, as far
    as the `iterate` / `get` columns go: `TargetRegistry(register_default_types=True)` built from
    the extracted registration sequences -/
def genReg (H : Hier) : Reg := C13.freshReg H C13.genSetup true

/-- the environment the PROPERTY is stated in: the documented behaviour, hard-coded.  The
    correspondence driver evaluates the checker with this environment (and `specReg`) on the
    implementation's observation, so a change of /repo that alters one of these facts yields a
    concrete failing input, not only a failing facts obligation. -/
def specEnv : Env :=
  { lk := fun _ => .error .unregistered
    run := runHandler
    foldCatch := [("UnregisteredTarget", "FoldError")]
    iterCatch := [("Exception", "TypeError")]
    excTable := [("FoldError", ["FoldError", "GlomError", "Exception", "BaseException", "object"]),
      ("PathAccessError", ["PathAccessError", "GlomError", "AttributeError", "KeyError", "IndexError",
        "LookupError", "Exception", "BaseException", "object"]),
      ("UnregisteredTarget", ["UnregisteredTarget", "GlomError", "Exception", "BaseException", "object"])] }

/-- the documented default registrations: `iterate` auto-discovered from `__iter__`, `get` = getattr;
    object, dict, list, tuple, OrderedDict, `_AbstractIterable` (iterate=iter), `_ObjStyleKeys` -/
def specSetup : C13.Setup where
  builtinOps := [⟨"iterate", "auto_iterate", false⟩, ⟨"get", "auto_get", false⟩]
  defaults := [
    ⟨"object", false, []⟩,
    ⟨"dict", false, [("get", some "getitem")]⟩, ⟨"dict", false, [("keys", some "dict.keys")]⟩,
    ⟨"list", false, [("get", some "_get_sequence_item")]⟩,
    ⟨"tuple", false, [("get", some "_get_sequence_item")]⟩,
    ⟨"OrderedDict", false, [("get", some "getitem")]⟩,
    ⟨"OrderedDict", false, [("keys", some "OrderedDict.keys")]⟩,
    ⟨"_AbstractIterable", false, [("iterate", some "iter")]⟩,
    ⟨"_ObjStyleKeys", false, [("keys", some "_ObjStyleKeys.get_keys")]⟩]
  moduleOps := []

def specReg (H : Hier) : Reg := C13.freshReg H specSetup true

def genSrc : SrcFacts :=
  { defaults := Generated.redDefaults ++ Generated.redFnDefaults
    superArgs := Generated.redSuperArgs
    bodies := Generated.redBodies
    methods := Generated.redMethods
    module := Generated.redModule
    selfWrites := Generated.redSelfWrites
    absIterExcluded := Generated.redAbsIterExcluded
    registerResetsMemo := Generated.c13RegisterResetsMemo }

/-- the default of a constructor / function parameter, as source text -/
def defaultSrc (cls param : String) : Option String :=
  (genSrc.defaults.find? (fun e => e.1 == cls && e.2.1 == param)).map (·.2.2)

end Glom.C15
