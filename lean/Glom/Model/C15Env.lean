import Glom.Spec.C15
import Glom.Generated.RegFacts
import Glom.Generated.ExcFacts
import Glom.Generated.RedFacts
/-
  The environment of C15 instantiated with the facts regenerated from /repo:
  default `iterate` registrations, `_AbstractIterable`'s exclusions, the
  `except` clause of Fold.glomit, the exception MROs, and the source-shape
  facts of glom/reduction.py.  The classes of the harness (Acc, generator,
  chain, Obj) are fixed.
-/
namespace Glom.C15
open Glom

def userClasses : ClassTable :=
  [("Acc", ["Acc", "list", "object"]), ("generator", ["generator", "object"]),
   ("chain", ["chain", "object"]), ("Obj", ["Obj", "object"])]

def genEnv : Env :=
  { ct := userClasses ++ Generated.targetClassTable
    iterReg := Generated.defaultReg_iterate
    absIterExcluded := Generated.redAbsIterExcluded
    foldCatch := Generated.redFoldCatch
    excTable := Generated.excTable }

def genSrc : SrcFacts :=
  { initCalls := Generated.redInitCalls
    defaults := Generated.redDefaults ++ Generated.redFnDefaults
    superArgs := Generated.redSuperArgs
    ctorLogic := Generated.redCtorLogic
    foldBodies := Generated.redFoldBodies
    flattenFn := Generated.redFlattenFn
    mergeFn := Generated.redMergeFn }

/-- the default of a constructor / function parameter, as source text -/
def defaultSrc (cls param : String) : Option String :=
  (genSrc.defaults.find? (fun e => e.1 == cls && e.2.1 == param)).map (·.2.2)

end Glom.C15
