import Glom.Spec.C16
import Glom.Spec.C16Src
import Glom.Model.C16State
import Glom.Generated.GroupFacts
/-
  C16: the facts regenerated from /repo, paired with the statements the model transcribes.
-/
namespace Glom.C16

/-- state outside the accumulator tree, as the extractor finds it in grouping.py and reduction.py -/
def genStateFacts : StateFacts :=
  ⟨Generated.stSelfWrites, Generated.stGlobalWrites, Generated.stMutableGlobals, Generated.stClassState⟩

def genWF : Bool :=
  WFSrc Generated.grpStmts Generated.grpSlots Generated.grpGlobals Generated.grpGlobalStmts Generated.tArith
    Generated.grpAround Generated.grpMethods && genStateFacts.quiet

end Glom.C16
