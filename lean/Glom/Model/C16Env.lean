import Glom.Spec.C16
import Glom.Spec.C16Src
import Glom.Generated.GroupFacts
/-
  C16: the facts regenerated from /repo, paired with the statements the model transcribes.
-/
namespace Glom.C16

def genWF : Bool :=
  WFSrc Generated.grpStmts Generated.grpSlots Generated.grpGlobals Generated.grpGlobalStmts Generated.tArith

end Glom.C16
