import Glom.Spec.C20
import Glom.Spec.C20Err
import Glom.Generated.C20Facts
/- The facts of C20 regenerated from /repo's current source (extract/facts/c20.py). -/
namespace Glom.C20

def genFacts : Facts :=
  { maxCache := Generated.c20MaxCache
    fromTextShape := Generated.c20FromTextShape
    getHandlerShape := Generated.c20GetHandlerShape
    sharedWrites := Generated.c20SharedWrites
    mutableDefaults := Generated.c20MutableDefaults
    sharedObjectWrites := Generated.c20SharedObjectWrites
    argValFresh := Generated.c20ArgValFresh
    argModeReturns := Generated.c20ArgModeReturns
    argModeCacheStores := Generated.c20ArgModeCacheStores
    bbreprDef := Generated.c20BbreprDef
    bbreprGuard := Generated.c20BbreprGuard
    glomScope := Generated.c20GlomScope
    glomScopeRoot := Generated.c20GlomScopeRoot
    childScope := Generated.c20ChildScope
    registryEvalWrites := Generated.c20RegistryEvalWrites
    handlerKeys := Generated.c20HandlerKeys
    parentLinkKeys := Generated.c20ParentLinkKeys
    specGlomResets := Generated.c20SpecGlomResets
    glomResets := Generated.c20GlomResets }

/-- the error object: what `__str__` depends on, what `_finalize` sets, how errors are copied -/
def genErrFacts : ErrM.ErrFacts :=
  { mutableAttrs := Generated.c20ErrMutableAttrs
    finalizeSets := Generated.c20ErrFinalizeSets
    strInputs := Generated.c20ErrStrInputs
    strWrites := Generated.c20ErrStrWrites
    strOverrides := Generated.c20ErrStrOverrides
    copyOverrides := Generated.c20ErrCopyOverrides
    exitShape := Generated.c20ErrExitShape
    wrapShape := Generated.c20ErrWrapShape
    setWrapped := Generated.c20ErrSetWrapped }

end Glom.C20
