import Glom.Model.C05
/-
  C05 — `bbrepr`, the function that renders every `Target:` / `Spec:` value of the trace
  (`_format_trace_value`: `s = bbrepr(value).replace("\\'", "'")`), code-shaped.

  Mirrors glom/core.py `_BBRepr` (a `reprlib.Repr` whose size limits are raised in `__init__`) and
  the methods of CPython's `reprlib.Repr` it inherits (3.12):
    `repr`            = `repr1(x, self.maxlevel)`
    `repr1`           dispatch on `type(x).__name__` (`repr_int`, `repr_str`, `repr_list`, `repr_tuple`,
                      `repr_dict`, `repr_set`, `repr_frozenset`, `repr_deque`, `repr_array`, else
                      `repr_instance`); `_BBRepr.repr1` then replaces a result that starts with `<` by
                      the builtin's name when the object is a builtin
    `_repr_iterable`  level check, `islice(x, maxiter)`, the `...` piece, the `,` of a 1-tuple
    `repr_dict`, `repr_set` / `repr_frozenset` (with `_possibly_sorted`), `repr_str`, `repr_int`,
    `repr_instance`   (the `s[:i] + '...' + s[len(s)-j:]` elision)
  and CPython's `str.__repr__` (quote choice, escapes; which non-ASCII characters are printable is
  a parameter: Python's Unicode database).

  The limits are a parameter (`Limits`): the value glom's instance really has is extracted on
  every run (Generated/C05Facts.lean).

  Values (`RV`): the tree of builtin containers above leaves.  One (not nested) inductive type:
  the items of a container are a `nil` / `cons` spine, the entries of a dict alternate key, value.
-/
namespace Glom.C05

/-- the int attributes of a `reprlib.Repr` instance -/
structure Limits where
  maxlevel : Nat
  maxtuple : Nat
  maxlist : Nat
  maxarray : Nat
  maxdict : Nat
  maxset : Nat
  maxfrozenset : Nat
  maxdeque : Nat
  maxstring : Nat
  maxlong : Nat
  maxother : Nat
  deriving Repr, DecidableEq, Inhabited

inductive SeqKind where
  | list | tuple | set | frozenset | deque
  | array (typecode : Char)
  deriving Repr, DecidableEq, Inhabited

inductive RV where
  | int (v : Int)                             -- exactly `int`
  | str (s : Str)                             -- exactly `str`
  | other (r : Str) (bname : Option Str)      -- any other object: its own `repr()`, and its name if it is a builtin
  | seq (k : SeqKind) (items : RV)            -- items: `nil` / `cons x rest`
  | dict (entries : RV)                       -- entries: `nil` / `cons key (cons value rest)`
  | nil
  | cons (x : RV) (rest : RV)
  deriving Repr, DecidableEq, Inhabited

/-- number of items of an item spine -/
def RV.count : RV → Nat
  | .cons _ rest => rest.count + 1
  | _ => 0

def fill : Str := "...".toList

/-! ### `str.__repr__` -/

def hexDigit (n : Nat) : Char := if n < 10 then Char.ofNat (48 + n) else Char.ofNat (87 + n)

/-- `n` as `k` lowercase hex digits -/
def hexN : Nat → Nat → Str
  | 0, _ => []
  | k + 1, n => hexN k (n / 16) ++ [hexDigit (n % 16)]

/-- the quote `str.__repr__` chooses: `"` when the string has a `'` and no `"` -/
def quoteOf (s : Str) : Char := if s.contains '\'' && !s.contains '"' then '"' else '\''

/-- one character inside the quotes; `P`: `str.isprintable` on non-ASCII characters -/
def escChar (P : Char → Bool) (q : Char) (c : Char) : Str :=
  if c == q || c == '\\' then ['\\', c]
  else if c == '\t' then ['\\', 't']
  else if c == '\n' then ['\\', 'n']
  else if c == '\r' then ['\\', 'r']
  else if c.toNat < 32 || c.toNat == 127 then '\\' :: 'x' :: hexN 2 c.toNat
  else if c.toNat < 127 then [c]
  else if P c then [c]
  else if c.toNat < 256 then '\\' :: 'x' :: hexN 2 c.toNat
  else if c.toNat < 65536 then '\\' :: 'u' :: hexN 4 c.toNat
  else '\\' :: 'U' :: hexN 8 c.toNat

def escBody (P : Char → Bool) (q : Char) : Str → Str
  | [] => []
  | c :: r => escChar P q c ++ escBody P q r

/-- `builtins.repr(s)` of a `str` -/
def pyStrRepr (P : Char → Bool) (s : Str) : Str :=
  quoteOf s :: (escBody P (quoteOf s) s ++ [quoteOf s])

/-! ### the elisions of `reprlib` -/

/-- Python `s[k:]` for an integer `k` that may be negative -/
def pySliceFrom (s : Str) (k : Int) : Str :=
  if k ≥ 0 then s.drop k.toNat else s.drop (s.length - (-k).toNat)

/-- `s[len(s)-j:]` -/
def lastChars (s : Str) (j : Nat) : Str := pySliceFrom s ((s.length : Int) - (j : Int))

/-- `if len(s) > lim: i = max(0, (lim-3)//2); j = max(0, lim-3-i); s = s[:i] + '...' + s[len(s)-j:]` -/
def elide (lim : Nat) (s : Str) : Str :=
  if s.length > lim then
    s.take ((lim - 3) / 2) ++ fill ++ lastChars s (lim - 3 - (lim - 3) / 2)
  else s

/-- `Repr.repr_str` -/
def reprStr (P : Char → Bool) (lim : Nat) (x : Str) : Str :=
  let s := pyStrRepr P (x.take lim)
  if s.length > lim then
    let i := (lim - 3) / 2
    let j := lim - 3 - i
    let s2 := pyStrRepr P (x.take i ++ lastChars x j)      -- `x[:i] + x[len(x)-j:]`: `len(x)-j` may be negative
    s2.take i ++ fill ++ lastChars s2 j
  else s

/-! ### containers -/

def joinSep : List Str → Str
  | [] => []
  | [x] => x
  | x :: r => x ++ ',' :: ' ' :: joinSep r

structure Brackets where
  left : Str
  right : Str
  trail : Str := []           -- `,` of a 1-tuple
  empty : Option Str := none  -- what an empty one is shown as when that is not `left ++ right`
  sorted : Bool := false      -- `_possibly_sorted`
  deriving Repr

def SeqKind.brackets : SeqKind → Brackets
  | .list => { left := "[".toList, right := "]".toList }
  | .tuple => { left := "(".toList, right := ")".toList, trail := ",".toList }
  | .set => { left := "{".toList, right := "}".toList, empty := some "set()".toList, sorted := true }
  | .frozenset => { left := "frozenset({".toList, right := "})".toList, empty := some "frozenset()".toList, sorted := true }
  | .deque => { left := "deque([".toList, right := "])".toList }
  | .array tc => { left := "array('".toList ++ tc :: "', [".toList, right := "])".toList,
                   empty := some ("array('".toList ++ tc :: "')".toList) }

def SeqKind.limit (L : Limits) : SeqKind → Nat
  | .list => L.maxlist
  | .tuple => L.maxtuple
  | .set => L.maxset
  | .frozenset => L.maxfrozenset
  | .deque => L.maxdeque
  | .array _ => L.maxarray

/-- `left + ', '.join(pieces[:maxiter] (+ ['...'])) + (trail if n == 1) + right` -/
def wrapPieces (b : Brackets) (maxiter : Nat) (pieces : List Str) : Str :=
  b.left ++ joinSep (pieces.take maxiter ++ (if pieces.length > maxiter then [fill] else [])) ++
    (if pieces.length == 1 then b.trail else []) ++ b.right

/-! ### `_possibly_sorted`: `sorted(x)`, or `list(x)` when that raises

  Modelled for the element kinds the harness produces: all `int` (numeric order), all `str`
  (code point order: Python's `str.__lt__`); a mix of the two cannot be sorted (`TypeError`), the
  order of iteration is kept.  Other element kinds are outside the modelled domain
  (`RV.sortable`). -/

def strLe : Str → Str → Bool
  | [], _ => true
  | _ :: _, [] => false
  | a :: as, b :: bs => a.toNat < b.toNat || (a == b && strLe as bs)

/-- `a <= b` for two keys of the same sortable kind -/
def keyLe : RV → RV → Bool
  | .int a, .int b => a ≤ b
  | .str a, .str b => strLe a b
  | _, _ => true

def insertBy {α} (le : α → α → Bool) (x : α) : List α → List α
  | [] => [x]
  | y :: r => if le x y then x :: y :: r else y :: insertBy le x r

/-- a stable sort (insertion from the right end keeps equal keys in order) -/
def sortBy {α} (le : α → α → Bool) : List α → List α
  | [] => []
  | x :: r => insertBy le x (sortBy le r)

def isInt : RV → Bool
  | .int _ => true
  | _ => false

def isStr : RV → Bool
  | .str _ => true
  | _ => false

/-- `sorted` succeeds on these keys -/
def keysSortable (ks : List RV) : Bool := ks.all isInt || ks.all isStr

/-- the (key, rendered piece) pairs in the order `_possibly_sorted` yields the keys -/
def possiblySorted (ps : List (RV × Str)) : List (RV × Str) :=
  if keysSortable (ps.map (·.1)) then sortBy (fun a b => keyLe a.1 b.1) ps else ps

/-! ### `repr1` -/

mutual
/-- `_BBRepr.repr1(x, level)` -/
def repr1 (L : Limits) (P : Char → Bool) : RV → Nat → Str
  | .int v, _ => elide L.maxlong (toString v).toList
  | .str s, _ => reprStr P L.maxstring s
  | .other r bn, _ =>
    let s := elide L.maxother r
    if s.head? == some '<' then bn.getD s else s
  | .seq k items, level =>
    let b := k.brackets
    if items.count == 0 then b.empty.getD (b.left ++ b.right)      -- `if not x: return 'set()'`; no pieces
    else
      match level with
      | 0 => b.left ++ fill ++ b.right                             -- `if level <= 0 and n: s = self.fillvalue`
      | l + 1 =>
        let ps := reprItems L P items l
        wrapPieces b (k.limit L) ((if b.sorted then possiblySorted ps else ps).map (·.2))
  | .dict entries, level =>
    if entries.count == 0 then "{}".toList
    else
      match level with
      | 0 => '{' :: fill ++ ['}']
      | l + 1 =>
        wrapPieces { left := ['{'], right := ['}'] } L.maxdict ((possiblySorted (reprEntries L P entries l)).map (·.2))
  | .nil, _ => []
  | .cons _ _, _ => []

/-- every item with its `repr1(elem, newlevel)` -/
def reprItems (L : Limits) (P : Char → Bool) : RV → Nat → List (RV × Str)
  | .cons x rest, l => (x, repr1 L P x l) :: reprItems L P rest l
  | _, _ => []

/-- every key with `'%s: %s' % (repr1(key, newlevel), repr1(x[key], newlevel))` -/
def reprEntries (L : Limits) (P : Char → Bool) : RV → Nat → List (RV × Str)
  | .cons k (.cons v rest), l => (k, repr1 L P k l ++ ':' :: ' ' :: repr1 L P v l) :: reprEntries L P rest l
  | _, _ => []
end

/-- `str.replace("\\'", "'")` -/
def replQ : Str → Str
  | '\\' :: '\'' :: r => '\'' :: replQ r
  | c :: r => c :: replQ r
  | [] => []

/-- `bbrepr(value)` for the limits `L` -/
def bbrepr (L : Limits) (P : Char → Bool) (v : RV) : Str := repr1 L P v L.maxlevel

/-- the string `_format_trace_value` truncates -/
def traceRepr (L : Limits) (P : Char → Bool) (v : RV) : Str := replQ (bbrepr L P v)

end Glom.C05
