import Glom.Model.C17
/-
  C17 — the builder methods at the edges of their arguments: what `Iter().slice(*args)`,
  `limit(count)`, `chunked(size)`, `windowed(size)`, `split(sep, maxsplit)` make of the values a caller
  can write — and WHEN a bad value is rejected:

  * `slice` validates when it is CALLED (`islice([], *args)`): `ValueError` for a negative / non-integer
    bound or a step below 1 (glom's `except TypeError` does not catch it), `TypeError` ("invalid slice
    arguments") for the wrong number of arguments.
  * `limit` does not validate: `islice(it, count)` raises `ValueError` when `glomit` builds the chain,
    i.e. inside `glom()` — after the callbacks of the stages chained before it have run (a `windowed` before
    it has pulled its `size - 1` items already).
  * `chunked`: `chunked_iter` is a generator, `int(size)` and the positivity test run at the first `next()`:
    `chunked(1.5)` is `chunked(1)`, `chunked('2')` is `chunked(2)`, `chunked(0)` / `chunked(-1)` raise
    `ValueError` there, `chunked(None)` `TypeError`.
  * `windowed`: `itertools.tee(src, size)` inside `glomit`: `ValueError` for a negative size, `TypeError` for a
    float / str / None; `windowed(0)` is the empty stream (no tees: `zip()`), nothing pulled.
  * `split`: `int(maxsplit)` at the first `next()`; `0` makes `split_iter` hand out `[src]`, a negative
    number never splits (`split_count >= maxsplit` from the start), `1.5` is `1`.
-/
namespace Glom.C17

/-- a value written as an argument -/
inductive Arg where
  | none
  | int (i : Int)
  | bool (b : Bool)
  | flt (trunc : Int) (integral : Bool)    -- a float: `int()` of it, and whether it is a whole number
  | str (s : String)
  deriving Repr, Inhabited

/-- what `islice` takes for a bound: `None`, or an int (a bool is one) that is not negative -/
def Arg.sliceBound : Arg → Option (Option Nat)
  | .none => some Option.none
  | .int i => if i ≥ 0 then some (some i.toNat) else Option.none
  | .bool b => some (some (if b then 1 else 0))
  | _ => Option.none

/-- `int(x)`: ok, ValueError (a string that is no number), TypeError (None) -/
def Arg.toInt : Arg → Except Err Int
  | .none => .error "TypeError"
  | .int i => .ok i
  | .bool b => .ok (if b then 1 else 0)
  | .flt t _ => .ok t
  | .str s => match s.toInt? with | some i => .ok i | Option.none => .error "ValueError"

/-- `Iter.slice(*args)`: validated at the call by `islice([], *args)` -/
def sliceMethod (args : List Arg) : Except Err Kind :=
  let bound (a : Arg) : Except Err (Option Nat) :=
    match a.sliceBound with | some b => .ok b | Option.none => .error "ValueError"
  let step (a : Arg) : Except Err Nat :=
    match a.sliceBound with
    | some Option.none => .ok 1
    | some (some n) => if n ≥ 1 then .ok n else .error "ValueError"
    | Option.none => .error "ValueError"
  match args with
  | [stop] => do return .slice 0 (← bound stop) 1
  | [start, stop] => do
    let b ← bound stop          -- (CPython checks stop first when both are bad; the class is the same)
    let a ← bound start
    return .slice (a.getD 0) b 1
  | [start, stop, st] => do
    let b ← bound stop
    let a ← bound start
    let s ← step st
    return .slice (a.getD 0) b s
  | _ => .error "TypeError"

/-- `Iter.limit(count)`: never rejected by the builder; `islice(it, count)` inside `glomit` -/
def limitMethod (count : Arg) : Kind :=
  match count.sliceBound with
  | some b => .slice 0 b 1
  | Option.none => .raises "ValueError" true

/-- `Iter.chunked(size, fill)` -/
def chunkedMethod (size : Arg) (fill : Option V) : Kind :=
  match size.toInt with
  | .error e => .raises e false
  | .ok i => if i ≥ 1 then .chunked i.toNat fill else .raises "ValueError" false

/-- `Iter.windowed(size)` -/
def windowedMethod (size : Arg) : Kind :=
  match size with
  | .int i => if i < 0 then .raises "ValueError" true else if i = 0 then .slice 0 (some 0) 1 else .windowed i.toNat
  | .bool b => if b then .windowed 1 else .slice 0 (some 0) 1
  | _ => .raises "TypeError" true

/-- `Iter.split(sep, maxsplit)` -/
def splitMethod (sep : Sep) (maxsplit : Arg) : Kind :=
  match maxsplit with
  | .none => .split sep Option.none
  | m =>
    match m.toInt with
    | .error e => .raises e false
    | .ok i => if i = 0 then .wrapIter else if i < 0 then .split sep (some 0) else .split sep (some i.toNat)

/-! ### `glomit` with a callback that raises -/

/-- the stages whose callbacks `glomit` gets through, and the exception of the first callback that raises -/
def glomitSplit : List Kind → List Kind × Option Err
  | [] => ([], none)
  | k :: ks =>
    match k.glomitErr with
    | some e => ([], some e)
    | none => let r := glomitSplit ks; (k :: r.1, r.2)

/-- `it = glom(target, spec); list(islice(it, k))` when a callback may raise while the chain is built:
    the stages before it are built (and primed) first -/
def runTakeG (kinds : List Kind) (src : Src) (fuel k : Nat) : RunOut :=
  match glomitSplit kinds with
  | (b, some e) =>
    (match runTake b src fuel 0 with
     | ⟨_, .gotK, pos⟩ => ⟨[], .raised e, pos⟩
     | o => o)
  | (_, none) => runTake kinds src fuel k

def runAllG (kinds : List Kind) (src : Src) (fuel : Nat) : RunOut :=
  match glomitSplit kinds with
  | (b, some e) =>
    (match runTake b src fuel 0 with
     | ⟨_, .gotK, pos⟩ => ⟨[], .raised e, pos⟩
     | o => o)
  | (_, none) => runAll kinds src fuel

end Glom.C17
