import Glom.Py.PV
import Glom.Model.C02
import Glom.Model.C18Slice
/-
  Executable primitives on tree values (`PV`): the kernel's model of what
  CPython does for attribute access, subscription, arithmetic and calls on
  None / bool / int / float / str / list / tuple / dict / plain attribute objects /
  the harness' catalogue of callables, as far as no object identity is involved
  (numbers, strings, immutable data).  `Glom/Model/C02Heap.lean` builds the
  instance `hPrim` of the parameter `prim` of the C02 theorems on top of it:
  values with object identity in a heap, so that calls can change the target.

  Modelled, not verified: every case is compared, on every run, with the same
  operation performed by CPython itself (the third leg of the C02 correspondence).
  An operation outside the modelled domain returns the pseudo exception
  `<unsupported>`; the driver then does not compare the model on that case.

  Python semantics reproduced here: `//` and `%` round toward −∞; `bool` is an
  `int` (`True + True == 2`, `True & False` is a bool); `&`, `|`, `^`, `~` on
  negative ints are two's complement; `/` on ints is the correctly rounded IEEE
  quotient (for |operands| < 2^53); `str * int`, `list + list`, `dict | dict`;
  negative indices and full slice semantics; ZeroDivisionError, TypeError,
  KeyError, IndexError, AttributeError, ValueError classes.

  Floats.  `+ - * /` and unary minus on IEEE doubles are Lean's `Float` operations
  (bit-exact; compared by `float.hex()`); `int / int` and `float(int)` are the
  correctly rounded (round-half-even) quotient / conversion for ints of any size,
  computed with integer arithmetic (`ratToFloat`), OverflowError when the result
  does not fit.  Where core Lean cannot reproduce CPython's value bit for bit —
  `float // x`, `float % x` (C `fmod`), `x ** y` with a float result that is not an
  exact power of two (libm `pow`) — the kernel still decides the OUTCOME CLASS
  (a float, ZeroDivisionError for a zero divisor / a zero base with a negative
  exponent, OverflowError for an int operand beyond the float range or a power
  beyond it, TypeError) and returns the *opaque float* `PV.float "?"`: a float
  whose value is not modelled.  Opaque floats flow through later operations
  (`? + 1` is `?`, `? / 0` is ZeroDivisionError, `? & 1` is TypeError; `1 / ?`,
  `? ** x`, `x ** ?` are outside the kernel: the class depends on the value);
  the driver compares observations modulo opaque floats.
-/
namespace Glom.C02
open Glom

def unsupported : PyExc := ⟨"<unsupported>"⟩
def tyErr : PyExc := ⟨"TypeError"⟩
def zdErr : PyExc := ⟨"ZeroDivisionError"⟩
def ovErr : PyExc := ⟨"OverflowError"⟩

/-- the `float.hex()` text of the opaque float: a float whose value the kernel does not model -/
def opaqueHex : String := "?"

/-! ### floats: `float.hex()` text ↔ IEEE double -/

def hexDigit (c : Char) : Option Nat :=
  if '0' ≤ c ∧ c ≤ '9' then some (c.toNat - '0'.toNat)
  else if 'a' ≤ c ∧ c ≤ 'f' then some (c.toNat - 'a'.toNat + 10)
  else none

def hexNat (cs : List Char) : Option Nat :=
  cs.foldlM (fun acc c => (hexDigit c).map (fun d => acc * 16 + d)) 0

def decNat (cs : List Char) : Option Nat :=
  if cs.isEmpty then none
  else cs.foldlM (fun acc c => if c.isDigit then some (acc * 10 + (c.toNat - '0'.toNat)) else none) 0

/-- parse the output of Python's `float.hex()` -/
def floatOfHex (s : String) : Option Float :=
  let (neg, cs) := match s.toList with
    | '-' :: r => (true, r)
    | r => (false, r)
  let sign : UInt64 := if neg then (1 : UInt64) <<< 63 else 0
  if cs == "inf".toList then some (Float.ofBits (sign ||| ((0x7ff : UInt64) <<< 52)))
  else if cs == "nan".toList then some (Float.ofBits (((0x7ff : UInt64) <<< 52) ||| 1))
  else match cs with
    | '0' :: 'x' :: d :: '.' :: rest =>
      let frac := rest.takeWhile (· != 'p')
      let ex := (rest.dropWhile (· != 'p')).drop 1
      let (eneg, eds) := match ex with
        | '-' :: r => (true, r)
        | '+' :: r => (false, r)
        | r => (false, r)
      match hexNat frac, decNat eds with
      | some m, some e =>
        if d == '0' then
          if m == 0 then some (Float.ofBits sign)
          else if frac.length == 13 then some (Float.ofBits (sign ||| m.toUInt64))  -- subnormal
          else none
        else if d == '1' ∧ frac.length == 13 then
          let ei : Int := if eneg then -(e : Int) else e
          let biased := ei + 1023
          if biased ≤ 0 ∨ biased ≥ 2047 then none
          else some (Float.ofBits (sign ||| (biased.toNat.toUInt64 <<< 52) ||| m.toUInt64))
        else none
      | _, _ => none
    | _ => none

def hexChar (d : Nat) : Char :=
  if d < 10 then Char.ofNat ('0'.toNat + d) else Char.ofNat ('a'.toNat + d - 10)

def hex13 (m : Nat) : String :=
  String.ofList ((List.range 13).reverse.map (fun i => hexChar ((m / 16 ^ i) % 16)))

/-- Python's `float.hex()` -/
def hexOfFloat (f : Float) : String :=
  let b := f.toBits.toNat
  let neg := b / 2 ^ 63 == 1
  let e : Nat := (b / 2 ^ 52) % 2048
  let m := b % 2 ^ 52
  if e == 2047 then (if m == 0 then (if neg then "-inf" else "inf") else "nan")
  else
    let s := if neg then "-" else ""
    if e == 0 then
      if m == 0 then s ++ "0x0.0p+0" else s ++ "0x0." ++ hex13 m ++ "p-1022"
    else
      let ex : Int := (e : Int) - 1023
      s ++ "0x1." ++ hex13 m ++ "p" ++ (if ex < 0 then "-" else "+") ++ toString ex.natAbs

def two53 : Int := 9007199254740992

/-- what the kernel knows about a float result -/
inductive FK where
  | known (f : Float)      -- the value, bit for bit
  | opaque                 -- a float; the value is not modelled
  | overflow               -- does not fit a double: OverflowError
  | unknown                -- outside the kernel

/-- the double nearest to `(q + δ) · 2^e` (round half to even), `0 ≤ δ < 1`, `δ > 0` iff
    `sticky`; `q ≥ 2^54` -/
def roundScaled (q : Nat) (sticky : Bool) (e : Int) : FK :=
  let bits := q.log2 + 1
  if bits < 55 then .unknown
  else
    let drop := bits - 53
    let m := q >>> drop
    let rem := q % 2 ^ drop
    let half := 2 ^ (drop - 1)
    let up := rem > half || (rem == half && (sticky || m % 2 == 1))
    let m' := if up then m + 1 else m
    let ex : Int := e + drop
    if ex < -1021 then .unknown           -- subnormal range: another rounding position
    else
      let f := Float.scaleB (Float.ofNat m') ex
      if f.isInf then .overflow else .known f

/-- the correctly rounded double of `n / d` (`n, d > 0`): CPython's `int / int`
    (`long_true_divide`) and, with `d = 1`, `float(int)` (`PyLong_AsDouble`) -/
def ratToFloat (n d : Nat) : FK :=
  let s : Int := 56 - ((n.log2 : Int) - (d.log2 : Int))     -- the scaled quotient has 55 … 57 bits
  let nn := if s ≥ 0 then n <<< s.toNat else n
  let dd := if s ≥ 0 then d else d <<< (-s).toNat
  roundScaled (nn / dd) (nn % dd != 0) (-s)

def negFK : FK → FK
  | .known f => .known (-f)
  | k => k

/-- `float(i)`: exact for |i| ≤ 2^53, correctly rounded beyond, OverflowError from 2^1024 − 2^970 on -/
def floatOfIntK (i : Int) : FK :=
  if -two53 ≤ i ∧ i ≤ two53 then .known (Float.ofInt i)
  else if i < 0 then negFK (ratToFloat i.natAbs 1) else ratToFloat i.natAbs 1

/-- `a / c` for ints, `c ≠ 0`; the sign of a zero result is that of the operands (`0 / -5` is `-0.0`) -/
def intTrueDiv (a c : Int) : FK :=
  let neg := (a < 0) != (c < 0)
  if a == 0 then .known (if neg then -0.0 else 0.0)
  else
    let r := if -two53 ≤ a ∧ a ≤ two53 ∧ -two53 ≤ c ∧ c ≤ two53
      then FK.known (Float.ofNat a.natAbs / Float.ofNat c.natAbs)
      else ratToFloat a.natAbs c.natAbs
    if neg then negFK r else r

/-! ### value helpers -/

def asInt? : PV → Option Int
  | .int i => some i
  | .bool b => some (if b then 1 else 0)
  | _ => none

/-- a number: exact int, float, or the opaque float -/
inductive Num where
  | i (v : Int)
  | f (v : Float)
  | o

def asNum? : PV → Option Num
  | .int i => some (.i i)
  | .bool b => some (.i (if b then 1 else 0))
  | .float h => if h == opaqueHex then some .o else (floatOfHex h).map .f
  | _ => none

def pvFloat (f : Float) : PV := .float (hexOfFloat f)
def pvOpaque : PV := .float opaqueHex

def pvOfFK : FK → Except PyExc PV
  | .known f => .ok (pvFloat f)
  | .opaque => .ok pvOpaque
  | .overflow => .error ovErr
  | .unknown => .error unsupported

partial def pvHashable : PV → Bool
  | .list _ | .dict _ | .odict _ | .set _ => false
  | .tuple xs => xs.all pvHashable
  | _ => true

/-- Python `==` on tree values; `none`: outside the modelled domain -/
partial def pyEq : PV → PV → Option Bool
  | .none, .none => some true
  | .str a, .str b => some (a == b)
  | .fn a, .fn b => some (a == b)
  | .ty a, .ty b => some (a == b)
  | .sent a, .sent b => some (a == b)
  | .float _, .float _ => none
  | .float _, .int _ | .float _, .bool _ | .int _, .float _ | .bool _, .float _ => none
  | .list xs, .list ys => seqEq xs ys
  | .tuple xs, .tuple ys => seqEq xs ys
  | .dict _, .dict _ => none
  | .obj _ _, .obj _ _ => none
  | a, b =>
    match asInt? a, asInt? b with
    | some x, some y => some (x == y)
    | _, _ => some false
where
  seqEq : List PV → List PV → Option Bool
    | [], [] => some true
    | x :: xs, y :: ys =>
      match pyEq x y with
      | some true => seqEq xs ys
      | r => r
    | _, _ => some false

def dictFind (es : List (PV × PV)) (k : PV) : Except PyExc (Option PV) :=
  if !pvHashable k then .error tyErr
  else
    let rec go : List (PV × PV) → Except PyExc (Option PV)
      | [] => .ok none
      | (k', v) :: r =>
        match pyEq k' k with
        | some true => .ok (some v)
        | some false => go r
        | none => .error unsupported
    go es

def dictInsert (es : List (PV × PV)) (k v : PV) : Except PyExc (List (PV × PV)) :=
  let rec go : List (PV × PV) → Except PyExc (List (PV × PV))
    | [] => .ok [(k, v)]
    | (k', v') :: r =>
      match pyEq k' k with
      | some true => .ok ((k', v) :: r)
      | some false => (go r).map ((k', v') :: ·)
      | none => .error unsupported
  go es

def mkDictPV (kvs : List (PV × PV)) : Except PyExc PV :=
  (kvs.foldlM (fun acc kv =>
    if !pvHashable kv.1 then .error tyErr else dictInsert acc kv.1 kv.2) []).map PV.dict

def sliceObj (a b c : PV) : PV := .obj "slice" [("start", a), ("stop", b), ("step", c)]

def sliceField : PV → Except PyExc (Option Int)
  | .none => .ok none
  | v => match asInt? v with
    | some i => .ok (some i)
    | none => .error tyErr

/-- `xs[key]` for a list / tuple / str given as a list of items -/
def seqGetitem {α} (xs : List α) (key : PV) (one : α → PV) (many : List α → PV) : Except PyExc PV :=
  match key with
  | .obj "slice" [("start", a), ("stop", b), ("step", c)] =>
    match sliceField a, sliceField b, sliceField c with
    | .ok a', .ok b', .ok c' =>
      match C18.pySlice xs a' b' c' with
      | some ys => .ok (many ys)
      | none => .error ⟨"ValueError"⟩
    | _, _, _ => .error tyErr
  | _ =>
    match asInt? key with
    | some i => match C18.pyIndexNat xs.length i with
      | some j => match xs[j]? with
        | some x => .ok (one x)
        | none => .error ⟨"IndexError"⟩
      | none => .error ⟨"IndexError"⟩
    | none => .error tyErr

def pvGetitem (cur key : PV) : Except PyExc PV :=
  match cur with
  | .list xs => seqGetitem xs key id PV.list
  | .tuple xs => seqGetitem xs key id PV.tuple
  | .str s => seqGetitem s.toList key (fun c => .str (String.singleton c)) (fun cs => .str (String.ofList cs))
  | .dict es =>
    match dictFind es key with
    | .ok (some v) => .ok v
    | .ok none => .error ⟨"KeyError"⟩
    | .error e => .error e
  | _ => .error tyErr

/-- builtin methods the generators may name: (type, method) -/
def builtinMethods : List (String × String) :=
  [("str", "upper"), ("str", "count"), ("str", "index"), ("str", "startswith"),
   ("list", "count"), ("list", "index"), ("tuple", "count"), ("tuple", "index"),
   ("dict", "get"),
   ("list", "pop"), ("list", "append"), ("dict", "pop"), ("dict", "setdefault")]

def pvTypeName : PV → String
  | .none => "NoneType" | .bool _ => "bool" | .int _ => "int" | .str _ => "str"
  | .float _ => "float" | .list _ => "list" | .tuple _ => "tuple" | .dict _ => "dict"
  | .fn _ => "function" | .obj c _ => c | _ => "?"

def boundMethod (self : PV) (name : String) : PV := .obj "<bound>" [("self", self), ("name", .str name)]

def pvGetattr (cur name : PV) : Except PyExc PV :=
  match name with
  | .str n =>
    match cur with
    | .obj "<bound>" _ => .error ⟨"AttributeError"⟩
    | .obj "slice" _ => .error unsupported
    | .obj _ attrs =>
      match attrs.find? (·.1 == n) with
      | some (_, v) => .ok v
      | none => .error ⟨"AttributeError"⟩
    | _ =>
      if builtinMethods.contains (pvTypeName cur, n) then .ok (boundMethod cur n)
      else .error ⟨"AttributeError"⟩
  | _ => .error tyErr

/-! ### arithmetic -/

/-- bitwise operations on two's complement integers of unbounded width -/
def intAnd (a b : Int) : Int :=
  match decide (a < 0), decide (b < 0) with
  | false, false => (a.toNat &&& b.toNat : Nat)
  | true, false => let x := (-a - 1).toNat; ((b.toNat - (b.toNat &&& x) : Nat) : Int)      -- b & ~x
  | false, true => let y := (-b - 1).toNat; ((a.toNat - (a.toNat &&& y) : Nat) : Int)
  | true, true => -(((-a - 1).toNat ||| (-b - 1).toNat : Nat) : Int) - 1

def intNot (a : Int) : Int := -a - 1
def intOr (a b : Int) : Int := intNot (intAnd (intNot a) (intNot b))
def intXor (a b : Int) : Int :=
  match decide (a < 0), decide (b < 0) with
  | false, false => (a.toNat ^^^ b.toNat : Nat)
  | true, false => intNot (((-a - 1).toNat ^^^ b.toNat : Nat) : Int)
  | false, true => intNot ((a.toNat ^^^ (-b - 1).toNat : Nat) : Int)
  | true, true => (((-a - 1).toNat ^^^ (-b - 1).toNat : Nat) : Int)

def bothBool : PV → PV → Option (Bool × Bool)
  | .bool a, .bool b => some (a, b)
  | _, _ => none

def repeatList {α} (xs : List α) (n : Int) : List α :=
  (List.replicate n.toNat xs).flatten

/-- `seq * n`: a count that does not fit `Py_ssize_t` is an OverflowError (whatever its sign);
    a count the kernel will not materialise is outside the modelled domain -/
def repGuard (len : Nat) (n : Int) : Option PyExc :=
  if n > 9223372036854775807 ∨ n < -9223372036854775808 then some ovErr
  else if n * len > 100000 then some unsupported
  else none

def seqRepeat {α} (xs : List α) (n : Int) (mk : List α → PV) : Except PyExc PV :=
  match repGuard xs.length n with
  | some e => .error e
  | none => .ok (mk (repeatList xs n))

def isFiniteF (x : Float) : Bool := !(x.isNaN || x.isInf)

/-- `2^e` for `-1022 ≤ e ≤ 1023` -/
def pow2Float (neg : Bool) (e : Int) : Float :=
  Float.ofBits ((if neg then (1 : UInt64) <<< 63 else 0) ||| ((e + 1023).toNat.toUInt64 <<< 52))

/-- the integer a finite float is, when it is one (and below 2^63 in magnitude) -/
def floatInt? (y : Float) : Option Int :=
  if y == y.floor && y.abs < 9.2e18 then
    some (if y < 0.0 then -((-y).toUInt64.toNat : Int) else (y.toUInt64.toNat : Int))
  else none

/-- `x ** y` for floats (CPython `float_pow`): the special cases it decides itself, then libm
    `pow` — whose value the kernel reproduces only for exact powers of two; otherwise the
    result is a float (opaque), or OverflowError when it leaves the range of a double
    (decided on `y · log2 |x|` with a margin; inside the margin: outside the kernel) -/
def floatPow (x y : Float) : Except PyExc PV :=
  if y == 0.0 then .ok (pvFloat 1.0)
  else if !(isFiniteF x && isFiniteF y) then .error unsupported
  else if x == 0.0 then
    if y < 0.0 then .error zdErr            -- 0.0 cannot be raised to a negative power
    else match floatInt? y with
      | some k => .ok (pvFloat (if k % 2 == 1 then x else 0.0))     -- the sign of zero for an odd power
      | none => .ok (pvFloat 0.0)          -- not an odd integer
  else if x < 0.0 && y != y.floor then .error unsupported         -- a complex result
  else if x == 1.0 then .ok (pvFloat 1.0)
  else
    let bits : Nat := x.toBits.toNat
    let mant : Nat := bits % 2 ^ 52
    let bexp : Nat := (bits / 2 ^ 52) % 2048
    match (if mant == 0 && bexp != 0 then floatInt? y else none) with
    | some k =>
      -- |x| = 2^(bexp − 1023): the power is 2^((bexp − 1023) · k), exactly
      let e : Int := ((bexp : Int) - 1023) * k
      if e > 1023 then .error ovErr
      else if e < -1022 then (if e < -1080 then .ok (pvFloat (if x < 0.0 && k % 2 == 1 then -0.0 else 0.0)) else .ok pvOpaque)
      else .ok (pvFloat (pow2Float (x < 0.0 && k % 2 == 1) e))
    | none =>
      let t := y * Float.log2 x.abs
      if t ≥ 1024.01 then .error ovErr
      else if t ≤ 1023.99 then .ok pvOpaque
      else .error unsupported

/-- float ∘ float, both values known -/
def floatBin (b : BinOp) (x y : Float) : Except PyExc PV :=
  match b with
  | .add => .ok (pvFloat (x + y))
  | .sub => .ok (pvFloat (x - y))
  | .mul => .ok (pvFloat (x * y))
  | .truediv => if y == 0.0 then .error zdErr else .ok (pvFloat (x / y))
  -- C `fmod`: the value is not reproduced; never an error for a non-zero divisor
  | .floordiv | .mod => if y == 0.0 then .error zdErr else .ok pvOpaque
  | .pow => floatPow x y
  | _ => .error tyErr

/-- opaque float ∘ known float -/
def opaqueLeft (b : BinOp) (y : Float) : Except PyExc PV :=
  match b with
  | .add | .sub | .mul => .ok pvOpaque
  | .truediv | .floordiv | .mod => if y == 0.0 then .error zdErr else .ok pvOpaque
  | .pow => if y == 0.0 then .ok (pvFloat 1.0) else .error unsupported
  | _ => .error tyErr

/-- known float (or opaque) ∘ opaque float: a zero divisor / exponent cannot be excluded -/
def opaqueRight (b : BinOp) : Except PyExc PV :=
  match b with
  | .add | .sub | .mul => .ok pvOpaque
  | .truediv | .floordiv | .mod | .pow => .error unsupported
  | _ => .error tyErr

/-- arithmetic on two numbers of which at least one is a float: an int operand is
    converted first (`float(i)`: OverflowError beyond the range of a double) -/
def mixedBin (b : BinOp) (x y : Num) : Except PyExc PV :=
  let isArith := match b with
    | .band | .bor | .bxor => false
    | _ => true
  if !isArith then .error tyErr
  else
    let conv : Num → FK
      | .i v => floatOfIntK v
      | .f v => .known v
      | .o => .opaque
    match conv x, conv y with
    | .overflow, _ | _, .overflow => .error ovErr
    | .unknown, _ | _, .unknown => .error unsupported
    | .known a, .known c => floatBin b a c
    | .opaque, .known c => opaqueLeft b c
    | _, .opaque => opaqueRight b

def dictMerge (a b : List (PV × PV)) : Except PyExc PV :=
  (b.foldlM (fun acc kv => dictInsert acc kv.1 kv.2) a).map PV.dict

def pvBin (b : BinOp) (x y : PV) : Except PyExc PV :=
  match asNum? x, asNum? y with
  | some (.i a), some (.i c) =>
    match b with
    | .add => .ok (.int (a + c))
    | .sub => .ok (.int (a - c))
    | .mul => .ok (.int (a * c))
    | .floordiv => if c == 0 then .error zdErr else .ok (.int (Int.fdiv a c))
    | .mod => if c == 0 then .error zdErr else .ok (.int (Int.fmod a c))
    | .truediv => if c == 0 then .error zdErr else pvOfFK (intTrueDiv a c)
    | .pow =>
      -- a negative exponent: `float(a) ** float(c)` (CPython `long_pow` → `float_pow`)
      if c < 0 then
        match floatOfIntK a, floatOfIntK c with
        | .overflow, _ | _, .overflow => .error ovErr
        | .known fa, .known fc => floatPow fa fc
        | _, _ => .error unsupported
      else if c > 64 then .error unsupported
      else .ok (.int (a ^ c.toNat))
    | .band => match bothBool x y with
      | some (p, q) => .ok (.bool (p && q))
      | none => .ok (.int (intAnd a c))
    | .bor => match bothBool x y with
      | some (p, q) => .ok (.bool (p || q))
      | none => .ok (.int (intOr a c))
    | .bxor => match bothBool x y with
      | some (p, q) => .ok (.bool (p != q))
      | none => .ok (.int (intXor a c))
  | some x', some y' => mixedBin b x' y'
  | _, _ =>
    match b, x, y with
    | .add, .str s, .str t => .ok (.str (s ++ t))
    | .add, .list xs, .list ys => .ok (.list (xs ++ ys))
    | .add, .tuple xs, .tuple ys => .ok (.tuple (xs ++ ys))
    | .mul, .str s, n => match asInt? n with
      | some k => seqRepeat s.toList k (fun cs => .str (String.ofList cs))
      | none => .error tyErr
    | .mul, .list xs, n => match asInt? n with
      | some k => seqRepeat xs k PV.list
      | none => .error tyErr
    | .mul, .tuple xs, n => match asInt? n with
      | some k => seqRepeat xs k PV.tuple
      | none => .error tyErr
    | .mul, n, .str s => match asInt? n with
      | some k => seqRepeat s.toList k (fun cs => .str (String.ofList cs))
      | none => .error tyErr
    | .mul, n, .list xs => match asInt? n with
      | some k => seqRepeat xs k PV.list
      | none => .error tyErr
    | .mul, n, .tuple xs => match asInt? n with
      | some k => seqRepeat xs k PV.tuple
      | none => .error tyErr
    | .mod, .str _, _ => .error unsupported        -- printf-style formatting
    | .bor, .dict a, .dict c => dictMerge a c
    | _, .obj "slice" _, _ | _, _, .obj "slice" _ => .error unsupported
    | _, _, _ => .error tyErr

def pvUn (u : UnOp) (x : PV) : Except PyExc PV :=
  match u, asNum? x with
  | .invert, some (.i a) => .ok (.int (intNot a))
  | .invert, _ => .error tyErr
  | .neg, some (.i a) => .ok (.int (-a))
  | .neg, some (.f a) => .ok (pvFloat (-a))
  | .neg, some .o => .ok pvOpaque
  | .neg, none => .error tyErr

/-! ### calls: the harness' catalogue of callables and the builtin methods -/

/-- bind `args`/`kwargs` to a parameter list `(name, default?)`; `none` is the TypeError -/
def bindArgs {α} (params : List (String × Option α)) (args : List α) (kwargs : List (String × α)) :
    Option (List α) :=
  if args.length > params.length then none
  else if kwargs.any (fun kw => !(params.any (·.1 == kw.1))) then none
  else
    let idx := List.range params.length
    let bound := (idx.zip params).map (fun (ip : Nat × (String × Option α)) =>
      let pos := args[ip.1]?
      let kw := (kwargs.find? (·.1 == ip.2.1)).map (·.2)
      match pos, kw with
      | some _, some _ => (none : Option α)             -- multiple values for the argument
      | some v, none => some v
      | none, some v => some v
      | none, none => ip.2.2)
    if bound.all Option.isSome then some (bound.filterMap id) else none

def pvLen : PV → Except PyExc PV
  | .str s => .ok (.int s.length)
  | .list xs | .tuple xs => .ok (.int xs.length)
  | .dict es => .ok (.int es.length)
  | _ => .error tyErr

def callFn (name : String) (args : List PV) (kwargs : List (String × PV)) : Except PyExc PV :=
  match name with
  | "inc" => match bindArgs [("x", none)] args kwargs with
    | some [x] => pvBin .add x (.int 1)
    | _ => .error tyErr
  | "add2" => match bindArgs [("a", none), ("b", none)] args kwargs with
    | some [a, b] => pvBin .add a b
    | _ => .error tyErr
  | "neg" => match bindArgs [("x", none)] args kwargs with
    | some [x] => pvUn .neg x
    | _ => .error tyErr
  | "ident" => match bindArgs [("x", none)] args kwargs with
    | some [x] => .ok x
    | _ => .error tyErr
  | "kw" => match bindArgs [("a", none), ("b", some (.int 10))] args kwargs with
    | some [a, b] => pvBin .sub a b
    | _ => .error tyErr
  | "mklist" => if kwargs.isEmpty then .ok (.list args) else .error tyErr
  | "const7" => if args.isEmpty ∧ kwargs.isEmpty then .ok (.int 7) else .error tyErr
  | "raise_value" => .error ⟨"ValueError"⟩
  | "raise_key" => .error ⟨"KeyError"⟩
  | "raise_type" => .error tyErr
  | "raise_zero" => .error zdErr
  | "raise_attr" => .error ⟨"AttributeError"⟩
  | "raise_index" => .error ⟨"IndexError"⟩
  | "len" => if !kwargs.isEmpty then .error tyErr else match args with
    | [x] => pvLen x
    | _ => .error tyErr
  | _ => .error unsupported

def countSub (s sub : List Char) : Nat :=
  if sub.isEmpty then s.length + 1
  else
    let rec go (fuel : Nat) (s : List Char) (acc : Nat) : Nat :=
      match fuel with
      | 0 => acc
      | fuel + 1 =>
        if s.length < sub.length then acc
        else if sub.isPrefixOf s then go fuel (s.drop sub.length) (acc + 1)
        else go fuel (s.drop 1) acc
    go (s.length + 1) s 0

def findSub (s sub : List Char) : Option Nat :=
  let rec go (fuel : Nat) (s : List Char) (i : Nat) : Option Nat :=
    match fuel with
    | 0 => none
    | fuel + 1 =>
      if sub.isPrefixOf s then some i
      else match s with
        | [] => none
        | _ :: r => go fuel r (i + 1)
  go (s.length + 1) s 0

def seqCount (xs : List PV) (x : PV) : Except PyExc PV :=
  let step (acc : Nat) (y : PV) : Except PyExc Nat :=
    match pyEq y x with
    | some true => .ok (acc + 1)
    | some false => .ok acc
    | none => .error unsupported
  (xs.foldlM step 0).map (fun n => PV.int n)

def seqIndex (xs : List PV) (x : PV) : Except PyExc PV :=
  let rec go : List PV → Nat → Except PyExc PV
    | [], _ => .error ⟨"ValueError"⟩
    | y :: r, i => match pyEq y x with
      | some true => .ok (.int i)
      | some false => go r (i + 1)
      | none => .error unsupported
  go xs 0

def callMethod (self : PV) (name : String) (args : List PV) (kwargs : List (String × PV)) :
    Except PyExc PV :=
  if !kwargs.isEmpty then .error tyErr
  else match self, name, args with
    | .str s, "upper", [] => .ok (.str s.toUpper)
    | .str s, "count", [.str sub] => .ok (.int (countSub s.toList sub.toList))
    | .str s, "index", [.str sub] => match findSub s.toList sub.toList with
      | some i => .ok (.int i)
      | none => .error ⟨"ValueError"⟩
    | .str s, "startswith", [.str p] => .ok (.bool (p.toList.isPrefixOf s.toList))
    | .str _, "startswith", [.tuple _] => .error unsupported
    | .str _, "count", [_, _] | .str _, "index", [_, _] | .str _, "startswith", [_, _] => .error unsupported
    | .str _, "count", [_, _, _] | .str _, "index", [_, _, _] | .str _, "startswith", [_, _, _] => .error unsupported
    | .list xs, "count", [x] => seqCount xs x
    | .tuple xs, "count", [x] => seqCount xs x
    | .list xs, "index", [x] => seqIndex xs x
    | .tuple xs, "index", [x] => seqIndex xs x
    | .list _, "index", [_, _] | .tuple _, "index", [_, _] => .error unsupported
    | .list _, "index", [_, _, _] | .tuple _, "index", [_, _, _] => .error unsupported
    | .dict es, "get", [k] => match dictFind es k with
      | .ok (some v) => Except.ok v
      | .ok none => Except.ok PV.none
      | .error e => Except.error e
    | .dict es, "get", [k, d] => match dictFind es k with
      | .ok (some v) => Except.ok v
      | .ok none => Except.ok d
      | .error e => Except.error e
    | _, _, _ => .error tyErr

def pvCall (f : PV) (args : List PV) (kwargs : List (String × PV)) : Except PyExc PV :=
  match f with
  | .fn name => callFn name args kwargs
  | .obj "<bound>" [("self", self), ("name", .str name)] => callMethod self name args kwargs
  | .ty _ => .error unsupported
  | _ => .error tyErr          -- object is not callable

end Glom.C02
