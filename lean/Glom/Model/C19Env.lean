import Glom.Model.C19Face
import Glom.Generated.C19Facts
/-
  The facts of C19 instantiated with what the extractor regenerated from /repo/glom/cli.py, and
  the option table read off the Command object `get_command()` builds.
-/
namespace Glom.C19

def genFacts : Facts :=
  { specBranches := Generated.cliSpecBranches
    reprBranches := Generated.cliReprBranches
    firstChars := Generated.cliFirstChars.map (·.front)
    specDefault := Generated.cliSpecDefault
    targetLoaders := Generated.cliTargetLoaders
    targetDefault := Generated.cliTargetDefault
    indentDefault := Generated.cliIndentDefault
    loadCatch := Generated.cliLoadCatch
    loaderRaises := Generated.cliLoaderRaises
    specReadCatch := Generated.cliSpecReadCatch
    targetReadCatch := Generated.cliTargetReadCatch
    stdinReadCatch := Generated.cliStdinReadCatch }

/-- `parse_as` as the extractor names it → the model's kind -/
def kindOf (k : String) : String :=
  if k == "str" then "str" else if k == "int" then "int"
  else if "const:".toList.isPrefixOf k.toList then "const" else k

def genTable : Table :=
  { flags := Generated.cliFlagTable.map (fun f => ⟨f.1, kindOf f.2.2.1, f.2.2.2.2⟩)
    keys := Generated.cliFlagKeys
    posMax := if Generated.cliPosMax < 0 then none else some Generated.cliPosMax.toNat
    postPosargs := Generated.cliPostPosargs.head? != some "none"
    flagfile := Generated.cliFlagfileFlag
    help := Generated.cliHelpFlag }

end Glom.C19
