import Glom.Model.C19
import Glom.Generated.C19Facts
/-
  The facts of C19 instantiated with what the extractor regenerated from /repo/glom/cli.py.
-/
namespace Glom.C19

def genFacts : Facts :=
  { specBranches := Generated.cliSpecBranches
    reprBranches := Generated.cliReprBranches
    firstChars := Generated.cliFirstChars.map (·.front)
    specDefault := Generated.cliSpecDefault
    targetLoaders := Generated.cliTargetLoaders
    targetDefault := Generated.cliTargetDefault
    indentDefault := Generated.cliIndentDefault
    loadCatch := Generated.cliLoadCatch
    loaderRaises := Generated.cliLoaderRaises
    specReadCatch := Generated.cliSpecReadCatch
    targetReadCatch := Generated.cliTargetReadCatch
    stdinReadCatch := Generated.cliStdinReadCatch }

end Glom.C19
