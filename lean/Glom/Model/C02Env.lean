import Glom.Model.C02
import Glom.Generated.TFacts
import Glom.Generated.ExcFacts
/-
  The facts of C02 instantiated with the tables regenerated from /repo:
  the TType overloads that record an op, `_t_eval`'s branch table, the third
  argument of its PathAccessError(…) calls, and the exception MROs.
-/
namespace Glom.C02
open Glom

def genFacts : Facts :=
  { recorded := Generated.tRecorded
    dispatch := Generated.tDispatch
    partIdx := Generated.tPartIdxExprs
    argExempt := Generated.tArgValExempt
    argShapeOk := Generated.tArgValShapeOk
    exc := Generated.excTable }

end Glom.C02
