import Glom.Model.C02
import Glom.Generated.TFacts
import Glom.Generated.ExcFacts
import Glom.Generated.C02Facts
/-
  The facts of C02 instantiated with the tables regenerated from /repo:
  the TType overloads that record an op, `_t_eval`'s branch table, the third
  argument of its PathAccessError(…) calls, the exception MROs, and the type tests of
  `_ArgValuator.mode` (C02Facts, extract/facts/c02.py).
-/
namespace Glom.C02
open Glom

def genFacts : Facts :=
  { recorded := Generated.tRecorded
    dispatch := Generated.tDispatch
    partIdx := Generated.tPartIdxExprs
    argExempt := Generated.tArgValExempt
    argShapeOk := Generated.tArgValShapeOk
    argExact := Generated.argModeExact
    argInst := Generated.argModeInst
    argModeShapeOk := Generated.argModeShapeOk
    exc := Generated.excTable }

end Glom.C02
