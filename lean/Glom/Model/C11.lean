import Glom.Model.C01
/-
  C11 (and the machinery shared with C12) — code-shaped model of in-place mutation.

  Part 1 (namespace `Glom.Mut`): Python's mutating primitives on the heap kernel

      pySetitem    ~  dest[key] = v            pyDelitem    ~  del dest[key]
      pySetattr    ~  setattr(dest, name, v)   pyDelattr    ~  delattr(dest, name)
      pySetSeqItem ~  dest[int(idx)] = v       pyDelSeqItem ~  del dest[int(idx)]

    each returning the new heap (a functional update of exactly one cell) or the
    class of the exception CPython raises, the handler choice of the `assign` /
    `delete` registry ops (first class of the MRO that is registered — the rule
    of the current `_get_closest_type`; `False` → UnregisteredTarget), and the
    model of `_t_eval` over a step list *with* the `*` wildcard (`fetch`, nested
    result lists) and of `_apply_for_each` (`sum(val, [])` layers-1 times, then
    one call per element).

  Part 2 (namespace `Glom.C11`): `Assign.__init__`, `Assign.glomit` (value first,
    fetch the parent, on PathAccessError with `missing`: factory call, recursive
    `Assign(remaining.from_t(), Val(val))` on the fresh object, re-fetch of the
    prefix from the destination root, attach), `_assign_op` driven by the branch
    table extracted from the source.

  Per-class behaviour that the five cell layouts cannot express is given by
  flags in the case's class table:
      raise_setattr / raise_delattr / raise_setitem / raise_delitem
                    the class overrides that dunder with one that raises RuntimeError
      ro:<name>     a property <name> without setter/deleter (its getter reads the
                    instance __dict__, so reading is a plain attribute read)
      has_dict      instances of this container subclass have a __dict__: setattr
                    succeeds but the attribute is invisible to the cell (reported
                    as a *hidden* write)
      scope         the cell stands for the scope *frame* an S-rooted destination starts from
                    (`scope[UP]`, a ChainMap): initially it holds the caller's scope variables
                    (glom copies the mapping handed to `glom(scope=…)` into its root frame — the
                    caller's own mapping is never written, which the harness observes apart);
                    item reads see them, an item assignment binds in the frame (the cell is
                    updated like a dict: later steps of the same chain see the binding, the
                    harness reads the frame back from a later chain step); setattr lands on
                    the ChainMap object where no variable lookup sees it (cell unchanged);
                    deletions are C12's (frame unchanged there)
      scope_outer   (with `scope`) the spec under test is a step of a chain: it runs under a frame of
                    its own, every variable the cell shows lives in an OUTER map of the ChainMap —
                    `del scope[UP][name]` raises KeyError("Key not found in the first mapping")
-/
namespace Glom.Mut
open Glom

abbrev Step := String × Val

/-- result of a successful mutating primitive -/
structure Wr where
  heap : Heap
  hidden : Bool := false     -- Python stored something the cell layout cannot show
  cell : Option Nat := none  -- address of the cell that was replaced
  deriving DecidableEq, Repr

structure MEnv where
  t : C01.TEnv
  assignReg : List (String × String)
  deleteReg : List (String × String)
  /-- branches of `_assign_op`: op ↦ (kind, caught classes, class raised) -/
  assignBr : List (String × String × List String × String)
  /-- branches of `Delete._del_one` -/
  delBr : List (String × String × List String × String)
  flags : List (String × List String)

def MEnv.flag (env : MEnv) (cls f : String) : Bool :=
  match env.flags.find? (·.1 == cls) with
  | some (_, fs) => fs.contains f
  | none => false

/-! ### cell updates -/

/-- `d[k] = v` on the entry list: the first equal key keeps its key object and
    position, otherwise the entry is appended -/
def setEntry : List (Val × Val) → Val → Val → List (Val × Val)
  | [], k, v => [(k, v)]
  | (k', v') :: r, k, v => if pyKeyEq k' k then (k', v) :: r else (k', v') :: setEntry r k v

def delEntry : List (Val × Val) → Val → Option (List (Val × Val))
  | [], _ => none
  | (k', v') :: r, k => if pyKeyEq k' k then some r else (delEntry r k).map ((k', v') :: ·)

def setAttr : List (String × Val) → String → Val → List (String × Val)
  | [], n, v => [(n, v)]
  | (n', v') :: r, n, v => if n' == n then (n', v) :: r else (n', v') :: setAttr r n v

def delAttr : List (String × Val) → String → Option (List (String × Val))
  | [], _ => none
  | (n', v') :: r, n => if n' == n then some r else (delAttr r n).map ((n', v') :: ·)

/-- position a Python index denotes in a sequence of length `n` -/
def pyIdx (n : Nat) (i : Int) : Option Nat :=
  let j := if i < 0 then i + n else i
  if j < 0 then none else if j.toNat < n then some j.toNat else none

/-! ### the six primitives -/

def pySetitem (env : MEnv) (h : Heap) (dest key v : Val) : Except PyExc Wr :=
  match dest with
  | .ref a =>
    match h[a]? with
    | some (.dict c es) =>
      if env.flag c "raise_setitem" then .error (exc "RuntimeError")
      else if !key.hashable h then .error (exc "TypeError")
      else .ok { heap := h.set a (.dict c (setEntry es key v)), cell := some a }
    | some (.list c xs) =>
      if env.flag c "raise_setitem" then .error (exc "RuntimeError")
      else match asIndex key with
        | none => .error (exc "TypeError")
        | some i => match pyIdx xs.length i with
          | none => .error (exc "IndexError")
          | some j => .ok { heap := h.set a (.list c (xs.set j v)), cell := some a }
    | _ => .error (exc "TypeError")
  | _ => .error (exc "TypeError")

def pySetattr (env : MEnv) (h : Heap) (dest name v : Val) : Except PyExc Wr :=
  match name with
  | .str n =>
    match dest with
    | .ref a =>
      match h[a]? with
      | some (.inst c as) =>
        if env.flag c "raise_setattr" then .error (exc "RuntimeError")
        else if env.flag c ("ro:" ++ n) then .error (exc "AttributeError")
        else .ok { heap := h.set a (.inst c (setAttr as n v)), cell := some a }
      | some o =>
        if env.flag o.cls "scope" then .ok { heap := h }
        else if env.flag o.cls "has_dict" then .ok { heap := h, hidden := true }
        else .error (exc "AttributeError")
      | none => .error (exc "AttributeError")
    | _ => .error (exc "AttributeError")
  | _ => .error (exc "TypeError")

def pySetSeqItem (env : MEnv) (h : Heap) (dest idx v : Val) : Except PyExc Wr :=
  match pyInt h idx with
  | .ok i => pySetitem env h dest (.int i) v
  | .error e => .error e

def pyDelitem (env : MEnv) (h : Heap) (dest key : Val) : Except PyExc Wr :=
  match dest with
  | .ref a =>
    match h[a]? with
    | some (.dict c es) =>
      if env.flag c "raise_delitem" then .error (exc "RuntimeError")
      else if !key.hashable h then .error (exc "TypeError")
      else match delEntry es key with
        | none => .error (exc "KeyError")
        | some es' =>
          -- the scope frame (`del chainmap[key]` deletes from the FIRST map only): a Delete that is the
          -- whole spec unbinds the variable in the root frame (which nothing can look into afterwards:
          -- cell unchanged); a Delete that is a step of a chain runs under a frame of its own, the
          -- variables it sees live in outer maps (`scope_outer`): KeyError, nothing is unbound
          if env.flag c "scope" then
            (if env.flag c "scope_outer" then .error (exc "KeyError") else .ok { heap := h })
          else .ok { heap := h.set a (.dict c es'), cell := some a }
    | some (.list c xs) =>
      if env.flag c "raise_delitem" then .error (exc "RuntimeError")
      else match asIndex key with
        | none => .error (exc "TypeError")
        | some i => match pyIdx xs.length i with
          | none => .error (exc "IndexError")
          | some j => .ok { heap := h.set a (.list c (xs.eraseIdx j)), cell := some a }
    | _ => .error (exc "TypeError")
  | _ => .error (exc "TypeError")

def pyDelattr (env : MEnv) (h : Heap) (dest name : Val) : Except PyExc Wr :=
  match name with
  | .str n =>
    match dest with
    | .ref a =>
      match h[a]? with
      | some (.inst c as) =>
        if env.flag c "raise_delattr" then .error (exc "RuntimeError")
        else if env.flag c ("ro:" ++ n) then .error (exc "AttributeError")
        else match delAttr as n with
          | none => .error (exc "AttributeError")
          | some as' => .ok { heap := h.set a (.inst c as'), cell := some a }
      | _ => .error (exc "AttributeError")
    | _ => .error (exc "AttributeError")
  | _ => .error (exc "TypeError")

def pyDelSeqItem (env : MEnv) (h : Heap) (dest idx : Val) : Except PyExc Wr :=
  match pyInt h idx with
  | .ok i => pyDelitem env h dest (.int i)
  | .error e => .error e

/-! ### registry: handler of the `assign` / `delete` op for an object -/

/-- `get_handler(op, obj)`: the exact type, else `_get_closest_type`: of the registered types
    the object is an instance of (the deepest down every branch of the type tree, minus those that
    are superclasses of another candidate) the one nearest in the object's MRO.  For a registry in
    which the two virtual types `_AbstractIterable` / `_ObjStyleKeys` carry the same handler as
    `object` (a facts obligation, `virtualLikeObject`), that is the handler of the first class of
    the MRO that is registered.  `none` = UnregisteredTarget (no registered base, or the handler
    is `False`).  (Registration order, re-registration and user types are C13's subject.) -/
def nearestHandler (ct : ClassTable) (reg : List (String × String)) (cls : String) : Option String :=
  match (ct.mro cls).find? (fun c => reg.any (·.1 == c)) with
  | some c =>
    match reg.find? (·.1 == c) with
    | some (_, hn) => if hn == "False" then none else some hn
    | none => none
  | none => none

def applyAssignHandler (env : MEnv) (h : Heap) (hn : String) (dest arg v : Val) : Except PyExc Wr :=
  if hn == "setitem" then pySetitem env h dest arg v
  else if hn == "_set_sequence_item" then pySetSeqItem env h dest arg v
  else if hn == "setattr" then pySetattr env h dest arg v
  else .error (exc "NotImplementedError")

def applyDeleteHandler (env : MEnv) (h : Heap) (hn : String) (dest arg : Val) : Except PyExc Wr :=
  if hn == "delitem" then pyDelitem env h dest arg
  else if hn == "_del_sequence_item" then pyDelSeqItem env h dest arg
  else if hn == "delattr" then pyDelattr env h dest arg
  else .error (exc "NotImplementedError")

/-! ### errors, state, events -/

inductive MErr where
  | pae (idx : Nat) (e : PyExc)          -- PathAccessError(e, path, idx)
  | passign (e : PyExc) (dest : Val)     -- PathAssignError(e, path, dest_name)
  | pdelete (e : PyExc) (dest : Val)     -- PathDeleteError(e, path, dest_name)
  | raised (e : PyExc)                   -- an exception no `except` clause names
  | unregistered                         -- UnregisteredTarget
  | valueError                           -- rejected by `__init__`
  | badSpec                              -- malformed input / unknown op
  | unmodelled                           -- `**` (C14) and other steps outside this model
  deriving DecidableEq, Repr

instance instDecEqExcept {ε α} [DecidableEq ε] [DecidableEq α] : DecidableEq (Except ε α) :=
  fun a b => match a, b with
  | .ok x, .ok y => if h : x = y then isTrue (by rw [h]) else isFalse (by intro e; injection e with e; exact h e)
  | .error x, .error y => if h : x = y then isTrue (by rw [h]) else isFalse (by intro e; injection e with e; exact h e)
  | .ok _, .error _ => isFalse (by intro e; cases e)
  | .error _, .ok _ => isFalse (by intro e; cases e)

inductive Ev where
  | alloc (a : Nat)
  | write (a : Nat)
  deriving DecidableEq, Repr

structure St where
  heap : Heap
  calls : Nat := 0          -- calls of the `missing` factory
  log : List Ev := []       -- heap events in order
  hidden : Bool := false
  made : List Nat := []     -- addresses of the objects the factory returned, in call order
  deriving DecidableEq, Repr

def ofTErr : C01.TErr → MErr
  | .pae k e => .pae k e
  | .raised e => .raised e
  | .unregistered => .unregistered
  | .badSpec => .badSpec

/-- record a successful primitive on `dest` -/
def St.wrote (st : St) (w : Wr) : St :=
  { st with heap := w.heap, hidden := st.hidden || w.hidden,
            log := match w.cell with
              | some a => st.log ++ [.write a]
              | none => st.log }

/-! ### `_t_eval` over a step list, with the `*` wildcard -/

/-- a fetched value: a single object, or the (nested) list a wildcard produced -/
inductive Nest where
  | leaf (v : Val)
  | node (xs : List Nest)
  deriving Repr

mutual
/-- the entries of a (nested) wildcard result, in order -/
def Nest.leaves : Nest → List Val
  | .leaf v => [v]
  | .node xs => leavesL xs
def leavesL : List Nest → List Val
  | [] => []
  | x :: xs => x.leaves ++ leavesL xs
end

mutual
/-- every leaf sits below exactly `n` list levels -/
def Nest.uniform : Nat → Nest → Bool
  | 0, .leaf _ => true
  | n + 1, .node xs => uniformL n xs
  | _, _ => false
def uniformL : Nat → List Nest → Bool
  | _, [] => true
  | n, x :: xs => x.uniform n && uniformL n xs
end

mutual
def Nest.beq : Nest → Nest → Bool
  | .leaf a, .leaf b => a == b
  | .node xs, .node ys => Nest.beqL xs ys
  | _, _ => false
def Nest.beqL : List Nest → List Nest → Bool
  | [], [] => true
  | x :: xs, y :: ys => Nest.beq x y && Nest.beqL xs ys
  | _, _ => false
end

/-- `_extend_children(children, item, get_handler)`: values under the keys of a
    dict / the `__dict__` of an object, else the items of an iterable; scalars,
    strings and everything that raises contribute nothing -/
def children (env : MEnv) (h : Heap) (cur : Val) : List Val :=
  let _ := env
  match cur with
  | .ref a =>
    match h[a]? with
    | some (.dict _ es) => es.map (·.2)
    | some (.inst _ as) => as.map (·.2)
    | some (.list _ xs) => xs      -- also for subclasses with a __dict__ (the `_ObjStyleKeys` keys
    | some (.tuple _ xs) => xs     --   handler is skipped for list / tuple / set instances)
    | some (.set _ xs) => xs
    | none => []
  | _ => []

/-- is `cur` the cell that stands for the scope mapping?  (a wildcard directly on the scope
    enumerates ChainMap internals: outside the model) -/
def isScope (env : MEnv) (h : Heap) : Val → Bool
  | .ref a => match h[a]? with
    | some o => env.flag o.cls "scope"
    | none => false
  | _ => false

/-- `for child in nxt: try: cur.append(_t_eval(child, todo, scope)) except PathAccessError: pass` -/
def collect : List (Except MErr Nest) → Except MErr (List Nest)
  | [] => .ok []
  | .ok n :: r => match collect r with
    | .ok ns => .ok (n :: ns)
    | .error e => .error e
  | .error (.pae _ _) :: r => collect r
  | .error e :: _ => .error e

def fetch (env : MEnv) (h : Heap) : List Step → Nat → Val → Except MErr Nest
  | [], _, cur => .ok (.leaf cur)
  | (op, arg) :: rest, k, cur =>
    match C01.dispatchOf env.t op with
    | some ("star", _) =>
      if isScope env h cur then .error .unmodelled else
      match collect ((children env h cur).map (fun c => fetch env h rest 0 c)) with
      | .ok ns => .ok (.node ns)
      | .error e => .error e
    | some ("starstar", _) => .error .unmodelled
    | some (_, caught) =>
      match C01.accessOp env.t h op cur arg with
      | some (.ok (.ok v)) => fetch env h rest (k + 1) v
      | some (.ok (.error e)) =>
        if C01.caughtBy env.t caught e then .error (.pae k e) else .error (.raised e)
      | some (.error te) => .error (ofTErr te)
      | none => .error .badSpec
    | none => .error .badSpec

/-- `path.path_t.__stars__()` -/
def stars (steps : List Step) : Nat :=
  (steps.filter (fun s => s.1 == "x" || s.1 == "X")).length

/-- one round of `val = sum(val, [])` -/
def flatten1 : List Nest → Except MErr (List Nest)
  | [] => .ok []
  | .node xs :: r => match flatten1 r with
    | .ok ys => .ok (xs ++ ys)
    | .error e => .error e
  | .leaf _ :: _ => .error (.raised (exc "TypeError"))

def flattenN : Nat → List Nest → Except MErr (List Nest)
  | 0, xs => .ok xs
  | n + 1, xs => match flatten1 xs with
    | .ok ys => flattenN n ys
    | .error e => .error e

/-- `for inner in val: func(inner)` -/
def forEach (f : St → Val → St × Except MErr Unit) : St → List Nest → St × Except MErr Unit
  | st, [] => (st, .ok ())
  | st, .leaf v :: r =>
    match f st v with
    | (st', .ok _) => forEach f st' r
    | (st', .error e) => (st', .error e)
  | st, .node _ :: _ => (st, .error .badSpec)   -- a raw result list handed to the op: never happens (depth lemma)

/-- `_apply_for_each(func, path, val)` -/
def applyForEach (layers : Nat) (nest : Nest) (f : St → Val → St × Except MErr Unit) (st : St) :
    St × Except MErr Unit :=
  if layers == 0 then
    match nest with
    | .leaf v => f st v
    | .node _ => (st, .error .badSpec)
  else
    match nest with
    | .node xs =>
      match flattenN (layers - 1) xs with
      | .ok ys => forEach f st ys
      | .error e => (st, .error e)
    | .leaf _ => (st, .error (.raised (exc "TypeError")))

def branchOf (br : List (String × String × List String × String)) (op : String) :
    Option (String × List String × String) :=
  (br.find? (·.1 == op)).map (·.2)

/-- the final step `(op, arg)` must be an item / attribute / plain-segment step -/
def finalOk (op : String) : Bool := op == "[" || op == "." || op == "P"

end Glom.Mut

namespace Glom.C11
open Glom Glom.Mut

/-- the `missing` argument -/
inductive Missing where
  | none
  | factory (kind : String)    -- "dict" | "list" | "obj" | "tuple" | "int" | "str" | "none" | "raise"
  deriving DecidableEq, Repr

/-- what a factory that returns a non-container returns (`int` → `0`, `str` → `''`,
    `lambda: None` → `None`): no object is created -/
def freshScalar (kind : String) : Option Val :=
  if kind == "int" then some (.int 0)
  else if kind == "str" then some (.str "")
  else if kind == "none" then some .none
  else none

/-- the `val` argument: a literal, or a T-expression / `Spec(path)` evaluated against the target -/
inductive ValSpec where
  | lit (v : Val)                -- a literal (evaluated in arg mode: scalars and plain objects are themselves)
  | path (steps : List Step)     -- a T-expression / `Spec(path)`: evaluated against the target
  | val (v : Val)                -- `Val(v)`: the value itself, never re-evaluated
  deriving Repr

/-- `self.missing()` -/
def callFactory (kind : String) (st : St) : St × Except MErr Val :=
  let st1 := { st with calls := st.calls + 1 }
  let mk (o : Obj) : St × Except MErr Val :=
    ({ st1 with heap := st1.heap ++ [o], log := st1.log ++ [.alloc st1.heap.length],
                made := st1.made ++ [st1.heap.length] },
     .ok (.ref st1.heap.length))
  if kind == "dict" then mk (.dict "dict" [])
  else if kind == "list" then mk (.list "list" [])
  else if kind == "obj" then mk (.inst "Obj" [])
  else if kind == "tuple" then mk (.tuple "tuple" [])
  else match freshScalar kind with
    | some c => (st1, .ok c)
    | none => (st1, .error (.raised (exc "RuntimeError")))

/-- does arg mode rebuild this value?  (`_ArgValuator.mode` copies exact list / dict / tuple /
    set / frozenset objects; a *literal* of that kind as `val` is outside this model — C08) -/
def rebuilds (h : Heap) : Val → Bool
  | .ref a => match h[a]? with
    | some (.list c _) => c == "list"
    | some (.dict c _) => c == "dict"
    | some (.tuple c _) => c == "tuple"
    | some (.set c _) => c == "set" || c == "frozenset"
    | _ => false
  | _ => false

/-- `arg_val(target, self.val, scope)` for the value kinds of this model -/
def evalVal (env : MEnv) (st : St) (target : Val) : ValSpec → St × Except MErr Val
  | .lit v => if rebuilds st.heap v then (st, .error .unmodelled) else (st, .ok v)
  | .val v => (st, .ok v)
  | .path steps =>
    match fetch env st.heap steps 0 target with
    | .ok (.leaf v) => (st, .ok v)
    | .ok (.node _) => (st, .error .unmodelled)
    | .error e => (st, .error e)

/-- `_assign_op(dest, op, arg, val, path, scope)` — driven by the extracted branch table -/
def assignOp (env : MEnv) (op : String) (arg val : Val) (st : St) (dest : Val) : St × Except MErr Unit :=
  let fin (caught : List String) (r : Except PyExc Wr) : St × Except MErr Unit :=
    match r with
    | .ok w => (st.wrote w, .ok ())
    | .error e => if C01.caughtBy env.t caught e then (st, .error (.passign e arg)) else (st, .error (.raised e))
  match branchOf env.assignBr op with
  | some ("setitem", caught, _) => fin caught (pySetitem env st.heap dest arg val)
  | some ("setattr", caught, _) => fin caught (pySetattr env st.heap dest arg val)
  | some ("handler", caught, _) =>
    match nearestHandler env.t.ct env.assignReg (dest.clsName st.heap) with
    | none => (st, .error .unregistered)
    | some hn => fin caught (applyAssignHandler env st.heap hn dest arg val)
  | _ => (st, .error .badSpec)

/-- `Assign(path, val, missing).glomit(target, scope)` preceded by `Assign.__init__`.
    `sroot`: the destination is S-rooted (`dest_target = scope[UP]`, modelled by the cell `sref`).
    The fuel is the path length (each recursive Assign gets a strictly shorter path). -/
def assignAux (env : MEnv) (sroot : Bool) (sref : Val) (missing : Missing) :
    Nat → St → Val → List Step → ValSpec → St × Except MErr Val
  | 0, st, _, _, _ => (st, .error .badSpec)
  | fuel + 1, st, target, orig, vs =>
    match orig.getLast? with
    | none => (st, .error .valueError)                      -- 'path must have at least one element'
    | some (op, arg) =>
      if !finalOk op then (st, .error .valueError) else      -- 'last part of path must be setattr or setitem'
      match evalVal env st target vs with
      | (st, .error e) => (st, .error e)
      | (st, .ok val) =>
        let parent := orig.dropLast
        let destTarget := if sroot then sref else target
        match fetch env st.heap parent 0 destTarget with
        | .ok nest =>
          match applyForEach (stars parent) nest (assignOp env op arg val) st with
          | (st', .ok _) => (st', .ok target)
          | (st', .error e) => (st', .error e)
        | .error (.pae k e) =>
          match missing with
          | .none => (st, .error (.pae k e))
          | .factory kind =>
            let remaining := orig.drop (k + 1)
            match callFactory kind st with
            | (st1, .error e') => (st1, .error e')
            | (st1, .ok fresh) =>
              -- `Assign(remaining_path.from_t(), Val(val), missing=self.missing)` on the fresh object
              match assignAux env false sref missing fuel st1 fresh remaining (.val val) with
              | (st2, .error e') => (st2, .error e')
              | (st2, .ok val') =>
                match orig[k]? with
                | none => (st2, .error .badSpec)
                | some (op', arg') =>
                  let path' := orig.take k
                  match fetch env st2.heap path' 0 destTarget with
                  | .error e' => (st2, .error e')
                  | .ok nest' =>
                    match applyForEach (stars path') nest' (assignOp env op' arg' val') st2 with
                    | (st3, .ok _) => (st3, .ok target)
                    | (st3, .error e') => (st3, .error e')
        | .error e => (st, .error e)

/-- `glom(target, Assign(path, val, missing=missing))` -/
def assign (env : MEnv) (sroot : Bool) (sref : Val) (missing : Missing) (h : Heap) (target : Val)
    (orig : List Step) (vs : ValSpec) : St × Except MErr Val :=
  assignAux env sroot sref missing (orig.length + 1) { heap := h } target orig vs

/-- `_s_first_magic` of `_t_eval`: when an S-rooted path is *evaluated*, a first step spelled
    `.name` or as a plain segment means the scope variable (`scope[name]`, "enable S.a to do
    S['a']").  (Exact for immediate arguments: the magic catches KeyError only, a subscription also
    TypeError — which only an unhashable key raises.) -/
def sMagic : List Step → List Step
  | (op, arg) :: r => if op == "." || op == "P" then ("[", arg) :: r else (op, arg) :: r
  | [] => []

/-- `mutation._s_first_item(path)` (called by `Assign.__init__` / `Delete.__init__`): the first step of
    an S-rooted destination written with an op of the extracted table is re-spelled with the op the
    table gives (`S.a` / `Path(S, 'a')` → `S['a']`), so that the re-rooted path (`from_t()`, evaluated
    against `scope[UP]`) names the scope variable like the reading side does -/
def respellFirst (tbl : List (String × String)) : List Step → List Step
  | (op, arg) :: r =>
    (match tbl.find? (·.1 == op) with
     | some (_, op') => (op', arg) :: r
     | none => (op, arg) :: r)
  | [] => []

/-- the path `Assign.__init__` / `Delete.__init__` keep (`_orig_path`) for the path they are given -/
def initPath (tbl : List (String × String)) (sroot : Bool) (orig : List Step) : List Step :=
  if sroot then respellFirst tbl orig else orig

/-- the steps an evaluated path performs from its root -/
def readSteps (sroot : Bool) (rd : List Step) : List Step := if sroot then sMagic rd else rd

/-- `glom(target, (Assign(path, val, missing=missing), readPath))` — a chain whose second step reads a
    path back **after** the assignment, in the scope the chain's steps share: the Assign's result
    (the target) is the target of the read; an S-rooted read starts from the frame the S-rooted
    destination was bound in (`sref`).  `none`: the Assign raised, the read never ran.
    (The *destination* of an S-rooted Assign is not evaluated natively: `Assign.glomit` re-roots it
    at T — `path.from_t()` — and evaluates that against `scope[UP]`, without the first-step magic;
    `assignAux` mirrors that.) -/
def assignThenRead (env : MEnv) (sroot : Bool) (sref : Val) (missing : Missing) (h : Heap) (target : Val)
    (orig : List Step) (vs : ValSpec) (rd : List Step) :
    (St × Except MErr Val) × Option (Except MErr Nest) :=
  let out := assign env sroot sref missing h target orig vs
  (out, match out.2 with
    | .ok r => some (fetch env out.1.heap (readSteps sroot rd) 0 (if sroot then sref else r))
    | .error _ => none)

end Glom.C11
