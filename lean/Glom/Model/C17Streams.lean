import Glom.Model.C17
/-
  C17 — several live streams: per-stream state on an explicit heap.

  Every `glom(target, spec)` with an `Iter` spec runs `Iter.glomit`: it calls every callback
  of the spec's `_iter_stack` once, and each call creates a NEW iterator object
  (`imap(…)`, `islice(…)`, the generator objects of `chunked_iter` / `split_iter` /
  `unique_iter`, the tees of `windowed_iter`, the generator of `_iterate`).  The mutable
  state of a stream — the open chunk, the window, the `seen` set, `islice`'s counters, the
  `dropwhile` flag — lives in those objects: one set of cells per *stream*, none per *spec*.

  Here that is spelt out: a `World` is a heap of stage-state cells, the positions of the
  source objects, and the live streams; a stream is the list of the addresses of ITS cells
  (outermost stage first) and the source it reads.  `open` (= `glomit`) allocates fresh
  cells at the end of the heap, `next` reads the stream's cells, runs the demand-driven
  chain (`pullFrom`) and writes them back.  Nothing in a spec is written by either.

  `World.openShared` is the other design — one cell per *spec stage*, re-initialised
  whenever a stream starts — kept for the counter-example in `Props/C17.lean`.
-/
namespace Glom.C17

instance : Inhabited StageSt := ⟨StageSt.init .flatten⟩

structure Stream where
  src : Nat                -- which source object it reads
  cells : List Nat         -- addresses of its stage states, outermost stage first
  dead : Bool := false     -- it has ended (StopIteration / an exception): a finished generator stays finished

structure World where
  heap : List StageSt                -- the stage-state cells, by address
  pos : Nat → Nat                    -- position of every source object
  streams : Nat → Option Stream      -- stream id ↦ stream

def World.empty : World := ⟨[], fun _ => 0, fun _ => none⟩

def World.lookup (w : World) (id : Nat) : Option Stream := w.streams id

def setPos (pos : Nat → Nat) (si p : Nat) : Nat → Nat := fun j => if j = si then p else pos j

def readCells (heap : List StageSt) (cells : List Nat) : List StageSt :=
  cells.map (fun a => heap.getD a default)

def writeCells (heap : List StageSt) : List Nat → List StageSt → List StageSt
  | a :: as, s :: ss => writeCells (heap.set a s) as ss
  | _, _ => heap

def setStream (l : Nat → Option Stream) (id : Nat) (s : Stream) : Nat → Option Stream :=
  fun j => if j = id then some s else l j

/-- one event of a schedule -/
inductive Ev where
  | open (id : Nat) (kinds : List Kind) (src : Nat)       -- `it = glom(source, spec)`
  | next (id : Nat)                                       -- `next(it)`
  | all (id : Nat) (kinds : List Kind) (src : Nat)        -- `glom(source, spec.all())`, start to end
  | first (id : Nat) (kinds : List Kind) (src : Nat) (key : Fn)

def Ev.id : Ev → Nat
  | .open id _ _ => id
  | .next id => id
  | .all id _ _ => id
  | .first id _ _ _ => id

inductive EvOut where
  | opened (pulls : Nat)
  | openErr (e : Err) (pulls : Nat)
  | item (v : V) (pulls : Nat)
  | eof (pulls : Nat)
  | err (e : Err) (pulls : Nat)
  | ran (o : RunOut)
  | first (o : FirstOut) (pulls : Nat)
  | dead                  -- `next` on a stream that has ended or was never opened: nothing happens
  | oof
  deriving Inhabited

def EvOut.isOof : EvOut → Bool
  | .oof => true
  | .ran o => (match o.fin with | .oof => true | _ => false)
  | .first o _ => (match o with | .oof => true | _ => false)
  | _ => false

/-- `glomit` has built the chain (or failed): every callback built a new iterator object —
    fresh cells at the end of the heap -/
def World.afterOpen (w : World) (id si : Nat) : Built → World × EvOut
  | .ok sts pos' =>
    ({ heap := w.heap ++ sts, pos := setPos w.pos si pos',
       streams := setStream w.streams id ⟨si, (List.range sts.length).map (· + w.heap.length), false⟩ },
     .opened pos')
  | .err e pos' =>
    ({ w with pos := setPos w.pos si pos', streams := setStream w.streams id ⟨si, [], true⟩ }, .openErr e pos')
  | .oof => (w, .oof)

/-- `next(it)` has run the chain over the stream's own cells: write them back -/
def World.afterNext (w : World) (id : Nat) (s : Stream) : Res × List StageSt × Nat → World × EvOut
  | (.item v, sts', pos') =>
    ({ w with heap := writeCells w.heap s.cells sts', pos := setPos w.pos s.src pos' }, .item v pos')
  | (.eof, sts', pos') =>
    ({ heap := writeCells w.heap s.cells sts', pos := setPos w.pos s.src pos',
       streams := setStream w.streams id { s with dead := true } }, .eof pos')
  | (.err e, sts', pos') =>
    ({ heap := writeCells w.heap s.cells sts', pos := setPos w.pos s.src pos',
       streams := setStream w.streams id { s with dead := true } }, .err e pos')
  | (.oof, _, _) => (w, .oof)

/-- one event.  `srcs`: the source objects (fixed); `fuel` as in `pullFrom`. -/
def World.step (srcs : List Src) (fuel : Nat) (w : World) : Ev → World × EvOut
  | .open id kinds si =>
    match w.lookup id with
    | some _ => (w, .dead)                        -- the id is taken: not an event of a well-formed schedule
    | none => w.afterOpen id si (construct (srcs.getD si (.fin [] none)) fuel kinds [] (w.pos si))
  | .next id =>
    match w.lookup id with
    | none => (w, .dead)
    | some s =>
      if s.dead then (w, .dead) else
      w.afterNext id s (pullFrom (srcs.getD s.src (.fin [] none)) fuel (readCells w.heap s.cells) (w.pos s.src))
  | .all id kinds si =>
    match w.lookup id with
    | some _ => (w, .dead)
    | none =>
      -- a complete run: nothing stays alive but the id is used up (and the source has moved)
      let o := runAllFrom kinds (srcs.getD si (.fin [] none)) fuel (w.pos si)
      ({ w with pos := setPos w.pos si o.pulls, streams := setStream w.streams id ⟨si, [], true⟩ }, .ran o)
  | .first id kinds si key =>
    match w.lookup id with
    | some _ => (w, .dead)
    | none =>
      let r := runFirstFrom kinds (srcs.getD si (.fin [] none)) fuel key (w.pos si)
      ({ w with pos := setPos w.pos si r.2, streams := setStream w.streams id ⟨si, [], true⟩ }, .first r.1 r.2)

/-- a whole schedule; the outputs are tagged with the id of the stream they belong to -/
def World.run (srcs : List Src) (fuel : Nat) : World → List Ev → World × List (Nat × EvOut)
  | w, [] => (w, [])
  | w, e :: es =>
    let r := w.step srcs fuel e
    let rest := World.run srcs fuel r.1 es
    (rest.1, (e.id, r.2) :: rest.2)

/-- what a stream is, independent of where its cells happen to be allocated: its stage
    states, the position of its source, whether it has ended, which source it reads -/
def World.view (w : World) (id : Nat) : Option (List StageSt × Nat × Bool × Nat) :=
  (w.lookup id).map fun s => (readCells w.heap s.cells, w.pos s.src, s.dead, s.src)

/-! ### the other design: stage state kept per spec (what the code does NOT do)

  One cell per stage of the *spec*, allocated when the builder method is called and
  re-initialised whenever a stream starts ("the spec keeps a single set of seen keys which
  is emptied whenever a new stream starts").  `owner` is the address list the spec owns. -/

/-- `open` when the stage states belong to the spec: the same cells for every stream of the
    spec (and of the specs derived from it), re-initialised at every start -/
def World.openShared (srcs : List Src) (fuel : Nat) (w : World) (id : Nat) (kinds : List Kind) (si : Nat)
    (owner : List Nat) : World × EvOut :=
  let src := srcs.getD si (.fin [] none)
  match construct src fuel kinds [] (w.pos si) with
  | .ok sts pos' =>
    ({ heap := writeCells w.heap owner sts, pos := setPos w.pos si pos',
       streams := setStream w.streams id ⟨si, owner, false⟩ }, .opened pos')
  | .err e pos' => ({ w with pos := setPos w.pos si pos' }, .openErr e pos')
  | .oof => (w, .oof)

end Glom.C17
