import Glom.Model.C10
/-
  C09 — code-shaped model of `Match`.

  The evaluator itself (`_glom_match`, match-mode `_handle_dict`, `Optional`,
  `Required`, `_precedence`, `Regex.glomit`, `Match.glomit`, and every
  combinator a pattern may contain) is `Glom.C10.eval` in `Glom/Model/C10.lean`:
  one evaluator serves C09 and C10 because patterns contain combinators and
  combinators contain patterns.  This file adds the entry points of the
  property:

    glom(target, Match(p, default=d))   → `matchGlom`
    Match(p, default=d).verify(target)  → `verify`   (`return glom(target, self)`)
    Match(p, default=d).matches(target) → `matchesM` (`try: glom(target, self)
                                            except GlomError: return False / return True`)

  `matches` sits *outside* `glom()`: by the time an exception reaches its
  `except GlomError`, `glom()`'s own handler has turned every `Exception` into a
  GlomError (`GlomError.wrap`, the subject of C04), so a fault inside the
  pattern (a comparison that raises) makes `matches` return False while
  `verify` raises it.
-/
namespace Glom.C09
open Glom Glom.MV Glom.C10

/-- `glom(target, Match(p, default=d))` -/
def matchGlom (env : Env) (p : Spec) (d : Option Arg) (t : V) : Out :=
  eval env (.matchS p d) t

/-- `Match(p, default=d).verify(target)` -/
def verify (env : Env) (p : Spec) (d : Option Arg) (t : V) : Out :=
  matchGlom env p d t

/-- what `glom()`'s outer handler makes of an exception leaving `_glom`: an `Exception`
    leaves as a GlomError (itself, or wrapped), anything else unchanged -/
def leavesAsGlomError (env : Env) (e : PyExc) : Bool :=
  env.exc.isSub e.cls "GlomError" || env.exc.isSub e.cls "Exception"

/-- `Match(p, default=d).matches(target)`: `.error` = the exception was not caught -/
def matchesM (env : Env) (p : Spec) (d : Option Arg) (t : V) : Except PyExc Bool × Log :=
  let r := matchGlom env p d t
  match r.1 with
  | .ok _ => (.ok true, r.2)
  | .error e =>
    -- `except GlomError` of Match.matches, applied to what left glom()
    if leavesAsGlomError env e &&
        ((env.catches.lookup "Match.matches").bind (·[0]?) == some ["GlomError"]) then (.ok false, r.2)
    else (.error e, r.2)

/-! ### histories: one Match object, consecutive calls, `abc.register()` in between

  `isinstance` is not a function of the two classes alone: a class can be registered as a
  virtual subclass of an ABC *after* a first match (the class table is state of the process), and
  a type may look at the instance (`isInst`).  `_glom_match` asks `isinstance` anew on every
  call — it keeps nothing — so a call is evaluated against the class table as it is then. -/

inductive HStep where
  | call (t : V)                       -- `glom(t, m)` with the one Match object `m`
  | register (abc k : String)          -- `abc.register(k)`
  deriving Repr, Inhabited

/-- the run of a history from class table `ct`: one outcome per call, `none` per registration -/
def runHist (env : Env) (p : Spec) (d : Option Arg) : List HStep → ClassTable → List (Option Out)
  | [], _ => []
  | .call t :: rest, ct => some (matchGlom (env.withCls ct) p d t) :: runHist env p d rest ct
  | .register a k :: rest, ct => none :: runHist env p d rest (registerCls ct a k)

end Glom.C09
