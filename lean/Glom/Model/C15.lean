import Glom.Py.Access
import Glom.Model.C13
/-
  C15 — code-shaped model of glom/reduction.py (Fold, Sum, Count, Flatten,
  flatten(), Merge, merge()) and of `target_iter` (glom/grouping.py), on the
  shared heap kernel: an accumulator is a heap object with an address, so
  "`ret += v` extends `ret` in place", "a new object is returned", "the
  accumulator is the object `init()` returned" are all expressible and the
  frame / freshness statements are theorems, not true by construction.

    Fold.__init__ / Sum / Count / Flatten / Merge constructors → `mkFold` … `mkMerge`
        (Flatten: `init == 'lazy'` ⇒ lazy, init := list;  Merge: `op` looked up on
         `type(init())` — `init()` IS called once at construction)
    Fold.glomit      → `glomit`   (sub-spec, `target_iter`, `except UnregisteredTarget → FoldError`)
    Fold._fold       → `foldLoop` (`ret = init(); for v in it: ret = op(ret, v)`)
    Flatten._fold    → lazy branch allocates a `chain` object
    Merge._fold      → `mergeLoop` (`op(ret, v)`; `ret` never reassigned)
    flatten()/merge()→ `flattenFn` / `mergeFn`
    target_iter      → `targetIter`: `iterate = get_handler('iterate', target)`, then
                        `iterate(target)` inside `try … except Exception → TypeError`

  The target's iteration is whatever handler the registry answers AT THE TIME OF THE CALL.
  Two layers:
    * `glomit env …` — one evaluation given the answer table `env.lk : class → handler`
      (the registered `iterate` handlers as they are at that moment);
    * `glomitR H env reg …` — the code that exists: `get_handler` of the shared registry
      model (`Glom/Model/C13.lean`: exact table, type tree, and the MEMO `_type_cache`
      written by every successful lookup and reset by `register`), threaded through a
      history of evaluations and `register(cls, iterate=…, exact=…)` calls (`runProgR`).
  That the memo is invisible (`glomitR` = `glomit` with the memo-free answer of the
  current tables) is a theorem (`c15_memo_invisible`), not a modelling decision.

  What Python's operators compute (`+=`, `+`, `dict.update`, `iter`, float addition) is
  `pyOp` / `rawIter`: CPython behaviour as modelled, validated by the correspondence.
  The loops are generic in the operator (`OpFn`) and in `init` (`InitFn`): the theorems
  hold for EVERY operator / factory meeting three laws (`OpLaw`, `InitLaw` in Lemmas).
-/
namespace Glom.C15
open Glom

inductive Err where
  | fold                        -- FoldError
  | raised (cls : String)       -- any other exception: passes through unchanged
  deriving DecidableEq, Repr, Inhabited

def typeErr : Err := .raised "TypeError"

/-- the `init` argument: what calling it returns -/
inductive Init where
  | int | float | str | list | tuple | dict | odict | acc   -- `acc`: class Acc(list) with its own `__iadd__` / `update`
  | set                                             -- `set`: nothing of the catalogue can be added to it (`set() += [1]` is a TypeError)
  | notCallable                                     -- `init=5`, `init='LAZY'`: refused by the constructor
  | copyOf (v : Val)                                -- `lambda: type(OBJ)(OBJ)`: a NEW container with OBJ's content (an immediate: itself)
  | shared (v : Val)                                -- `lambda: OBJ`: returns a pre-existing object (does not allocate)
  deriving DecidableEq, Repr, Inhabited

inductive Op where
  | iadd | add | count
  | update (cls : String)      -- `getattr(type(init()), 'update')`, resolved at construction
  | firstWins                  -- a user callable `(d, v) -> None` doing `d.setdefault` per item of `v`
  | append                     -- `lambda a, v: (a.append(v), a)[1]`: mutates the accumulator, returns it
  | cons                       -- `lambda a, v: [v] + a`: a new list every step
  | extend                     -- `list.extend` (Merge(op='extend', init=list)): extends in place, returns None
  | appendNone                 -- `list.append` (Merge(op='append', init=list)): appends in place, returns None
  | dictUnion                  -- `lambda a, b: {**a, **b}`: a new dict every step
  | addSeq                     -- `lambda a, v: a + list(v) if v is a list/tuple else raise UnregisteredTarget`
  | pokeElem                   -- `lambda a, v: (v.append(0), a)[1]`: WRITES TO ITS ELEMENT (outside the laws)
  | notCallable                -- `op=5`: refused by the constructor
  deriving DecidableEq, Repr, Inhabited

/-- an accumulator *value*: an immediate, or the content of a container -/
inductive SV where
  | imm (v : Val)
  | cell (o : Obj)
  deriving DecidableEq, Repr, Inhabited

/-! ### floats: IEEE-754 binary64, carried as the 16 hex digits of the bit pattern -/

def hexDigit (c : Char) : Option Nat :=
  if '0' ≤ c ∧ c ≤ '9' then some (c.toNat - '0'.toNat)
  else if 'a' ≤ c ∧ c ≤ 'f' then some (c.toNat - 'a'.toNat + 10)
  else none

def hexNat : List Char → Nat → Option Nat
  | [], acc => some acc
  | c :: cs, acc =>
    match hexDigit c with
    | some d => hexNat cs (acc * 16 + d)
    | none => none

def bitsOfHex (s : String) : Option UInt64 :=
  if s.length == 16 then (hexNat s.toList 0).map UInt64.ofNat else none

def hexChar (d : Nat) : Char :=
  if d < 10 then Char.ofNat ('0'.toNat + d) else Char.ofNat ('a'.toNat + (d - 10))

def hexOfNat : Nat → Nat → List Char → List Char
  | 0, _, acc => acc
  | k + 1, n, acc => hexOfNat k (n / 16) (hexChar (n % 16) :: acc)

def hexOfBits (b : UInt64) : String := String.ofList (hexOfNat 16 b.toNat [])

def floatOfHex (s : String) : Option Float := (bitsOfHex s).map Float.ofBits

/-- every NaN is shown as the canonical quiet NaN (payloads are not observed) -/
def floatToHex (x : Float) : String :=
  if x.isNaN then "7ff8000000000000" else hexOfBits x.toBits

inductive Num where
  | int (i : Int)
  | flt (x : Float)

def asNum : Val → Option Num
  | .int i => some (.int i)
  | .bool b => some (.int (if b then 1 else 0))
  | .float s => (floatOfHex s).map .flt
  | _ => none

/-- `a + b` on Python numbers: int + int is exact; as soon as a float takes part the int is
    converted (`float(i)`) and ONE IEEE addition is performed -/
def numAdd : Num → Num → Val
  | .int a, .int b => .int (a + b)
  | .int a, .flt y => .float (floatToHex (Float.ofInt a + y))
  | .flt x, .int b => .float (floatToHex (x + Float.ofInt b))
  | .flt x, .flt y => .float (floatToHex (x + y))

/-! ### Python primitives -/

def strChars (s : String) : List Val := s.toList.map (fun c => Val.str (String.singleton c))

/-- a pseudo-item `!raise:C` in the item list of a generator: at this point the iterator raises an
    exception of class `C` instead of yielding (`glom(t, Iter([T]))` over a `t` with a non-iterable
    element raises UnregisteredTarget midway) -/
def raiseMarker : Val → Option String
  | .sent s =>
    if "!raise:".toList.isPrefixOf s.toList then some (String.ofList (s.toList.drop 7)) else none
  | _ => none

/-- the class of the first exception an iterator over these items raises, if any -/
def firstRaise : List Val → Option String
  | [] => none
  | v :: vs =>
    match raiseMarker v with
    | some c => some c
    | none => firstRaise vs

/-- `iter(v)` for the builtin layouts -/
def rawIterBase (h : Heap) : Val → Option (List Val)
  | .str s => some (strChars s)
  | .ref a =>
    match h[a]? with
    | some (.list _ xs) => some xs
    | some (.tuple _ xs) => some xs
    | some (.set _ xs) => some xs
    | some (.dict _ es) => some (es.map (·.1))
    | _ => none
  | .sent s =>
    -- a raise-marker met where an iterable is expected (the outer iterator of a chain raises here):
    -- it flows through the join and raises when the stream is consumed
    if (raiseMarker (.sent s)).isSome then some [.sent s] else none
  | _ => none

/-- harness classes with `def __iter__(self): return iter(self.names)` -/
def iterInstClasses : List String := ["Box", "SubBox", "SubSubBox"]

def attrOf (as : List (String × Val)) (n : String) : Option Val := (as.find? (·.1 == n)).map (·.2)

/-- `iter(v)` for everything but a `chain` object -/
def rawIter1 (h : Heap) : Val → Option (List Val)
  | .ref a =>
    match h[a]? with
    | some (.inst c as) =>
      if iterInstClasses.contains c then
        match attrOf as "names" with
        | some w => rawIterBase h w
        | none => none
      else if c == "GetItemSeq" then some []       -- no `__iter__`, a `__getitem__` that raises IndexError at 0:
      else none                                    --   iter() falls back to the sequence protocol: nothing
    | _ => rawIterBase h (.ref a)
  | v => rawIterBase h v

/-- `chain.from_iterable(xs)` consumed: `none` = some element is not iterable (TypeError) -/
def joinWith (f : Val → Option (List Val)) : List Val → Option (List Val)
  | [] => some []
  | x :: xs =>
    match f x, joinWith f xs with
    | some a, some b => some (a ++ b)
    | _, _ => none

/-- `iter(v)`; a `chain` cell holds the *outer* items and yields their concatenation.
    (chain objects are only ever results, never elements of a container) -/
def rawIter (h : Heap) : Val → Option (List Val)
  | .ref a =>
    match h[a]? with
    | some (.tuple c xs) => if c == "chain" then joinWith (rawIter1 h) xs else some xs
    | _ => rawIter1 h (.ref a)
  | v => rawIter1 h v

def asInt : Val → Option Int
  | .int i => some i
  | .bool b => some (if b then 1 else 0)
  | _ => none

/-- what an operator call does -/
inductive OpRes where
  | value (sv : SV)          -- returns a new value; no operand is touched
  | inplaceSelf (o : Obj)    -- the left operand's content becomes `o`; returns the left operand itself
  | inplaceNone (o : Obj)    -- the left operand's content becomes `o`; returns None
  | writeOther (a : Nat) (o : Obj)   -- the object at address `a` — NOT the left operand — becomes `o`;
                                     -- returns the left operand itself (an operator that writes to its element)
  deriving DecidableEq, Repr

/-- consuming `iter(v)` to the end, as `list.__iadd__`, `dict.update`, unpacking do: not iterable is a
    TypeError, an iterator that raises midway raises that -/
def iterStrict (h : Heap) (v : Val) : Except Err (List Val) :=
  match rawIter h v with
  | none => .error typeErr
  | some ys =>
    match firstRaise ys with
    | some c => .error (.raised c)
    | none => .ok ys

/-- `a += v` (`inplace`) / `a + v` -/
def pyAdd (inplace : Bool) (h : Heap) (acc : SV) (v : Val) : Except Err OpRes :=
  match acc with
  | .imm (.str a) =>
    match v with
    | .str b => .ok (.value (.imm (.str (a ++ b))))
    | _ => .error typeErr
  | .imm a =>
    match asNum a, asNum v with
    | some x, some y => .ok (.value (.imm (numAdd x y)))
    | _, _ => .error typeErr
  | .cell (.list cls xs) =>
    if inplace then
      if cls == "Acc" then .ok (.inplaceSelf (.list cls (xs ++ [v])))      -- Acc.__iadd__: append, return self
      else match iterStrict h v with                                        -- list.__iadd__: extend with any iterable
        | .ok ys => .ok (.inplaceSelf (.list cls (xs ++ ys)))
        | .error e => .error e
    else
      match v with                                                          -- list.__add__: right operand must be a list
      | .ref b =>
        match h[b]? with
        | some (.list _ ys) => .ok (.value (.cell (.list "list" (xs ++ ys))))
        | _ => .error typeErr
      | _ => .error typeErr
  | .cell (.tuple cls xs) =>                                                -- tuple has no __iadd__: `+`, a new tuple
    if cls == "tuple" then
      match v with
      | .ref b =>
        match h[b]? with
        | some (.tuple c2 ys) =>
          if c2 == "tuple" then .ok (.value (.cell (.tuple "tuple" (xs ++ ys)))) else .error typeErr
        | _ => .error typeErr
      | _ => .error typeErr
    else .error typeErr
  | _ => .error typeErr

/-- `d[k] = x` on an entry list: an existing (Python-equal) key keeps its position and key object -/
def dictSet : List (Val × Val) → Val → Val → List (Val × Val)
  | [], k, x => [(k, x)]
  | (k', x') :: es, k, x => if pyKeyEq k' k then (k', x) :: es else (k', x') :: dictSet es k x

def dictSetDefault (es : List (Val × Val)) (k x : Val) : List (Val × Val) :=
  match dictLookup es k with
  | some _ => es
  | none => es ++ [(k, x)]

/-- one element of an iterable handed to `dict.update`: must unpack to a (hashable key, value) pair -/
def pairOf (h : Heap) (item : Val) : Except Err (Val × Val) :=
  match iterStrict h item with
  | .error e => .error e
  | .ok [k, x] => if k.hashable h then .ok (k, x) else .error typeErr
  | .ok _ => .error (.raised "ValueError")

def pairsOf (h : Heap) : List Val → Except Err (List (Val × Val))
  | [] => .ok []
  | i :: is =>
    match pairOf h i with
    | .error e => .error e
    | .ok p =>
      match pairsOf h is with
      | .error e => .error e
      | .ok ps => .ok (p :: ps)

/-- `dict.update(_, v)` for a `v` without `keys()`: an iterable of pairs -/
def updateSeq (h : Heap) (v : Val) : Except Err (List (Val × Val)) :=
  match iterStrict h v with
  | .ok items => pairsOf h items
  | .error e => .error e

/-- the `(key, value)` sequence `dict.update(_, v)` applies, in order -/
def updatePairs (h : Heap) (v : Val) : Except Err (List (Val × Val)) :=
  match v with
  | .ref a =>
    match h[a]? with
    | some (.dict _ es) => .ok es
    | _ => updateSeq h v
  | _ => updateSeq h v

def applyPairs (es : List (Val × Val)) (ps : List (Val × Val)) : List (Val × Val) :=
  ps.foldl (fun acc p => dictSet acc p.1 p.2) es

/-- `cls.update(acc, v)` -/
def pyUpdate (cls : String) (h : Heap) (acc : SV) (v : Val) : Except Err OpRes :=
  if cls == "Acc" then
    match acc with
    | .cell (.list c xs) => if c == "Acc" then .ok (.inplaceNone (.list c (xs ++ [v]))) else .error typeErr
    | _ => .error typeErr
  else
    match acc with
    | .cell (.dict c es) =>
      match updatePairs h v with
      | .ok ps => .ok (.inplaceNone (.dict c (applyPairs es ps)))
      | .error e => .error e
    | _ => .error typeErr

/-- `def first_wins(d, v): for k, x in v.items(): d.setdefault(k, x)` -/
def pyFirstWins (h : Heap) (acc : SV) (v : Val) : Except Err OpRes :=
  match v with
  | .ref a =>
    match h[a]? with
    | some (.dict _ ps) =>
      match acc with
      | .cell (.dict c es) => .ok (.inplaceNone (.dict c (ps.foldl (fun e p => dictSetDefault e p.1 p.2) es)))
      | .cell o => if ps.isEmpty then .ok (.inplaceNone o) else .error (.raised "AttributeError")
      | .imm x => if ps.isEmpty then .ok (.value (.imm x)) else .error (.raised "AttributeError")
    | _ => .error (.raised "AttributeError")
  | _ => .error (.raised "AttributeError")

def pyOp (op : Op) (h : Heap) (acc : SV) (v : Val) : Except Err OpRes :=
  match op with
  | .iadd => pyAdd true h acc v
  | .add => pyAdd false h acc v
  | .count =>
    match acc with
    | .imm a => match asInt a with
      | some x => .ok (.value (.imm (.int (x + 1))))
      | none => .error typeErr
    | _ => .error typeErr
  | .update cls => pyUpdate cls h acc v
  | .firstWins => pyFirstWins h acc v
  | .append =>
    match acc with
    | .cell (.list c xs) => .ok (.inplaceSelf (.list c (xs ++ [v])))
    | _ => .error (.raised "AttributeError")
  | .cons =>
    match acc with
    | .cell (.list _ xs) => .ok (.value (.cell (.list "list" (v :: xs))))
    | _ => .error typeErr
  | .extend =>
    match acc with
    | .cell (.list c xs) =>
      match iterStrict h v with
      | .ok ys => .ok (.inplaceNone (.list c (xs ++ ys)))
      | .error e => .error e
    | _ => .error typeErr
  | .appendNone =>
    match acc with
    | .cell (.list c xs) => .ok (.inplaceNone (.list c (xs ++ [v])))
    | _ => .error typeErr
  | .dictUnion =>
    match acc with
    | .cell (.dict _ es) =>
      match v with
      | .ref b =>
        match h[b]? with
        | some (.dict _ ps) => .ok (.value (.cell (.dict "dict" (applyPairs es ps))))
        | _ => .error typeErr
      | _ => .error typeErr
    | _ => .error typeErr
  | .addSeq =>
    match v with
    | .ref b =>
      match h[b]? with
      | some (.list _ ys) | some (.tuple "tuple" ys) =>
        match acc with
        | .cell (.list _ xs) => .ok (.value (.cell (.list "list" (xs ++ ys))))
        | _ => .error typeErr
      | _ => .error (.raised "UnregisteredTarget")
    | _ => .error (.raised "UnregisteredTarget")
  | .pokeElem =>
    match v with
    | .ref b =>
      match h[b]? with
      | some (.list c ys) => .ok (.writeOther b (.list c (ys ++ [.int 0])))
      | _ => .error (.raised "AttributeError")
    | _ => .error (.raised "AttributeError")
  | .notCallable => .error typeErr

/-! ### the heap side: objects with identity -/

/-- the value an object reference (or immediate) currently holds -/
def load (h : Heap) : Val → Option SV
  | .ref a => (h[a]?).map SV.cell
  | v => some (.imm v)

/-- make a Python object out of a value: immediates are themselves, a container is allocated -/
def materialise (h : Heap) : SV → Val × Heap
  | .imm v => (v, h)
  | .cell o => (.ref h.length, h ++ [o])

/-- is this the layout of a list / tuple / dict (what `type(OBJ)(OBJ)` copies)? -/
def copyable : Obj → Bool
  | .list .. | .dict .. => true
  | .tuple c _ => c == "tuple"
  | _ => false

/-- what an operator is to the loops: heap (for reading operands), accumulator value, element -/
abbrev OpFn := Heap → SV → Val → Except Err OpRes
/-- what `init` is to the loops: called on a heap, returns an object and the heap afterwards -/
abbrev InitFn := Heap → Val × Heap

/-- `init()` -/
def callInit (i : Init) : InitFn := fun h =>
  match i with
  | .int => (.int 0, h)
  | .float => (.float "0000000000000000", h)
  | .str => (.str "", h)
  | .list => materialise h (.cell (.list "list" []))
  | .tuple => materialise h (.cell (.tuple "tuple" []))
  | .dict => materialise h (.cell (.dict "dict" []))
  | .odict => materialise h (.cell (.dict "OrderedDict" []))
  | .acc => materialise h (.cell (.list "Acc" []))
  | .set => materialise h (.cell (.set "set" []))
  | .notCallable => (.none, h)                       -- never reached: the constructor refuses it
  | .copyOf v =>
    match v with
    | .ref a =>
      match h[a]? with
      | some o => if copyable o then materialise h (.cell o) else (v, h)
      | none => (v, h)
    | _ => (v, h)
  | .shared v => (v, h)

/-- `ret = op(ret, v)`: the new `ret` and the heap afterwards -/
def opStep (f : OpFn) (h : Heap) (acc v : Val) : Except Err (Val × Heap) :=
  match load h acc with
  | none => .error typeErr
  | some sv =>
    match f h sv v with
    | .error e => .error e
    | .ok (.value r) => .ok (materialise h r)
    | .ok (.inplaceSelf o) =>
      match acc with
      | .ref a => .ok (.ref a, h.set a o)
      | _ => .error typeErr
    | .ok (.inplaceNone o) =>
      match acc with
      | .ref a => .ok (.none, h.set a o)
      | _ => .error typeErr
    | .ok (.writeOther b o) => .ok (acc, h.set b o)

/-- the loop variable `v` is drawn from the iterator before `op` is called: an iterator that raises at
    this point (`raiseMarker`) raises out of the loop, `op` is not called -/
def guardOp (f : OpFn) : OpFn := fun h sv v =>
  match raiseMarker v with
  | some c => .error (.raised c)
  | none => f h sv v

/-- `for v in iterator: ret = op(ret, v)` then `return ret` (Fold._fold) -/
def foldLoop (f : OpFn) : List Val → Val → Heap → Except Err Val × Heap
  | [], acc, h => (.ok acc, h)
  | v :: vs, acc, h =>
    match opStep f h acc v with
    | .ok (acc', h') => foldLoop f vs acc' h'
    | .error e => (.error e, h)

/-- `for v in iterator: op(ret, v)` then `return ret` (Merge._fold): the result of
    `op` is dropped, only its in-place effect on `ret` remains -/
def mergeLoop (f : OpFn) (ret : Val) : List Val → Heap → Except Err Val × Heap
  | [], h => (.ok ret, h)
  | v :: vs, h =>
    match opStep f h ret v with
    | .ok (_, h') =>
      -- a `value` result was materialised and dropped: the object is garbage, `ret` is untouched
      mergeLoop f ret vs h'
    | .error e => (.error e, h)

/-- `Fold._fold` for an arbitrary factory and operator -/
def foldWith (ini : InitFn) (f : OpFn) (items : List Val) (h : Heap) : Except Err Val × Heap :=
  foldLoop f items (ini h).1 (ini h).2

/-- `Merge._fold` for an arbitrary factory and operator -/
def mergeWith (ini : InitFn) (f : OpFn) (items : List Val) (h : Heap) : Except Err Val × Heap :=
  mergeLoop f (ini h).1 items (ini h).2

/-! ### target_iter -/

inductive IterErr where
  | unregistered            -- UnregisteredTarget
  | raised (cls : String)
  deriving DecidableEq, Repr

/-- the iteration environment of ONE call -/
structure Env where
  /-- `get_handler('iterate', obj)` for `type(obj).__name__`: the name of the handler that serves
      the class at this moment, or how the lookup fails -/
  lk : String → Except IterErr String
  /-- what calling the handler of that name on a target yields, drained into a list;
      `none` = the call raised (any Exception) -/
  run : String → Heap → Val → Option (List Val)
  foldCatch : List (String × String)    -- `except X: raise Y` in Fold.glomit (generated)
  iterCatch : List (String × String)    -- `except X: raise Y` around `iterate(target)` in target_iter (generated)
  excTable : ClassTable

def regLookup (reg : List (String × String)) (c : String) : Option String :=
  (reg.find? (·.1 == c)).map (·.2)

/-- `lambda x: iter(x.items)` -/
def itemsAttrIter (h : Heap) : Val → Option (List Val)
  | .ref a =>
    match h[a]? with
    | some (.inst _ as) =>
      match attrOf as "items" with
      | some w => rawIterBase h w
      | none => none
    | _ => none
  | _ => none

/-- `list(x)` INSIDE a handler drains `x`: a generator that raises midway makes the handler call raise -/
def drainedIter (h : Heap) (v : Val) : Option (List Val) :=
  match rawIter h v with
  | some ys => if (firstRaise ys).isSome then none else some ys
  | none => none

/-- the `iterate` handlers of the harness (and `iter` itself): what calling one on a target
    yields, drained into a list; `none` = the call raised (any Exception) -/
def runHandler (hn : String) (h : Heap) (v : Val) : Option (List Val) :=
  if hn == "iter" then rawIter h v
  else if hn == "h:rev" then (drainedIter h v).map List.reverse        -- lambda x: iter(list(x)[::-1])
  else if hn == "h:tail" then (drainedIter h v).map (List.drop 1)      -- lambda x: iter(list(x)[1:])
  else if hn == "h:aslist" then drainedIter h v                        -- lambda x: list(x)   (a list, not an iterator)
  else if hn == "h:items" then itemsAttrIter h v                       -- lambda x: iter(x.items)
  else none                                                            -- h:raise, unknown names: the call raises

/-- what the `except` around `iterate(target)` turns a handler's exception into -/
def handlerFailure (env : Env) : IterErr :=
  match regLookup env.iterCatch "Exception" with
  | some c => .raised c
  | none => .raised "<handler exception>"

/-- `iterate(target)` inside target_iter's `try`, given the answer of `get_handler` -/
def applyHandler (env : Env) (ans : Except IterErr String) (h : Heap) (v : Val) : Except IterErr (List Val) :=
  match ans with
  | .error e => .error e
  | .ok hn =>
    match env.run hn h v with
    | some items => .ok items
    | none => .error (handlerFailure env)

/-- `target_iter(target, scope)`, the iterator drained into the list of items it yields -/
def targetIter (env : Env) (h : Heap) (v : Val) : Except IterErr (List Val) :=
  applyHandler env (env.lk (v.clsName h)) h v

/-! ### the spec objects -/

inductive Kind where
  | fold | flatten | merge             -- whose `_fold` runs
  deriving DecidableEq, Repr, Inhabited

structure FoldSpec where
  kind : Kind
  sub : List Val                       -- sub-spec: `T[k₁][k₂]…`; `[]` is `T` itself
  init : Init
  op : Op
  lazy : Bool
  deriving DecidableEq, Repr, Inhabited

inductive InitArg where
  | lazy                               -- the string 'lazy'
  | init (i : Init)
  deriving DecidableEq, Repr, Inhabited

inductive MergeOpArg where
  | none | name (n : String) | iadd | firstWins | dictUnion
  | notCallable                        -- `op=5`: neither a method name nor callable
  deriving DecidableEq, Repr, Inhabited

def mkFold (sub : List Val) (init : Init) (op : Op) : FoldSpec := ⟨.fold, sub, init, op, false⟩
def mkSum (sub : List Val) (init : Init) : FoldSpec := ⟨.fold, sub, init, .iadd, false⟩
def mkCount : FoldSpec := ⟨.fold, [], .int, .count, false⟩

/-- `Flatten.__init__`: `if init == 'lazy': self.lazy = True; init = list` -/
def mkFlatten (sub : List Val) (init : InitArg) : FoldSpec :=
  match init with
  | .lazy => ⟨.flatten, sub, .list, .iadd, true⟩
  | .init i => ⟨.flatten, sub, i, .iadd, false⟩

/-- `getattr(type(x), name, None)` for the classes in play -/
def methodOf (cls name : String) : Option Op :=
  if name == "update" && (cls == "dict" || cls == "OrderedDict" || cls == "Acc") then some (.update cls)
  else if name == "extend" && (cls == "list" || cls == "Acc" || cls == "Bag" || cls == "SubBag") then some .extend
  else if name == "append" && (cls == "list" || cls == "Acc" || cls == "Bag" || cls == "SubBag") then some .appendNone
  else none

/-- `Merge.__init__`: a string `op` (default 'update') is looked up on `type(init())` —
    `init()` is called here once (the object is dropped); not callable ⇒ ValueError -/
def mkMerge (sub : List Val) (init : Init) (op : MergeOpArg) (h : Heap) : Except Err FoldSpec × Heap :=
  let byName (n : String) : Except Err FoldSpec × Heap :=
    if init == .notCallable then (.error typeErr, h)        -- `test_init = init()`: calling a non-callable
    else
      let (t, h1) := callInit init h
      match methodOf (t.clsName h1) n with
      | some o => (.ok ⟨.merge, sub, init, o, false⟩, h1)
      | none => (.error (.raised "ValueError"), h1)
  -- a callable op goes straight to Fold.__init__, which refuses a non-callable init
  let direct (o : Op) : Except Err FoldSpec × Heap :=
    if init == .notCallable then (.error typeErr, h) else (.ok ⟨.merge, sub, init, o, false⟩, h)
  match op with
  | .none => byName "update"
  | .name n => byName n
  | .iadd => direct .iadd
  | .firstWins => direct .firstWins
  | .dictUnion => direct .dictUnion
  | .notCallable => (.error (.raised "ValueError"), h)

/-! ### evaluation, given the handler table of the moment -/

/-- the sub-spec `T[k₁][k₂]…` -/
def evalSub (h : Heap) : List Val → Val → Except Err Val
  | [], cur => .ok cur
  | k :: ks, cur =>
    match pyGetitem h cur k with
    | .ok v => evalSub h ks v
    | .error _ => .error (.raised "PathAccessError")

/-- the three `_fold` bodies -/
def runFold (s : FoldSpec) (items : List Val) (h : Heap) : Except Err Val × Heap :=
  match s.kind with
  | .fold => foldWith (callInit s.init) (guardOp (pyOp s.op)) items h
  | .flatten =>
    if s.lazy then
      let (c, h1) := materialise h (.cell (.tuple "chain" items))     -- itertools.chain.from_iterable(iterator)
      (.ok c, h1)
    else foldWith (callInit s.init) (guardOp (pyOp s.op)) items h
  | .merge => mergeWith (callInit s.init) (guardOp (pyOp s.op)) items h

/-- `except X` in Fold.glomit around `iterator = target_iter(…)` — and around nothing else: `_fold`
    (init(), the loop, op) runs after the `try` statement -/
def convertIterErr (env : Env) : IterErr → Err
  | .unregistered =>
    match regLookup env.foldCatch "UnregisteredTarget" with
    | some "FoldError" => .fold
    | _ => .raised "UnregisteredTarget"
  | .raised c => .raised c

/-- `Fold.glomit(target, scope)` outside Group mode: FIRST the sub-spec, THEN the handler
    lookup and the handler call, THEN `init()` and the loop -/
def glomit (env : Env) (s : FoldSpec) (h : Heap) (target : Val) : Except Err Val × Heap :=
  match evalSub h s.sub target with
  | .error e => (.error e, h)
  | .ok t =>
    match targetIter env h t with
    | .error ie => (.error (convertIterErr env ie), h)
    | .ok items => runFold s items h

/-- a tuple spec of Fold objects: each step's result is the next step's target -/
def chainEval (env : Env) : List FoldSpec → Heap → Val → Except Err Val × Heap
  | [], h, cur => (.ok cur, h)
  | s :: ss, h, cur =>
    match glomit env s h cur with
    | (.ok v, h') => chainEval env ss h' v
    | (.error e, h') => (.error e, h')

/-- `flatten(target, spec=sub, init=init, levels=levels)` -/
def flattenFn (env : Env) (sub : List Val) (init : InitArg) (levels : Int) (h : Heap) (target : Val) :
    Except Err Val × Heap :=
  if levels == 0 then (.ok target, h)
  else if levels < 0 then (.error (.raised "ValueError"), h)
  else if init == .init .notCallable then (.error typeErr, h)      -- `Flatten(init=init)` is built before glom() runs
  else
    match evalSub h sub target with
    | .error e => (.error e, h)
    | .ok t =>
      chainEval env (List.replicate (levels.toNat - 1) (mkFlatten [] .lazy) ++ [mkFlatten [] init]) h t

/-- `merge(target, spec=sub, init=init, op=op)` -/
def mergeFn (env : Env) (sub : List Val) (init : Init) (op : MergeOpArg) (h : Heap) (target : Val) :
    Except Err Val × Heap :=
  match mkMerge sub init op h with
  | (.ok s, h1) => glomit env s h1 target
  | (.error e, h1) => (.error e, h1)

/-! ### programs: one spec object, evaluated on a sequence of targets -/

inductive OddCall where
  | extraKw                            -- an unexpected keyword argument
  | levelsNone                         -- `levels=None`
  | levelsFloat (bits : String)        -- `levels=1.5`, `2.0`, `0.0`, `-1.5`
  deriving DecidableEq, Repr, Inhabited

inductive Prog where
  | fold (sub : List Val) (init : Init) (op : Op)
  | sum (sub : List Val) (init : Init)
  | count
  | flatten (sub : List Val) (init : InitArg)
  | merge (sub : List Val) (init : Init) (op : MergeOpArg)
  | flattenFn (sub : List Val) (init : InitArg) (levels : Int)
  | mergeFn (sub : List Val) (init : Init) (op : MergeOpArg)
  /-- `flatten(t, levels=<not an int>)` / `flatten(t, foo=1)` / `merge(t, foo=1)`: calls decided on
      their arguments alone -/
  | oddCall (c : OddCall)
  deriving DecidableEq, Repr, Inhabited

/-- what the constructor of a spec CLASS refuses (checked once, before any evaluation):
    `Fold.__init__` wants a callable op (checked first) and a callable init -/
def ctorErr : Prog → Option Err
  | .fold _ i op => if op == .notCallable || i == .notCallable then some typeErr else none
  | .sum _ i => if i == .notCallable then some typeErr else none
  | .flatten _ (.init i) => if i == .notCallable then some typeErr else none
  | _ => none

/-- `flatten()` / `merge()` with arguments of the wrong kind: `if kwargs: raise TypeError` comes
    first; then `levels == 0` / `levels < 0` / `(…,) * (levels - 1)` on whatever `levels` is -/
def oddCall (c : OddCall) (h : Heap) (target : Val) : Except Err Val × Heap :=
  match c with
  | .extraKw => (.error typeErr, h)
  | .levelsNone => (.error typeErr, h)                       -- `None < 0`
  | .levelsFloat s =>
    match floatOfHex s with
    | none => (.error typeErr, h)
    | some x =>
      if x == 0 then (.ok target, h)                         -- `0.0 == 0`
      else if x < 0 then (.error (.raised "ValueError"), h)
      else (.error typeErr, h)                               -- `(Flatten(…),) * 0.5`

/-- evaluate one already-built spec object on each target in turn (the SAME object every time) -/
def evalAll (f : Heap → Val → Except Err Val × Heap) : List Val → Heap → List (Except Err Val) × Heap
  | [], h => ([], h)
  | t :: ts, h =>
    let (r, h1) := f h t
    let (rs, h2) := evalAll f ts h1
    (r :: rs, h2)

/-- build the spec (once), then evaluate it on every target — under ONE handler table -/
def runProg (env : Env) (p : Prog) (targets : List Val) (h : Heap) : List (Except Err Val) × Heap :=
  match p with
  | .fold sub i op => evalAll (glomit env (mkFold sub i op)) targets h
  | .sum sub i => evalAll (glomit env (mkSum sub i)) targets h
  | .count => evalAll (glomit env mkCount) targets h
  | .flatten sub i => evalAll (glomit env (mkFlatten sub i)) targets h
  | .merge sub i op =>
    match mkMerge sub i op h with
    | (.ok s, h1) => evalAll (glomit env s) targets h1
    | (.error e, h1) => (targets.map (fun _ => .error e), h1)     -- construction failed: nothing to evaluate
  | .flattenFn sub i l => evalAll (flattenFn env sub i l) targets h
  | .mergeFn sub i op => evalAll (mergeFn env sub i op) targets h
  | .oddCall c => evalAll (oddCall c) targets h

/-! ### the code that exists: `get_handler` with its memo, a history of evaluations and registrations -/

abbrev Reg := C13.Reg
abbrev Hier := C13.Hier

/-- what `target_iter` makes of the outcome of `get_handler('iterate', target)`:
    a `False` handed out by the memo is *called* inside the `try` (TypeError);
    UnregisteredTarget and a KeyError leave `get_handler` itself, outside the `try` -/
def lkAnswer : C13.Answer → Except IterErr String
  | .ret (some hn) => .ok hn
  | .ret none => .error (.raised "TypeError")
  | .unregistered => .error .unregistered
  | .keyError => .error (.raised "KeyError")

/-- the memo-free answer of a registry's current tables: what a FIRST lookup would say -/
def pureLk (H : Hier) (r : Reg) (cls : String) : Except IterErr String :=
  match C13.resolve H r "iterate" cls with
  | none => .error (.raised "KeyError")
  | some none => .error .unregistered
  | some (some hn) => .ok hn

/-- the environment of a call made while the registry's tables are `r`'s -/
def envOf (H : Hier) (env : Env) (r : Reg) : Env := { env with lk := pureLk H r }

/-- `get_handler` as it is since 8b51f6e: what the memo holds is fetched first, and a remembered
    `False` raises UnregisteredTarget under `raise_exc=True` just as a fresh one does
    (`ret = self._type_cache[cache_key]; if ret is False and raise_exc: raise …`).  The shared
    registry model's `getHandler` returns the remembered `False`; this is the one statement added. -/
def getHandler15 (H : Hier) (r : Reg) (op : String) (cls : String) (raiseExc : Bool) : Reg × C13.Answer :=
  match C13.getHandler H r op cls raiseExc with
  | (r', .ret none) => if raiseExc then (r', .unregistered) else (r', .ret none)
  | x => x

/-- `target_iter` against the registry: the lookup goes through (and writes) the memo.
    (`env.lk` is not consulted by the `…R` functions: the registry answers.) -/
def targetIterR (H : Hier) (env : Env) (r : Reg) (h : Heap) (v : Val) : Except IterErr (List Val) × Reg :=
  let (r', ans) := getHandler15 H r "iterate" (v.clsName h) true
  (applyHandler env (lkAnswer ans) h v, r')

def glomitR (H : Hier) (env : Env) (s : FoldSpec) (r : Reg) (h : Heap) (target : Val) :
    (Except Err Val × Heap) × Reg :=
  match evalSub h s.sub target with
  | .error e => ((.error e, h), r)                   -- the sub-spec failed: no lookup is made
  | .ok t =>
    match targetIterR H env r h t with
    | (.error ie, r') => ((.error (convertIterErr env ie), h), r')
    | (.ok items, r') => (runFold s items h, r')

def chainEvalR (H : Hier) (env : Env) : List FoldSpec → Reg → Heap → Val → (Except Err Val × Heap) × Reg
  | [], r, h, cur => ((.ok cur, h), r)
  | s :: ss, r, h, cur =>
    match glomitR H env s r h cur with
    | ((.ok v, h'), r') => chainEvalR H env ss r' h' v
    | ((.error e, h'), r') => ((.error e, h'), r')

def flattenFnR (H : Hier) (env : Env) (sub : List Val) (init : InitArg) (levels : Int) (r : Reg) (h : Heap)
    (target : Val) : (Except Err Val × Heap) × Reg :=
  if levels == 0 then ((.ok target, h), r)
  else if levels < 0 then ((.error (.raised "ValueError"), h), r)
  else if init == .init .notCallable then ((.error typeErr, h), r)
  else
    match evalSub h sub target with
    | .error e => ((.error e, h), r)
    | .ok t =>
      chainEvalR H env (List.replicate (levels.toNat - 1) (mkFlatten [] .lazy) ++ [mkFlatten [] init]) r h t

def mergeFnR (H : Hier) (env : Env) (sub : List Val) (init : Init) (op : MergeOpArg) (r : Reg) (h : Heap)
    (target : Val) : (Except Err Val × Heap) × Reg :=
  match mkMerge sub init op h with
  | (.ok s, h1) => glomitR H env s r h1 target
  | (.error e, h1) => ((.error e, h1), r)

/-- one step of a history -/
inductive Event where
  | eval (target : Val)
  /-- `register(cls, exact=exact, **kw)` on the registry the evaluations use
      (`kw`: e.g. `[("iterate", some "h:rev")]`; a handler `none` is `False`) -/
  | register (cls : String) (exact : Bool) (kw : List (String × Option String))
  /-- `registry.get_handler('iterate', obj, raise_exc=False)` for an object of class `cls`: a lookup
      that does not raise and REMEMBERS a `False` -/
  | probe (cls : String)
  deriving DecidableEq, Repr, Inhabited

def Event.targets : List Event → List Val
  | [] => []
  | .eval t :: es => t :: Event.targets es
  | .register .. :: es => Event.targets es
  | .probe _ :: es => Event.targets es

/-- the registry's tables after an event (an evaluation changes the memo only; see `evalEvents`) -/
def regAfter (H : Hier) (r : Reg) : Event → Reg
  | .eval _ => r
  | .register c e kw => C13.register H r c e kw
  | .probe _ => r

/-- run a history with one already-built evaluator: results of the evaluations, final heap, final registry -/
def evalEvents (H : Hier) (f : Reg → Heap → Val → (Except Err Val × Heap) × Reg) :
    List Event → Reg → Heap → List (Except Err Val) × Heap × Reg
  | [], r, h => ([], h, r)
  | .eval t :: es, r, h =>
    let out := f r h t
    let rest := evalEvents H f es out.2 out.1.2
    (out.1.1 :: rest.1, rest.2)
  | .register c e kw :: es, r, h => evalEvents H f es (C13.register H r c e kw) h
  | .probe c :: es, r, h => evalEvents H f es (getHandler15 H r "iterate" c false).1 h

/-- build the spec (once), then run the history against the registry `r` -/
def runProgR (H : Hier) (env : Env) (p : Prog) (events : List Event) (r : Reg) (h : Heap) :
    List (Except Err Val) × Heap × Reg :=
  match p with
  | .fold sub i op => evalEvents H (glomitR H env (mkFold sub i op)) events r h
  | .sum sub i => evalEvents H (glomitR H env (mkSum sub i)) events r h
  | .count => evalEvents H (glomitR H env mkCount) events r h
  | .flatten sub i => evalEvents H (glomitR H env (mkFlatten sub i)) events r h
  | .merge sub i op =>
    match mkMerge sub i op h with
    | (.ok s, h1) => evalEvents H (glomitR H env s) events r h1
    | (.error e, h1) => ((Event.targets events).map (fun _ => .error e), h1, r)
  | .flattenFn sub i l => evalEvents H (flattenFnR H env sub i l) events r h
  | .mergeFn sub i op => evalEvents H (mergeFnR H env sub i op) events r h
  | .oddCall c => evalEvents H (fun r h t => (oddCall c h t, r)) events r h

/-- the whole run: the constructor of a spec class is called first, once -/
def runHistory (H : Hier) (env : Env) (p : Prog) (events : List Event) (r : Reg) (h : Heap) :
    List (Except Err Val) × Heap × Reg :=
  match ctorErr p with
  | some e => ((Event.targets events).map (fun _ => .error e), h, r)   -- nothing is evaluated (nor registered: not observed)
  | none => runProgR H env p events r h

end Glom.C15
