import Glom.Py.Access
/-
  C15 — code-shaped model of glom/reduction.py (Fold, Sum, Count, Flatten,
  flatten(), Merge, merge()) and of `target_iter` (glom/grouping.py), on the
  shared heap kernel: an accumulator is a heap object with an address, so
  "`ret += v` extends `ret` in place", "a new object is returned", "the
  accumulator is the object `init()` returned" are all expressible and the
  frame / freshness statements are theorems, not true by construction.

    Fold.__init__ / Sum / Count / Flatten / Merge constructors → `mkFold` … `mkMerge`
        (Flatten: `init == 'lazy'` ⇒ lazy, init := list;  Merge: `op` looked up on
         `type(init())` — `init()` IS called once at construction)
    Fold.glomit      → `glomit`   (sub-spec, `target_iter`, `except UnregisteredTarget → FoldError`)
    Fold._fold       → `foldLoop` (`ret = init(); for v in it: ret = op(ret, v)`)
    Flatten._fold    → lazy branch allocates a `chain` object
    Merge._fold      → `mergeLoop` (`op(ret, v)`; `ret` never reassigned)
    flatten()/merge()→ `flattenFn` / `mergeFn`
    target_iter      → `targetIter` (registered `iterate` handler, nearest nominal
                        ancestor, `_AbstractIterable` fallback excluding str/bytes)

  What Python's operators compute (`+=`, `+`, `dict.update`, `iter`) is `pyOp` /
  `rawIter`: CPython behaviour as modelled, validated by the correspondence.
-/
namespace Glom.C15
open Glom

inductive Err where
  | fold                        -- FoldError
  | raised (cls : String)       -- any other exception: passes through unchanged
  deriving DecidableEq, Repr, Inhabited

def typeErr : Err := .raised "TypeError"

/-- the `init` argument: what calling it returns -/
inductive Init where
  | int | str | list | tuple | dict | odict | acc   -- `acc`: class Acc(list) with its own `__iadd__` / `update`
  | shared (v : Val)                                -- `lambda: OBJ`: returns a pre-existing object (does not allocate)
  deriving DecidableEq, Repr, Inhabited

inductive Op where
  | iadd | add | count
  | update (cls : String)      -- `getattr(type(init()), 'update')`, resolved at construction
  | firstWins                  -- a user callable `(d, v) -> None` doing `d.setdefault` per item of `v`
  deriving DecidableEq, Repr, Inhabited

/-- an accumulator *value*: an immediate, or the content of a container -/
inductive SV where
  | imm (v : Val)
  | cell (o : Obj)
  deriving DecidableEq, Repr, Inhabited

/-! ### Python primitives -/

def strChars (s : String) : List Val := s.toList.map (fun c => Val.str (String.singleton c))

/-- `iter(v)` for everything but a `chain` object -/
def rawIter1 (h : Heap) : Val → Option (List Val)
  | .str s => some (strChars s)
  | .ref a =>
    match h[a]? with
    | some (.list _ xs) => some xs
    | some (.tuple _ xs) => some xs
    | some (.set _ xs) => some xs
    | some (.dict _ es) => some (es.map (·.1))
    | _ => none
  | _ => none

/-- `chain.from_iterable(xs)` consumed: `none` = some element is not iterable (TypeError) -/
def joinWith (f : Val → Option (List Val)) : List Val → Option (List Val)
  | [] => some []
  | x :: xs =>
    match f x, joinWith f xs with
    | some a, some b => some (a ++ b)
    | _, _ => none

/-- `iter(v)`; a `chain` cell holds the *outer* items and yields their concatenation.
    (chain objects are only ever results, never elements of a container) -/
def rawIter (h : Heap) : Val → Option (List Val)
  | .ref a =>
    match h[a]? with
    | some (.tuple c xs) => if c == "chain" then joinWith (rawIter1 h) xs else some xs
    | _ => rawIter1 h (.ref a)
  | v => rawIter1 h v

def asInt : Val → Option Int
  | .int i => some i
  | .bool b => some (if b then 1 else 0)
  | _ => none

/-- what an operator call does -/
inductive OpRes where
  | value (sv : SV)          -- returns a new value; no operand is touched
  | inplaceSelf (o : Obj)    -- the left operand's content becomes `o`; returns the left operand itself
  | inplaceNone (o : Obj)    -- the left operand's content becomes `o`; returns None
  deriving DecidableEq, Repr

/-- `a += v` (`inplace`) / `a + v` -/
def pyAdd (inplace : Bool) (h : Heap) (acc : SV) (v : Val) : Except Err OpRes :=
  match acc with
  | .imm (.str a) =>
    match v with
    | .str b => .ok (.value (.imm (.str (a ++ b))))
    | _ => .error typeErr
  | .imm a =>
    match asInt a, asInt v with
    | some x, some y => .ok (.value (.imm (.int (x + y))))
    | _, _ => .error typeErr
  | .cell (.list cls xs) =>
    if inplace then
      if cls == "Acc" then .ok (.inplaceSelf (.list cls (xs ++ [v])))      -- Acc.__iadd__: append, return self
      else match rawIter h v with                                           -- list.__iadd__: extend with any iterable
        | some ys => .ok (.inplaceSelf (.list cls (xs ++ ys)))
        | none => .error typeErr
    else
      match v with                                                          -- list.__add__: right operand must be a list
      | .ref b =>
        match h[b]? with
        | some (.list _ ys) => .ok (.value (.cell (.list "list" (xs ++ ys))))
        | _ => .error typeErr
      | _ => .error typeErr
  | .cell (.tuple cls xs) =>                                                -- tuple has no __iadd__: `+`, a new tuple
    if cls == "tuple" then
      match v with
      | .ref b =>
        match h[b]? with
        | some (.tuple c2 ys) =>
          if c2 == "tuple" then .ok (.value (.cell (.tuple "tuple" (xs ++ ys)))) else .error typeErr
        | _ => .error typeErr
      | _ => .error typeErr
    else .error typeErr
  | _ => .error typeErr

/-- `d[k] = x` on an entry list: an existing (Python-equal) key keeps its position and key object -/
def dictSet : List (Val × Val) → Val → Val → List (Val × Val)
  | [], k, x => [(k, x)]
  | (k', x') :: es, k, x => if pyKeyEq k' k then (k', x) :: es else (k', x') :: dictSet es k x

def dictSetDefault (es : List (Val × Val)) (k x : Val) : List (Val × Val) :=
  match dictLookup es k with
  | some _ => es
  | none => es ++ [(k, x)]

/-- one element of an iterable handed to `dict.update`: must unpack to a (hashable key, value) pair -/
def pairOf (h : Heap) (item : Val) : Except Err (Val × Val) :=
  match rawIter h item with
  | none => .error typeErr
  | some [k, x] => if k.hashable h then .ok (k, x) else .error typeErr
  | some _ => .error (.raised "ValueError")

def pairsOf (h : Heap) : List Val → Except Err (List (Val × Val))
  | [] => .ok []
  | i :: is =>
    match pairOf h i with
    | .error e => .error e
    | .ok p =>
      match pairsOf h is with
      | .error e => .error e
      | .ok ps => .ok (p :: ps)

/-- `dict.update(_, v)` for a `v` without `keys()`: an iterable of pairs -/
def updateSeq (h : Heap) (v : Val) : Except Err (List (Val × Val)) :=
  match rawIter h v with
  | some items => pairsOf h items
  | none => .error typeErr

/-- the `(key, value)` sequence `dict.update(_, v)` applies, in order -/
def updatePairs (h : Heap) (v : Val) : Except Err (List (Val × Val)) :=
  match v with
  | .ref a =>
    match h[a]? with
    | some (.dict _ es) => .ok es
    | _ => updateSeq h v
  | _ => updateSeq h v

def applyPairs (es : List (Val × Val)) (ps : List (Val × Val)) : List (Val × Val) :=
  ps.foldl (fun acc p => dictSet acc p.1 p.2) es

/-- `cls.update(acc, v)` -/
def pyUpdate (cls : String) (h : Heap) (acc : SV) (v : Val) : Except Err OpRes :=
  if cls == "Acc" then
    match acc with
    | .cell (.list c xs) => if c == "Acc" then .ok (.inplaceNone (.list c (xs ++ [v]))) else .error typeErr
    | _ => .error typeErr
  else
    match acc with
    | .cell (.dict c es) =>
      match updatePairs h v with
      | .ok ps => .ok (.inplaceNone (.dict c (applyPairs es ps)))
      | .error e => .error e
    | _ => .error typeErr

/-- `def first_wins(d, v): for k, x in v.items(): d.setdefault(k, x)` -/
def pyFirstWins (h : Heap) (acc : SV) (v : Val) : Except Err OpRes :=
  match v with
  | .ref a =>
    match h[a]? with
    | some (.dict _ ps) =>
      match acc with
      | .cell (.dict c es) => .ok (.inplaceNone (.dict c (ps.foldl (fun e p => dictSetDefault e p.1 p.2) es)))
      | .cell o => if ps.isEmpty then .ok (.inplaceNone o) else .error (.raised "AttributeError")
      | .imm x => if ps.isEmpty then .ok (.value (.imm x)) else .error (.raised "AttributeError")
    | _ => .error (.raised "AttributeError")
  | _ => .error (.raised "AttributeError")

def pyOp (op : Op) (h : Heap) (acc : SV) (v : Val) : Except Err OpRes :=
  match op with
  | .iadd => pyAdd true h acc v
  | .add => pyAdd false h acc v
  | .count =>
    match acc with
    | .imm a => match asInt a with
      | some x => .ok (.value (.imm (.int (x + 1))))
      | none => .error typeErr
    | _ => .error typeErr
  | .update cls => pyUpdate cls h acc v
  | .firstWins => pyFirstWins h acc v

/-! ### the heap side: objects with identity -/

/-- the value an object reference (or immediate) currently holds -/
def load (h : Heap) : Val → Option SV
  | .ref a => (h[a]?).map SV.cell
  | v => some (.imm v)

/-- make a Python object out of a value: immediates are themselves, a container is allocated -/
def materialise (h : Heap) : SV → Val × Heap
  | .imm v => (v, h)
  | .cell o => (.ref h.length, h ++ [o])

/-- `init()` -/
def callInit (i : Init) (h : Heap) : Val × Heap :=
  match i with
  | .int => (.int 0, h)
  | .str => (.str "", h)
  | .list => materialise h (.cell (.list "list" []))
  | .tuple => materialise h (.cell (.tuple "tuple" []))
  | .dict => materialise h (.cell (.dict "dict" []))
  | .odict => materialise h (.cell (.dict "OrderedDict" []))
  | .acc => materialise h (.cell (.list "Acc" []))
  | .shared v => (v, h)

/-- `ret = op(ret, v)`: the new `ret` and the heap afterwards -/
def opStep (op : Op) (h : Heap) (acc v : Val) : Except Err (Val × Heap) :=
  match load h acc with
  | none => .error typeErr
  | some sv =>
    match pyOp op h sv v with
    | .error e => .error e
    | .ok (.value r) => .ok (materialise h r)
    | .ok (.inplaceSelf o) =>
      match acc with
      | .ref a => .ok (.ref a, h.set a o)
      | _ => .error typeErr
    | .ok (.inplaceNone o) =>
      match acc with
      | .ref a => .ok (.none, h.set a o)
      | _ => .error typeErr

/-- `for v in iterator: ret = op(ret, v)` then `return ret` (Fold._fold) -/
def foldLoop (op : Op) : List Val → Val → Heap → Except Err Val × Heap
  | [], acc, h => (.ok acc, h)
  | v :: vs, acc, h =>
    match opStep op h acc v with
    | .ok (acc', h') => foldLoop op vs acc' h'
    | .error e => (.error e, h)

/-- `for v in iterator: op(ret, v)` then `return ret` (Merge._fold): the result of
    `op` is dropped, only its in-place effect on `ret` remains -/
def mergeLoop (op : Op) (ret : Val) : List Val → Heap → Except Err Val × Heap
  | [], h => (.ok ret, h)
  | v :: vs, h =>
    match opStep op h ret v with
    | .ok (_, h') =>
      -- a `value` result was materialised and dropped: the object is garbage, `ret` is untouched
      mergeLoop op ret vs h'
    | .error e => (.error e, h)

/-! ### target_iter -/

structure Env where
  ct : ClassTable                       -- classes of the objects in the heap (builtins + harness classes)
  iterReg : List (String × String)      -- default `iterate` registrations (generated)
  absIterExcluded : List String         -- classes `_AbstractIterable.__subclasshook__` refuses (generated)
  foldCatch : List (String × String)    -- `except X: raise Y` in Fold.glomit (generated)
  excTable : ClassTable

def regLookup (reg : List (String × String)) (c : String) : Option String :=
  (reg.find? (·.1 == c)).map (·.2)

/-- has `type(v)` an `__iter__`? (layouts list/tuple/dict/set, and str) -/
def hasIter (h : Heap) : Val → Bool
  | .str _ => true
  | .ref a =>
    match h[a]? with
    | some (.inst ..) => false
    | some _ => true
    | none => false
  | _ => false

/-- `get_handler('iterate', target)` for an object of class `cls`: the nearest nominal
    registered ancestor, else `_AbstractIterable` when the class has `__iter__` and is not
    excluded, else `object` -/
def iterHandlerOf (env : Env) (cls : String) (hasIt : Bool) : Option String :=
  match (env.ct.mro cls).findSome? (fun c => if c == "object" then none else regLookup env.iterReg c) with
  | some hn => some hn
  | none =>
    if hasIt && !(env.absIterExcluded.contains cls) then regLookup env.iterReg "_AbstractIterable"
    else regLookup env.iterReg "object"

def iterHandler (env : Env) (h : Heap) (v : Val) : Option String :=
  iterHandlerOf env (v.clsName h) (hasIter h v)

inductive IterErr where
  | unregistered            -- UnregisteredTarget
  | raised (cls : String)
  deriving DecidableEq, Repr

/-- `target_iter(target, scope)`, the iterator drained into the list of items it yields -/
def targetIter (env : Env) (h : Heap) (v : Val) : Except IterErr (List Val) :=
  match iterHandler env h v with
  | some hn =>
    if hn == "iter" then
      match rawIter h v with
      | some items => .ok items
      | none => .error (.raised "TypeError")
    else .error .unregistered          -- handler `False`
  | none => .error .unregistered

/-! ### the spec objects -/

inductive Kind where
  | fold | flatten | merge             -- whose `_fold` runs
  deriving DecidableEq, Repr, Inhabited

structure FoldSpec where
  kind : Kind
  sub : List Val                       -- sub-spec: `T[k₁][k₂]…`; `[]` is `T` itself
  init : Init
  op : Op
  lazy : Bool
  deriving DecidableEq, Repr, Inhabited

inductive InitArg where
  | lazy                               -- the string 'lazy'
  | init (i : Init)
  deriving DecidableEq, Repr, Inhabited

inductive MergeOpArg where
  | none | name (n : String) | iadd | firstWins
  deriving DecidableEq, Repr, Inhabited

def mkFold (sub : List Val) (init : Init) (op : Op) : FoldSpec := ⟨.fold, sub, init, op, false⟩
def mkSum (sub : List Val) (init : Init) : FoldSpec := ⟨.fold, sub, init, .iadd, false⟩
def mkCount : FoldSpec := ⟨.fold, [], .int, .count, false⟩

/-- `Flatten.__init__`: `if init == 'lazy': self.lazy = True; init = list` -/
def mkFlatten (sub : List Val) (init : InitArg) : FoldSpec :=
  match init with
  | .lazy => ⟨.flatten, sub, .list, .iadd, true⟩
  | .init i => ⟨.flatten, sub, i, .iadd, false⟩

/-- `getattr(type(x), name, None)` for the classes in play -/
def methodOf (cls name : String) : Option Op :=
  if name == "update" && (cls == "dict" || cls == "OrderedDict" || cls == "Acc") then some (.update cls)
  else none

/-- `Merge.__init__`: a string `op` (default 'update') is looked up on `type(init())` —
    `init()` is called here once (the object is dropped); not callable ⇒ ValueError -/
def mkMerge (sub : List Val) (init : Init) (op : MergeOpArg) (h : Heap) : Except Err FoldSpec × Heap :=
  let byName (n : String) : Except Err FoldSpec × Heap :=
    let (t, h1) := callInit init h
    match methodOf (t.clsName h1) n with
    | some o => (.ok ⟨.merge, sub, init, o, false⟩, h1)
    | none => (.error (.raised "ValueError"), h1)
  match op with
  | .none => byName "update"
  | .name n => byName n
  | .iadd => (.ok ⟨.merge, sub, init, .iadd, false⟩, h)
  | .firstWins => (.ok ⟨.merge, sub, init, .firstWins, false⟩, h)

/-! ### evaluation -/

/-- the sub-spec `T[k₁][k₂]…` -/
def evalSub (h : Heap) : List Val → Val → Except Err Val
  | [], cur => .ok cur
  | k :: ks, cur =>
    match pyGetitem h cur k with
    | .ok v => evalSub h ks v
    | .error _ => .error (.raised "PathAccessError")

/-- the three `_fold` bodies -/
def runFold (s : FoldSpec) (items : List Val) (h : Heap) : Except Err Val × Heap :=
  match s.kind with
  | .fold =>
    let (acc, h1) := callInit s.init h
    foldLoop s.op items acc h1
  | .flatten =>
    if s.lazy then
      let (c, h1) := materialise h (.cell (.tuple "chain" items))     -- itertools.chain.from_iterable(iterator)
      (.ok c, h1)
    else
      let (acc, h1) := callInit s.init h
      foldLoop s.op items acc h1
  | .merge =>
    let (acc, h1) := callInit s.init h
    mergeLoop s.op acc items h1

/-- `except X` in Fold.glomit around `self._fold(target_iter(…))` -/
def convertIterErr (env : Env) : IterErr → Err
  | .unregistered =>
    match regLookup env.foldCatch "UnregisteredTarget" with
    | some "FoldError" => .fold
    | _ => .raised "UnregisteredTarget"
  | .raised c => .raised c

/-- `Fold.glomit(target, scope)` outside Group mode -/
def glomit (env : Env) (s : FoldSpec) (h : Heap) (target : Val) : Except Err Val × Heap :=
  match evalSub h s.sub target with
  | .error e => (.error e, h)
  | .ok t =>
    match targetIter env h t with
    | .error ie => (.error (convertIterErr env ie), h)
    | .ok items => runFold s items h

/-- a tuple spec of Fold objects: each step's result is the next step's target -/
def chainEval (env : Env) : List FoldSpec → Heap → Val → Except Err Val × Heap
  | [], h, cur => (.ok cur, h)
  | s :: ss, h, cur =>
    match glomit env s h cur with
    | (.ok v, h') => chainEval env ss h' v
    | (.error e, h') => (.error e, h')

/-- `flatten(target, spec=sub, init=init, levels=levels)` -/
def flattenFn (env : Env) (sub : List Val) (init : InitArg) (levels : Int) (h : Heap) (target : Val) :
    Except Err Val × Heap :=
  if levels == 0 then (.ok target, h)
  else if levels < 0 then (.error (.raised "ValueError"), h)
  else
    match evalSub h sub target with
    | .error e => (.error e, h)
    | .ok t =>
      chainEval env (List.replicate (levels.toNat - 1) (mkFlatten [] .lazy) ++ [mkFlatten [] init]) h t

/-- `merge(target, spec=sub, init=init, op=op)` -/
def mergeFn (env : Env) (sub : List Val) (init : Init) (op : MergeOpArg) (h : Heap) (target : Val) :
    Except Err Val × Heap :=
  match mkMerge sub init op h with
  | (.ok s, h1) => glomit env s h1 target
  | (.error e, h1) => (.error e, h1)

/-! ### programs: one spec object, evaluated on a sequence of targets -/

inductive Prog where
  | fold (sub : List Val) (init : Init) (op : Op)
  | sum (sub : List Val) (init : Init)
  | count
  | flatten (sub : List Val) (init : InitArg)
  | merge (sub : List Val) (init : Init) (op : MergeOpArg)
  | flattenFn (sub : List Val) (init : InitArg) (levels : Int)
  | mergeFn (sub : List Val) (init : Init) (op : MergeOpArg)
  deriving DecidableEq, Repr, Inhabited

/-- evaluate one already-built spec object on each target in turn (the SAME object every time) -/
def evalAll (f : Heap → Val → Except Err Val × Heap) : List Val → Heap → List (Except Err Val) × Heap
  | [], h => ([], h)
  | t :: ts, h =>
    let (r, h1) := f h t
    let (rs, h2) := evalAll f ts h1
    (r :: rs, h2)

/-- build the spec (once), then evaluate it on every target -/
def runProg (env : Env) (p : Prog) (targets : List Val) (h : Heap) : List (Except Err Val) × Heap :=
  match p with
  | .fold sub i op => evalAll (glomit env (mkFold sub i op)) targets h
  | .sum sub i => evalAll (glomit env (mkSum sub i)) targets h
  | .count => evalAll (glomit env mkCount) targets h
  | .flatten sub i => evalAll (glomit env (mkFlatten sub i)) targets h
  | .merge sub i op =>
    match mkMerge sub i op h with
    | (.ok s, h1) => evalAll (glomit env s) targets h1
    | (.error e, h1) => (targets.map (fun _ => .error e), h1)     -- construction failed: nothing to evaluate
  | .flattenFn sub i l => evalAll (flattenFn env sub i l) targets h
  | .mergeFn sub i op => evalAll (mergeFn env sub i op) targets h

end Glom.C15
