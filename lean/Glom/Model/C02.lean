import Glom.Py.Val
/-
  C02 — code-shaped model of recording and replaying T expressions.

  Mirrors glom/core.py:
    * `TType.__getattr__/__getitem__/__call__/__add__/…` + `_t_child`  → `record`
      (each overload appends `(op char, arg)` to the flat `__ops__` tuple; the
      op char comes from the table `tRecorded` regenerated from the source;
      `__invert__`/`__neg__` record `None` as their argument)
    * `_t_eval`'s `while i < fetch_till` loop                          → `tLoop`
      (index `i` starts at 1, steps by 2, `arg = arg_val(target, arg, scope)`
      INSIDE the loop, *before* the branch is chosen, branch chosen by the table
      `tDispatch` regenerated from the source — kind of operation and the
      classes its `except` clause names —, `PathAccessError(e, Path(_t), i // 2)`;
      an op char no branch names falls into the final `else:` whose inner `if`
      chain matches nothing: the operation is *skipped without any error* —
      that is the code that exists, and why `c02_no_dropped_op` is an
      obligation on the tables)
    * `arg_val` / `_ArgValuator.mode`                                  → `argVal`
      (a `T` is evaluated by `_t_eval` against the ORIGINAL target object,
      `Spec(T…)` likewise; an object whose type IS list / tuple / dict / set / frozenset
      is rebuilt with every member evaluated in argument mode — `type(spec) in (list, dict)`,
      `type(spec) in (tuple, set, frozenset)`: which types are tested, and that the tests are
      EXACT type tests, are the extracted facts `argExact` / `argInst` (`rebuilds`) —;
      everything else is passed through literally: `result = spec`.  In particular an instance
      of a SUBCLASS of a builtin container (`Obj.sub`: namedtuple, defaultdict, OrderedDict,
      Counter, a user's list type) falls through both tests and is returned as the very object;
      only an `isinstance` test would take it and build another object with `type(spec)(…)`
      (`Prim.rebuild`) — the model follows the facts, the facts obligation `argModeOk` demands
      exact tests)
    * the `(` branch: for `op == '('` the loop does NOT run `arg_val` on the
      recorded `(args, kwargs)` (`if op != '(': arg = arg_val(…)`, commit db9b8f7;
      the exempted characters are the extracted table `argExempt`);
      `scope[glom](target, Call(cur, args, kwargs), scope)` and `Call.glomit`:
      `r(func)(*r(args), **r(kwargs))` with `r = arg_val(target, ·)` evaluate, in
      this order, the already evaluated callee `cur` (`Prim.revalFunc`: a callable — any
      plain object — is a literal in argument mode and comes back as it is; a glom spec object
      found in the target's data is EVALUATED against the target, which may fail, in no `try`
      of the loop, and may change the state), the tuple of arguments, the dict of keyword
      arguments — each exactly once, against the ORIGINAL target object in the
      state at that moment — and then call.  The callee receives the very objects
      the arguments evaluate to.                                        → `stepOp`

  STATE.  Python objects are mutable: a recorded call may change the target
  (`T['l'].pop()`), and a later nested argument (`… + T['l'][-1]`) reads the
  target *object* in the state it has then.  So every function here threads a
  state `s : S` (for the executable instance: the heap) and returns the state
  it leaves — also when it ends with an exception.  `target : V` is the
  reference to the target object and never changes; what it denotes is read
  from the current state by the primitives.  The code that exists calls
  `arg_val(target, t_path[i+1], scope)` in iteration `i` of the loop, i.e. on
  the state left by the operations `< i`.  `tLoop` therefore receives the list
  `avs` of argument *evaluators* (`avs[j] = argVal flat[j] : S → result × S`)
  and runs `avs[i+1]` on the current state in iteration `i` only — exactly
  where (and when) the Python loop evaluates it; an error or a state change
  inside it happens only if the loop gets there.  This keeps `argVal` the only
  function that recurses through the nesting.

  The primitive semantics of attribute access / subscription / arithmetic /
  calling on values is the parameter `prim : Prim V S`; the types `V` of values
  and `S` of states are parameters too.  So everything proved about this model
  is about glom's record-and-replay logic, not about `int.__pow__` or `list.pop`.

  A `dict` argument is rebuilt by a dict comprehension: per entry the key is
  evaluated, then the value, then the pair is inserted — `hash(key)` raises the
  TypeError for an unhashable key *before* the following entries are evaluated
  (`entryRun`).

  No Mathlib, computable, total.
-/
namespace Glom.C02
open Glom

/-! ### operator kinds (the names the extractor gives to the branches of `_t_eval`) -/

inductive BinOp where
  | add | sub | mul | floordiv | truediv | mod | pow | band | bor | bxor
  deriving DecidableEq, Repr, Inhabited

inductive UnOp where
  | invert | neg
  deriving DecidableEq, Repr, Inhabited

inductive Kind where
  | getattr | getitem | call
  | bin (b : BinOp)
  | un (u : UnOp)
  | handler | star | starstar     -- 'P', 'x', 'X': subjects of C01 / C14
  | other                         -- a branch whose body the extractor does not recognise
  deriving DecidableEq, Repr, Inhabited

def kindNames : List (String × Kind) :=
  [("getattr", .getattr), ("getitem", .getitem), ("call", .call),
   ("add", .bin .add), ("sub", .bin .sub), ("mul", .bin .mul), ("floordiv", .bin .floordiv),
   ("truediv", .bin .truediv), ("mod", .bin .mod), ("pow", .bin .pow),
   ("and", .bin .band), ("or", .bin .bor), ("xor", .bin .bxor),
   ("invert", .un .invert), ("neg", .un .neg),
   ("handler", .handler), ("star", .star), ("starstar", .starstar)]

def Kind.ofString (s : String) : Kind :=
  match kindNames.find? (·.1 == s) with
  | some (_, k) => k
  | none => .other

/-- what `_t_eval` can end with -/
inductive Err where
  | pae (idx : Nat) (e : PyExc)      -- PathAccessError(e, Path(_t), idx)
  | raised (e : PyExc)               -- an exception no `except` clause of the branch names
  | unsupported                      -- outside the C02 fragment (S/A roots, 'P', wildcards, Spec of a non-T)
  deriving DecidableEq, Repr

/-! ### primitives: Python's own semantics of the operations, a parameter -/

/-- Python's own semantics on values `V` in states `S`.  Every operation
    returns the state it leaves, also when it raises. -/
structure Prim (V S : Type) where
  none : V                                                      -- the object `None`
  getattr : S → V → V → Except PyExc V × S                      -- getattr(cur, arg)
  getitem : S → V → V → Except PyExc V × S                      -- cur[arg]
  call : S → V → List V → List (String × V) → Except PyExc V × S    -- f(*args, **kwargs)
  bin : BinOp → S → V → V → Except PyExc V × S                  -- cur <op> arg
  un : UnOp → S → V → Except PyExc V × S                        -- <op> cur
  mkList : S → List V → V × S                                   -- list(items): a new object
  mkTuple : S → List V → V × S                                  -- tuple(items)
  hashKey : S → V → Except PyExc Unit × S                       -- hash(k): TypeError for an unhashable object
  mkDict : S → List (V × V) → Except PyExc V × S                -- dict(pairs) for keys that have been hashed
  mkSet : S → String → List V → Except PyExc V × S              -- set(items) / frozenset(items): TypeError for an unhashable member
  /-- `type(v)(items)` for an instance `v` of a proper SUBCLASS of the builtin container `base`
      (what an `isinstance` test in `_ArgValuator.mode` would do to it: a new object, or the
      TypeError of a constructor with another signature — namedtuple, a user's list type).  The
      code that exists never gets here: its tests are exact (`type(spec) in (…)`, facts
      `argExact` / `argInst`). -/
  rebuild : S → String → V → List V → Except PyExc V × S
  /-- `arg_val(target, cur, scope)` applied to the *already evaluated* callee `cur`
      (`r(self.func)` in `Call.glomit`; first argument after the state: the target).
      A callable is returned as it is; a glom spec object (a `T` expression, `Spec(…)`)
      stored inside the target's data and used as callee is EVALUATED here against the
      target — it may fail (with the error of its own chain) and may change the state. -/
  revalFunc : S → V → V → Except Err V × S

/-! ### the objects that sit in `__ops__` -/

/-- a Python object as far as recording / `arg_val` distinguish objects -/
inductive Obj (V : Type) where
  | lit (v : V)                        -- any other object: passed through literally
  | opc (c : String)                   -- an op character (slot `i` of `__ops__`)
  | root (name : String)               -- the singleton `T` / `S` / `A` (slot 0 of `__ops__`)
  | tt (ops : List (Obj V))            -- a `TType` instance with its flat `__ops__` tuple
  | spec (inner : Obj V)               -- `Spec(inner)`
  | list (xs : List (Obj V))           -- `type(x) is list`
  | tuple (xs : List (Obj V))          -- `type(x) is tuple`
  | dict (es : List (Obj V × Obj V))   -- `type(x) is dict`, insertion order
  | set (ty : String) (xs : List (Obj V))   -- `type(x) is set` / `type(x) is frozenset` (`ty` names which)
  | cargs (args : List (Obj V)) (kwargs : List (String × Obj V))
                                       -- the pair `(args, kwargs)` recorded by `__call__`
  | sub (base : String) (v : V) (items : List (Obj V))
                                       -- the object `v`, an instance of a proper SUBCLASS of the builtin
                                       -- container `base` (namedtuple, defaultdict, OrderedDict, a user's
                                       -- list type …) with its members (a dict's: key, value, key, value, …)

/-- what `arg_val` returns: a value, or — for the pair recorded by `__call__` —
    the rebuilt `(args, kwargs)` -/
inductive AV (V : Type) where
  | val (v : V)
  | call (args : List V) (kwargs : List (String × V))

/-- the extracted tables the model takes as a parameter -/
structure Facts where
  recorded : List (String × String)                   -- TType overload → op char
  dispatch : List (String × String × List String)     -- op char → (kind, caught classes), branch order
  partIdx : List String                               -- third argument of every PathAccessError(…) in `_t_eval`
  argExempt : List String                             -- op chars the loop exempts from `arg = arg_val(…)` (`if op != '(':`)
  argShapeOk : Bool                                   -- the extractor recognised where / under which guard that statement runs
  argExact : List String                              -- container types `_ArgValuator.mode` rebuilds, tested EXACTLY (`type(spec) in (…)`)
  argInst : List String                               -- container types it tests with `isinstance` (subclass instances are rebuilt too)
  argModeShapeOk : Bool                               -- the extractor recognised the shape of `_ArgValuator.mode`
  exc : ClassTable                                    -- exception classes with their MROs

def dispatchOf (F : Facts) (op : String) : Option (String × List String) :=
  (F.dispatch.find? (·.1 == op)).map (·.2)

/-- is exception `e` caught by an `except (c₁, …)` clause? -/
def caughtBy (F : Facts) (caught : List String) (e : PyExc) : Bool :=
  caught.any (fun c => F.exc.isSub e.cls c)

/-- the outcome of a `try: cur = <operation> except (caught) as e: pae = PathAccessError(e, …, i // 2)` -/
def guardE {V} (F : Facts) (caught : List String) (k : Nat) (r : Except PyExc V) : Except Err V :=
  match r with
  | .ok v => .ok v
  | .error e => if caughtBy F caught e then .error (.pae k e) else .error (.raised e)

/-- the same, with the state the operation leaves -/
def guarded {V S} (F : Facts) (caught : List String) (k : Nat) (r : Except PyExc V × S) :
    Except Err V × S :=
  (guardE F caught k r.1, r.2)

/-- the branches of the dispatch chain of `_t_eval` that work on an argument already
    evaluated by `arg_val` (`k = i // 2`), in state `s` -/
def applyBranch {V S} (F : Facts) (prim : Prim V S) (k : Nat) (op : String)
    (s : S) (cur : V) (av : AV V) : Except Err V × S :=
  match dispatchOf F op with
  | none => (.ok cur, s)  -- the final `else:`; none of its inner `if op == …` matches: `cur` is left as it is
  | some (ks, caught) =>
    match Kind.ofString ks, av with
    | .getattr, .val a => guarded F caught k (prim.getattr s cur a)
    | .getitem, .val a => guarded F caught k (prim.getitem s cur a)
    | .bin b, .val a => guarded F caught k (prim.bin b s cur a)
    | .un u, .val _ => guarded F caught k (prim.un u s cur)
    | _, _ => (.error .unsupported, s)

/-- an evaluation that reads and may change the state -/
abbrev Run (S ε α : Type) := S → Except ε α × S

/-- one iteration of the loop body for operation number `k = i // 2`: `ev` evaluates
    `arg_val(target, t_path[i+1], scope)` in the state it is given -/
def stepOp {V S} (F : Facts) (prim : Prim V S) (target : V) (k : Nat) (op : String)
    (s : S) (cur : V) (ev : Run S Err (AV V)) : Except Err V × S :=
  if F.argExempt.contains op then
    -- `arg` stays the recorded `(args, kwargs)`
    match dispatchOf F op with
    | none => (.ok cur, s)
    | some (ks, caught) =>
      match Kind.ofString ks with
      | .call =>
        -- scope[glom](target, Call(cur, args, kwargs), scope); Call.glomit:
        -- r(self.func) … r(self.args), r(self.kwargs) … then the call
        match prim.revalFunc s target cur with
        | (.error e, s0) => (.error e, s0)          -- raised by arg_val over the callee: outside every `try`
        | (.ok f, s0) =>
          match ev s0 with
          | (.error e, s1) => (.error e, s1)
          | (.ok (.call args kwargs), s1) => guarded F caught k (prim.call s1 f args kwargs)
          | (.ok (.val _), s1) => (.error .unsupported, s1)
      | _ => (.error .unsupported, s)     -- another branch would receive the raw pair
  else
    match ev s with                             -- arg = arg_val(target, arg, scope): now, in state `s`
    | (.error e, s1) => (.error e, s1)          -- raised by arg_val: outside every `try`
    | (.ok av, s1) => applyBranch F prim k op s1 cur av

/-- the `while i < fetch_till` loop of `_t_eval` on the flat ops tuple;
    `avs[j]` evaluates `arg_val(target, flat[j], scope)` in the state it is given -/
def tLoop {V S} (F : Facts) (prim : Prim V S) (flat : List (Obj V))
    (avs : List (Run S Err (AV V))) (target : V) (i : Nat) (s : S) (cur : V) : Except Err V × S :=
  if _hlt : i < flat.length then
    match flat[i]?, avs[i+1]? with
    | some (.opc op), some ev =>
      match stepOp F prim target (i / 2) op s cur ev with
      | (.ok v, s2) => tLoop F prim flat avs target (i + 2) s2 v
      | (.error e, s2) => (.error e, s2)
    | _, _ => (.error .unsupported, s)
  else (.ok cur, s)
termination_by flat.length - i

/-- `_t_eval(target, _t, scope)` for the ops tuple `flat` -/
def tRun {V S} (F : Facts) (prim : Prim V S) (flat : List (Obj V)) (avs : List (Run S Err (AV V)))
    (target : V) (s : S) : Except Err V × S :=
  match flat with
  | .root "T" :: _ => tLoop F prim flat avs target 1 s target
  | _ => (.error .unsupported, s)       -- S / A roots read the scope (C07)

/-- run the evaluations one after the other, each in the state the previous one
    left; all results, or the first error (evaluation order of a comprehension) -/
def seqRun {S ε α} : List (Run S ε α) → Run S ε (List α)
  | [], s => (.ok [], s)
  | f :: r, s =>
    match f s with
    | (.error e, s1) => (.error e, s1)
    | (.ok a, s1) =>
      match seqRun r s1 with
      | (.ok l, s2) => (.ok (a :: l), s2)
      | (.error e, s2) => (.error e, s2)

def asVal {V} : AV V → Except Err V
  | .val v => .ok v
  | .call _ _ => .error .unsupported

def valOfRes {V} (r : Except Err (AV V)) : Except Err V :=
  match r with
  | .ok av => asVal av
  | .error e => .error e

def valOfRun {V S} (f : Run S Err (AV V)) : Run S Err V :=
  fun s => (valOfRes (f s).1, (f s).2)

def kwOfRun {V S} (k : String) (f : Run S Err (AV V)) : Run S Err (String × V) :=
  fun s => (match valOfRes (f s).1 with
    | .ok v => .ok (k, v)
    | .error e => .error e, (f s).2)

def valsOf {V S} (rs : List (Run S Err (AV V))) : Run S Err (List V) :=
  seqRun (rs.map valOfRun)

def pairOpt {α β} (a : Option α) (b : Option β) : Option (α × β) :=
  match a, b with
  | some x, some y => some (x, y)
  | _, _ => none

/-- key, then value (one entry of a dict comprehension) -/
def pairRun {S ε α β} (a : Run S ε α) (b : Run S ε β) : Run S ε (α × β) :=
  fun s =>
    match a s with
    | (.error e, s1) => (.error e, s1)
    | (.ok x, s1) =>
      match b s1 with
      | (.error e, s2) => (.error e, s2)
      | (.ok y, s2) => (.ok (x, y), s2)

def liftExc {V} (r : Except PyExc V) : Except Err V :=
  match r with
  | .ok v => .ok v
  | .error e => .error (.raised e)

/-- one entry of `{recur(key): recur(val) for key, val in spec.items()}`: key, value, then
    MAP_ADD hashes the key (outside every `try` of `_t_eval`) -/
def entryRun {V S} (prim : Prim V S) (k v : Run S Err V) : Run S Err (V × V) :=
  fun s =>
    match pairRun k v s with
    | (.error e, s1) => (.error e, s1)
    | (.ok kv, s1) =>
      match (prim.hashKey s1 kv.1).1 with
      | .ok _ => (.ok kv, (prim.hashKey s1 kv.1).2)
      | .error e => (.error (.raised e), (prim.hashKey s1 kv.1).2)


/-! ### termination of recursion through the nested lists -/

theorem sizeOf_fst_lt_of_mem {α β} [SizeOf α] [SizeOf β] {p : α × β} {l : List (α × β)}
    (h : p ∈ l) : sizeOf p.1 < sizeOf l := by
  have := List.sizeOf_lt_of_mem h
  cases p; simp at *; omega

theorem sizeOf_snd_lt_of_mem {α β} [SizeOf α] [SizeOf β] {p : α × β} {l : List (α × β)}
    (h : p ∈ l) : sizeOf p.2 < sizeOf l := by
  have := List.sizeOf_lt_of_mem h
  cases p; simp at *; omega

macro "nested_dec" : tactic => `(tactic| (
  simp_wf
  first
  | done
  | omega
  | (subst_vars; simp; done)
  | (subst_vars; simp; omega)
  | (have := List.sizeOf_lt_of_mem ‹_ ∈ _›; omega)
  | (have := sizeOf_snd_lt_of_mem ‹_ ∈ _›; omega)
  | (have := sizeOf_fst_lt_of_mem ‹_ ∈ _›; omega)))

/-- does `_ArgValuator.mode` rebuild an object whose type IS the builtin container `t`? -/
def rebuilds (F : Facts) (t : String) : Bool := F.argExact.contains t || F.argInst.contains t

/-- `arg_val(target, o, scope)`: an evaluation in the state current when it is run -/
def argVal {V S} (F : Facts) (prim : Prim V S) (target : V) : Obj V → Run S Err (AV V)
  | .lit v => fun s => (.ok (.val v), s)
  | .opc _ => fun s => (.error .unsupported, s)
  | .root _ => fun s => (.error .unsupported, s)
  | .tt flat => fun s =>
    match tRun F prim flat (flat.map (fun a => argVal F prim target a)) target s with
    | (.ok v, s1) => (.ok (.val v), s1)
    | (.error e, s1) => (.error e, s1)
  | .spec inner =>
    match inner with
    | .tt ops => argVal F prim target (.tt ops)   -- Spec.glomit → scope[glom](target, self.spec, scope) → _t_eval
    | _ => fun s => (.error .unsupported, s)      -- a Spec of anything else is evaluated by AUTO (C03)
  | .list xs =>
    if rebuilds F "list" then fun s =>
      match valsOf (xs.map (fun a => argVal F prim target a)) s with
      | (.ok vs, s1) => (.ok (.val (prim.mkList s1 vs).1), (prim.mkList s1 vs).2)
      | (.error e, s1) => (.error e, s1)
    else fun s => (.error .unsupported, s)        -- no test names `list`: the object itself would be passed
  | .tuple xs =>
    if rebuilds F "tuple" then fun s =>
      match valsOf (xs.map (fun a => argVal F prim target a)) s with
      | (.ok vs, s1) => (.ok (.val (prim.mkTuple s1 vs).1), (prim.mkTuple s1 vs).2)
      | (.error e, s1) => (.error e, s1)
    else fun s => (.error .unsupported, s)
  | .dict es =>
    if rebuilds F "dict" then fun s =>
      match seqRun (es.map (fun p =>
          entryRun prim (valOfRun (argVal F prim target p.1)) (valOfRun (argVal F prim target p.2)))) s with
      | (.ok kvs, s1) =>
        match liftExc (prim.mkDict s1 kvs).1 with
        | .ok v => (.ok (.val v), (prim.mkDict s1 kvs).2)
        | .error e => (.error e, (prim.mkDict s1 kvs).2)
      | (.error e, s1) => (.error e, s1)
    else fun s => (.error .unsupported, s)
  | .set ty xs =>
    -- `type(spec)([recur(val) for val in spec])`: every member first, then the set is built
    -- (an unhashable member: TypeError, in no `try` of `_t_eval`)
    if rebuilds F ty then fun s =>
      match valsOf (xs.map (fun a => argVal F prim target a)) s with
      | (.ok vs, s1) =>
        match liftExc (prim.mkSet s1 ty vs).1 with
        | .ok w => (.ok (.val w), (prim.mkSet s1 ty vs).2)
        | .error e => (.error e, (prim.mkSet s1 ty vs).2)
      | (.error e, s1) => (.error e, s1)
    else fun s => (.error .unsupported, s)
  | .cargs args kwargs => fun s =>
    match valsOf (args.map (fun a => argVal F prim target a)) s with
    | (.error e, s1) => (.error e, s1)
    | (.ok as, s1) =>
      match seqRun (kwargs.map (fun p => kwOfRun p.1 (argVal F prim target p.2))) s1 with
      | (.ok ks, s2) => (.ok (.call as ks), s2)
      | (.error e, s2) => (.error e, s2)
  | .sub base v items =>
    -- `type(spec) in (list, dict)` / `type(spec) in (tuple, set, frozenset)` are EXACT tests: an
    -- instance of a subclass falls through both and `result = spec` is returned — the object itself.
    -- Only an `isinstance` test (facts `argInst`) takes it: every member is evaluated, then
    -- `type(spec)(…)` builds another object (or raises: not in any `try` of `_t_eval`).
    if F.argInst.contains base then fun s =>
      match valsOf (items.map (fun a => argVal F prim target a)) s with
      | (.ok vs, s1) =>
        match liftExc (prim.rebuild s1 base v vs).1 with
        | .ok w => (.ok (.val w), (prim.rebuild s1 base v vs).2)
        | .error e => (.error e, (prim.rebuild s1 base v vs).2)
      | (.error e, s1) => (.error e, s1)
    else fun s => (.ok (.val v), s)
termination_by o => sizeOf o
decreasing_by all_goals nested_dec

/-- `glom(target, t)` for a `TType` object `t`, started in state `s`: the outcome
    and the state it leaves (the target object is read from that state) -/
def tEval {V S} (F : Facts) (prim : Prim V S) (o : Obj V) (target : V) (s : S) : Except Err V × S :=
  match argVal F prim target o s with
  | (.ok (.val v), s1) => (.ok v, s1)
  | (.ok (.call _ _), s1) => (.error .unsupported, s1)
  | (.error e, s1) => (.error e, s1)

/-! ### recording: the user-level expression and the TType overloads -/

/-- A Python expression built from `T`, as the user writes it: the chain of
    overloaded operations (named by their dunder) with their arguments. -/
inductive E (V : Type) where
  | lit (v : V)                              -- a literal that is none of the below
  | texpr (steps : List (String × E V))      -- `T` followed by the operations `(dunder, argument)`
  | spec (e : E V)                           -- `Spec(e)`
  | list (xs : List (E V))                   -- `[a, b, …]`
  | tuple (xs : List (E V))                  -- `(a, b, …)`
  | dict (es : List (E V × E V))             -- `{k: v, …}`
  | set (ty : String) (xs : List (E V))      -- `{a, b, …}` (`ty = "set"`) / `frozenset([a, b, …])`
  | cargs (args : List (E V)) (kwargs : List (String × E V))   -- the arguments of a call step
  | sub (base : String) (v : V) (items : List (E V))
      -- a literal that is the object `v`: an instance of a proper subclass of the builtin
      -- container `base`, whose members are `items`

/-- the flat tuple `(op, arg, op, arg, …)` of a list of recorded steps -/
def flatOfCells {V} (cells : List (String × Obj V)) : List (Obj V) :=
  cells.flatMap (fun s => [Obj.opc s.1, s.2])

/-- the overloads that pass `None` to `_t_child` -/
def arglessDunders : List String := ["__invert__", "__neg__", "__star__", "__starstar__"]

def charOf (F : Facts) (dunder : String) : Option String :=
  (F.recorded.find? (·.1 == dunder)).map (·.2)

def allSome {α} : List (Option α) → Option (List α)
  | [] => some []
  | none :: _ => none
  | some a :: r => match allSome r with
    | some l => some (a :: l)
    | none => none

/-- the object Python builds for the expression; `none` when an operation has
    no overload on `TType` (Python raises TypeError while the spec is written) -/
def record {V} (F : Facts) (pyNone : V) : E V → Option (Obj V)
  | .lit v => some (.lit v)
  | .texpr steps =>
    -- _t_child(parent, op, arg): base + (op, arg), starting from T.__ops__ = (T,)
    match allSome (steps.map (fun s =>
        match charOf F s.1 with
        | none => none
        | some c =>
          if arglessDunders.contains s.1 then some (c, Obj.lit pyNone)
          else match record F pyNone s.2 with
            | some a => some (c, a)
            | none => none)) with
    | some cells => some (.tt (.root "T" :: flatOfCells cells))
    | none => none
  | .spec e => (record F pyNone e).map .spec
  | .list xs => (allSome (xs.map (fun x => record F pyNone x))).map .list
  | .tuple xs => (allSome (xs.map (fun x => record F pyNone x))).map .tuple
  | .dict es =>
    (allSome (es.map (fun p => pairOpt (record F pyNone p.1) (record F pyNone p.2)))).map .dict
  | .cargs args kwargs =>
    match allSome (args.map (fun x => record F pyNone x)),
          allSome (kwargs.map (fun p => (record F pyNone p.2).map (fun a => (p.1, a)))) with
    | some as, some ks => some (.cargs as ks)
    | _, _ => none
  | .set ty xs => (allSome (xs.map (fun x => record F pyNone x))).map (.set ty)
  | .sub base v items => (allSome (items.map (fun x => record F pyNone x))).map (.sub base v)
termination_by e => sizeOf e
decreasing_by all_goals nested_dec

end Glom.C02
