import Glom.Py.Val
/-
  C02 — code-shaped model of recording and replaying T expressions.

  Mirrors glom/core.py:
    * `TType.__getattr__/__getitem__/__call__/__add__/…` + `_t_child`  → `record`
      (each overload appends `(op char, arg)` to the flat `__ops__` tuple; the
      op char comes from the table `tRecorded` regenerated from the source;
      `__invert__`/`__neg__` record `None` as their argument)
    * `_t_eval`'s `while i < fetch_till` loop                          → `tLoop`
      (index `i` starts at 1, steps by 2, `arg = arg_val(target, arg, scope)`
      *before* the branch is chosen, branch chosen by the table `tDispatch`
      regenerated from the source — kind of operation and the classes its
      `except` clause names —, `PathAccessError(e, Path(_t), i // 2)`; an op
      char no branch names falls into the final `else:` whose inner `if` chain
      matches nothing: the operation is *skipped without any error* — that is
      the code that exists, and why `c02_no_dropped_op` is an obligation on the
      tables)
    * `arg_val` / `_ArgValuator.mode`                                  → `argVal`
      (a `T` is evaluated by `_t_eval` against the ORIGINAL target, `Spec(T…)`
      likewise, `list`/`tuple`/`dict` are rebuilt with every member evaluated in
      argument mode, everything else is passed through literally)
    * the `(` branch: `scope[glom](target, Call(cur, args, kwargs), scope)` and
      `Call.glomit`: `r(func)(*r(args), **r(kwargs))` with `r = arg_val(target, ·)`
      — the already evaluated function and arguments go through `arg_val` a
      SECOND time (`Prim.reval`).

  The primitive semantics of attribute access / subscription / arithmetic /
  calling on values is the parameter `prim : Prim V`; the type `V` of values is
  a parameter too.  So everything proved about this model is about glom's
  record-and-replay logic, not about `int.__pow__`.

  Lean is pure, so the value of the Python expression
  `arg_val(target, t_path[i+1], scope)` does not depend on *when* it is
  evaluated: `tLoop` receives the list `avs` with `avs[j] = argVal flat[j]` and
  inspects `avs[i+1]` in iteration `i` only, i.e. exactly where the Python loop
  evaluates it (an error inside it surfaces only if the loop gets there).
  This keeps `argVal` the only function that recurses through the nesting.

  No Mathlib, computable, total.
-/
namespace Glom.C02
open Glom

/-! ### operator kinds (the names the extractor gives to the branches of `_t_eval`) -/

inductive BinOp where
  | add | sub | mul | floordiv | truediv | mod | pow | band | bor | bxor
  deriving DecidableEq, Repr, Inhabited

inductive UnOp where
  | invert | neg
  deriving DecidableEq, Repr, Inhabited

inductive Kind where
  | getattr | getitem | call
  | bin (b : BinOp)
  | un (u : UnOp)
  | handler | star | starstar     -- 'P', 'x', 'X': subjects of C01 / C14
  | other                         -- a branch whose body the extractor does not recognise
  deriving DecidableEq, Repr, Inhabited

def kindNames : List (String × Kind) :=
  [("getattr", .getattr), ("getitem", .getitem), ("call", .call),
   ("add", .bin .add), ("sub", .bin .sub), ("mul", .bin .mul), ("floordiv", .bin .floordiv),
   ("truediv", .bin .truediv), ("mod", .bin .mod), ("pow", .bin .pow),
   ("and", .bin .band), ("or", .bin .bor), ("xor", .bin .bxor),
   ("invert", .un .invert), ("neg", .un .neg),
   ("handler", .handler), ("star", .star), ("starstar", .starstar)]

def Kind.ofString (s : String) : Kind :=
  match kindNames.find? (·.1 == s) with
  | some (_, k) => k
  | none => .other

/-! ### primitives: Python's own semantics of the operations, a parameter -/

structure Prim (V : Type) where
  none : V                                             -- the object `None`
  getattr : V → V → Except PyExc V                     -- getattr(cur, arg)
  getitem : V → V → Except PyExc V                     -- cur[arg]
  call : V → List V → List (String × V) → Except PyExc V   -- f(*args, **kwargs)
  bin : BinOp → V → V → Except PyExc V                 -- cur <op> arg
  un : UnOp → V → Except PyExc V                       -- <op> cur
  mkList : List V → V                                  -- list(items)
  mkTuple : List V → V                                 -- tuple(items)
  mkDict : List (V × V) → Except PyExc V               -- {k: v, …} (TypeError on an unhashable key)
  /-- `arg_val(target, v, scope)` applied to an *already evaluated* value `v`
      (what `Call.glomit` does to the function and every argument): a deep copy
      of plain data, but a glom spec object stored inside the target's data
      would be evaluated here. -/
  reval : V → V → V

/-! ### the objects that sit in `__ops__` -/

/-- a Python object as far as recording / `arg_val` distinguish objects -/
inductive Obj (V : Type) where
  | lit (v : V)                        -- any other object: passed through literally
  | opc (c : String)                   -- an op character (slot `i` of `__ops__`)
  | root (name : String)               -- the singleton `T` / `S` / `A` (slot 0 of `__ops__`)
  | tt (ops : List (Obj V))            -- a `TType` instance with its flat `__ops__` tuple
  | spec (inner : Obj V)               -- `Spec(inner)`
  | list (xs : List (Obj V))           -- `type(x) is list`
  | tuple (xs : List (Obj V))          -- `type(x) is tuple`
  | dict (es : List (Obj V × Obj V))   -- `type(x) is dict`, insertion order
  | cargs (args : List (Obj V)) (kwargs : List (String × Obj V))
                                       -- the pair `(args, kwargs)` recorded by `__call__`

/-- what `arg_val` returns: a value, or — for the pair recorded by `__call__` —
    the rebuilt `(args, kwargs)` -/
inductive AV (V : Type) where
  | val (v : V)
  | call (args : List V) (kwargs : List (String × V))

/-- what `_t_eval` can end with -/
inductive Err where
  | pae (idx : Nat) (e : PyExc)      -- PathAccessError(e, Path(_t), idx)
  | raised (e : PyExc)               -- an exception no `except` clause of the branch names
  | unsupported                      -- outside the C02 fragment (S/A roots, 'P', wildcards, Spec of a non-T)
  deriving DecidableEq, Repr

/-- the extracted tables the model takes as a parameter -/
structure Facts where
  recorded : List (String × String)                   -- TType overload → op char
  dispatch : List (String × String × List String)     -- op char → (kind, caught classes), branch order
  partIdx : List String                               -- third argument of every PathAccessError(…) in `_t_eval`
  exc : ClassTable                                    -- exception classes with their MROs

def dispatchOf (F : Facts) (op : String) : Option (String × List String) :=
  (F.dispatch.find? (·.1 == op)).map (·.2)

/-- is exception `e` caught by an `except (c₁, …)` clause? -/
def caughtBy (F : Facts) (caught : List String) (e : PyExc) : Bool :=
  caught.any (fun c => F.exc.isSub e.cls c)

/-- the outcome of a `try: cur = <operation> except (caught) as e: pae = PathAccessError(e, …, i // 2)` -/
def guarded {V} (F : Facts) (caught : List String) (k : Nat) (r : Except PyExc V) : Except Err V :=
  match r with
  | .ok v => .ok v
  | .error e => if caughtBy F caught e then .error (.pae k e) else .error (.raised e)

/-- one iteration of the dispatch chain of `_t_eval` (`k = i // 2`) -/
def applyBranch {V} (F : Facts) (prim : Prim V) (target : V) (k : Nat) (op : String)
    (cur : V) (av : AV V) : Except Err V :=
  match dispatchOf F op with
  | none => .ok cur     -- the final `else:`; none of its inner `if op == …` matches: `cur` is left as it is
  | some (ks, caught) =>
    match Kind.ofString ks, av with
    | .getattr, .val a => guarded F caught k (prim.getattr cur a)
    | .getitem, .val a => guarded F caught k (prim.getitem cur a)
    | .bin b, .val a => guarded F caught k (prim.bin b cur a)
    | .un u, .val _ => guarded F caught k (prim.un u cur)
    | .call, .call args kwargs =>
      -- scope[glom](target, Call(cur, args, kwargs), scope); Call.glomit: r(func)(*r(args), **r(kwargs))
      guarded F caught k
        (prim.call (prim.reval target cur) (args.map (prim.reval target))
          (kwargs.map (fun p => (p.1, prim.reval target p.2))))
    | _, _ => .error .unsupported

/-- the `while i < fetch_till` loop of `_t_eval` on the flat ops tuple;
    `avs[j]` is the value of `arg_val(target, flat[j], scope)` -/
def tLoop {V} (F : Facts) (prim : Prim V) (flat : List (Obj V)) (avs : List (Except Err (AV V)))
    (target : V) (i : Nat) (cur : V) : Except Err V :=
  if _hlt : i < flat.length then
    match flat[i]?, avs[i+1]? with
    | some (.opc op), some rav =>
      match rav with
      | .error e => .error e                    -- raised by arg_val: outside every `try`
      | .ok av =>
        match applyBranch F prim target (i / 2) op cur av with
        | .ok v => tLoop F prim flat avs target (i + 2) v
        | .error e => .error e
    | _, _ => .error .unsupported
  else .ok cur
termination_by flat.length - i

/-- `_t_eval(target, _t, scope)` for the ops tuple `flat` -/
def tRun {V} (F : Facts) (prim : Prim V) (flat : List (Obj V)) (avs : List (Except Err (AV V)))
    (target : V) : Except Err V :=
  match flat with
  | .root "T" :: _ => tLoop F prim flat avs target 1 target
  | _ => .error .unsupported       -- S / A roots read the scope (C07)

/-- all results, or the first error (evaluation order of a comprehension) -/
def seqAll {ε α} : List (Except ε α) → Except ε (List α)
  | [] => .ok []
  | .error e :: _ => .error e
  | .ok a :: r => match seqAll r with
    | .ok l => .ok (a :: l)
    | .error e => .error e

def asVal {V} : AV V → Except Err V
  | .val v => .ok v
  | .call _ _ => .error .unsupported

def valOfRes {V} (r : Except Err (AV V)) : Except Err V :=
  match r with
  | .ok av => asVal av
  | .error e => .error e

def kwOfRes {V} (k : String) (r : Except Err (AV V)) : Except Err (String × V) :=
  match valOfRes r with
  | .ok v => .ok (k, v)
  | .error e => .error e

def valsOf {V} (rs : List (Except Err (AV V))) : Except Err (List V) :=
  seqAll (rs.map valOfRes)

def pairOpt {α β} (a : Option α) (b : Option β) : Option (α × β) :=
  match a, b with
  | some x, some y => some (x, y)
  | _, _ => none

def pairUp {ε α β} (a : Except ε α) (b : Except ε β) : Except ε (α × β) :=
  match a with
  | .error e => .error e
  | .ok x => match b with
    | .error e => .error e
    | .ok y => .ok (x, y)

def liftExc {V} (r : Except PyExc V) : Except Err V :=
  match r with
  | .ok v => .ok v
  | .error e => .error (.raised e)


/-! ### termination of recursion through the nested lists -/

theorem sizeOf_fst_lt_of_mem {α β} [SizeOf α] [SizeOf β] {p : α × β} {l : List (α × β)}
    (h : p ∈ l) : sizeOf p.1 < sizeOf l := by
  have := List.sizeOf_lt_of_mem h
  cases p; simp at *; omega

theorem sizeOf_snd_lt_of_mem {α β} [SizeOf α] [SizeOf β] {p : α × β} {l : List (α × β)}
    (h : p ∈ l) : sizeOf p.2 < sizeOf l := by
  have := List.sizeOf_lt_of_mem h
  cases p; simp at *; omega

macro "nested_dec" : tactic => `(tactic| (
  simp_wf
  first
  | done
  | omega
  | (subst_vars; simp; done)
  | (subst_vars; simp; omega)
  | (have := List.sizeOf_lt_of_mem ‹_ ∈ _›; omega)
  | (have := sizeOf_snd_lt_of_mem ‹_ ∈ _›; omega)
  | (have := sizeOf_fst_lt_of_mem ‹_ ∈ _›; omega)))

/-- `arg_val(target, o, scope)` -/
def argVal {V} (F : Facts) (prim : Prim V) (target : V) : Obj V → Except Err (AV V)
  | .lit v => .ok (.val v)
  | .opc _ => .error .unsupported
  | .root _ => .error .unsupported
  | .tt flat =>
    match tRun F prim flat (flat.map (fun a => argVal F prim target a)) target with
    | .ok v => .ok (.val v)
    | .error e => .error e
  | .spec inner =>
    match inner with
    | .tt ops => argVal F prim target (.tt ops)   -- Spec.glomit → scope[glom](target, self.spec, scope) → _t_eval
    | _ => .error .unsupported                 -- a Spec of anything else is evaluated by AUTO (C03)
  | .list xs =>
    match valsOf (xs.map (fun a => argVal F prim target a)) with
    | .ok vs => .ok (.val (prim.mkList vs))
    | .error e => .error e
  | .tuple xs =>
    match valsOf (xs.map (fun a => argVal F prim target a)) with
    | .ok vs => .ok (.val (prim.mkTuple vs))
    | .error e => .error e
  | .dict es =>
    match seqAll (es.map (fun p =>
        pairUp (valOfRes (argVal F prim target p.1)) (valOfRes (argVal F prim target p.2)))) with
    | .ok kvs => match liftExc (prim.mkDict kvs) with
      | .ok v => .ok (.val v)
      | .error e => .error e
    | .error e => .error e
  | .cargs args kwargs =>
    match valsOf (args.map (fun a => argVal F prim target a)) with
    | .error e => .error e
    | .ok as =>
      match seqAll (kwargs.map (fun p => kwOfRes p.1 (argVal F prim target p.2))) with
      | .ok ks => .ok (.call as ks)
      | .error e => .error e
termination_by o => sizeOf o
decreasing_by all_goals nested_dec

/-- `glom(target, t)` for a `TType` object `t` -/
def tEval {V} (F : Facts) (prim : Prim V) (o : Obj V) (target : V) : Except Err V :=
  match argVal F prim target o with
  | .ok (.val v) => .ok v
  | .ok (.call _ _) => .error .unsupported
  | .error e => .error e

/-! ### recording: the user-level expression and the TType overloads -/

/-- A Python expression built from `T`, as the user writes it: the chain of
    overloaded operations (named by their dunder) with their arguments. -/
inductive E (V : Type) where
  | lit (v : V)                              -- a literal that is none of the below
  | texpr (steps : List (String × E V))      -- `T` followed by the operations `(dunder, argument)`
  | spec (e : E V)                           -- `Spec(e)`
  | list (xs : List (E V))                   -- `[a, b, …]`
  | tuple (xs : List (E V))                  -- `(a, b, …)`
  | dict (es : List (E V × E V))             -- `{k: v, …}`
  | cargs (args : List (E V)) (kwargs : List (String × E V))   -- the arguments of a call step

/-- the flat tuple `(op, arg, op, arg, …)` of a list of recorded steps -/
def flatOfCells {V} (cells : List (String × Obj V)) : List (Obj V) :=
  cells.flatMap (fun s => [Obj.opc s.1, s.2])

/-- the overloads that pass `None` to `_t_child` -/
def arglessDunders : List String := ["__invert__", "__neg__", "__star__", "__starstar__"]

def charOf (F : Facts) (dunder : String) : Option String :=
  (F.recorded.find? (·.1 == dunder)).map (·.2)

def allSome {α} : List (Option α) → Option (List α)
  | [] => some []
  | none :: _ => none
  | some a :: r => match allSome r with
    | some l => some (a :: l)
    | none => none

/-- the object Python builds for the expression; `none` when an operation has
    no overload on `TType` (Python raises TypeError while the spec is written) -/
def record {V} (F : Facts) (pyNone : V) : E V → Option (Obj V)
  | .lit v => some (.lit v)
  | .texpr steps =>
    -- _t_child(parent, op, arg): base + (op, arg), starting from T.__ops__ = (T,)
    match allSome (steps.map (fun s =>
        match charOf F s.1 with
        | none => none
        | some c =>
          if arglessDunders.contains s.1 then some (c, Obj.lit pyNone)
          else match record F pyNone s.2 with
            | some a => some (c, a)
            | none => none)) with
    | some cells => some (.tt (.root "T" :: flatOfCells cells))
    | none => none
  | .spec e => (record F pyNone e).map .spec
  | .list xs => (allSome (xs.map (fun x => record F pyNone x))).map .list
  | .tuple xs => (allSome (xs.map (fun x => record F pyNone x))).map .tuple
  | .dict es =>
    (allSome (es.map (fun p => pairOpt (record F pyNone p.1) (record F pyNone p.2)))).map .dict
  | .cargs args kwargs =>
    match allSome (args.map (fun x => record F pyNone x)),
          allSome (kwargs.map (fun p => (record F pyNone p.2).map (fun a => (p.1, a)))) with
    | some as, some ks => some (.cargs as ks)
    | _, _ => none
termination_by e => sizeOf e
decreasing_by all_goals nested_dec

end Glom.C02
