import Glom.Model.C11
/-
  C12 — code-shaped model of `Delete`.

  `Delete.__init__` (same split as Assign: parent path, final `(op, arg)`),
  `Delete.glomit` (fetch the parent; a PathAccessError is re-raised unless
  `ignore_missing`; else `_apply_for_each(_del_one)`), `Delete._del_one` driven by
  the branch table **extracted from the source** (`delBr`): per op the deletion
  primitive, the exception classes its `except` clause names — those become a
  PathDeleteError, or nothing under `ignore_missing`; every other exception
  escapes as it is — and for a plain segment the `delete` handler of the registry,
  looked up *outside* the try (UnregisteredTarget is never wrapped nor ignored).
  Primitives, registry lookup, `fetch` and `_apply_for_each` are shared with C11.
-/
namespace Glom.C12
open Glom Glom.Mut

/-- `self._del_one(dest, op, arg, scope)` -/
def delOne (env : MEnv) (ignore : Bool) (op : String) (arg : Val) (st : St) (dest : Val) :
    St × Except MErr Unit :=
  let fin (caught : List String) (r : Except PyExc Wr) : St × Except MErr Unit :=
    match r with
    | .ok w => (st.wrote w, .ok ())
    | .error e =>
      if C01.caughtBy env.t caught e then
        (if ignore then (st, .ok ()) else (st, .error (.pdelete e arg)))
      else (st, .error (.raised e))
  match branchOf env.delBr op with
  | some ("delitem", caught, _) => fin caught (pyDelitem env st.heap dest arg)
  | some ("delattr", caught, _) => fin caught (pyDelattr env st.heap dest arg)
  | some ("handler", caught, _) =>
    match nearestHandler env.t.ct env.deleteReg (dest.clsName st.heap) with
    | none => (st, .error .unregistered)
    | some hn => fin caught (applyDeleteHandler env st.heap hn dest arg)
  | _ => (st, .ok ())       -- the if/elif chain of `_del_one` has no else branch

/-- `glom(target, Delete(path, ignore_missing=ignore))` -/
def delete (env : MEnv) (sroot : Bool) (sref : Val) (ignore : Bool) (h : Heap) (target : Val)
    (orig : List Step) : St × Except MErr Val :=
  let st : St := { heap := h }
  match orig.getLast? with
  | none => (st, .error .valueError)                      -- 'path must have at least one element'
  | some (op, arg) =>
    if !finalOk op then (st, .error .valueError) else      -- 'last part of path must be an attribute or index'
    let parent := orig.dropLast
    let destTarget := if sroot then sref else target
    match fetch env h parent 0 destTarget with
    | .error (.pae k e) => if ignore then (st, .ok target) else (st, .error (.pae k e))
    | .error e => (st, .error e)
    | .ok nest =>
      match applyForEach (stars parent) nest (delOne env ignore op arg) st with
      | (st', .ok _) => (st', .ok target)
      | (st', .error e) => (st', .error e)

/-- `glom(target, (Delete(path, ignore_missing=ignore), readPath))`: a later step of the same chain reads a
    path back after the deletion (an S-rooted read starts from the frame, `sref`); `none`: the Delete
    raised, the read never ran -/
def deleteThenRead (env : MEnv) (sroot : Bool) (sref : Val) (ignore : Bool) (h : Heap) (target : Val)
    (orig : List Step) (rd : List Step) : (St × Except MErr Val) × Option (Except MErr Nest) :=
  let out := delete env sroot sref ignore h target orig
  (out, match out.2 with
    | .ok r => some (fetch env out.1.heap (C11.readSteps sroot rd) 0 (if sroot then sref else r))
    | .error _ => none)

end Glom.C12
