/-
  C16 — code-shaped model of Group mode (glom/grouping.py: Group.glomit, GROUP,
  First, Avg, Max, Min, Limit; glom/reduction.py: Fold._agg, Merge._agg).

  The accumulator tree `scope[ACC_TREE]` is a plain Python dict whose keys are,
  ALL IN ONE NAMESPACE,
      id(spec)        — an int — for the `acc` container of a dict / list spec,
      the spec object — for aggregators (First, Max, …, Fold objects), Limit, and
                        key-specs marked STOP,
      the bucket key  — for the sub-tree of one bucket.
  The model keeps exactly that: the tree is a `V.dict`, looked up with Python key
  equality, so that a bucket key equal to `id(spec)` lands in the slot of the
  `acc` container, as it does in CPython (F10).  `tree[key] = {}`, the re-binding
  `scope[ACC_TREE] = tree[key]`, the `done` flag, the STOP marks on key-specs and
  `return last` in Group.glomit are transcribed statement by statement.

  In-place mutation of the (uniquely referenced) sub-tree objects is rendered
  functionally: a callee returns the updated sub-tree and the caller stores it
  back into the slot it came from.  The one place where two names can denote the
  same dict object — `acc` and `tree[key]` when `key == id(spec)` — is handled
  explicitly (`aliased` / `detached` below).

  Values are trees (`V`); spec objects that are used as dict keys are `V.obj n`
  (hashed by identity); `id(container n)` is the int `idBase + n`; the class objects a
  run can meet as values (`type(x)`) are `V.obj (clsBase + i)`.

  Spec NODES can be class objects, too.  GROUP decides per node, on the node itself and on
  every call, in this order: `callable(getattr(spec, 'agg', None))` → aggregator;
  `callable(spec)` → plain callable; else container.  So `type` / `str` / `bool` / `int`
  used as key functions are callables (`Fn.cls`), a class with a static / class method
  `agg` used without instantiation is an aggregator although it is callable as well
  (`Agg.clsLast`, `Agg.clsCount`), and an aggregator class whose parentheses were forgotten
  (`Group(First)`) is an aggregator whose unbound `agg` raises TypeError (`Agg.unbound`).
  Nothing is remembered between two calls of GROUP: the model has no state besides the tree.

  T-expressions in key / value position are chains of T operations (`Fn.texpr`): subscription
  and the arithmetic operators of `_t_eval`, which compute `cur = cur <op> arg` — a NEW value
  (`Glom/Model/C16Heap.lean` has the same loop on a store of mutable cells).
-/
namespace Glom.C16

inductive V where
  | none
  | bool (b : Bool)
  | int (i : Int)
  | str (s : String)
  | float (bits : UInt64)        -- an IEEE double, by its bit pattern
  | skip | stop                  -- the SKIP / STOP sentinels
  | obj (n : Nat)                -- spec object number n (an aggregator, a key-spec, a Limit)
  | list (xs : List V)
  | tuple (xs : List V)
  | dict (es : List (V × V))     -- insertion order kept
  deriving Repr, Inhabited

mutual
/-- structural equality (kernel-reducible, unlike a derived `BEq` on a nested inductive) -/
def veq : V → V → Bool
  | .none, .none => true
  | .bool a, .bool b => a == b
  | .int a, .int b => a == b
  | .str a, .str b => a == b
  | .float a, .float b => a == b
  | .skip, .skip => true
  | .stop, .stop => true
  | .obj a, .obj b => a == b
  | .list xs, .list ys => veqList xs ys
  | .tuple xs, .tuple ys => veqList xs ys
  | .dict xs, .dict ys => veqPairs xs ys
  | _, _ => false
def veqList : List V → List V → Bool
  | [], [] => true
  | x :: xs, y :: ys => veq x y && veqList xs ys
  | _, _ => false
def veqPairs : List (V × V) → List (V × V) → Bool
  | [], [] => true
  | (a, b) :: xs, (c, d) :: ys => veq a c && veq b d && veqPairs xs ys
  | _, _ => false
end

instance : BEq V := ⟨veq⟩

structure Err where
  cls : String
  deriving Repr, DecidableEq, Inhabited

def err (c : String) : Err := ⟨c⟩

/-- `id(container n)`; generated items and keys stay below `idBase` -/
def idBase : Int := 1000000000
def idKey (n : Nat) : V := .int (idBase + n)

def isStop : V → Bool
  | .stop => true
  | _ => false

def isSkip : V → Bool
  | .skip => true
  | _ => false

/-! ### Python dict primitives on entry lists -/

/-- a hashable scalar, up to Python's `==` / `hash`: numbers by value (`True == 1 == 1.0`, `-0.0 == 0`),
    strings, None, the sentinels; spec / class objects by identity -/
inductive SKey where
  | none | num (i : Int) | flt (bits : UInt64) | str (s : String) | obj (n : Nat) | skip | stop
  deriving Repr, DecidableEq

/-- a dict key up to equality: a scalar, or a tuple of scalars (a tuple with a container or another
    tuple inside is outside the modelled key domain) -/
inductive CKey where
  | s (k : SKey)
  | tup (ks : List SKey)
  deriving Repr, DecidableEq

/-- a float as a key: an integral value (below 2^62 in size) is the int it equals, anything else
    its bit pattern (NaN keys are not in the generated domain) -/
def fkey (b : UInt64) : SKey :=
  let f := Float.ofBits b
  if f == f.floor && f.abs < 4.0e18 then .num f.toInt64.toInt else .flt b

def skey : V → Option SKey
  | .none => some .none
  | .bool b => some (.num (if b then 1 else 0))
  | .int i => some (.num i)
  | .float b => some (fkey b)
  | .str s => some (.str s)
  | .obj n => some (.obj n)
  | .skip => some .skip
  | .stop => some .stop
  | _ => Option.none

def ckey : V → Option CKey
  | .tuple xs => (xs.mapM skey).map .tup
  | v => (skey v).map .s

/-- hash/eq of dict keys -/
def keyEq (a b : V) : Bool :=
  match ckey a, ckey b with
  | some x, some y => decide (x = y)
  | _, _ => false

/-- lists, dicts (and tuples holding them) are unhashable -/
def hashable (v : V) : Bool := (ckey v).isSome

def dget : List (V × V) → V → Option V
  | [], _ => none
  | (k', v) :: es, k => if keyEq k' k then some v else dget es k

def dhas (es : List (V × V)) (k : V) : Bool := (dget es k).isSome

/-- `d[k] = v`: an existing key keeps its position (and its key object) -/
def dset : List (V × V) → V → V → List (V × V)
  | [], k, v => [(k, v)]
  | (k', v') :: es, k, v => if keyEq k' k then (k', v) :: es else (k', v') :: dset es k v

/-! ### key / value functions: T-expressions and catalogue callables -/

/-- the class objects used as callables -/
inductive Cls where
  | type | str | bool | int
  deriving Repr, Inhabited, BEq, DecidableEq

/-- one operation of a T-expression (`T[k]`, `T + lit`, `T * n`, `T | lit`, `T % n`) -/
inductive TOp where
  | item (k : V)
  | add (lit : V)
  | mul (n : Int)
  | bor (lit : V)
  | mod (n : Nat)
  deriving Repr, Inhabited, BEq

inductive Fn where
  | ident                        -- T
  | mod (n : Nat)                -- T % n              (n > 0)
  | item (k : V)                 -- T[k]
  | skipOdd                      -- lambda t: SKIP if t % 2 else t
  | skipIf (v : V)               -- lambda t: SKIP if t == v else t
  | keySkip (n : Nat)            -- lambda t: SKIP if t % n == 0 else t % n
  | stopAt (n : Int)             -- lambda t: STOP if t >= n else t
  | idOf (n : Nat)               -- lambda t: id(container n)
  | idIf (v : V) (n : Nat)       -- lambda t: id(container n) if t == v else t
  | objIf (v : V) (n : Nat)      -- lambda t: (spec object n) if t == v else t
  | len                          -- len
  | const (v : V)                -- lambda t: v
  | texpr (ops : List TOp)       -- the T-expression T<op1><op2>…
  | cls (c : Cls)                -- a class object used as a callable: type / str / bool / int
  | foldSum                      -- `Sum()` as the subspec of another Fold: not the aggregator (CUR_AGG is
                                 -- taken), a plain fold of the item — Fold.glomit's `self._fold(target_iter(…))`
  | foldCount                    -- `Count()` likewise: the number of elements of the item
  deriving Repr, Inhabited, BEq

def asInt : V → Option Int
  | .int i => some i
  | .bool b => some (if b then 1 else 0)
  | _ => none

/-- Python `%` with a positive modulus -/
def pyMod (a : Int) (n : Nat) : Int := a.emod n

def seqGet (xs : List V) (i : Int) : Option V :=
  let n : Int := xs.length
  let j := if i < 0 then i + n else i
  if j < 0 then none else xs[j.toNat]?

/-- Python `==` between an item and a scalar constant (scalars only) -/
def scalarEq (a b : V) : Bool := keyEq a b

/-! ### numbers: ints (bools) are exact, floats are IEEE doubles carried by their bit pattern -/

/-- `float(v)` as bits: what Python's float arithmetic converts an int operand to (exact below
    2^53, round-to-nearest-even above) -/
def toFBits : V → Option UInt64
  | .float b => some b
  | v => (asInt v).map (fun i => (Float.ofInt i).toBits)

def faddBits (a b : UInt64) : UInt64 := (Float.ofBits a + Float.ofBits b).toBits
def fdivBits (a b : UInt64) : UInt64 := (Float.ofBits a / Float.ofBits b).toBits
def fltBits (a b : UInt64) : Bool := Float.ofBits a < Float.ofBits b

/-- `a + b` between numbers: int + int is exact, anything with a float is float addition -/
def numAdd (a b : V) : Option V :=
  match asInt a, asInt b with
  | some x, some y => some (.int (x + y))
  | _, _ =>
    match toFBits a, toFBits b with
    | some x, some y => some (.float (faddBits x y))
    | _, _ => none

/-- `cur[k]` inside `_t_eval` (KeyError / IndexError / TypeError → PathAccessError) -/
def getItem (k : V) (t : V) : Except Err V :=
  match t with
  | .dict es => match dget es k with
    | some v => .ok v
    | none => .error (err "PathAccessError")
  | .list xs | .tuple xs =>
    match asInt k with
    | some i => match seqGet xs i with
      | some v => .ok v
      | none => .error (err "PathAccessError")
    | none => .error (err "PathAccessError")
  | .str str =>
    match asInt k with
    | some i => match seqGet (str.toList.map (fun c => V.str (String.singleton c))) i with
      | some v => .ok v
      | none => .error (err "PathAccessError")
    | none => .error (err "PathAccessError")
  | _ => .error (err "PathAccessError")

/-- `d.update(m)` for a dict `m`; also `d | m` (a new dict: d's entries, then m's) -/
def dupdate (es : List (V × V)) (ps : List (V × V)) : List (V × V) :=
  ps.foldl (fun acc p => dset acc p.1 p.2) es

/-- `xs * n` for a sequence -/
def repeatList {α : Type} (xs : List α) (n : Int) : List α := (List.replicate n.toNat xs).flatten

/-- one step of the `_t_eval` loop: `cur = cur[arg]` / `cur = cur + arg` / `cur = cur * arg` /
    `cur = cur | arg` / `cur = cur % arg`.  The result is a NEW value: the operand is not
    changed (TypeError / ArithmeticError / ValueError → PathAccessError). -/
def TOp.apply : TOp → V → Except Err V
  | .item k, cur => getItem k cur
  | .add lit, cur =>
    match asInt cur, asInt lit with
    | some a, some b => .ok (.int (a + b))
    | _, _ =>
      match cur, lit with
      | .str a, .str b => .ok (.str (a ++ b))
      | .list xs, .list ys => .ok (.list (xs ++ ys))
      | .tuple xs, .tuple ys => .ok (.tuple (xs ++ ys))
      | _, _ => .error (err "PathAccessError")
  | .mul n, cur =>
    match asInt cur with
    | some a => .ok (.int (a * n))
    | none =>
      match cur with
      | .str a => .ok (.str (String.join (List.replicate n.toNat a)))
      | .list xs => .ok (.list (repeatList xs n))
      | .tuple xs => .ok (.tuple (repeatList xs n))
      | _ => .error (err "PathAccessError")
  | .bor lit, cur =>
    match cur, lit with
    | .dict es, .dict ps => .ok (.dict (dupdate es ps))
    | _, _ => .error (err "PathAccessError")
  | .mod n, cur =>
    match asInt cur with
    | some i => if n == 0 then .error (err "PathAccessError") else .ok (.int (pyMod i n))
    | none => .error (err "PathAccessError")

/-- the `while i < fetch_till` loop of `_t_eval` over the operations of a T-expression -/
def tEval : List TOp → V → Except Err V
  | [], cur => .ok cur
  | op :: ops, cur =>
    match op.apply cur with
    | .ok v => tEval ops v
    | .error e => .error e

/-! ### class objects as callables -/

def clsBase : Nat := 1000

/-- `type(v)`: the class object, by identity (NoneType, bool, int, str, float, list, tuple, dict, …) -/
def typeObj : V → V
  | .none => .obj (clsBase + 0)
  | .bool _ => .obj (clsBase + 1)
  | .int _ => .obj (clsBase + 2)
  | .str _ => .obj (clsBase + 3)
  | .float _ => .obj (clsBase + 4)
  | .list _ => .obj (clsBase + 5)
  | .tuple _ => .obj (clsBase + 6)
  | .dict _ => .obj (clsBase + 7)
  | .skip | .stop => .obj (clsBase + 8)
  | .obj _ => .obj (clsBase + 9)

/-- `bool(v)` -/
def truthy : V → Bool
  | .none => false
  | .bool b => b
  | .int i => i != 0
  | .str s => !s.isEmpty
  | .list xs | .tuple xs => !xs.isEmpty
  | .dict es => !es.isEmpty
  | .float b => !(Float.ofBits b == 0)
  | _ => true

mutual
/-- `repr(v)` for the values items are made of (strings without quotes / escapes) -/
def pyRepr : V → String
  | .none => "None"
  | .bool b => if b then "True" else "False"
  | .int i => toString i
  | .str s => "'" ++ s ++ "'"
  | .list xs => "[" ++ ", ".intercalate (pyReprList xs) ++ "]"
  | .tuple xs =>
    match pyReprList xs with
    | [r] => "(" ++ r ++ ",)"
    | rs => "(" ++ ", ".intercalate rs ++ ")"
  | .dict es => "{" ++ ", ".intercalate (pyReprPairs es) ++ "}"
  | _ => "<object>"
def pyReprList : List V → List String
  | [] => []
  | x :: xs => pyRepr x :: pyReprList xs
def pyReprPairs : List (V × V) → List String
  | [] => []
  | (k, v) :: es => (pyRepr k ++ ": " ++ pyRepr v) :: pyReprPairs es
end

/-- `str(v)` -/
def pyStr : V → String
  | .str s => s
  | v => pyRepr v

/-- calling the class object: `type(t)`, `str(t)`, `bool(t)`, `int(t)` -/
def Cls.apply : Cls → V → Except Err V
  | .type, t => .ok (typeObj t)
  | .str, t => .ok (.str (pyStr t))
  | .bool, t => .ok (.bool (truthy t))
  | .int, t =>
    match asInt t with
    | some i => .ok (.int i)
    | none =>
      match t with
      | .str s => match s.toInt? with
        | some i => .ok (.int i)
        | none => .error (err "ValueError")
      | _ => .error (err "TypeError")

def Fn.apply : Fn → V → Except Err V
  | .ident, t => .ok t
  | .mod n, t =>
    match asInt t with
    | some i => if n == 0 then .error (err "PathAccessError") else .ok (.int (pyMod i n))
    | none => .error (err "PathAccessError")
  | .item k, t => getItem k t
  | .texpr ops, t => tEval ops t
  | .cls c, t => c.apply t
  | .foldSum, t =>
    match t with
    | .list xs | .tuple xs =>
      -- ret = init(); for v in iterator: ret = op(ret, v)
      xs.foldlM (fun acc v => match numAdd acc v with | some r => .ok r | none => .error (err "TypeError")) (.int 0)
    | .dict es =>
      (es.map (·.1)).foldlM (fun acc v => match numAdd acc v with | some r => .ok r | none => .error (err "TypeError")) (.int 0)
    | _ => .error (err "FoldError")            -- can only Sum on iterable targets
  | .foldCount, t =>
    match t with
    | .list xs | .tuple xs => .ok (.int xs.length)
    | .dict es => .ok (.int es.length)
    | _ => .error (err "FoldError")
  | .skipOdd, t =>
    match asInt t with
    | some i => .ok (if pyMod i 2 != 0 then .skip else t)
    | none => .error (err "TypeError")
  | .skipIf v, t => .ok (if scalarEq t v then .skip else t)
  | .keySkip n, t =>
    match asInt t with
    | some i => if n == 0 then .error (err "ZeroDivisionError")
      else .ok (if pyMod i n == 0 then .skip else .int (pyMod i n))
    | none => .error (err "TypeError")
  | .stopAt n, t =>
    match asInt t with
    | some i => .ok (if i ≥ n then .stop else t)
    | none => .error (err "TypeError")
  | .idOf n, _ => .ok (idKey n)
  | .idIf v n, t => .ok (if scalarEq t v then idKey n else t)
  | .objIf v n, t => .ok (if scalarEq t v then .obj n else t)
  | .len, t =>
    match t with
    | .list xs | .tuple xs => .ok (.int xs.length)
    | .dict es => .ok (.int es.length)
    | .str s => .ok (.int s.length)
    | _ => .error (err "TypeError")
  | .const v, _ => .ok v

/-! ### aggregators -/

inductive Agg where
  | first | max | min | avg
  | sum (f : Fn) | count | flatten (f : Fn) | merge (f : Fn)
  | sample (size : Nat) (tbl : List Nat)   -- Sample(size); `tbl`: its random source (see `draw`)
  | clsLast                      -- the CLASS `class Last: agg = staticmethod(lambda target, tree: target)`
  | clsCount                     -- the CLASS with `@classmethod agg(cls, target, tree)`: counts in `tree[cls]`
  | unbound                      -- an aggregator CLASS without parentheses (`Group(First)`): `First.agg(target, tree)`
  deriving Repr, Inhabited, BEq

/-- `random.randint(0, n)` as a parameter: the table entry `n mod |tbl|`, reduced into `[0, n]`.
    (Within one reservoir `n` = `num_seen` grows by one per call, so every finite sequence of
    draws of a reservoir is some table.) -/
def draw (tbl : List Nat) (n : Nat) : Nat :=
  match tbl with
  | [] => 0
  | _ => (tbl.getD (n % tbl.length) 0) % (n + 1)

/-- one step of the reservoir: `(num_seen, sample)` after `target` -/
def sampleStep (size : Nat) (tbl : List Nat) (st : Nat × List V) (target : V) : Nat × List V :=
  -- if len(sample) < self.size: sample.append(target)
  if st.2.length < size then (st.1 + 1, st.2 ++ [target])
  else
    -- pos = random.randint(0, num_seen); if pos < self.size: sample[pos] = target
    let pos := draw tbl st.1
    (st.1 + 1, if pos < size then st.2.set pos target else st.2)

/-- `a > b` / `a < b` between ints (bools), between strings, or between numbers one of which is a
    float (compared as doubles; an int operand is converted: exact below 2^53); anything else is a
    TypeError -/
def pyLt (a b : V) : Option Bool :=
  match asInt a, asInt b with
  | some x, some y => some (x < y)
  | _, _ =>
    match a, b with
    | .str x, .str y => some (x < y)
    | _, _ =>
      match toFBits a, toFBits b with
      | some x, some y => some (fltBits x y)
      | _, _ => none

/-- `avg_acc[0] / avg_acc[1]`: the float sum divided by the (int) count -/
def avgDiv (sum : UInt64) (n : Nat) : V := .float (fdivBits sum (Float.ofNat n).toBits)

/-- `iter(v)` -/
def iterOf : V → Option (List V)
  | .list xs | .tuple xs => some xs
  | .dict es => some (es.map (·.1))
  | .str s => some (s.toList.map (fun c => V.str (String.singleton c)))
  | _ => none

/-- `spec.agg(target, tree)` / `Fold._agg` / `Merge._agg`: the result and the updated tree.
    `self` is the aggregator object (the key under which it keeps its state). -/
def aggStep (self : V) (a : Agg) (target : V) (tree : List (V × V)) : Except Err (V × List (V × V)) :=
  match a with
  | .first =>
    -- if self not in tree: tree[self] = STOP; return target
    if !(dhas tree self) then .ok (target, dset tree self .stop) else .ok (.stop, tree)
  | .max =>
    match dget tree self with
    | none => .ok (target, dset tree self target)
    | some cur =>
      match pyLt cur target with      -- target > tree[self]
      | some true => .ok (target, dset tree self target)
      | some false => .ok (cur, tree)
      | none => .error (err "TypeError")
  | .min =>
    match dget tree self with
    | none => .ok (target, dset tree self target)
    | some cur =>
      match pyLt target cur with      -- target < tree[self]
      | some true => .ok (target, dset tree self target)
      | some false => .ok (cur, tree)
      | none => .error (err "TypeError")
  | .avg =>
    -- avg_acc = tree[self] (or [0.0, 0]); avg_acc[0] += target; avg_acc[1] += 1      (a FLOAT sum)
    let (s, n) := match dget tree self with
      | some (.list [.float s, .int n]) => (s, n.toNat)
      | _ => ((0 : UInt64), 0)
    match toFBits target with
    | some x => .ok (avgDiv (faddBits s x) (n + 1), dset tree self (.list [.float (faddBits s x), .int (n + 1)]))
    | none => .error (err "TypeError")
  | .sum f =>
    match f.apply target with
    | .error e => .error e
    | .ok t =>
      let cur := (dget tree self).getD (.int 0)          -- if self not in tree: tree[self] = init()
      match numAdd cur t with                            -- tree[self] = op(tree[self], target)
      | some r => .ok (r, dset tree self r)
      | none => .error (err "TypeError")
  | .count =>
    let cur := (dget tree self).getD (.int 0)
    match asInt cur with
    | some x => .ok (.int (x + 1), dset tree self (.int (x + 1)))
    | none => .error (err "TypeError")
  | .flatten f =>
    match f.apply target with
    | .error e => .error e
    | .ok t =>
      let cur := (dget tree self).getD (.list [])
      match cur, iterOf t with
      | .list xs, some ys => .ok (.list (xs ++ ys), dset tree self (.list (xs ++ ys)))
      | _, _ => .error (err "TypeError")
  | .merge f =>
    match f.apply target with
    | .error e => .error e
    | .ok t =>
      let cur := (dget tree self).getD (.dict [])
      match cur, t with
      | .dict es, .dict ps => .ok (.dict (dupdate es ps), dset tree self (.dict (dupdate es ps)))
      | _, _ => .error (err "TypeError")
  | .sample size tbl =>
    -- if self not in tree: tree[self] = [0, []];  num_seen, sample = tree[self]
    let st : Nat × List V := match dget tree self with
      | some (.list [.int n, .list xs]) => (n.toNat, xs)
      | _ => (0, [])
    let st' := sampleStep size tbl st target
    -- tree[self][0] += 1; return sample      (the list in the tree)
    .ok (.list st'.2, dset tree self (.list [.int st'.1, .list st'.2]))
  | .clsLast => .ok (target, tree)                   -- return target
  | .clsCount =>
    -- tree[cls] = tree.get(cls, 0) + 1; return tree[cls]
    let cur := (dget tree self).getD (.int 0)
    match asInt cur with
    | some x => .ok (.int (x + 1), dset tree self (.int (x + 1)))
    | none => .error (err "TypeError")
  | .unbound => .error (err "TypeError")             -- agg() missing 1 required positional argument

/-- the Fold-family aggregators that take a subspec -/
inductive FoldKind where
  | sum | flatten | merge
  deriving Repr, Inhabited, BEq, DecidableEq

/-- the aggregation such a Fold does with the VALUE of its subspec -/
def FoldKind.agg : FoldKind → Agg
  | .sum => .sum .ident
  | .flatten => .flatten .ident
  | .merge => .merge .ident

/-! ### Group specs -/

inductive GSpec where
  | dict (id kid : Nat) (key : Fn) (sub : GSpec)   -- {keyspec: valspec}; `id`: the dict, `kid`: the key-spec object
  | list (id : Nat) (f : Fn)                       -- [valspec]
  | agg (oid : Nat) (a : Agg)                      -- an aggregator object
  | fn (f : Fn)                                    -- a callable / T-expression in value position
  | limit (oid : Nat) (n : Nat) (sub : GSpec)      -- Limit(n, subspec)
  | nested (gid : Nat) (g : GSpec)                 -- the Group object number `gid` (spec g) in value position
  | foldG (oid : Nat) (kind : FoldKind) (gid : Nat) (g : GSpec)
                                                   -- Sum / Flatten / Merge (object `oid`) whose SUBSPEC is the Group object `gid`
  deriving Repr, Inhabited, BEq

/-- the sub-tree dict stored in slot `k` (`tree[k]`): KeyError if absent; if the slot does
    not hold a dict the later accesses fail with TypeError -/
def subTree (tree : List (V × V)) (k : V) : Except Err (List (V × V)) :=
  match dget tree k with
  | some (.dict es) => .ok es
  | some _ => .error (err "TypeError")
  | none => .error (err "KeyError")

/-- `tree.get(keyspec, None) is STOP` -/
def isMarked (tree : List (V × V)) (k : V) : Bool :=
  match dget tree k with
  | some .stop => true
  | _ => false

/-- `tree[self]` of a Limit: `[count, {}]` (a fresh one if absent) -/
def limitState (tree : List (V × V)) (self : V) : Int × List (V × V) :=
  match dget tree self with
  | some (.list [.int c, .dict t]) => (c, t)
  | _ => (0, [])

/-- `ret` before the first item: `type(self.spec)()` for a dict / list spec, else None -/
def emptyOf : GSpec → V
  | .dict .. => .dict []
  | .list .. => .list []
  | _ => .none

/-- the item loop of Group.glomit: `last, ret = ret, glom(t, spec); if ret is STOP: return last` -/
def loopWith (step : V → List (V × V) → Except Err (V × List (V × V))) :
    List V → V → List (V × V) → Except Err V
  | [], ret, _ => .ok ret
  | t :: ts, ret, tree =>
    match step t tree with
    | .error e => .error e
    | .ok (r, tree') => if isStop r then .ok ret else loopWith step ts r tree'

/-- `scope[glom](target, spec, scope)` in Group mode, with `scope[ACC_TREE] = tree`:
    the result and the tree afterwards -/
def gstep : GSpec → V → List (V × V) → Except Err (V × List (V × V))
  -- `if callable(getattr(spec, 'agg', None)): return spec.agg(target, tree)`: aggregator objects, and
  -- class objects with a callable `agg` (they are callable too: this test comes first)
  | .agg oid a, target, tree => aggStep (.obj oid) a target tree
  -- `elif callable(spec): return spec(target)`: functions, T-expressions (evaluated by `_glom`
  -- before the mode dispatch), class objects without `agg`
  | .fn f, target, tree =>
    match f.apply target with
    | .ok v => .ok (v, tree)
    | .error e => .error e
  | .foldG oid kind _ g, target, tree =>
    -- Fold.glomit in Group mode, `scope.get(CUR_AGG) is None`: this Fold IS the aggregator
    -- (`scope[CUR_AGG] = self`); `target = scope[glom](target, self.subspec, scope)`: the subspec is a
    -- Group, and Group.glomit starts over in its own child scope — `scope[MODE] = GROUP`,
    -- `scope[CUR_AGG] = None` (the tripwire the outer Fold set is RESET: the inner Group's own Fold
    -- leaves aggregate, they do not fold each item), `scope[ACC_TREE] = {}`; then
    -- `return self._agg(target, scope[ACC_TREE])` with the inner result, in the outer tree
    match iterOf target with
    | none => .error (err "UnregisteredTarget")
    | some items =>
      if let .str _ := target then .error (err "UnregisteredTarget") else
      match loopWith (gstep g) items (emptyOf g) [] with
      | .ok v => aggStep (.obj oid) kind.agg v tree
      | .error e => .error e
  | .nested _ g, target, tree =>
    -- Group.glomit in its own child scope: a fresh ACC_TREE; the outer tree is not touched
    match iterOf target with
    | none => .error (err "UnregisteredTarget")
    | some items =>
      if let .str _ := target then .error (err "UnregisteredTarget") else
      match loopWith (gstep g) items (emptyOf g) [] with
      | .ok v => .ok (v, tree)
      | .error e => .error e
  | .limit oid n sub, target, tree =>
    -- if self not in tree: tree[self] = [0, {}]
    let inner := (limitState tree (.obj oid)).2
    -- scope[ACC_TREE] = tree[self][1]; tree[self][0] += 1
    let cnt := (limitState tree (.obj oid)).1 + 1
    if cnt > n then .ok (.stop, dset tree (.obj oid) (.list [.int cnt, .dict inner]))
    else
      match gstep sub target inner with
      | .error e => .error e
      | .ok (r, inner') => .ok (r, dset tree (.obj oid) (.list [.int cnt, .dict inner']))
  | .list id f, target, tree =>
    -- acc = tree[id(spec)]  (created as [] on first use)
    let acc := match dget tree (idKey id) with
      | some (.list xs) => xs
      | _ => []
    let tree := if dhas tree (idKey id) then tree else dset tree (idKey id) (.list [])
    match f.apply target with
    | .error e => .error e
    | .ok v =>
      if isStop v then .ok (.stop, tree)                  -- if result is STOP: return STOP
      else if isSkip v then .ok (.list acc, tree)         -- if result is not SKIP: acc.append(result)
      else .ok (.list (acc ++ [v]), dset tree (idKey id) (.list (acc ++ [v])))
  | .dict id kid key sub, target, tree =>
    -- acc = tree[id(spec)]  (created as {} on first use); whatever dict sits in that slot IS acc
    let slot := idKey id
    let tree := if dhas tree slot then tree else dset tree slot (.dict [])
    match subTree tree slot with
    | .error e => .error e
    | .ok acc =>
      -- for keyspec, valspec in spec.items():   (one entry)
      if isMarked tree (.obj kid) then                -- if tree.get(keyspec, None) is STOP: continue
        .ok (.stop, tree)                               -- done stays True
      else
        match key.apply target with
        | .error e => .error e
        | .ok k =>
          if isSkip k then .ok (.dict acc, tree)          -- if key is SKIP: done = False; continue
          else if isStop k then .ok (.stop, dset tree (.obj kid) .stop)   -- tree[keyspec] = STOP; continue
          else if !(hashable k) then .error (err "TypeError") else
          let fresh := !(dhas acc k)
          -- if key not in acc: tree[key] = {}
          let tree := if fresh then dset tree k (.dict []) else tree
          let aliased := keyEq slot k                   -- `tree[key]` and `tree[id(spec)]` are one slot
          let detached := aliased && fresh              -- … which now holds a NEW dict: `acc` left the tree
          -- scope[ACC_TREE] = tree[key]; result = recurse(valspec)
          match subTree tree k with
          | .error e => .error e
          | .ok st =>
            match gstep sub target st with
            | .error e => .error e
            | .ok (r, st') =>
              let tree := dset tree k (.dict st')
              -- the object `acc` names, after the callee ran
              let accNow := if aliased && !detached then st' else acc
              if isStop r then .ok (.stop, dset tree (.obj kid) .stop)     -- tree[keyspec] = STOP; continue
              else if isSkip r then .ok (.dict accNow, tree)               -- done = False
              else
                let acc' := dset accNow k r                                -- acc[key] = result
                .ok (.dict acc', if detached then tree else dset tree slot (.dict acc'))

def groupLoop (g : GSpec) : List V → V → List (V × V) → Except Err V := loopWith (gstep g)

/-- `glom(items, Group(g))`: `scope[ACC_TREE] = {}` afresh on every evaluation -/
def groupEval (g : GSpec) (items : List V) : Except Err V :=
  groupLoop g items (emptyOf g) []

/-- a history of evaluations in one process: `evals = [(i, j), …]` is
    `glom(targets[j], Group-object i)` one after the other.  Every evaluation starts from
    `scope[ACC_TREE] = {}` and GROUP keeps nothing between calls, so the history is the
    list of the stand-alone evaluations. -/
def evalHistory (specs : List GSpec) (targets : List (List V)) (evals : List (Nat × Nat)) :
    List (Option (Except Err V)) :=
  evals.map (fun e =>
    match specs[e.1]?, targets[e.2]? with
    | some g, some its => some (groupEval g its)
    | _, _ => none)

end Glom.C16
