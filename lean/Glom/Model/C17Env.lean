import Glom.Spec.C17
import Glom.Generated.C17Facts
/-
  The facts of C17 regenerated from /repo's current source (extract/facts/c17.py),
  assembled into the record the model and the obligations take as a parameter.
-/
namespace Glom.C17

def genFacts : Facts :=
  { iterSelfWrites := Generated.c17IterSelfWrites
    invokeSelfWrites := Generated.c17InvokeSelfWrites
    addOpNewList := Generated.c17AddOpNewList
    addOpForwardsSentinel := Generated.c17AddOpForwardsSentinel
    invokeCopies := Generated.c17InvokeCopies
    iterateSkipContinues := Generated.c17IterateSkipContinues
    iterateStopReturns := Generated.c17IterateStopReturns
    iterateOnlyNexts := Generated.c17IterateOnlyNexts
    glomitReversed := Generated.c17GlomitReversed
    callbacks := Generated.c17Callbacks
    callbackWrites := Generated.c17CallbackWrites
    callbackArgs := Generated.c17CallbackArgs
    iterateExtra := Generated.c17IterateExtra
    addOpTypeSelf := Generated.c17AddOpTypeSelf
    allIsPipeList := Generated.c17AllIsPipeList
    firstShape := Generated.c17FirstShape }

end Glom.C17
