import Glom.Py.Val
/-
  Tree-shaped Python values for the matching models (C09, C10) and the Python
  primitives those models call: `==`, the ordering comparisons, truthiness,
  `type(x)`, `isinstance`, hashability, `set(...)` construction, and a small
  T-expression evaluator (item access only).

  These primitives are CPython's, not glom's: they are *modelled, not verified*
  (validated by the correspondence on every generated value pair).  No theorem
  of C09/C10 depends on a property of `pyEq`/`pyCmp` beyond what is proved
  here; the comparison is what it is, the theorems are about what glom does
  with its answer.

  Lean cannot derive `DecidableEq` for a nested inductive, so structural
  equality is hand-written (`V.beq`, mutual structural recursion, reducible by
  `decide`) and proved to decide `=`.  Python's `==` recurses through *both*
  arguments (set/dict membership), which is not structural in either one, so it
  is defined with fuel = depth of the left value + 1 (still kernel-reducible).

  Floats are the dyadic values `k/2` (`flt k`), enough to exercise
  `1 == 1.0 == True`, `isinstance(1.0, int) == False`, `M > 0.5`.  NaN and
  other floats are outside the generated domain (stated bound).
-/
namespace Glom.MV
open Glom

inductive V where
  | none
  | bool (b : Bool)
  | int (i : Int)
  | flt (twice : Int)            -- the float twice/2
  | str (s : String)
  | list (xs : List V)
  | tuple (xs : List V)
  | set (xs : List V)            -- in iteration order
  | fset (xs : List V)
  | dict (es : List (V × V))     -- in insertion order
  | obj (tag : String)           -- an opaque object (plain instance, a raw T object, …)
  | sub (cls : String) (base : V) -- an instance of the user SUBCLASS `cls` of base's builtin class
                                 -- (dict / list / tuple / set / frozenset / str), holding base's content
  deriving Repr, Inhabited

/-! ### structural equality -/

mutual
def V.beq : V → V → Bool
  | .none, .none => true
  | .bool a, .bool b => a == b
  | .int a, .int b => a == b
  | .flt a, .flt b => a == b
  | .str a, .str b => a == b
  | .list a, .list b => V.beqL a b
  | .tuple a, .tuple b => V.beqL a b
  | .set a, .set b => V.beqL a b
  | .fset a, .fset b => V.beqL a b
  | .dict a, .dict b => V.beqD a b
  | .obj a, .obj b => a == b
  | .sub c a, .sub c' b => c == c' && V.beq a b
  | _, _ => false
def V.beqL : List V → List V → Bool
  | [], [] => true
  | a :: as, b :: bs => V.beq a b && V.beqL as bs
  | _, _ => false
def V.beqD : List (V × V) → List (V × V) → Bool
  | [], [] => true
  | (a, a') :: as, (b, b') :: bs => V.beq a b && V.beq a' b' && V.beqD as bs
  | _, _ => false
end

mutual
theorem V.beq_refl : ∀ a : V, V.beq a a = true
  | .none => by simp [V.beq]
  | .bool _ => by simp [V.beq]
  | .int _ => by simp [V.beq]
  | .flt _ => by simp [V.beq]
  | .str _ => by simp [V.beq]
  | .obj _ => by simp [V.beq]
  | .sub _ a => by simp [V.beq, V.beq_refl a]
  | .list a => by simp [V.beq, V.beqL_refl a]
  | .tuple a => by simp [V.beq, V.beqL_refl a]
  | .set a => by simp [V.beq, V.beqL_refl a]
  | .fset a => by simp [V.beq, V.beqL_refl a]
  | .dict a => by simp [V.beq, V.beqD_refl a]
theorem V.beqL_refl : ∀ a : List V, V.beqL a a = true
  | [] => by simp [V.beqL]
  | a :: as => by simp [V.beqL, V.beq_refl a, V.beqL_refl as]
theorem V.beqD_refl : ∀ a : List (V × V), V.beqD a a = true
  | [] => by simp [V.beqD]
  | (a, a') :: as => by simp [V.beqD, V.beq_refl a, V.beq_refl a', V.beqD_refl as]
end

mutual
theorem V.eq_of_beq : ∀ a b : V, V.beq a b = true → a = b
  | .none, b => by cases b <;> simp [V.beq]
  | .bool _, b => by cases b <;> simp [V.beq]
  | .int _, b => by cases b <;> simp [V.beq]
  | .flt _, b => by cases b <;> simp [V.beq]
  | .str _, b => by cases b <;> simp [V.beq]
  | .obj _, b => by cases b <;> simp [V.beq]
  | .sub c a, b => by
      cases b <;> simp [V.beq]
      intro h1 h2; exact ⟨h1, V.eq_of_beq a _ h2⟩
  | .list a, b => by
      cases b <;> simp [V.beq]
      exact V.eqL_of_beq a _
  | .tuple a, b => by
      cases b <;> simp [V.beq]
      exact V.eqL_of_beq a _
  | .set a, b => by
      cases b <;> simp [V.beq]
      exact V.eqL_of_beq a _
  | .fset a, b => by
      cases b <;> simp [V.beq]
      exact V.eqL_of_beq a _
  | .dict a, b => by
      cases b <;> simp [V.beq]
      exact V.eqD_of_beq a _
theorem V.eqL_of_beq : ∀ a b : List V, V.beqL a b = true → a = b
  | [], b => by cases b <;> simp [V.beqL]
  | a :: as, b => by
      cases b with
      | nil => simp [V.beqL]
      | cons b bs =>
        simp only [V.beqL, Bool.and_eq_true, List.cons.injEq]
        intro h; exact ⟨V.eq_of_beq a b h.1, V.eqL_of_beq as bs h.2⟩
theorem V.eqD_of_beq : ∀ a b : List (V × V), V.beqD a b = true → a = b
  | [], b => by cases b <;> simp [V.beqD]
  | (a, a') :: as, b => by
      cases b with
      | nil => simp [V.beqD]
      | cons b bs =>
        obtain ⟨b, b'⟩ := b
        simp only [V.beqD, Bool.and_eq_true, List.cons.injEq, Prod.mk.injEq]
        intro h; exact ⟨⟨V.eq_of_beq a b h.1.1, V.eq_of_beq a' b' h.1.2⟩, V.eqD_of_beq as bs h.2⟩
end

instance : DecidableEq V := fun a b =>
  if h : V.beq a b = true then isTrue (V.eq_of_beq a b h)
  else isFalse (fun e => h (e ▸ V.beq_refl a))

instance : BEq V := ⟨V.beq⟩

/-! ### depth (fuel for the two-sided recursions) -/

mutual
def V.depth : V → Nat
  | .list a | .tuple a | .set a | .fset a => V.depthL a + 1
  | .dict a => V.depthD a + 1
  | .sub _ b => V.depth b
  | _ => 0
def V.depthL : List V → Nat
  | [] => 0
  | a :: as => max (V.depth a) (V.depthL as)
def V.depthD : List (V × V) → Nat
  | [] => 0
  | (a, a') :: as => max (max (V.depth a) (V.depth a')) (V.depthD as)
end

/-- the builtin value a subclass instance holds (`==`, ordering, truthiness, hashing, `len`,
    item access are inherited: the catalogue's subclasses override nothing) -/
def V.unsub : V → V
  | .sub _ b => b.unsub
  | v => v

/-! ### Python `==` -/

/-- numeric value ×2 of `bool`/`int`/`float` (Python compares them as numbers) -/
def V.num2 : V → Option Int
  | .bool b => some (if b then 2 else 0)
  | .int i => some (2 * i)
  | .flt k => some k
  | _ => Option.none

def listAll2 {α} (f : α → α → Bool) : List α → List α → Bool
  | [], [] => true
  | a :: as, b :: bs => f a b && listAll2 f as bs
  | _, _ => false

def pyEqF : Nat → V → V → Bool
  | 0, _, _ => false
  | n + 1, a, b =>
    match a.num2, b.num2 with
    | some x, some y => x == y
    | _, _ =>
      match a.unsub, b.unsub with
      | .none, .none => true
      | .str x, .str y => x == y
      | .obj x, .obj y => x == y
      | .list x, .list y => listAll2 (pyEqF n) x y
      | .tuple x, .tuple y => listAll2 (pyEqF n) x y
      | .set x, .set y | .set x, .fset y | .fset x, .set y | .fset x, .fset y =>
        x.length == y.length && x.all (fun e => y.any (pyEqF n e))
      | .dict x, .dict y =>
        x.length == y.length && x.all (fun e =>
          match y.find? (fun e' => pyEqF n e.1 e'.1) with
          | some e' => pyEqF n e.2 e'.2
          | Option.none => false)
      | _, _ => false

/-- Python `a == b` on tree values (never raises on these types) -/
def pyEq (a b : V) : Bool := pyEqF (a.depth + 1) a b

/-- `x in seq` for a tuple/list of values -/
def pyIn (x : V) (xs : List V) : Bool := xs.any (fun y => pyEq x y)

/-! ### ordering comparisons -/

inductive CmpOp where
  | eq | ne | gt | lt | ge | le
  deriving DecidableEq, Repr, Inhabited

/-- the op character `_MExpr` stores -/
def CmpOp.char : CmpOp → String
  | .eq => "=" | .ne => "!" | .gt => ">" | .lt => "<" | .ge => "g" | .le => "l"

def intCmp (op : CmpOp) (x y : Int) : Bool :=
  match op with
  | .eq => x == y | .ne => x != y | .gt => decide (x > y) | .lt => decide (x < y)
  | .ge => decide (x ≥ y) | .le => decide (x ≤ y)

/-- code-point lexicographic order, as Python compares `str` -/
def charsLt : List Char → List Char → Bool
  | [], [] => false
  | [], _ :: _ => true
  | _ :: _, [] => false
  | a :: as, b :: bs => if a.toNat < b.toNat then true else if a.toNat > b.toNat then false else charsLt as bs

def strCmp (op : CmpOp) (x y : String) : Bool :=
  let lt := charsLt x.toList y.toList
  let eq := x == y
  match op with
  | .eq => eq | .ne => !eq | .lt => lt | .le => lt || eq | .gt => !(lt || eq) | .ge => !lt

/-- sequence comparison as CPython does it: the first index where the items
    are not `==` decides (by the *same* operator on those two items, which may
    raise); if there is none the lengths decide. -/
def seqCmp (eqf : V → V → Bool) (cmpf : V → V → Option Bool) (op : CmpOp) :
    List V → List V → Option Bool
  | a :: as, b :: bs => if eqf a b then seqCmp eqf cmpf op as bs else cmpf a b
  | as, bs => some (intCmp op as.length bs.length)

/-- ordering (`<`, `<=`, `>`, `>=`): `none` = Python raises TypeError -/
def pyOrdF : Nat → CmpOp → V → V → Option Bool
  | 0, _, _, _ => Option.none
  | n + 1, op, a, b =>
    match a.num2, b.num2 with
    | some x, some y => some (intCmp op x y)
    | _, _ =>
      match a.unsub, b.unsub with
      | .str x, .str y => some (strCmp op x y)
      | .list x, .list y => seqCmp pyEq (pyOrdF n op) op x y
      | .tuple x, .tuple y => seqCmp pyEq (pyOrdF n op) op x y
      | .set x, .set y | .set x, .fset y | .fset x, .set y | .fset x, .fset y =>
        let sub := x.all (fun e => pyIn e y)
        let sup := y.all (fun e => pyIn e x)
        some (match op with
          | .le => sub | .lt => sub && x.length != y.length
          | .ge => sup | .gt => sup && x.length != y.length
          | .eq => sub && sup | .ne => !(sub && sup))
      | _, _ => Option.none

/-- `a <op> b` as Python evaluates it: `none` = raises TypeError -/
def pyCmp (op : CmpOp) (a b : V) : Option Bool :=
  match op with
  | .eq => some (pyEq a b)
  | .ne => some (!pyEq a b)
  | _ => pyOrdF (a.depth + 1) op a b

/-! ### truthiness, classes, hashing -/

def truthy : V → Bool
  | .none => false
  | .bool b => b
  | .int i => i != 0
  | .flt k => k != 0
  | .str s => s != ""
  | .list xs | .tuple xs | .set xs | .fset xs => !xs.isEmpty
  | .dict es => !es.isEmpty
  | .obj _ => true
  | .sub _ b => truthy b

/-! #### opaque objects with a class and attributes

  An `obj` tag is either a plain name (`"o1"`: an instance of the harness class `Obj`) or
  `Class#id+attr₁+attr₂…`: the instance `id` of the user class `Class` (created afresh for
  every case by the harness) on which the attributes `attrᵢ` are set.  Enum members are
  `Color#RED`.  Such objects are truthy, hashable, equal only to themselves, unorderable. -/

def splitOnChar (c : Char) : List Char → List (List Char)
  | [] => [[]]
  | x :: xs =>
    if x == c then [] :: splitOnChar c xs
    else match splitOnChar c xs with
      | [] => [[x]]
      | h :: t => (x :: h) :: t

/-- the class named by an object tag -/
def tagCls (tag : String) : String :=
  match splitOnChar '#' tag.toList with
  | [c, _] => String.ofList c
  | _ => "Obj"

/-- `hasattr(obj, a)` for the attributes a tag lists -/
def tagHasAttr (tag : String) (a : String) : Bool :=
  match splitOnChar '#' tag.toList with
  | [_, rest] => ((splitOnChar '+' rest).drop 1).contains a.toList
  | _ => false

/-- `type(x).__name__` -/
def V.cls : V → String
  | .none => "NoneType" | .bool _ => "bool" | .int _ => "int" | .flt _ => "float"
  | .str _ => "str" | .list _ => "list" | .tuple _ => "tuple" | .set _ => "set"
  | .fset _ => "frozenset" | .dict _ => "dict" | .obj tag => tagCls tag | .sub c _ => c

/-- `hasattr(x, a)` as far as the catalogue of instance-dependent types looks (`label`, `flag`:
    no builtin value has them) -/
def V.hasAttr : V → String → Bool
  | .obj tag, a => tagHasAttr tag a
  | _, _ => false

/-- Types whose `__instancecheck__` looks at the *instance*, not only at its class:
    `HasLabel` is a `typing.runtime_checkable` Protocol with the data member `label`,
    `Flagged` a class whose metaclass defines `__instancecheck__` as `hasattr(inst, 'flag')`.
    (Python definitions: harness/props/c10.py `World.cls`.)  Two instances of one class may
    differ in the answer. -/
def protoTable : List (String × String) := [("HasLabel", "label"), ("Flagged", "flag")]

/-- `isinstance(x, c)`: through the class table (real MRO followed by the ABCs the class is a
    virtual subclass of — builtin rows generated, registrations applied by `registerCls`), or,
    for an instance-dependent type, by its attribute test -/
def isInst (ct : ClassTable) (x : V) (c : String) : Bool :=
  ct.isSub x.cls c ||
  (match protoTable.lookup c with
   | some a => x.hasAttr a
   | none => false)

/-- `abc.register(k)`: every class that has `k` in its MRO becomes a (virtual) subclass of `abc`;
    a class the table does not list yet gets its row first -/
def registerCls (ct : ClassTable) (abc k : String) : ClassTable :=
  let rows := if ct.any (·.1 == k) then ct else (k, ct.mro k) :: ct
  rows.map (fun r => if r.2.contains k && !r.2.contains abc then (r.1, r.2 ++ [abc]) else r)

mutual
def V.hashable : V → Bool
  | .list _ | .set _ | .dict _ => false
  | .tuple xs | .fset xs => V.hashableL xs
  | .sub _ b => V.hashable b
  | _ => true
def V.hashableL : List V → Bool
  | [] => true
  | a :: as => V.hashable a && V.hashableL as
end

/-- keep the first of each `==`-class, as `set(iterable)` / dict insertion do -/
def dedupEq : List V → List V → List V
  | acc, [] => acc.reverse
  | acc, x :: xs => if pyIn x acc then dedupEq acc xs else dedupEq (x :: acc) xs

/-- `dict.__setitem__` on an insertion-ordered association list -/
def dictSet (es : List (V × V)) (k v : V) : List (V × V) :=
  if es.any (fun e => pyEq e.1 k) then es.map (fun e => if pyEq e.1 k then (e.1, v) else e)
  else es ++ [(k, v)]

def dictHas (es : List (V × V)) (k : V) : Bool := es.any (fun e => pyEq e.1 k)

/-! ### T expressions (item access only) and `arg_val` arguments -/

/-- `T[k₁][k₂]…` -/
abbrev TExpr := List V

def tStep (cur k : V) : Option V :=
  match cur.unsub with
  | .dict es => (es.find? (fun e => pyEq e.1 k)).map (·.2)
  | .list xs | .tuple xs =>
    match k with
    | .int i => pyIndex xs i
    | .bool b => pyIndex xs (if b then 1 else 0)
    | _ => Option.none
  | .str s =>
    let ix := match k with
      | .int i => some i
      | .bool b => some (if b then 1 else 0)
      | _ => Option.none
    (match ix with
     | some i => (pyIndex s.toList i).map (fun c => V.str (String.singleton c))
     | Option.none => Option.none)
  | _ => Option.none

/-- `_t_eval` of an item-access chain: `none` = PathAccessError (C01 is about which) -/
def tGet : TExpr → V → Option V
  | [], cur => some cur
  | k :: ks, cur => match tStep cur k with
    | some v => tGet ks v
    | Option.none => Option.none

/-- an item of a list / tuple display given as an argument -/
inductive ArgItem where
  | const (v : V)
  | t (e : TExpr)
  deriving Repr, Inhabited, DecidableEq

/-- what `arg_val` is given (a `default=`): a plain value, a T expression, `Val(v)`, or a list /
    tuple display whose items are plain values or T expressions (`default=[T['a'], 0]`:
    `_ArgValuator.mode` rebuilds the container with every item evaluated) -/
inductive Arg where
  | const (v : V)
  | t (e : TExpr)
  | val (v : V)                                  -- `Val(v)`
  | seq (tuple : Bool) (items : List ArgItem)    -- `[…]` / `(…)`
  deriving Repr, Inhabited, DecidableEq

def ArgItem.isConst : ArgItem → Bool
  | .const _ => true
  | .t _ => false

/-- no T expression anywhere: evaluating the argument cannot fail -/
def Arg.isConst : Arg → Bool
  | .const _ | .val _ => true
  | .t _ => false
  | .seq _ items => items.all ArgItem.isConst

end Glom.MV
