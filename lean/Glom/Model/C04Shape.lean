import Glom.Model.C04
/-
  C04 — constructor shapes.  The catalogue of exception classes used by the
  correspondence is generated IN PYTHON FROM THIS SAME DATA (harness/props/c04.py
  `make_class`): a shape is a signature plus a rule for what the constructor
  passes to `BaseException.__init__`, or one of the C constructors that
  rewrite / validate their arguments.
-/
namespace Glom.C04

inductive Store where
  | all                 -- no `__init__`, or `super().__init__(*args)`, or no super call (`BaseException.__new__` stores them)
  | pre (k : Nat)       -- `super().__init__(*args[:k])`
  | len                 -- `super().__init__(len(args))`
  | const (s : String)  -- `super().__init__(s)`
  | rev                 -- `super().__init__(*reversed(args))`
  | tme                 -- TypeMatchError: `super().__init__(FMT, args[1], args[0])`
  | needInt             -- validates: `if type(args[0]) is not int: raise ValueError`, then `super().__init__(*args)`
  deriving DecidableEq, Repr

inductive Shape where
  | sig (lo : Nat) (hi : Option Nat) (kwReq : Bool) (store : Store)
  | oserror             -- OSError_new/OSError_init: 3–5 arguments with a filename keep only (errno, strerror)
  | unicodeDecode       -- UnicodeDecodeError: exactly (str, bytes, int, int, str)
  | egroup (base : Bool)  -- BaseExceptionGroup.__new__: exactly (str, non-empty sequence of exceptions);
                        --   ExceptionGroup (`base = false`) refuses members that are not `Exception`s, a
                        --   BaseExceptionGroup of `Exception`s only is turned into an ExceptionGroup (not modelled: `none`)
  deriving DecidableEq, Repr

def Store.apply (st : Store) (a : Args) : Args :=
  match st with
  | .all | .needInt => a
  | .pre k => a.take k
  | .len => [.int a.length]
  | .const s => [.str s]
  | .rev => a.reverse
  | .tme => [.str tmeFmt, a.getD 1 .none, a.getD 0 .none]

/-- `cls(*a, **({'code': …} if kw else {})).args`, `none` = the call raises -/
def Shape.construct (sh : Shape) (a : Args) (kw : Bool) : Option Args :=
  match sh with
  | .sig lo hi kwReq st =>
    if a.length < lo then none
    else if (match hi with | some h => decide (h < a.length) | none => false) then none
    else if kwReq != kw then none
    else if st == .needInt && !(match a with | .int _ :: _ => true | _ => false) then none   -- ValueError
    else some (st.apply a)
  | .oserror =>
    if kw then none
    else if 3 ≤ a.length && a.length ≤ 5 && a.getD 2 .none != .none then some (a.take 2)
    else some a
  | .unicodeDecode =>
    if kw then none else
    match a with
    | [.str _, .bytes _, .int _, .int _, .str _] => some a
    | _ => none
  | .egroup base =>
    if kw then none else
    match a with
    | [.str _, .excs i] => if base == decide (10 ≤ i) then some a else none   -- members with id ≥ 10 include a KeyboardInterrupt
    | _ => none

/-- positional re-construction, as `copy.copy` and `GlomError.wrap` do it -/
def Shape.ctor (sh : Shape) (a : Args) : Option Args := sh.construct a false

def mkClass (name : String) (bases : List String) (sh : Shape) (falsy : Bool := false)
    (copyVia : CopyKind := .args) (sealed : Bool := false) (frozen : Bool := false)
    (boolRaises : Bool := false) : ClassInfo :=
  { name := name, bases := bases, ctor := sh.ctor, falsy := falsy, copyVia := copyVia, sealed := sealed,
    frozen := frozen, boolRaises := boolRaises }

end Glom.C04
