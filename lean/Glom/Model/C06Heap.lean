import Glom.Py.Val
import Glom.Model.C02Prim
/-
  C06 — "inputs untouched" on a heap with object identity.

  The half of C06 that says a non-mutating spec leaves target, spec and scope unchanged *in
  structure and in object identity* needs values with identity.  This file models, on the heap
  kernel shared with the other heap-based properties (`Glom.Val` / `Glom.Obj` / `Glom.Heap`:
  a value is an immediate scalar or the address of a cell), the constructs of glom that compute
  new values from the target:

    * the arithmetic branch of `_t_eval` (`cur = cur + arg`, `-`, `*`, `//`, `/`, `%`, `**`, `&`,
      `|`, `^`, `~cur`, `-cur`) together with the item step `cur = cur[arg]` that brings a
      container OWNED BY THE TARGET under `cur`, for every operand that is a `list`, `tuple`,
      `bytearray`, `set`, `frozenset`, `dict` (left and right) or a scalar.  Python's binary
      operators build a NEW object for a container result (`list.__add__`, `set.__or__`,
      `dict.__or__`, `bytearray.__mul__` …) — `aBin` allocates; the in-place forms
      (`operator.ior`, `cur += arg`) would `Heap.set` the left operand's cell instead;
    * `arg_val` / `_ArgValuator.mode`: a `T` in argument position is evaluated against the
      target (so the right operand can be the target's own container), a `list` / `tuple` /
      `set` / `frozenset` / `dict` literal is REBUILT (`type(spec)([recur(v) for v in spec])`,
      `{recur(k): recur(v)}`): a new object per evaluation, anything else (a scalar, the spec's
      own `bytearray`) is passed through as it is;
    * `AUTO`: a dict spec (`_handle_dict`: `ret = type(spec)()`, value then key), a list spec
      (`_handle_list`: `ret = []`, the sub-spec on every item of the target), a tuple spec
      (`_handle_tuple`: chaining), `Coalesce` (first sub-spec that does not raise a GlomError,
      else `arg_val(default)`, else CoalesceError).

  Scalar arithmetic (ints of any size, bools, strs, floats by `float.hex()`) is the identity-free
  kernel of C02 (`Glom.C02.pvBin` / `pvUn`): it has no access to the heap at all.

  Where glom stores into an object — `ret[field] = val` in `_handle_dict`, `ret.append(val)` in
  `_handle_list`, `result.update(…)` / `result.extend(…)` in `_ArgValuator.mode` — the model stores
  into the heap cell (`Heap.set`), in the order of the code (the container is created *before* its
  members are evaluated).  `Call` specs and plain callable specs name the callables of a small
  catalogue; one of them (`append9`) writes its argument: the mutating user callable the property
  excludes (`Sp.pureCalls`).  So the frame theorem is not a consequence of an immutable store: the
  model can and does write, and the theorem says *where*.

  The state is the heap alone.  Everything is total, computable, structurally recursive over the
  (mutual) syntax; an operation outside the modelled domain ends with `Err6.unsupported` and the
  driver then does not compare the model's outcome (the frame theorem holds for it all the same).
-/
namespace Glom.C06
open Glom

deriving instance DecidableEq for Except

abbrev BinOp := Glom.C02.BinOp
abbrev UnOp := Glom.C02.UnOp

/-- the tree value of a scalar (`none` for a reference) -/
def scalarPV : Val → Option PV
  | .none => some .none
  | .bool b => some (.bool b)
  | .int i => some (.int i)
  | .str x => some (.str x)
  | .float h => some (.float h)
  | .sent n => some (.sent n)
  | .ty n => some (.ty n)
  | .fn n => some (.fn n)
  | .ref _ => none

def ofScalarPV : PV → Option Val
  | .none => some .none
  | .bool b => some (.bool b)
  | .int i => some (.int i)
  | .str x => some (.str x)
  | .float h => some (.float h)
  | .sent n => some (.sent n)
  | .ty n => some (.ty n)
  | .fn n => some (.fn n)
  | _ => none

/-- result of a Python-level operation: value or exception, and the heap it leaves -/
abbrev Res := Except PyExc Val × Heap

def liftPV (r : Except PyExc PV) : Except PyExc Val :=
  match r with
  | .ok p => match ofScalarPV p with
    | some v => .ok v
    | none => .error C02.unsupported
  | .error e => .error e

/-- a new object: the only way the heap changes in this model -/
def alloc (h : Heap) (o : Obj) : Res := (.ok (.ref h.length), h ++ [o])
def okR (h : Heap) (v : Val) : Res := (.ok v, h)
def errR (h : Heap) (e : PyExc) : Res := (.error e, h)

/-- what a value is, in the current heap -/
inductive Sh where
  | scalar (p : PV)
  | list (xs : List Val)
  | bytes (xs : List Val)                 -- bytearray: its items are ints
  | tuple (xs : List Val)
  | set (frozen : Bool) (xs : List Val)
  | dict (es : List (Val × Val))
  | other

def shapeOfObj : Obj → Sh
  | .list c xs => if c == "list" then .list xs else if c == "bytearray" then .bytes xs else .other
  | .tuple c xs => if c == "tuple" then .tuple xs else .other
  | .set c xs => if c == "set" then .set false xs else if c == "frozenset" then .set true xs else .other
  | .dict c es => if c == "dict" then .dict es else .other
  | .inst _ _ => .other

def shapeOf (h : Heap) (v : Val) : Sh :=
  match scalarPV v with
  | some p => .scalar p
  | none =>
    match v with
    | .ref a => match h[a]? with
      | some o => shapeOfObj o
      | none => .other
    | _ => .other

/-! ### sets and dicts of hashable scalars (`pyKeyEq`: `True == 1`) -/

def memK (xs : List Val) (x : Val) : Bool := xs.any (fun y => pyKeyEq y x)

def dedupK : List Val → List Val → List Val
  | acc, [] => acc
  | acc, x :: r => if memK acc x then dedupK acc r else dedupK (acc ++ [x]) r

def setUnion (xs ys : List Val) : List Val := dedupK xs ys
def setInter (xs ys : List Val) : List Val := xs.filter (memK ys)
def setDiff (xs ys : List Val) : List Val := xs.filter (fun x => !memK ys x)
def setSym (xs ys : List Val) : List Val := setDiff xs ys ++ setDiff ys xs

def setOp (b : BinOp) (xs ys : List Val) : Option (List Val) :=
  match b with
  | .bor => some (setUnion xs ys)
  | .band => some (setInter xs ys)
  | .sub => some (setDiff xs ys)
  | .bxor => some (setSym xs ys)
  | _ => none

def dictPut : List (Val × Val) → Val → Val → List (Val × Val)
  | [], k, v => [(k, v)]
  | (k', v') :: r, k, v => if pyKeyEq k' k then (k', v) :: r else (k', v') :: dictPut r k v

def dictMerge (a c : List (Val × Val)) : List (Val × Val) :=
  c.foldl (fun acc kv => dictPut acc kv.1 kv.2) a

/-- `hash(k)`: a mutable container is unhashable (TypeError); a tuple / frozenset key is compared by
    value, which `pyKeyEq` does not do: outside the modelled domain -/
def keyCheck (h : Heap) (k : Val) : Option PyExc :=
  match k with
  | .ref a => match h[a]? with
    | some (.list ..) | some (.dict ..) => some C02.tyErr
    | some (.set c _) => if c == "frozenset" then some C02.unsupported else some C02.tyErr
    | _ => some C02.unsupported
  | .float _ => some C02.unsupported           -- 1.0 == 1
  | _ => none

def keysCheck (h : Heap) : List Val → Option PyExc
  | [] => none
  | k :: r => match keyCheck h k with
    | some e => some e
    | none => keysCheck h r

/-! ### the operators -/

/-- `seq * n` / `n * seq`: a new sequence -/
def seqRep (h : Heap) (mk : List Val → Obj) (xs : List Val) (n : PV) : Res :=
  match C02.asInt? n with
  | some k => match C02.repGuard xs.length k with
    | some e => errR h e
    | none => alloc h (mk (C02.repeatList xs k))
  | none => errR h C02.tyErr

def setCls (frozen : Bool) : String := if frozen then "frozenset" else "set"

/-- `x <op> y` when at least one operand is a container: what `type(x).__op__` /
    `type(y).__rop__` do.  Every container result is a new object. -/
def binSh (b : BinOp) (h : Heap) : Sh → Sh → Res
  | .other, _ => errR h C02.unsupported
  | _, .other => errR h C02.unsupported
  | .list xs, y =>
    match b, y with
    | .add, .list ys => alloc h (.list "list" (xs ++ ys))
    | .mul, .scalar n => seqRep h (.list "list") xs n
    | _, _ => errR h C02.tyErr
  | .bytes xs, y =>
    match b, y with
    | .add, .bytes ys => alloc h (.list "bytearray" (xs ++ ys))
    | .mul, .scalar n => seqRep h (.list "bytearray") xs n
    | .mod, _ => errR h C02.unsupported                     -- printf-style formatting
    | _, _ => errR h C02.tyErr
  | .tuple xs, y =>
    match b, y with
    | .add, .tuple ys => alloc h (.tuple "tuple" (xs ++ ys))
    | .mul, .scalar n => seqRep h (.tuple "tuple") xs n
    | _, _ => errR h C02.tyErr
  | .set fr xs, y =>
    match y with
    | .set _ ys => match setOp b xs ys with
      | some zs => alloc h (.set (setCls fr) zs)
      | none => errR h C02.tyErr
    | _ => errR h C02.tyErr
  | .dict a, y =>
    match b, y with
    | .bor, .dict c => alloc h (.dict "dict" (dictMerge a c))
    | _, _ => errR h C02.tyErr
  | .scalar p, y =>
    match b, y with
    | .mul, .list xs => seqRep h (.list "list") xs p
    | .mul, .bytes xs => seqRep h (.list "bytearray") xs p
    | .mul, .tuple xs => seqRep h (.tuple "tuple") xs p
    | .mod, _ => (match p with
      | .str _ => errR h C02.unsupported                     -- '%s' % [1]
      | _ => errR h C02.tyErr)
    | _, _ => errR h C02.tyErr

/-- `cur <op> arg` -/
def aBin (b : BinOp) (h : Heap) (x y : Val) : Res :=
  match scalarPV x, scalarPV y with
  | some p, some q => (liftPV (C02.pvBin b p q), h)
  | _, _ => binSh b h (shapeOf h x) (shapeOf h y)

/-- `~cur`, `-cur` -/
def aUn (u : UnOp) (h : Heap) (x : Val) : Res :=
  match scalarPV x with
  | some p => (liftPV (C02.pvUn u p), h)
  | none => match shapeOf h x with
    | .other => errR h C02.unsupported
    | _ => errR h C02.tyErr

def seqItem (h : Heap) (xs : List Val) (key : Val) : Res :=
  match key with
  | .int i => (match pyIndex xs i with
    | some v => okR h v
    | none => errR h ⟨"IndexError"⟩)
  | .bool b => (match pyIndex xs (if b then 1 else 0) with
    | some v => okR h v
    | none => errR h ⟨"IndexError"⟩)
  | _ => errR h C02.tyErr

/-- `cur[arg]`: the member itself (an alias), never a copy; the heap is only read -/
def aGetitem (h : Heap) (cur key : Val) : Res :=
  match shapeOf h cur with
  | .dict es =>
    (match keyCheck h key with
    | some e => errR h e
    | none => match dictLookup es key with
      | some v => okR h v
      | none => errR h ⟨"KeyError"⟩)
  | .list xs => seqItem h xs key
  | .tuple xs => seqItem h xs key
  | .bytes xs => seqItem h xs key
  | .set _ _ => errR h C02.tyErr
  | .scalar (.str _) => errR h C02.unsupported
  | .scalar _ => errR h C02.tyErr
  | .other => errR h C02.unsupported

/-! ### the syntax: what sits in a spec -/

inductive SeqKind where
  | list | tuple | set | fset
  deriving DecidableEq, Repr

/-- the operations of a T expression modelled here -/
inductive TOp where
  | item                 -- '['
  | bin (b : BinOp)      -- '+', '-', '*', '#', '/', '%', ':', '&', '|', '^'
  | un (u : UnOp)        -- '~', '_' (recorded with the argument `None`)
  deriving DecidableEq, Repr

mutual
/-- a spec object, as `_glom` / `arg_val` distinguish them -/
inductive Sp where
  | lit (v : Val)                             -- any other object (a scalar, the spec's own bytearray, a callable …)
  | t (steps : Steps)                         -- a `TType` rooted at `T` with its flat `__ops__`
  | seq (k : SeqKind) (xs : Sps)              -- a `list` / `tuple` / `set` / `frozenset` literal
  | dict (es : Pairs)                         -- a `dict` literal
  | coalesce (subs : Sps) (hasDefault : Bool) (dflt : Sp)   -- `Coalesce(*subs[, default=dflt])`
  | call (fn : String) (args : Sps)           -- `Call(<catalogue callable fn>, args=(…))`
inductive Sps where
  | nil
  | cons (x : Sp) (r : Sps)
inductive Pairs where
  | nil
  | cons (k v : Sp) (r : Pairs)
inductive Steps where
  | nil
  | cons (op : TOp) (arg : Sp) (r : Steps)
end

/-- how an evaluation ends when it does not return a value -/
inductive Err6 where
  | glom (cls : String)       -- a GlomError (PathAccessError, CoalesceError, UnregisteredTarget)
  | raised (cls : String)     -- any other exception: leaves the call as it is
  | unsupported               -- outside the modelled domain
  deriving DecidableEq, Repr

abbrev Out := Except Err6 Val × Heap

/-- `try: cur = <operation> except (TypeError, ArithmeticError, ValueError | KeyError, IndexError, …) as e:
    pae = PathAccessError(e, Path(_t), i // 2)`: every exception class the modelled operators raise is
    named by the `except` clause of its branch -/
def guard6 (r : Res) : Out :=
  match r.1 with
  | .ok v => (.ok v, r.2)
  | .error e => if e == C02.unsupported then (.error .unsupported, r.2)
                else (.error (.glom "PathAccessError"), r.2)

/-- an exception raised outside every `try` of glom (building the rebuilt argument, inside a callable) -/
def raiseErr (e : PyExc) : Err6 := if e == C02.unsupported then .unsupported else .raised e.cls

def raise6 (h : Heap) (e : PyExc) : Out := (.error (raiseErr e), h)

/-- the same for a Python-level result -/
def raw6 (r : Res) : Out :=
  match r.1 with
  | .ok v => (.ok v, r.2)
  | .error e => raise6 r.2 e

/-- one branch of the dispatch chain of `_t_eval`, on the already evaluated argument -/
def applyOp (op : TOp) (h : Heap) (cur arg : Val) : Out :=
  match op with
  | .item => guard6 (aGetitem h cur arg)
  | .bin b => guard6 (aBin b h cur arg)
  | .un u => guard6 (aUn u h cur)

/-! ### writes: the statements of glom that store into an object — always one this evaluation created -/

/-- `ret[field] = val` (`_handle_dict`) -/
def dictStore (h : Heap) (r : Nat) (k v : Val) : Heap :=
  match h[r]? with
  | some (.dict c es) => h.set r (.dict c (dictPut es k v))
  | _ => h

/-- `result.update({…})` (`_ArgValuator.mode`) -/
def dictUpdate (h : Heap) (r : Nat) (kvs : List (Val × Val)) : Heap :=
  match h[r]? with
  | some (.dict c es) => h.set r (.dict c (dictMerge es kvs))
  | _ => h

/-- `ret.append(val)` (`_handle_list`) -/
def listAppend (h : Heap) (r : Nat) (v : Val) : Heap :=
  match h[r]? with
  | some (.list c xs) => h.set r (.list c (xs ++ [v]))
  | _ => h

/-- `result.extend([…])` (`_ArgValuator.mode`) -/
def listExtend (h : Heap) (r : Nat) (vs : List Val) : Heap :=
  match h[r]? with
  | some (.list c xs) => h.set r (.list c (xs ++ vs))
  | _ => h

/-- `type(spec)([recur(v) for v in spec])` for a tuple / set / frozenset literal: a new object, built
    after its members are evaluated (a list literal is built before them: `evalArg`) -/
def mkSeq (k : SeqKind) (h : Heap) (vs : List Val) : Out :=
  match k with
  | .list => (.ok (.ref h.length), h ++ [.list "list" vs])
  | .tuple => (.ok (.ref h.length), h ++ [.tuple "tuple" vs])
  | .set => (match keysCheck h vs with
    | some e => raise6 h e
    | none => (.ok (.ref h.length), h ++ [.set "set" (dedupK [] vs)]))
  | .fset => (match keysCheck h vs with
    | some e => raise6 h e
    | none => (.ok (.ref h.length), h ++ [.set "frozenset" (dedupK [] vs)]))

/-- what the default `iterate` handler (`iter`) yields for a target, as far as its order is
    defined by the object (a set's order is CPython's business) -/
def iterItems (h : Heap) (v : Val) : Except Err6 (List Val) :=
  match shapeOf h v with
  | .list xs => .ok xs
  | .tuple xs => .ok xs
  | .bytes xs => .ok xs
  | .dict es => .ok (es.map (·.1))
  | .set _ _ => .error .unsupported
  | .scalar _ => .error (.glom "UnregisteredTarget")
  | .other => .error .unsupported

/-- `for t in iterator: val = scope[glom](t, subspec, scope); ret.append(val)`: the list at address `r`
    grows by one item per iteration, each item evaluated in the heap the previous iteration left -/
def mapInto (f : Val → Heap → Out) (r : Nat) : List Val → Heap → Option Err6 × Heap
  | [], h => (none, h)
  | x :: rest, h =>
    match f x h with
    | (.error e, h1) => (some e, h1)
    | (.ok v, h1) => mapInto f r rest (listAppend h1 r v)

/-! ### the catalogue of callables (what a `Call` spec or a plain callable spec may name)

  `len`, `ident` (`lambda x: x`), `first` (`lambda x: x[0]`), `wrap` (`lambda x: [x]`), `pair`
  (`lambda a, b: [a, b]`), `list`, `tuple` read their arguments and build at most one new object.
  `append9` (`lambda x: x.append(9) or x`) is the *mutating user callable* the property text
  excludes: it writes the object it is handed. -/

def pureFn (name : String) : Bool := name != "append9"

/-- is the value of a call of `name` a scalar or an object the call created? -/
def fnNew (name : String) : Bool := name == "len" || name == "wrap" || name == "pair" || name == "list" || name == "tuple"

def copyItems (h : Heap) (x : Val) : Except PyExc (List Val) :=
  match shapeOf h x with
  | .list xs => .ok xs
  | .tuple xs => .ok xs
  | .bytes xs => .ok xs
  | .dict es => .ok (es.map (·.1))
  | .set _ _ => .error C02.unsupported
  | .scalar (.str _) => .error C02.unsupported
  | .scalar _ => .error C02.tyErr
  | .other => .error C02.unsupported

def lenOf (h : Heap) (x : Val) : Except PyExc Val :=
  match shapeOf h x with
  | .list xs => .ok (.int xs.length)
  | .tuple xs => .ok (.int xs.length)
  | .bytes xs => .ok (.int xs.length)
  | .set _ xs => .ok (.int xs.length)
  | .dict es => .ok (.int es.length)
  | .scalar (.str x) => .ok (.int x.length)
  | .scalar _ => .error C02.tyErr
  | .other => .error C02.unsupported

/-- `fn(*args)`; an exception of the callable leaves glom as it is -/
def callFn6 (name : String) (h : Heap) (args : List Val) : Out :=
  if name == "len" then
    (match args with
    | [x] => raw6 (lenOf h x, h)
    | _ => (.error (.raised "TypeError"), h))
  else if name == "ident" then
    (match args with
    | [x] => (.ok x, h)
    | _ => (.error (.raised "TypeError"), h))
  else if name == "first" then
    (match args with
    | [x] => raw6 (aGetitem h x (.int 0))
    | _ => (.error (.raised "TypeError"), h))
  else if name == "wrap" then
    (match args with
    | [x] => (.ok (.ref h.length), h ++ [.list "list" [x]])
    | _ => (.error (.raised "TypeError"), h))
  else if name == "pair" then
    (match args with
    | [x, y] => (.ok (.ref h.length), h ++ [.list "list" [x, y]])
    | _ => (.error (.raised "TypeError"), h))
  else if name == "list" then
    (match args with
    | [x] => (match copyItems h x with
      | .ok xs => (.ok (.ref h.length), h ++ [.list "list" xs])
      | .error e => raise6 h e)
    | _ => (.error .unsupported, h))
  else if name == "tuple" then
    (match args with
    | [x] => (match copyItems h x with
      | .ok xs => (.ok (.ref h.length), h ++ [.tuple "tuple" xs])
      | .error e => raise6 h e)
    | _ => (.error .unsupported, h))
  else if name == "append9" then
    (match args with
    | [.ref a] => (match h[a]? with
      | some (.list c xs) => (.ok (.ref a), h.set a (.list c (xs ++ [.int 9])))     -- writes its argument
      | _ => (.error (.raised "AttributeError"), h))
    | [_] => (.error (.raised "AttributeError"), h)
    | _ => (.error (.raised "TypeError"), h))
  else (.error .unsupported, h)

mutual
/-- `arg_val(target, spec, scope)`: argument mode (`sp` first: the other arguments are what the
    evaluation of a sub-term is applied to) -/
def evalArg : Sp → Val → Heap → Out
  | .lit v, _, h => (.ok v, h)
  | .t steps, tgt, h => tLoop steps tgt tgt h
  | .seq k xs, tgt, h =>
    (match k with
    | .list =>
      -- `result = self.cache[id(spec)] = type(spec)()` FIRST, then `result.extend([recur(val) …])`
      (match evalArgs xs tgt (h ++ [.list "list" []]) with
      | (.ok vs, h1) => (.ok (.ref h.length), listExtend h1 h.length vs)
      | (.error e, h1) => (.error e, h1))
    | _ =>
      (match evalArgs xs tgt h with
      | (.ok vs, h1) => mkSeq k h1 vs
      | (.error e, h1) => (.error e, h1)))
  | .dict es, tgt, h =>
    -- `result = type(spec)()`, then `result.update({recur(key): recur(val) …})`
    (match evalArgPairs es tgt (h ++ [.dict "dict" []]) with
    | (.ok kvs, h1) => (.ok (.ref h.length), dictUpdate h1 h.length kvs)
    | (.error e, h1) => (.error e, h1))
  | .coalesce subs hd d, tgt, h =>
    (match coalesceRun subs tgt h with
    | (some r, h1) => (r, h1)
    | (none, h1) => if hd then evalArg d tgt h1 else (.error (.glom "CoalesceError"), h1))
  | .call fn args, tgt, h =>
    (match evalArgs args tgt h with
    | (.ok vs, h1) => callFn6 fn h1 vs
    | (.error e, h1) => (.error e, h1))
/-- `_glom(target, spec, scope)` in the default mode `AUTO` -/
def evalAuto : Sp → Val → Heap → Out
  | .lit v, tgt, h =>
    (match v with
    | .fn name => callFn6 name h [tgt]               -- `elif callable(spec): return spec(target)`
    | _ => (.error .unsupported, h))                  -- a string path: C01's
  | .t steps, tgt, h => tLoop steps tgt tgt h
  | .seq k xs, tgt, h =>
    (match k with
    | .list => listRun xs tgt h
    | .tuple => chainRun xs tgt h
    | .set => (.error .unsupported, h)
    | .fset => (.error .unsupported, h))
  | .dict es, tgt, h =>
    -- `ret = type(spec)()`, then per field `ret[field] = val`
    (match autoPairs es tgt h.length (h ++ [.dict "dict" []]) with
    | (none, h1) => (.ok (.ref h.length), h1)
    | (some e, h1) => (.error e, h1))
  | .coalesce subs hd d, tgt, h =>
    (match coalesceRun subs tgt h with
    | (some r, h1) => (r, h1)
    | (none, h1) => if hd then evalArg d tgt h1 else (.error (.glom "CoalesceError"), h1))
  | .call fn args, tgt, h =>
    (match evalArgs args tgt h with
    | (.ok vs, h1) => callFn6 fn h1 vs
    | (.error e, h1) => (.error e, h1))
/-- `[recur(v) for v in spec]` -/
def evalArgs : Sps → Val → Heap → Except Err6 (List Val) × Heap
  | .nil, _, h => (.ok [], h)
  | .cons x r, tgt, h =>
    (match evalArg x tgt h with
    | (.error e, h1) => (.error e, h1)
    | (.ok v, h1) =>
      match evalArgs r tgt h1 with
      | (.ok vs, h2) => (.ok (v :: vs), h2)
      | (.error e, h2) => (.error e, h2))
/-- `{recur(key): recur(val) for key, val in spec.items()}`: per entry the key, then the value, then the
    key is hashed (TypeError for an unhashable one, before the following entries are evaluated) -/
def evalArgPairs : Pairs → Val → Heap → Except Err6 (List (Val × Val)) × Heap
  | .nil, _, h => (.ok [], h)
  | .cons k v r, tgt, h =>
    (match evalArg k tgt h with
    | (.error e, h1) => (.error e, h1)
    | (.ok kv, h1) =>
      match evalArg v tgt h1 with
      | (.error e, h2) => (.error e, h2)
      | (.ok vv, h2) =>
        match keyCheck h2 kv with
        | some e => (.error (raiseErr e), h2)
        | none =>
          match evalArgPairs r tgt h2 with
          | (.ok kvs, h3) => (.ok ((kv, vv) :: kvs), h3)
          | (.error e, h3) => (.error e, h3))
/-- `_handle_dict`: per field the value (AUTO), then the field when it is a `T`, then `ret[field] = val`
    into the dict at address `r` -/
def autoPairs : Pairs → Val → Nat → Heap → Option Err6 × Heap
  | .nil, _, _, h => (none, h)
  | .cons k v rest, tgt, r, h =>
    (match evalAuto v tgt h with
    | (.error e, h1) => (some e, h1)
    | (.ok vv, h1) =>
      match fieldRun k tgt h1 with
      | (.error e, h2) => (some e, h2)
      | (.ok kv, h2) =>
        match keyCheck h2 kv with
        | some e => (some (raiseErr e), h2)
        | none => autoPairs rest tgt r (dictStore h2 r kv vv))
/-- `if type(field) in (Spec, TType): field = scope[glom](target, field, scope)` -/
def fieldRun : Sp → Val → Heap → Out
  | .lit v, _, h => (.ok v, h)
  | .t steps, tgt, h => tLoop steps tgt tgt h
  | .seq _ _, _, h => (.error .unsupported, h)
  | .dict _, _, h => (.error .unsupported, h)
  | .coalesce _ _ _, _, h => (.error .unsupported, h)
  | .call _ _, _, h => (.error .unsupported, h)
/-- `_handle_list`: `[sub]`: `ret = []`, then `sub` on every item of the target, appended to `ret` -/
def listRun : Sps → Val → Heap → Out
  | .nil, _, h => (.error .unsupported, h)
  | .cons sub r, tgt, h =>
    (match r with
    | .nil =>
      (match iterItems h tgt with
      | .error e => (.error e, h)
      | .ok items =>
        match mapInto (evalAuto sub) h.length items (h ++ [.list "list" []]) with
        | (none, h1) => (.ok (.ref h.length), h1)
        | (some e, h1) => (.error e, h1))
    | .cons _ _ => (.error .unsupported, h))
/-- `_handle_tuple`: the result of a step is the target of the next -/
def chainRun : Sps → Val → Heap → Out
  | .nil, tgt, h => (.ok tgt, h)
  | .cons x r, tgt, h =>
    (match evalAuto x tgt h with
    | (.error e, h1) => (.error e, h1)
    | (.ok v, h1) => chainRun r v h1)
/-- the loop of `Coalesce.glomit`: the first sub-spec that does not raise a GlomError (`some`: its
    value, or the other exception that ends the call); `none`: every sub-spec raised a GlomError
    (the caller then evaluates `arg_val(target, self.default, scope)` or raises CoalesceError) -/
def coalesceRun : Sps → Val → Heap → Option (Except Err6 Val) × Heap
  | .nil, _, h => (none, h)
  | .cons x r, tgt, h =>
    (match evalAuto x tgt h with
    | (.ok v, h1) => (some (.ok v), h1)
    | (.error (.glom _), h1) => coalesceRun r tgt h1
    | (.error e, h1) => (some (.error e), h1))
/-- the `while i < fetch_till` loop of `_t_eval`: `arg = arg_val(target, arg, scope)`, then the
    branch of the op -/
def tLoop : Steps → Val → Val → Heap → Out
  | .nil, _, cur, h => (.ok cur, h)
  | .cons op a r, tgt, cur, h =>
    (match evalArg a tgt h with
    | (.error e, h1) => (.error e, h1)
    | (.ok av, h1) =>
      match applyOp op h1 cur av with
      | (.ok v, h2) => tLoop r tgt v h2
      | (.error e, h2) => (.error e, h2))
end

mutual
/-- does the spec name only callables that do not write their arguments? ("no mutating user callable") -/
def Sp.pureCalls : Sp → Bool
  | .lit v => (match v with | .fn name => pureFn name | _ => true)
  | .t steps => steps.pureCalls
  | .seq _ xs => xs.pureCalls
  | .dict es => es.pureCalls
  | .coalesce subs _ d => subs.pureCalls && d.pureCalls
  | .call fn args => pureFn fn && args.pureCalls
def Sps.pureCalls : Sps → Bool
  | .nil => true
  | .cons x r => x.pureCalls && r.pureCalls
def Pairs.pureCalls : Pairs → Bool
  | .nil => true
  | .cons k v r => k.pureCalls && v.pureCalls && r.pureCalls
def Steps.pureCalls : Steps → Bool
  | .nil => true
  | .cons _ a r => a.pureCalls && r.pureCalls
end

/-- does the T expression end with an arithmetic operation (whose container result Python builds anew)? -/
def Steps.endsArith : Steps → Bool
  | .nil => false
  | .cons op _ .nil => (match op with | .item => false | _ => true)
  | .cons _ _ r => r.endsArith

/-! ### the in-place variants (what `operator.ior` / `cur += arg` do): NOT what glom does.
    Kept to show that the frame theorem is about the code that exists: `aBinInPlace` writes the
    left operand's cell (`Props/C06.lean`: `c06_inplace_counterexample`). -/

def aBinInPlace (b : BinOp) (h : Heap) (x y : Val) : Res :=
  match b, x, shapeOf h x, shapeOf h y with
  | .bor, .ref a, .set fr xs, .set _ ys => (.ok x, h.set a (.set (setCls fr) (setUnion xs ys)))
  | .bor, .ref a, .dict es, .dict c => (.ok x, h.set a (.dict "dict" (dictMerge es c)))
  | .add, .ref a, .list xs, .list ys => (.ok x, h.set a (.list "list" (xs ++ ys)))
  | _, _, _, _ => aBin b h x y

end Glom.C06
