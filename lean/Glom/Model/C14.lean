import Glom.Py.Access
/-
  C14 — code-shaped model of the wildcard steps of `_t_eval` (glom/core.py) on the shared heap
  kernel (identity = address, sharing and cycles representable).

  Mirrors:
    * `_extend_children(children, item, get_handler)`  → `extendChildren`
        (`keys` + `get` handlers; on UnregisteredTarget the `iterate` handler; every exception of a
        key access / of the iteration swallowed — an iteration that raises half-way keeps the items
        produced so far, as `list.extend` does)
    * the `'x'` branch                                  → `starItems`
    * the `'X'` branch                                  → `ssLoop` / `starstarItems`
        (the list `nxt` that grows while the `for item in nxt` loop walks it with an index, the
        `id()`-visited set `sofar` seeded with the root, `nxt.insert(0, cur)`)
    * the recursive evaluation of the remaining ops on every item with PathAccessError swallowed
      and the `break`                                    → `evalSteps`
    * `TType.__stars__`                                  → `stars`
    * `_apply_for_each(func, path, val)` of glom/mutation.py → `applyForEach`
        (`sum(val, [])` `layers - 1` times, then `func` on every inner value, sequentially on one heap,
        stopping at the first exception)
    * `_assign_op` 'P' / `Delete._del_one` 'P' with the default handlers → `assignOne` / `deleteOne`

  Which handler the default registry picks for a class is the subject of C13; here it is the
  function `keysH` / `getH` / `iterH` / `assignH` / `deleteH` of the class's MRO and of two
  interpreter facts per class (`hasDict`: instances have a `__dict__`; `iterable`: the class has
  `__iter__` and is not str/bytes), validated by the correspondence on every case.

  `ssLoop` is a total definition by well-founded recursion on
  (number of heap addresses not yet in `sofar`, items of `nxt` not yet walked): Lean accepting it
  *is* the termination proof, for every heap, cyclic or not.
-/
namespace Glom.C14
open Glom

/-- `reg`: the class was registered by the user (on the `Glommer` the case runs with) with an
    `iterate` handler of its own — `"rev"`: the items in reverse order, `"off"`: `iterate=False`
    (not iterable for glom); `""`: not registered, the default registry's handlers apply.
    `register(cls, iterate=…)` also fills in the other ops for exactly that class: `get` becomes
    `getattr` (the `_op_auto_map` default), `keys` stays unregistered for it. -/
structure ClsInfo where
  mro : List String
  hasDict : Bool
  iterable : Bool
  reg : String := ""
  deriving Repr, DecidableEq

abbrev Classes := List (String × ClsInfo)

def builtinClasses : Classes :=
  [("object", ⟨["object"], false, false, ""⟩), ("dict", ⟨["dict", "object"], false, true, ""⟩),
   ("OrderedDict", ⟨["OrderedDict", "dict", "object"], true, true, ""⟩),
   ("list", ⟨["list", "object"], false, true, ""⟩), ("tuple", ⟨["tuple", "object"], false, true, ""⟩),
   ("set", ⟨["set", "object"], false, true, ""⟩), ("frozenset", ⟨["frozenset", "object"], false, true, ""⟩),
   ("str", ⟨["str", "object"], false, false, ""⟩), ("int", ⟨["int", "object"], false, false, ""⟩),
   ("bool", ⟨["bool", "int", "object"], false, false, ""⟩), ("float", ⟨["float", "object"], false, false, ""⟩),
   ("NoneType", ⟨["NoneType", "object"], false, false, ""⟩)]

def clsInfo (cs : Classes) (c : String) : ClsInfo :=
  match (cs ++ builtinClasses).find? (·.1 == c) with
  | some (_, i) => i
  | none => ⟨[c, "object"], false, false, ""⟩

/-! ### the default registry's handlers (environment; C13's subject) -/

inductive KeysH where | dictKeys | objKeys deriving DecidableEq, Repr
inductive GetH where | getitem | seqItem | getattr deriving DecidableEq, Repr

def isA (cs : Classes) (c base : String) : Bool := (clsInfo cs c).mro.contains base

/-- `get_handler('keys', item)`: dict / OrderedDict, else the duck type `_ObjStyleKeys`
    (any object with a `__dict__`), else UnregisteredTarget -/
def keysH (cs : Classes) (c : String) : Option KeysH :=
  if isA cs c "dict" then some .dictKeys
  else if (clsInfo cs c).hasDict then some .objKeys
  else none

/-- `get_handler('get', item)` -/
def getH (cs : Classes) (c : String) : GetH :=
  if (clsInfo cs c).reg != "" then .getattr     -- a user registration without `get=`: the auto default
  else if isA cs c "dict" then .getitem
  else if isA cs c "list" || isA cs c "tuple" then .seqItem
  else .getattr

/-- `get_handler('iterate', item)` is `iter` (else UnregisteredTarget) -/
def iterH (cs : Classes) (c : String) : Bool :=
  if (clsInfo cs c).reg == "off" then false      -- registered with `iterate=False`
  else if (clsInfo cs c).reg == "rev" then true  -- registered with an `iterate` handler of its own
  else isA cs c "dict" || isA cs c "list" || isA cs c "tuple" || (clsInfo cs c).iterable

/-! ### element access, including the harness's raising containers

  `RDict`  dict subclass whose `__getitem__` raises KeyError for keys starting with "bad"
  `RList`  list subclass whose `__iter__` raises when it reaches the string "boom"
  `RObj`   attribute object whose `__getattribute__` raises AttributeError for names starting
           with "bad"                                                              -/

def isBad (v : Val) : Bool :=
  match v with
  | .str s => s.startsWith "bad"
  | _ => false

def applyGet (cs : Classes) (h : Heap) (g : GetH) (cur key : Val) : Except PyExc Val :=
  let c := cur.clsName h
  match g with
  | .getitem => if isA cs c "RDict" && isBad key then .error (exc "KeyError") else pyGetitem h cur key
  | .seqItem => pySeqGet h cur key
  | .getattr => if isA cs c "RObj" && isBad key then .error (exc "AttributeError") else pyGetattr h cur key

/-- `keys(item)` for the two keys handlers -/
def keysOf (h : Heap) (k : KeysH) (item : Val) : List Val :=
  match item with
  | .ref a =>
    match h[a]?, k with
    | some (.dict _ es), .dictKeys => es.map (·.1)
    | some (.inst _ as), .objKeys => as.map (fun p => Val.str p.1)
    | _, _ => []       -- an instance of a list/tuple/set/dict subclass: its own `__dict__` is empty
  | _ => []

/-- the items `children.extend(iterate(item))` appends before the iteration ends or raises -/
def iterItems (cs : Classes) (h : Heap) (item : Val) : List Val :=
  match item with
  | .ref a =>
    match h[a]? with
    | some (.list c xs) =>
      if (clsInfo cs c).reg == "rev" then xs.reverse          -- the user's `iterate` handler
      else if isA cs c "RList" then xs.takeWhile (fun v => v != Val.str "boom") else xs
    | some (.tuple c xs) => if (clsInfo cs c).reg == "rev" then xs.reverse else xs
    | some (.set _ xs) => xs
    | some (.dict _ es) => es.map (·.1)
    | _ => []
  | _ => []

/-- the types of `isinstance(item, (list, tuple, set, frozenset))` in `_extend_children` -/
def seqGuard : List String := ["list", "tuple", "set", "frozenset"]

/-- `_extend_children`: what gets appended to `children` for `item` -/
def extendChildren (cs : Classes) (h : Heap) (item : Val) : List Val :=
  let c := item.clsName h
  let viaIterate := if iterH cs c then iterItems cs h item else []
  match keysH cs c with
  | none => viaIterate                        -- UnregisteredTarget from `get_handler('keys', …)`
  | some k =>                                 -- `get` is always registered (object → getattr)
    -- `if keys is _ObjStyleKeys.get_keys and isinstance(item, (list, tuple, set, frozenset)):
    --      raise UnregisteredTarget(…)` — an instance of a sequence / set subclass is iterated
    if k == .objKeys && seqGuard.any (isA cs c) then viaIterate
    else
      (keysOf h k item).filterMap (fun key =>
        match applyGet cs h (getH cs c) item key with
        | .ok v => some v
        | .error _ => none)                   -- `except Exception: pass`

/-! ### `_extend_children` for any registry

  What `_extend_children` needs of the registry in the scope is what `get_handler` answers for the
  item: the `keys` handler (or UnregisteredTarget) and what it yields, the `get` handler, the `iterate`
  handler (or UnregisteredTarget / `False`) and what it yields.  `Handlers` holds these answers as
  functions of the item — any registry, with any user-registered container types, is an instance. -/

structure Handlers where
  /-- `get_handler('keys', item)`: `none` = UnregisteredTarget, else the keys `keys(item)` yields
      (before it ends or raises) -/
  keys : Val → Option (List Val)
  /-- `keys is _ObjStyleKeys.get_keys` -/
  objStyle : Val → Bool
  /-- `isinstance(item, (list, tuple, set, frozenset))` -/
  isSeq : Val → Bool
  /-- `get_handler('get', item)(item, key)` -/
  get : Val → Val → Except PyExc Val
  /-- `get_handler('iterate', item)`: `none` = UnregisteredTarget, else the items `iterate(item)`
      produces before it ends or raises -/
  iterate : Val → Option (List Val)

/-- `_extend_children(children, item, get_handler)` for the registry answering like `H` -/
def extendChildrenH (H : Handlers) (item : Val) : List Val :=
  let viaIterate := (H.iterate item).getD []
  match H.keys item with
  | none => viaIterate
  | some ks =>
    if H.objStyle item && H.isSeq item then viaIterate
    else ks.filterMap (fun key =>
      match H.get item key with
      | .ok v => some v
      | .error _ => none)

/-- the default registry (and the user registrations recorded in the class table) on the heap `h` -/
def defaultHandlers (cs : Classes) (h : Heap) : Handlers where
  keys item := (keysH cs (item.clsName h)).map (fun k => keysOf h k item)
  objStyle item := keysH cs (item.clsName h) == some .objKeys
  isSeq item := seqGuard.any (isA cs (item.clsName h))
  get item key := applyGet cs h (getH cs (item.clsName h)) item key
  iterate item := if iterH cs (item.clsName h) then some (iterItems cs h item) else none

/-- the `'x'` branch: `nxt` -/
def starItems (cs : Classes) (h : Heap) (cur : Val) : List Val := extendChildren cs h cur

/-! ### the `'X'` branch -/

/-- heap addresses that are not in `sofar` yet -/
def unseen (h : Heap) (sofar : List Nat) : Nat :=
  ((List.range h.length).filter (fun a => !sofar.contains a)).length

theorem filter_length_le {l : List Nat} {p q : Nat → Bool} (hpq : ∀ x, p x = true → q x = true) :
    (l.filter p).length ≤ (l.filter q).length := by
  induction l with
  | nil => simp
  | cons y l ih =>
    by_cases hp : p y = true
    · have hq := hpq y hp
      simp only [List.filter_cons, hp, hq, if_true, List.length_cons]; omega
    · by_cases hq : q y = true
      · simp only [List.filter_cons, hp, hq, if_true, Bool.false_eq_true, if_false, List.length_cons]; omega
      · simp only [List.filter_cons, hp, hq, Bool.false_eq_true, if_false]; exact ih

theorem filter_length_lt {l : List Nat} {p q : Nat → Bool} (hpq : ∀ x, p x = true → q x = true)
    {a : Nat} (ha : a ∈ l) (hqa : q a = true) (hpa : p a = false) :
    (l.filter p).length < (l.filter q).length := by
  induction l with
  | nil => simp at ha
  | cons y l ih =>
    have hle := filter_length_le (l := l) hpq
    by_cases hya : y = a
    · subst hya
      simp only [List.filter_cons, hpa, hqa, if_true, Bool.false_eq_true, if_false, List.length_cons]
      omega
    · have hl : a ∈ l := by
        simp only [List.mem_cons] at ha
        exact ha.resolve_left (fun e => hya e.symm)
      have := ih hl
      by_cases hp : p y = true
      · have hq := hpq y hp
        simp only [List.filter_cons, hp, hq, if_true, List.length_cons]; omega
      · by_cases hq : q y = true
        · simp only [List.filter_cons, hp, hq, if_true, Bool.false_eq_true, if_false, List.length_cons]; omega
        · simp only [List.filter_cons, hp, hq, Bool.false_eq_true, if_false]; exact this

theorem unseen_lt (h : Heap) (sofar : List Nat) (a : Nat) (ha : a < h.length)
    (hs : sofar.contains a = false) : unseen h (a :: sofar) < unseen h sofar := by
  unfold unseen
  apply filter_length_lt (a := a)
  · intro x hx
    simp only [List.contains_cons, Bool.not_eq_true', Bool.or_eq_false_iff] at hx
    rw [hx.2]; rfl
  · exact List.mem_range.2 ha
  · rw [hs]; rfl
  · simp

/-- addresses below `n` that are not in `sofar` yet -/
def unseenN (n : Nat) (sofar : List Nat) : Nat :=
  ((List.range n).filter (fun a => !sofar.contains a)).length

theorem unseenN_lt (n : Nat) (sofar : List Nat) (a : Nat) (ha : a < n)
    (hs : sofar.contains a = false) : unseenN n (a :: sofar) < unseenN n sofar := by
  unfold unseenN
  apply filter_length_lt (a := a)
  · intro x hx
    simp only [List.contains_cons, Bool.not_eq_true', Bool.or_eq_false_iff] at hx
    rw [hx.2]; rfl
  · exact List.mem_range.2 ha
  · rw [hs]; rfl
  · simp

/-- the `for item in nxt:` loop of the `'X'` branch, for **any** enumeration `expand` of the children
    of an item (whatever `keys` / `get` / `iterate` handlers the registry holds) over `n` addresses.
    `nxt` grows while index `i` walks it; `sofar` is the set of `id()`s already expanded.  Returns
    the final `nxt` and, for the theorems, the addresses that were expanded, in order. -/
def ssLoopG (n : Nat) (expand : Val → List Val) (nxt : List Val) (i : Nat) (sofar : List Nat)
    (expanded : List Nat) : List Val × List Nat :=
  if hi : i < nxt.length then
    match hitem : nxt[i] with
    | .ref a =>
      if hs : sofar.contains a then ssLoopG n expand nxt (i + 1) sofar expanded
      else
        if ha : a < n then
          -- sofar.add(id(item)); _extend_children(nxt, item, get_handler)
          ssLoopG n expand (nxt ++ expand (.ref a)) (i + 1) (a :: sofar) (expanded ++ [a])
        else
          -- not a heap object: nothing to append
          ssLoopG n expand nxt (i + 1) sofar expanded
    | _ =>
      -- an immediate value (None, bool, int, str, …): `_extend_children` appends nothing;
      -- its id() never collides with a container's
      ssLoopG n expand nxt (i + 1) sofar expanded
  else (nxt, expanded)
termination_by (unseenN n sofar, nxt.length - i)
decreasing_by
  all_goals simp_wf
  · exact Prod.Lex.right _ (by omega)
  · exact Prod.Lex.left _ _ (unseenN_lt n sofar a ha (by simpa using hs))
  · exact Prod.Lex.right _ (by omega)
  · exact Prod.Lex.right _ (by omega)

/-- the loop with the default registry's `_extend_children` on the heap `h` -/
def ssLoop (cs : Classes) (h : Heap) (nxt : List Val) (i : Nat) (sofar : List Nat)
    (expanded : List Nat) : List Val × List Nat :=
  ssLoopG h.length (extendChildren cs h) nxt i sofar expanded

/-- the `'X'` branch for any enumeration: `sofar = {id(cur)}`, expand `cur`, run the loop,
    `nxt.insert(0, cur)` -/
def starstarItemsG (n : Nat) (expand : Val → List Val) (cur : Val) : List Val × List Nat :=
  let seed : List Nat := match cur with
    | .ref a => [a]
    | _ => []
  let r := ssLoopG n expand (expand cur) 0 seed seed
  (cur :: r.1, r.2)

/-- the `'X'` branch: `sofar = {id(cur)}`, expand `cur`, run the loop, `nxt.insert(0, cur)` -/
def starstarItems (cs : Classes) (h : Heap) (cur : Val) : List Val × List Nat :=
  let seed : List Nat := match cur with
    | .ref a => [a]
    | _ => []
  let r := ssLoop cs h (extendChildren cs h cur) 0 seed seed
  (cur :: r.1, r.2)

/-! ### `_t_eval` with wildcards -/

/-- the value a wildcard path evaluates to: `k` wildcards give `k` levels of fresh lists -/
inductive Res where
  | val (v : Val)
  | list (xs : List Res)
  deriving Repr, Inhabited

inductive EErr where
  | pae (e : PyExc)          -- PathAccessError (swallowed after a wildcard)
  | other (cls : String)     -- anything else: propagates
  deriving DecidableEq, Repr

/-- `cur[arg]`, including the harness's raising dict and `collections.UserDict` (an attribute object
    whose `__getitem__` looks the key up in its `data` dict) -/
def pyItem (cs : Classes) (h : Heap) (cur arg : Val) : Except PyExc Val :=
  let c := cur.clsName h
  if isA cs c "RDict" && isBad arg then .error (exc "KeyError")
  else if isA cs c "UserDict" then
    (match pyGetattr h cur (.str "data") with
     | .ok d => pyGetitem h d arg
     | .error _ => .error (exc "TypeError"))    -- excluded by `heapWF`: a UserDict has its `data`
  else pyGetitem h cur arg

/-- `cur + arg` for a number `arg` (the arithmetic steps the generator spells): numbers add,
    anything else is a TypeError -/
def pyAdd (cur arg : Val) : Except PyExc Val :=
  match asIndex cur, asIndex arg with
  | some a, some b => .ok (.int (a + b))
  | _, _ => .error (exc "TypeError")

/-- one non-wildcard step: `.` getattr, `[` subscription, `P` the registered `get` handler, `+`
    addition; every failure of these is a PathAccessError (C01, C02: the classes each branch of
    `_t_eval` names in its `except`) -/
def accessStep (cs : Classes) (h : Heap) (op : String) (cur arg : Val) : Except EErr Val :=
  let r : Option (Except PyExc Val) :=
    if op == "." then some (applyGet cs h .getattr cur arg)
    else if op == "[" then some (pyItem cs h cur arg)
    else if op == "P" then some (applyGet cs h (getH cs (cur.clsName h)) cur arg)
    else if op == "+" then some (pyAdd cur arg)
    else none
  match r with
  | some (.ok v) => .ok v
  | some (.error e) => .error (.pae e)
  | none => .error (.other "BadSpec")

/-- `cur.append(_t_eval(child, todo, scope))` for every child, `except PathAccessError: pass`;
    any other exception propagates -/
def collect : List (Except EErr Res) → Except EErr (List Res)
  | [] => .ok []
  | .ok r :: rest => (collect rest).map (r :: ·)
  | .error (.pae _) :: rest => collect rest
  | .error e :: _ => .error e

/-- the `while i < fetch_till` loop on the remaining steps `(op, arg)` -/
def evalSteps (cs : Classes) (h : Heap) : List (String × Val) → Val → Except EErr Res
  | [], cur => .ok (.val cur)
  | (op, arg) :: rest, cur =>
    if op == "x" then
      (collect ((starItems cs h cur).map (evalSteps cs h rest))).map Res.list
    else if op == "X" then
      (collect ((starstarItems cs h cur).1.map (evalSteps cs h rest))).map Res.list
    else
      match accessStep cs h op cur arg with
      | .ok v => evalSteps cs h rest v
      | .error e => .error e

/-- `TType.__stars__` -/
def stars (steps : List (String × Val)) : Nat :=
  (steps.filter (fun s => s.1 == "x" || s.1 == "X")).length

/-! ### Assign / Delete through wildcards -/

/-- `sum(val, [])`: every element must be a list -/
def sumLists : List Res → Option (List Res)
  | [] => some []
  | .list xs :: rest => (sumLists rest).map (xs ++ ·)
  | .val _ :: _ => none          -- TypeError: can only concatenate list

def flattenN : Nat → List Res → Option (List Res)
  | 0, xs => some xs
  | n + 1, xs => (sumLists xs).bind (flattenN n)

inductive MErr where
  | assign (cls : String)     -- PathAssignError / PathDeleteError wrapping an exception of class `cls`
  | unregistered              -- UnregisteredTarget: the type cannot be assigned to
  | typeError                 -- `sum(val, [])` on a non-list / iterating a non-list
  | raw (cls : String)        -- an exception of the `[` / `.` final step no `except` clause names: propagates as it is
  deriving DecidableEq, Repr

/-- `get_handler('assign', dest)` of the default registry -/
inductive AssignH where | setitem | setSeq | setattr | none deriving DecidableEq, Repr

/-- dict → setitem, list → `_set_sequence_item`, tuple → `False` (registered as not assignable),
    everything else → setattr (which fails on objects without settable attributes) -/
def assignH (cs : Classes) (c : String) : AssignH :=
  if isA cs c "dict" then .setitem
  else if isA cs c "list" then .setSeq
  else if isA cs c "tuple" then .none
  else .setattr

def setAssoc {α} [BEq α] (k : α) (v : Val) : List (α × Val) → List (α × Val)
  | [] => [(k, v)]
  | (k', v') :: r => if k' == k then (k', v) :: r else (k', v') :: setAssoc k v r

def setDictKey (k v : Val) : List (Val × Val) → List (Val × Val)
  | [] => [(k, v)]
  | (k', v') :: r => if pyKeyEq k' k then (k', v) :: r else (k', v') :: setDictKey k v r

/-- `_assign_op(dest, 'P', arg, val)`: the registered handler, exceptions become PathAssignError -/
def assignOne (cs : Classes) (h : Heap) (dest arg v : Val) : Except MErr Heap :=
  match assignH cs (dest.clsName h) with
  | .none => .error .unregistered
  | .setitem =>
    (match dest with
     | .ref a =>
       (match h[a]? with
        | some (.dict c es) =>
          if arg.hashable h then .ok (h.set a (.dict c (setDictKey arg v es)))
          else .error (.assign "TypeError")
        | _ => .error (.assign "TypeError"))
     | _ => .error (.assign "TypeError"))
  | .setSeq =>
    (match dest with
     | .ref a =>
       (match h[a]?, pyInt h arg with
        | some (.list c xs), .ok i =>
          let n : Int := xs.length
          let j := if i < 0 then i + n else i
          if j < 0 || j ≥ n then .error (.assign "IndexError")
          else .ok (h.set a (.list c (xs.set j.toNat v)))
        | some (.list _ _), .error e => .error (.assign e.cls)
        | _, _ => .error (.assign "TypeError"))
     | _ => .error (.assign "TypeError"))
  | .setattr =>
    (match dest, arg with
     | .ref a, .str n =>
       (match h[a]? with
        | some (.inst c as) => .ok (h.set a (.inst c (setAssoc n v as)))
        -- an instance of a set subclass with a `__dict__`: setattr succeeds; the kernel's set
        -- cells carry no attribute dict, so nothing visible changes (stated limitation)
        | some (.set c _) => if (clsInfo cs c).hasDict then .ok h else .error (.assign "AttributeError")
        | _ => .error (.assign "AttributeError"))
     | _, .str _ => .error (.assign "AttributeError")
     | _, _ => .error (.assign "TypeError"))

/-- `Delete._del_one(dest, 'P', arg)` with `ignore_missing=False` (`delOp` adds the flag) -/
def deleteOne (cs : Classes) (h : Heap) (dest arg : Val) : Except MErr Heap :=
  match assignH cs (dest.clsName h) with
  | .none => .error .unregistered
  | .setitem =>
    (match dest with
     | .ref a =>
       (match h[a]? with
        | some (.dict c es) =>
          if !(arg.hashable h) then .error (.assign "TypeError")
          else if (dictLookup es arg).isSome then
            .ok (h.set a (.dict c (es.filter (fun e => !(pyKeyEq e.1 arg)))))
          else .error (.assign "KeyError")
        | _ => .error (.assign "TypeError"))
     | _ => .error (.assign "TypeError"))
  | .setSeq =>
    (match dest with
     | .ref a =>
       (match h[a]?, pyInt h arg with
        | some (.list c xs), .ok i =>
          let n : Int := xs.length
          let j := if i < 0 then i + n else i
          if j < 0 || j ≥ n then .error (.assign "IndexError")
          else .ok (h.set a (.list c (xs.eraseIdx j.toNat)))
        | some (.list _ _), .error e => .error (.assign e.cls)
        | _, _ => .error (.assign "TypeError"))
     | _ => .error (.assign "TypeError"))
  | .setattr =>
    (match dest, arg with
     | .ref a, .str n =>
       (match h[a]? with
        | some (.inst c as) =>
          if (as.find? (·.1 == n)).isSome then .ok (h.set a (.inst c (as.filter (fun p => p.1 != n))))
          else .error (.assign "AttributeError")
        | _ => .error (.assign "AttributeError"))
     | _, .str _ => .error (.assign "AttributeError")
     | _, _ => .error (.assign "TypeError"))

/-! ### the final step in T spelling (`[` / `.`) and the two flags

  `_assign_op`:  `[` → `dest[arg] = val`, `.` → `setattr(dest, arg, val)` — no `try`: whatever CPython
                 raises leaves `glom()` as it is (`MErr.raw`); `P` → the registered handler inside
                 `try … except Exception → PathAssignError` (`assignOne`).
  `_del_one`:    `[` → `del dest[arg]` catching KeyError / IndexError, `.` → `delattr` catching
                 AttributeError, `P` → the handler catching Exception; what is caught becomes a
                 PathDeleteError — or, with `ignore_missing=True`, nothing at all: that entry is left
                 alone and the loop of `_apply_for_each` goes on to the next one.  What is not caught
                 (a `TypeError` of `del (1, 2)[0]`, UnregisteredTarget from the handler lookup, which is
                 outside the `try`) propagates whatever the flag.                                   -/

/-- position `i` denotes in a sequence of length `n` -/
def seqPos (n : Nat) (i : Int) : Option Nat :=
  let j := if i < 0 then i + n else i
  if j < 0 || j ≥ n then none else some j.toNat

/-- `dest[arg] = v` -/
def setItemRaw (h : Heap) (dest arg v : Val) : Except MErr Heap :=
  match dest with
  | .ref a =>
    (match h[a]? with
     | some (.dict c es) =>
       if arg.hashable h then .ok (h.set a (.dict c (setDictKey arg v es))) else .error (.raw "TypeError")
     | some (.list c xs) =>
       (match asIndex arg with
        | none => .error (.raw "TypeError")
        | some i => match seqPos xs.length i with
          | some j => .ok (h.set a (.list c (xs.set j v)))
          | none => .error (.raw "IndexError"))
     | _ => .error (.raw "TypeError"))
  | _ => .error (.raw "TypeError")

/-- `setattr(dest, arg, v)` (an instance of a container subclass with a `__dict__` takes the
    attribute where the cell cannot show it, as in `assignOne`) -/
def setAttrRaw (cs : Classes) (h : Heap) (dest arg v : Val) : Except MErr Heap :=
  match arg with
  | .str n =>
    (match dest with
     | .ref a =>
       (match h[a]? with
        | some (.inst c as) => .ok (h.set a (.inst c (setAssoc n v as)))
        | some o => if (clsInfo cs o.cls).hasDict then .ok h else .error (.raw "AttributeError")
        | none => .error (.raw "AttributeError"))
     | _ => .error (.raw "AttributeError"))
  | _ => .error (.raw "TypeError")

/-- `_assign_op(dest, op, arg, val, …)` -/
def assignOp (cs : Classes) (op : String) (h : Heap) (dest arg v : Val) : Except MErr Heap :=
  if op == "[" then setItemRaw h dest arg v
  else if op == "." then setAttrRaw cs h dest arg v
  else assignOne cs h dest arg v

/-- `del dest[arg]`; `.assign cls`: an exception the `except (KeyError, IndexError)` clause catches -/
def delItemRaw (h : Heap) (dest arg : Val) : Except MErr Heap :=
  match dest with
  | .ref a =>
    (match h[a]? with
     | some (.dict c es) =>
       if !(arg.hashable h) then .error (.raw "TypeError")
       else if (dictLookup es arg).isSome then
         .ok (h.set a (.dict c (es.filter (fun e => !(pyKeyEq e.1 arg)))))
       else .error (.assign "KeyError")
     | some (.list c xs) =>
       (match asIndex arg with
        | none => .error (.raw "TypeError")
        | some i => match seqPos xs.length i with
          | some j => .ok (h.set a (.list c (xs.eraseIdx j)))
          | none => .error (.assign "IndexError"))
     | _ => .error (.raw "TypeError"))
  | _ => .error (.raw "TypeError")

/-- `delattr(dest, arg)`; `.assign "AttributeError"`: caught by `except AttributeError` -/
def delAttrRaw (h : Heap) (dest arg : Val) : Except MErr Heap :=
  match arg with
  | .str n =>
    (match dest with
     | .ref a =>
       (match h[a]? with
        | some (.inst c as) =>
          if (as.find? (·.1 == n)).isSome then .ok (h.set a (.inst c (as.filter (fun p => p.1 != n))))
          else .error (.assign "AttributeError")
        | _ => .error (.assign "AttributeError"))
     | _ => .error (.assign "AttributeError"))
  | _ => .error (.raw "TypeError")

/-- the deletion a final step denotes; `.assign cls`: it raised a class its `except` clause names -/
def delRaw (cs : Classes) (op : String) (h : Heap) (dest arg : Val) : Except MErr Heap :=
  if op == "[" then delItemRaw h dest arg
  else if op == "." then delAttrRaw h dest arg
  else deleteOne cs h dest arg

/-- `Delete._del_one(dest, op, arg, scope)` of a Delete built with `ignore_missing=ignore`:
    a *caught* failure is dropped when the flag is set — for this entry only -/
def delOp (cs : Classes) (op : String) (ignore : Bool) (h : Heap) (dest arg : Val) : Except MErr Heap :=
  match delRaw cs op h dest arg with
  | .error (.assign c) => if ignore then .ok h else .error (.assign c)
  | r => r

/-- `for inner in val: func(inner)` on one heap, stopping at the first exception (what was
    mutated before stays mutated) -/
def forEach (f : Heap → Val → Except MErr Heap) : Heap → List Res → Heap × Option MErr
  | h, [] => (h, none)
  | h, .val d :: rest =>
    (match f h d with
     | .ok h' => forEach f h' rest
     | .error e => (h, some e))
  | h, .list _ :: _ => (h, some .typeError)   -- unreachable by the nesting theorem

/-- `_apply_for_each(func, path, val)` -/
def applyForEach (layers : Nat) (f : Heap → Val → Except MErr Heap) (h : Heap) (val : Res) :
    Heap × Option MErr :=
  if layers == 0 then
    match val with
    | .val d => (match f h d with
      | .ok h' => (h', none)
      | .error e => (h, some e))
    | .list _ => (h, some .typeError)
  else
    match val with
    | .list xs =>
      (match flattenN (layers - 1) xs with
       | some inner => forEach f h inner
       | none => (h, some .typeError))
    | .val _ => (h, some .typeError)

end Glom.C14
