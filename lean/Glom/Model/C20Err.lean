/-
  C20 — the ERROR OBJECT of a glom call as a small state machine.

  A `GlomError` carries, in its `__dict__` (glom/core.py, class GlomError):
    `__wrapped`            the exception it wraps / was copied from        (`wrap`, `_set_wrapped`)
    `_scope`               the scope handed to `_finalize`                 (`_finalize`)
    `_tb_lines`            the traceback lines `_finalize` captured        (`_finalize`)
    `_finalized_str`       the message `__str__` rendered                  (`__str__`; reset by `_finalize`)
    `_target_spec_trace`   the target-spec trace `__str__` rendered        (`__str__`)
  The message of a finalized error is put together LAZILY, by `__str__`, from the scope; it is
  cached on the object.  A failing glom() call made from a callable inside a running glom() call
  hands ITS error to the enclosing call, whose handler copies it (`copy.copy`: `cls(*args)` plus the
  whole `__dict__`, caches included; `TypeMatchError.__copy__`: a fresh instance; the error itself
  when it cannot be re-created), sets `__wrapped`, and finalizes the copy with ITS scope.  User code
  in between (an `except` handler in the callable, a custom spec, a logger) may render the error any
  number of times, copy it, keep it and render it later.

  * `GlomError.__str__`                    → `render` (the two caches are switches of `Cfg`: which of
                                              them `__str__` reads before it writes, which `_finalize`
                                              resets — extracted from the source on every run)
  * `copy.copy(e)`                         → `Op.ucopy` / the first step of `Op.exit`
  * the handler of `glom()`               → `exit` (`err = copy.copy(e)` | `err = e` |
                                              `GlomError.wrap(e)`; `err._set_wrapped(e)`;
                                              `err._finalize(scope[LAST_CHILD_SCOPE])`)
  * `_finalize`                            → `finalize`: `traceback.format_exc()` renders the exception
                                              being handled (`e`, not `err`) into `_tb_lines`, then
                                              `_scope` is set and the caches are reset
  Texts are terms (`Text`): `format_target_spec_trace(scope, wrapped)` and the traceback lines are
  uninterpreted functions of what they are computed from, so equal terms are equal strings whatever
  the scopes hold.
-/
namespace Glom.C20.ErrM

/-- the rendered message, as a term -/
inductive Text where
  | plain (args : Nat)                 -- not finalized: `get_message()` / `Exception.__str__` of the args
  | attrError                          -- finalized without `_tb_lines` (not reachable through glom())
  | full (scope : Nat) (wrapped : Option Nat) (tbAt : Nat) (tbText : Text)
    -- header, `format_target_spec_trace(scope, wrapped)`, the traceback lines captured by the
    -- finalization `tbAt`, which end with the message of the exception then being handled
  deriving DecidableEq, Repr, Inhabited

/-- the `__dict__` of an error object -/
structure EObj where
  args : Nat
  wrapped : Option Nat := none
  scope : Option Nat := none
  tbLines : Option (Nat × Text) := none
  finalizedStr : Option Text := none
  traceMemo : Option (Nat × Option Nat) := none
  deriving DecidableEq, Repr

/-- objects by identity; an identity never seen before is an exception that was just raised -/
abbrev Heap := Nat → EObj

def Heap.init : Heap := fun e => { args := e }

def Heap.set (h : Heap) (a : Nat) (o : EObj) : Heap := fun b => if b = a then o else h b

/-- which caches the source has: what `__str__` reads before it has written it, what it stores, and
    what `_finalize` resets -/
structure Cfg where
  strReturnsMemo : Bool        -- `if getattr(self, '_finalized_str', None): return self._finalized_str`
  strStoresMemo : Bool         -- `self._finalized_str = "\n".join(parts)`
  strReusesTrace : Bool        -- `_target_spec_trace` is computed only when it is not there yet
  finalizeResetsMemo : Bool    -- `_finalize`: `self._finalized_str = None`
  finalizeResetsTrace : Bool   -- `_finalize`: `self._target_spec_trace = None`
  deriving DecidableEq, Repr

/-- `if getattr(self, '_finalized_str', None): return self._finalized_str` -/
def memoOf (cfg : Cfg) (o : EObj) : Option Text := if cfg.strReturnsMemo then o.finalizedStr else none

/-- the trace `__str__` shows: the one already on the object (when the source reuses it), or
    `format_target_spec_trace(self._scope, self.__wrapped)` -/
def traceOf (cfg : Cfg) (o : EObj) (s : Nat) : Nat × Option Nat :=
  match (if cfg.strReusesTrace then o.traceMemo else none) with
  | some tr => tr
  | none => (s, o.wrapped)

/-- header, trace, `parts.extend(self._tb_lines)` -/
def textOf (o : EObj) (tr : Nat × Option Nat) : Text :=
  match o.tbLines with
  | some (l, tt) => .full tr.1 tr.2 l tt
  | none => .attrError

/-- `GlomError.__str__` on the `__dict__` of the object -/
def strObj (cfg : Cfg) (o : EObj) : Text × EObj :=
  match memoOf cfg o with
  | some t => (t, o)
  | none =>
    match o.scope with
    | none => (.plain o.args, o)
    | some s =>
      let tr := traceOf cfg o s
      let t := textOf o tr
      (t, { o with traceMemo := some tr, finalizedStr := if cfg.strStoresMemo then some t else o.finalizedStr })

def render (cfg : Cfg) (h : Heap) (e : Nat) : Text × Heap :=
  let r := strObj cfg (h e)
  (r.1, h.set e r.2)

/-- `err._finalize(scope)` while `e` is the exception being handled -/
def finalize (cfg : Cfg) (h : Heap) (lvl e err : Nat) : Heap :=
  let r := render cfg h e                -- `traceback.format_exc()`
  let o := r.2 err
  r.2.set err { o with tbLines := some (lvl, r.1), scope := some lvl,
                       finalizedStr := if cfg.finalizeResetsMemo then none else o.finalizedStr,
                       traceMemo := if cfg.finalizeResetsTrace then none else o.traceMemo }

inductive CopyKind where
  | carry        -- `copy.copy(e)` through `__reduce_ex__`: `cls(*args)` and the whole `__dict__`
  | fresh        -- a `__copy__` that builds a new instance (TypeMatchError); `GlomError.wrap(e)`
  deriving DecidableEq, Repr

inductive ExitKind where
  | same                       -- the copy failed or changed the args: `err = e`
  | copy (k : CopyKind)
  deriving DecidableEq, Repr

def copyObj (h : Heap) (src dst : Nat) : CopyKind → Heap
  | .carry => h.set dst (h src)
  | .fresh => h.set dst { args := (h src).args }

/-- the handler of `glom()` for the call `lvl`, `e` being the exception that came out of `_glom` -/
def exit (cfg : Cfg) (h : Heap) (lvl e out : Nat) : ExitKind → Heap
  | .same =>
    let h1 := h.set e { h e with wrapped := some e }
    finalize cfg h1 lvl e e
  | .copy k =>
    let h0 := copyObj h e out k
    let h1 := h0.set out { h0 out with wrapped := some e }
    finalize cfg h1 lvl e out

/-- what happens to error objects -/
inductive Op where
  | render (e : Nat)                           -- user code renders `e` (str, logging, traceback.format_exception …)
  | ucopy (src dst : Nat) (k : CopyKind)       -- user code copies `src`
  | exit (lvl e out : Nat) (k : ExitKind)      -- the glom() call `lvl` ends with an error
  deriving DecidableEq, Repr

structure St where
  heap : Heap
  texts : List Text := []        -- what the user's renders returned, in order

def step (cfg : Cfg) (s : St) : Op → St
  | .render e => let r := render cfg s.heap e; { heap := r.2, texts := s.texts ++ [r.1] }
  | .ucopy src dst k => { s with heap := copyObj s.heap src dst k }
  | .exit lvl e out k => { s with heap := exit cfg s.heap lvl e out k }

def run (cfg : Cfg) : List Op → St → St
  | [], s => s
  | op :: r, s => run cfg r (step cfg s op)

end Glom.C20.ErrM
