import Glom.Model.C14S
import Glom.Model.C01
/-
  C14 — what surrounds the wildcard evaluation:

    * `Path.from_text` under the module switch `PATH_STAR`: with the switch on the segments `*` / `**`
      become the wildcard steps, with the switch off every segment is a plain one (a key / attribute
      named `*`)                                                              → `partsOfTextMode`
    * `Path(*parts)`: parts that are T expressions contribute their recorded ops, a nested `Path`
      contributes its own parts, anything else is a plain segment               → `PathPart`, `flattenParts`
    * `Coalesce(*paths, default=…).glomit` with the default `skip` / `skip_exc=GlomError`: the first
      subspec that does not raise a GlomError wins — its value is never inspected, so an empty list
      from a wildcard that matched nothing is a value like any other          → `coalesce`
    * `glom(target, path, default=d)`: `d` iff the evaluation raises a GlomError → `glomDefault`
-/
namespace Glom.C14
open Glom

/-- `Path.from_text(text)` under `PATH_STAR = star` -/
def partsOfTextMode (star : Bool) (text : List Char) : List Glom.C01.Part :=
  if star then Glom.C01.partsOfText text
  else (Glom.C01.splitDot text).map (fun seg => Glom.C01.Part.seg (Val.str (String.ofList seg)))

/-- the steps of a dotted text under the switch -/
def stepsOfText (star : Bool) (text : String) : List (String × Val) :=
  Glom.C01.stepsOfParts (partsOfTextMode star text.toList)

/-- an argument of `Path(...)` -/
inductive PathPart where
  | seg (v : Val)                          -- anything that is not a T / Path: a plain segment
  | t (steps : List (String × Val))        -- a T expression: its recorded ops
  | path (parts : List PathPart)           -- a Path: its `path_t`
  deriving Repr

mutual
/-- `Path(*parts).path_t.__ops__[1:]` as (op, arg) pairs -/
def PathPart.steps : PathPart → List (String × Val)
  | .seg v => [("P", v)]
  | .t st => st
  | .path ps => PathPart.stepsList ps
def PathPart.stepsList : List PathPart → List (String × Val)
  | [] => []
  | p :: ps => p.steps ++ PathPart.stepsList ps
end

/-- is the exception class a GlomError (what `skip_exc` names by default)?  Of the classes the
    wildcard evaluation can raise: PathAccessError (`EErr.pae`) and BadSpec are, nothing else is. -/
def isGlomErr : EErr → Bool
  | .pae _ => true
  | .other c => c == "BadSpec"

inductive CoOut where
  | ok (i : Nat) (r : Res)        -- the value of the `i`-th subspec
  | dflt                          -- the default
  | coalesceError                 -- every subspec raised and there is no default
  | other (cls : String)          -- an exception `skip_exc` does not name
  deriving Repr

/-- the `for subspec in self.subspecs: try … except self.skip_exc: continue / else: default` loop;
    `i`: index of the next subspec -/
def coalesce (cs : Classes) (h : Heap) (target : Val) (hasDefault : Bool) :
    List (List (String × Val)) → Nat → CoOut
  | [], _ => if hasDefault then .dflt else .coalesceError
  | steps :: rest, i =>
    match evalSteps cs h steps target with
    | .ok r => .ok i r                       -- `skip_func(ret)` is `False`: `break`
    | .error e =>
      if isGlomErr e then coalesce cs h target hasDefault rest (i + 1)
      else match e with
        | .other c => .other c
        | .pae _ => .other "PathAccessError"   -- unreachable: a PathAccessError is a GlomError

/-- `glom(target, path, default=d)` (`skip_exc` defaults to GlomError when a default is given) -/
def glomDefault (cs : Classes) (h : Heap) (target : Val) (hasDefault : Bool) (steps : List (String × Val)) :
    CoOut :=
  match evalSteps cs h steps target with
  | .ok r => .ok 0 r
  | .error e =>
    if hasDefault && isGlomErr e then .dflt
    else match e with
      | .pae _ => .other "PathAccessError"
      | .other c => .other c

end Glom.C14
