import Glom.Model.C17
/-
  C17 — boltons' iterator helpers, modelled from their SOURCE
  (`/venv/lib/python3.12/site-packages/boltons/iterutils.py`), statement by statement, as
  Python generators: a generator is a state and a `next` function; its upstream is an
  iterator over a source `src` (finite, raising at its end, or infinite) whose only state is
  its position — so "how many items were pulled" is the position.

  The transducers of `Model/C17.lean` (`Core.push` / `Core.flush`, driven by `pullFrom`) are
  what every theorem of C17 is about; `Lemmas/C17Boltons.lean` proves that each generator
  here denotes the same trace — same items, same end, same exception — and
  pulls what the transducer pulls, so the stage laws hold of the code as written, not of an
  assumed behaviour.

      def unique_iter(src, key=None):                  def chunked_iter(src, size, **kw):
          …                                                …
          seen = set()                                     src_iter = iter(src)
          for i in src:                                    while True:
              k = key_func(i)                                  cur_chunk = list(itertools.islice(src_iter, size))
              if k not in seen:                                if not cur_chunk:
                  seen.add(k)                                      break
                  yield i                                      lc = len(cur_chunk)
          return                                               if lc < size and do_fill:
                                                                   cur_chunk[lc:] = [fill_val] * (size - lc)
                                                               yield postprocess(cur_chunk)
                                                           return

      def split_iter(src, sep=None, maxsplit=None):    def windowed_iter(src, size, fill=_UNSET):
          …                                                tees = itertools.tee(src, size)
          cur_group = []                                   if fill is _UNSET:
          split_count = 0                                      try:
          for s in src:                                            for i, t in enumerate(tees):
              if maxsplit is not None and \                            for _ in range(i):
                      split_count >= maxsplit:                             next(t)
                  def sep_func(x): return False                except StopIteration:
              if sep_func(s):                                      return zip([])
                  if sep is None and not cur_group:            return zip(*tees)
                      continue
                  split_count += 1
                  yield cur_group
                  cur_group = []
              else:
                  cur_group.append(s)
          if cur_group or sep is not None:
              yield cur_group
          return
-/
namespace Glom.C17.Boltons
open Glom.C17

/-- `list(gen)` with a bound on the number of `next()` calls: the items, and how it ended -/
def collect {σ : Type} (next : σ → Res × σ) : Nat → σ → List V → List V × Res
  | 0, _, acc => (acc, .oof)
  | n + 1, g, acc =>
    match next g with
    | (.item v, g') => collect next n g' (acc ++ [v])
    | (.eof, _) => (acc, .eof)
    | (.err e, _) => (acc, .err e)
    | (.oof, _) => (acc, .oof)

/-! ### `unique_iter` -/

structure UniqueGen where
  pos : Nat                 -- the upstream iterator
  seen : List V := []       -- `seen` (what the set holds of each key: `V.key`)
  finished : Bool := false  -- the generator has returned or raised

/-- the `for i in src:` loop up to the next `yield`; `fuel` bounds the number of duplicates skipped -/
def uniqueLoop (src : Src) (key : Fn) : Nat → UniqueGen → Res × UniqueGen
  | 0, g => (.oof, g)
  | fuel + 1, g =>
    match src.next g.pos with
    | (.item i, pos') =>
      match key i with                                             -- k = key_func(i)
      | .error e => (.err e, { g with pos := pos', finished := true })
      | .ok k =>
        if !k.hashable then (.err "TypeError", { g with pos := pos', finished := true })   -- `k not in seen` hashes k
        else if g.seen.contains k.key then uniqueLoop src key fuel { g with pos := pos' }
        else (.item i, { g with pos := pos', seen := g.seen ++ [k.key] })                  -- seen.add(k); yield i
    | (.eof, pos') => (.eof, { g with pos := pos', finished := true })                     -- return
    | (.err e, pos') => (.err e, { g with pos := pos', finished := true })
    | (.oof, pos') => (.oof, { g with pos := pos' })

def uniqueNext (src : Src) (key : Fn) (fuel : Nat) (g : UniqueGen) : Res × UniqueGen :=
  if g.finished then (.eof, g) else uniqueLoop src key fuel g

/-! ### `chunked_iter` -/

/-- `list(itertools.islice(src_iter, n))`: up to `n` items; StopIteration ends the list, an
    exception propagates (and the items taken so far are lost) -/
def isliceList (src : Src) : Nat → Nat → List V → Except Err (List V) × Nat
  | 0, pos, acc => (.ok acc, pos)
  | n + 1, pos, acc =>
    match src.next pos with
    | (.item v, pos') => isliceList src n pos' (acc ++ [v])
    | (.eof, pos') => (.ok acc, pos')
    | (.err e, pos') => (.error e, pos')
    | (.oof, pos') => (.ok acc, pos')

structure ChunkedGen where
  pos : Nat
  finished : Bool := false

/-- one turn of `while True:` -/
def chunkedNext (src : Src) (size : Nat) (fill : Option V) (g : ChunkedGen) : Res × ChunkedGen :=
  if g.finished then (.eof, g) else
  match isliceList src size g.pos [] with                -- cur_chunk = list(islice(src_iter, size))
  | (.error e, pos') => (.err e, ⟨pos', true⟩)
  | (.ok [], pos') => (.eof, ⟨pos', true⟩)               -- if not cur_chunk: break
  | (.ok chunk, pos') => (.item (.list (padTo size fill chunk)), ⟨pos', false⟩)   -- fill; yield

/-! ### `split_iter` -/

structure SplitGen where
  pos : Nat
  curGroup : List V := []
  splitCount : Nat := 0
  finished : Bool := false

/-- `maxsplit is not None and split_count >= maxsplit` -/
def splitDone (maxsplit : Option Nat) (splitCount : Nat) : Bool :=
  match maxsplit with
  | some m => decide (splitCount ≥ m)
  | none => false

/-- `sep is None` -/
def sepIsNone : Sep → Bool
  | .none => true
  | _ => false

/-- the `for s in src:` loop up to the next `yield`, then the statements after the loop -/
def splitLoop (src : Src) (sep : Sep) (maxsplit : Option Nat) : Nat → SplitGen → Res × SplitGen
  | 0, g => (.oof, g)
  | fuel + 1, g =>
    match src.next g.pos with
    | (.item s, pos') =>
      -- `if maxsplit is not None and split_count >= maxsplit: sep_func = lambda x: False`
      let isSep : Except Err Bool :=
        if splitDone maxsplit g.splitCount then .ok false else isSepE sep s
      match isSep with
      | .error e => (.err e, { g with pos := pos', finished := true })
      | .ok true =>
        if sepIsNone sep && g.curGroup.isEmpty then
          splitLoop src sep maxsplit fuel { g with pos := pos' }                                  -- continue
        else (.item (.list g.curGroup), { g with pos := pos', curGroup := [], splitCount := g.splitCount + 1 })
      | .ok false => splitLoop src sep maxsplit fuel { g with pos := pos', curGroup := g.curGroup ++ [s] }
    | (.eof, pos') =>
      -- `if cur_group or sep is not None: yield cur_group` … `return`
      if !g.curGroup.isEmpty || !sepIsNone sep then
        (.item (.list g.curGroup), { g with pos := pos', curGroup := [], finished := true })
      else (.eof, { g with pos := pos', finished := true })
    | (.err e, pos') => (.err e, { g with pos := pos', finished := true })
    | (.oof, pos') => (.oof, { g with pos := pos' })

def splitNext (src : Src) (sep : Sep) (maxsplit : Option Nat) (fuel : Nat) (g : SplitGen) : Res × SplitGen :=
  if g.finished then (.eof, g) else splitLoop src sep maxsplit fuel g

/-! ### `windowed_iter`: `itertools.tee` and `zip` -/

/-- `itertools.tee(src, n)`: the `n` iterators share what was pulled from `src` (`buf`, oldest
    first, counted from the creation of the tees); `idx[i]` is how far tee `i` has read -/
structure Tees where
  pos : Nat
  buf : List V := []
  idx : List Nat

def Tees.init (pos size : Nat) : Tees := ⟨pos, [], List.replicate size 0⟩

/-- `next(tees[i])`: an item somebody else pulled already, or a new one from `src` -/
def teeNext (src : Src) (t : Tees) (i : Nat) : Res × Tees :=
  let j := t.idx.getD i 0
  match t.buf[j]? with
  | some v => (.item v, { t with idx := t.idx.set i (j + 1) })
  | none =>
    match src.next t.pos with
    | (.item v, pos') => (.item v, { pos := pos', buf := t.buf ++ [v], idx := t.idx.set i (j + 1) })
    | (r, pos') => (r, { t with pos := pos' })

/-- `for _ in range(n): next(t)` on tee `i` -/
def teeAdvance (src : Src) : Nat → Tees → Nat → Res × Tees
  | 0, t, _ => (.item .none, t)
  | n + 1, t, i =>
    match teeNext src t i with
    | (.item _, t') => teeAdvance src n t' i
    | r => r

/-- `for i, t in enumerate(tees): for _ in range(i): next(t)`, tees `i, i+1, …` (`m` of them) -/
def primeTees (src : Src) : Nat → Nat → Tees → Res × Tees
  | 0, _, t => (.item .none, t)
  | m + 1, i, t =>
    match teeAdvance src i t i with
    | (.item _, t') => primeTees src m (i + 1) t'
    | r => r

/-- what `windowed_iter` returns: `zip(*tees)`, the empty `zip([])`, or it raised -/
inductive WindowedGen where
  | zip (t : Tees) (size : Nat)
  | empty (pos : Nat)

/-- `windowed_iter(src, size)` itself (a plain function: it runs when `glomit` runs) -/
def windowedInit (src : Src) (pos size : Nat) : Except (Err × Nat) WindowedGen :=
  match primeTees src size 0 (Tees.init pos size) with
  | (.item _, t) => .ok (.zip t size)
  | (.eof, t) => .ok (.empty t.pos)                -- `except StopIteration: return zip([])`
  | (.err e, t) => .error (e, t.pos)
  | (.oof, t) => .ok (.empty t.pos)

/-- `zip.__next__`: `next()` on every iterator in turn; the first StopIteration ends the zip -/
def zipLoop (src : Src) : Nat → Nat → Tees → List V → Res × Tees
  | 0, _, t, acc => (.item (.tup acc), t)
  | m + 1, i, t, acc =>
    match teeNext src t i with
    | (.item v, t') => zipLoop src m (i + 1) t' (acc ++ [v])
    | r => r

def WindowedGen.pos : WindowedGen → Nat
  | .zip t _ => t.pos
  | .empty p => p

def windowedNext (src : Src) : WindowedGen → Res × WindowedGen
  | .empty p => (.eof, .empty p)
  | .zip t size =>
    match zipLoop src size 0 t [] with
    | (.item v, t') => (.item v, .zip t' size)
    | (.eof, t') => (.eof, .empty t'.pos)
    | (.err e, t') => (.err e, .empty t'.pos)
    | (.oof, t') => (.oof, .zip t' size)

end Glom.C17.Boltons
