import Glom.Model.C01
import Glom.Model.C01Py
/-
  C01 — code-shaped model of path access *with the registry as state*.

  Mirrors glom/core.py:
    * `TargetRegistry._op_type_map['get']`, `_op_type_tree['get']`, `_type_cache`
                              → `Table.map`, `Table.tree`, `Reg.cache`
    * `TargetRegistry.get_handler('get', obj)`  → `Reg.getHandler` (memo first; on a
      miss the exact type, else the closest fuzzily registered type; `False` is
      UnregisteredTarget and is *not* memoised by a raising lookup — one remembered
      from a raise_exc=False lookup raises all the same; a hit is memoised)
    * `TargetRegistry.register(t, get=…, exact=…)` → `Reg.register` (memo reset)
    * `_t_eval`'s `while i < fetch_till` loop   → `tLoop2`: the registry is threaded
      through the loop (every 'P' step may grow the memo), `part_idx = i // 2`,
      PathAccessError exactly for the classes the branch's `except` names
      (extracted), anything else propagates unchanged.
    * a sequence of `Glommer.register` / `Glommer.glom` calls → `runHistory`.

  The closest-type search itself (`_get_closest_type` on the type tree, ABCs) is
  the subject of C13; here its result is the nearest fuzzily registered class of
  the *effective MRO* (the class table lists glom's two duck types after every
  real base class other than `object`).
-/
namespace Glom.C01
open Glom

/-- a `get` handler -/
inductive Handler where
  | getattr                      -- builtin getattr
  | getitem                      -- operator.getitem
  | seqItem                      -- glom's _get_sequence_item
  | table (attr : String)        -- lambda o, k: getattr(o, attr)[k]
  | glomTable (attr : String)    -- lambda o, k: glom(getattr(o, attr), Path(k)): a handler written with glom
  | raises (cls : String)        -- a handler that raises cls
  | off                          -- get=False
  | named (n : String)           -- any other callable: `Env.hsem n`
  deriving DecidableEq, Repr, Inhabited

def Handler.ofName (s : String) : Handler :=
  if s == "getattr" then .getattr
  else if s == "getitem" then .getitem
  else if s == "_get_sequence_item" then .seqItem
  else if s == "False" then .off
  else .named s

structure Table where
  map : List (String × Handler)    -- `_op_type_map['get']` (the first entry of a type is the current one)
  tree : List String               -- the types in `_op_type_tree['get']` (registered with exact=False)
  deriving DecidableEq, Repr, Inhabited

structure Reg where
  tbl : Table
  cache : List (String × Handler)  -- `_type_cache`, op 'get'
  deriving DecidableEq, Repr, Inhabited

def alookup {β} (l : List (String × β)) (c : String) : Option β :=
  match l with
  | [] => none
  | (c', b) :: r => if c' == c then some b else alookup r c

/-- the registered type that decides for instances of `cls`: the class itself if
    it has an entry, else the nearest class of its MRO registered fuzzily -/
def Table.nearestType (t : Table) (ct : ClassTable) (cls : String) : Option String :=
  (ct.mro cls).find? (fun c => (c == cls && (alookup t.map c).isSome) || t.tree.contains c)

/-- the handler in force for instances of `cls` (`none`: none, or `False`) -/
def Table.nearest (t : Table) (ct : ClassTable) (cls : String) : Option Handler :=
  match t.nearestType ct cls with
  | some c =>
    match alookup t.map c with
    | some .off => none
    | some hn => some hn
    | none => none
  | none => none

/-- `get_handler('get', obj)` → handler (`none` = UnregisteredTarget) and the registry after it -/
def Reg.getHandler (r : Reg) (ct : ClassTable) (cls : String) : Option Handler × Reg :=
  match alookup r.cache cls with
  | some .off => (none, r)          -- a `False` remembered from a raise_exc=False lookup: raises all the same
  | some hn => (some hn, r)
  | none =>
    match r.tbl.nearest ct cls with
    | some hn => (some hn, { r with cache := (cls, hn) :: r.cache })
    | none => (none, r)

/-- `register(cls, get=hn, exact=exact)`; `hn = none`: no `get` keyword — the
    current entry of `cls` is kept, else the auto-discovered `getattr` -/
def Table.register (t : Table) (cls : String) (hn : Option Handler) (exact : Bool) : Table :=
  let h : Handler := match hn with
    | some x => x
    | none => match alookup t.map cls with
      | some x => x
      | none => .getattr
  { map := (cls, h) :: t.map
    tree := if exact || t.tree.contains cls then t.tree else cls :: t.tree }

/-- `get_handler('get', obj, raise_exc=False)`: like `getHandler`, but a missing handler is
    not an error — `False` is returned *and memoised* -/
def Reg.probe (r : Reg) (ct : ClassTable) (cls : String) : Reg :=
  match alookup r.cache cls with
  | some _ => r
  | none =>
    match r.tbl.nearest ct cls with
    | some hn => { r with cache := (cls, hn) :: r.cache }
    | none => { r with cache := (cls, .off) :: r.cache }

def Reg.register (r : Reg) (cls : String) (hn : Option Handler) (exact : Bool) : Reg :=
  { tbl := r.tbl.register cls hn exact, cache := [] }

/-! ### the evaluation loop -/

structure Env where
  k : KEnv
  dispatch : List (String × String × List String)   -- op ↦ (kind, classes its `except` names)
  excTable : ClassTable
  hsem : String → Heap → Val → Val → Acc            -- what a `named` handler does

def Env.isKind (env : Env) (kinds : List String) (e : PyExc) : Bool :=
  kinds.any (fun c => env.excTable.isSub e.cls c)

def Env.dispatchOf (env : Env) (op : String) : Option (String × List String) :=
  match env.dispatch.find? (·.1 == op) with
  | some (_, kc) => some kc
  | none => none

def Env.applyHandler (env : Env) (h : Heap) (hn : Handler) (cur arg : Val) : Acc :=
  match hn with
  | .getattr => pyGetattr2 env.k h cur arg
  | .getitem => pyGetitem2 env.k h cur arg
  | .seqItem => pySeqGet2 env.k h cur arg
  | .table a =>
    match pyGetattr2 env.k h cur (.str a) with
    | .ok d => pyGetitem2 env.k h d arg
    | x => x
  | .glomTable a =>
    match pyGetattr2 env.k h cur (.str a) with
    | .ok d => glomOnTable env.k h d arg
    | x => x
  | .raises c => .err ⟨c⟩
  | .off => .beyond
  | .named n => env.hsem n h cur arg

/-- what the logging classes record when the handler runs -/
def Env.handlerLog (env : Env) (h : Heap) (hn : Handler) (cur arg : Val) : List Nat :=
  match hn with
  | .getattr => attrLog env.k h cur arg
  | .getitem => itemLog env.k h cur
  | .seqItem => seqLog env.k h cur arg
  | .table a =>
    attrLog env.k h cur (.str a) ++
    (match pyGetattr2 env.k h cur (.str a) with
     | .ok d => itemLog env.k h d
     | _ => [])
  | .glomTable a => attrLog env.k h cur (.str a)     -- the inner call runs on a plain dict
  | _ => []

inductive TErr2 where
  | pae (idx : Nat) (e : PyExc)      -- PathAccessError(e, path, idx)
  | raised (e : PyExc)               -- an exception the branch's `except` does not name
  | unregistered                     -- UnregisteredTarget
  | badSpec                          -- malformed ops tuple / not an access op
  | beyond                           -- the access left the modelled domain
  deriving DecidableEq, Repr

structure Out2 where
  res : Except TErr2 Val
  touched : List (Nat × Val)
  reg : Reg
  log : List Nat := []             -- what the access-logging objects recorded, in order
  deriving Repr

/-- the primitive a branch of `_t_eval` runs: the outcome and the registry after it;
    `none`: no such branch / no handler -/
inductive Prim where
  | ran (a : Acc) (lg : List Nat) (r : Reg)
  | unregistered (r : Reg)
  | noBranch

def Env.prim (env : Env) (h : Heap) (kind : String) (cur arg : Val) (r : Reg) : Prim :=
  if kind == "getattr" then .ran (pyGetattr2 env.k h cur arg) (attrLog env.k h cur arg) r
  else if kind == "getitem" then .ran (pyGetitem2 env.k h cur arg) (itemLog env.k h cur) r
  else if kind == "handler" then
    -- the class of a value the kernel does not describe is unknown, and so is its handler
    if !(modelled h cur) then .ran .beyond [] r else
    match r.getHandler env.k.ct (cur.clsName h) with
    | (some hn, r') => .ran (env.applyHandler h hn cur arg) (env.handlerLog h hn cur arg) r'
    | (none, r') => .unregistered r'
  else .noBranch

def tLoop2 (env : Env) (h : Heap) (flat : List Val) (i : Nat) (cur : Val)
    (tr : List (Nat × Val)) (r : Reg) (lg : List Nat) : Out2 :=
  if _hlt : i < flat.length then
    match flat[i]?, flat[i+1]? with
    | some (.str op), some arg =>
      match env.dispatchOf op with
      | some (kind, caught) =>
        match env.prim h kind cur arg r with
        | .ran (.ok v) l r' => tLoop2 env h flat (i + 2) v (tr ++ [(i / 2, cur)]) r' (lg ++ l)
        | .ran (.err e) l r' =>
          if env.isKind caught e then ⟨.error (.pae (i / 2) e), tr ++ [(i / 2, cur)], r', lg ++ l⟩
          else ⟨.error (.raised e), tr ++ [(i / 2, cur)], r', lg ++ l⟩
        | .ran .beyond l r' => ⟨.error .beyond, tr ++ [(i / 2, cur)], r', lg ++ l⟩
        | .unregistered r' => ⟨.error .unregistered, tr, r', lg⟩
        | .noBranch => ⟨.error .badSpec, tr, r, lg⟩
      | none => ⟨.error .badSpec, tr, r, lg⟩
    | _, _ => ⟨.error .badSpec, tr, r, lg⟩
  else ⟨.ok cur, tr, r, lg⟩
termination_by flat.length - i

def tEval2 (env : Env) (h : Heap) (flat : List Val) (target : Val) (r : Reg) : Out2 :=
  match flat with
  | .sent "T" :: _ => tLoop2 env h flat 1 target [] r []
  | _ => ⟨.error .badSpec, [], r, []⟩

/-! ### building the flat tuple: `Path(...)` with nested Paths, `Path.from_text` -/

/-- a part given to `Path(...)`: a plain value (→ `'P'`), a T-rooted expression
    given by its `(op, arg)` steps, or another Path -/
inductive Part2 where
  | seg (v : Val)
  | t (steps : List (String × Val))
  | path (parts : List Part2)

mutual
/-- what `Path.__init__` appends for one part: a Path is replaced by its `path_t`,
    a T contributes its own ops two by two, anything else one `'P'` step -/
def stepsOfPart2 : Part2 → List (String × Val)
  | .seg v => [("P", v)]
  | .t st => st
  | .path ps => stepsOfParts2 ps
def stepsOfParts2 : List Part2 → List (String × Val)
  | [] => []
  | p :: r => stepsOfPart2 p ++ stepsOfParts2 r
end

/-- `Path(*parts).path_t.__ops__` -/
def flatOfParts2 (parts : List Part2) : List Val :=
  Val.sent "T" :: flatOfSteps (stepsOfParts2 parts)

/-- `Path.from_text(text)`: split on `'.'`; with `PATH_STAR` the segments `*` / `**`
    become wildcard steps, without it they are plain segments -/
def partsOfTextS (star : Bool) (text : List Char) : List Part2 :=
  (splitDot text).map (fun seg =>
    if star && seg = ['*'] then Part2.t [("x", Val.none)]
    else if star && seg = ['*', '*'] then Part2.t [("X", Val.none)]
    else Part2.seg (Val.str (String.ofList seg)))

/-! ### histories: calls of one Glommer, in order -/

inductive Event where
  | register (cls : String) (hn : Option Handler) (exact : Bool)
  | glom (steps : List (String × Val)) (target : Val)
  | probe (target : Val)          -- registry.get_handler('get', target, raise_exc=False)
  deriving Repr

def runHistory (env : Env) (h : Heap) : Reg → List Event → List Out2
  | _, [] => []
  | r, .register c hn ex :: es => runHistory env h (r.register c hn ex) es
  | r, .glom steps t :: es =>
    let o := tEval2 env h (Val.sent "T" :: flatOfSteps steps) t r
    o :: runHistory env h o.reg es
  | r, .probe t :: es => runHistory env h (r.probe env.k.ct (t.clsName h)) es

/-- the registry a history leaves behind -/
def histReg (env : Env) (h : Heap) : Reg → List Event → Reg
  | r, [] => r
  | r, .register c hn ex :: es => histReg env h (r.register c hn ex) es
  | r, .glom steps t :: es =>
    histReg env h (tEval2 env h (Val.sent "T" :: flatOfSteps steps) t r).reg es
  | r, .probe t :: es => histReg env h (r.probe env.k.ct (t.clsName h)) es

end Glom.C01
