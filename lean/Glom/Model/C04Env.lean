import Glom.Model.C04Shape
import Glom.Generated.ExcFacts
import Glom.Generated.TFacts
import Glom.Generated.C04Facts
/-
  The facts of C04 instantiated with what the extractor regenerated from /repo.
-/
namespace Glom.C04
open Glom

def tableMro (t : List (String × List String)) (c : String) : List String :=
  match t.find? (·.1 == c) with
  | some (_, m) => m
  | none => [c, "object"]

/-- constructor shape of one of glom's own exception classes (extracted `excCtor`) -/
def shapeOfRow (lo : Nat) (hi : Int) (store : String) : Option Shape :=
  let h : Option Nat := if hi < 0 then none else some hi.toNat
  if store == "all" then some (.sig lo h false .all)
  else if store == "tme" then some (.sig lo h false .tme)
  else none

def internalShape (rows : List (String × Nat × Int × String)) (c : String) : Option Shape :=
  match rows.find? (·.1 == c) with
  | some (_, lo, hi, st) => shapeOfRow lo hi st
  | none => none

/-- a class that exists in /repo (builtin or glom's own), by name -/
def repoClass (c : String) (sh : Shape) : ClassInfo :=
  mkClass c ((tableMro Generated.excTable c).drop 1) sh

def parseDef (s : String) : Option (Option DefV) :=
  if s == "None" then some (some .none_) else if s == "_MISSING" then some none else Option.none

def parseSkip (s : String) : Option (List String) :=
  if s == "()" then some [] else if s == "GlomError" then some ["GlomError"] else none

def expectedOuterSteps : List String :=
  ["debug-reraise", "if-glomerror", "copy", "set-wrapped", "else", "wrap", "end", "finalize-or-reraise"]

/-- the classes a `_t_eval` branch turns into PathAccessError (extracted `tDispatch`) -/
def dispatchCatch (op : String) : List String :=
  match Generated.tDispatch.find? (·.1 == op) with
  | some (_, _, cs) => cs
  | none => ["?"]

def genFacts : Facts :=
  { shapeOk :=
      Generated.glomOuterSteps == expectedOuterSteps &&
      Generated.glomDefaultCond == "'skip_exc' in kwargs" &&
      Generated.glomSkipCond == "default is _MISSING" &&
      (parseDef Generated.glomDefaultIf).isSome && (parseDef Generated.glomDefaultElse).isSome &&
      (parseSkip Generated.glomSkipIf).isSome && (parseSkip Generated.glomSkipElse).isSome &&
      Generated.glomDebugDefault == "GLOM_DEBUG" &&
      Generated.glomBodyCall == "ret = _glom(target, spec, scope)" &&
      Generated.glomInnerCatch == ["skip_exc"] &&
      Generated.glomInnerBody == ["if default is _MISSING:  raise", "ret = default"] &&
      (Generated.glomErrTest == "truthy" || Generated.glomErrTest == "is-not-none") &&
      Generated.wrapBases == "glomerror-alone-if-superclass-else-(exc_type,GlomError)" &&
      Generated.wrapCtorCall == "*exc.args" &&
      Generated.frameReraises &&
      Generated.coalesceCatch == ["self.skip_exc"] && Generated.coalesceContinues &&
      Generated.coalesceElseRaises == "CoalesceError" &&
      (parseSkip Generated.coalesceSkipDefault).isSome &&
      (Generated.copyOverrides == [("TypeMatchError", "TypeMatchError", [2, 1])] ||
       Generated.copyOverrides == [("TypeMatchError", "type(self)", [2, 1])]) &&
      internalShape Generated.excCtor "TypeMatchError" == some (.sig 2 (some 2) false .tme) &&
      Generated.listIterShapeOk &&
      Generated.entryPointsOk
    defIfSkip := ((parseDef Generated.glomDefaultIf).getD none)
    defElse := ((parseDef Generated.glomDefaultElse).getD none)
    skipIfMissing := (parseSkip Generated.glomSkipIf).getD []
    skipElse := (parseSkip Generated.glomSkipElse).getD []
    debugDefault := Generated.glomDebugEnvValue
    outerCatch := Generated.glomOuterCatch
    copyArgsCheck := Generated.glomCopyArgsCheck
    copyFallback := Generated.glomCopyFallback.contains "Exception"
    wrapArgsCheck := Generated.wrapArgsCheck
    wrapFallback := Generated.wrapFallback.contains "Exception"
    wrapTypeInTry := Generated.wrapTypeInTry
    attrGuarded := Generated.glomAttrGuarded
    errTestTruthy := Generated.glomErrTest == "truthy"
    tmeCopyFixed := Generated.copyOverrides == [("TypeMatchError", "TypeMatchError", [2, 1])]
    tmeMro := tableMro Generated.excTable "TypeMatchError"
    frameCatch := Generated.frameCatch
    coalesceSkipDefault := (parseSkip Generated.coalesceSkipDefault).getD []
    iterCatch := Generated.listIterCatch
    iterRaises := Generated.listIterRaises
    getitemCatch := dispatchCatch "["
    getattrCatch := dispatchCatch "."
    pathCatch := dispatchCatch "P" }

end Glom.C04
