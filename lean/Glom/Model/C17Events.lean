import Glom.Model.C17
/-
  C17 — a consumer that goes on after an exception (a skip-bad-rows loop): `next()` → exception →
  `next()` on the SAME iterator.  What comes then depends on what kind of object each stage is
  (`Kind.survives`, `StageSt.afterError`): a `map` / `filter` / `takewhile` / `dropwhile` object carries
  on with the next element; a generator (`_iterate`, `chunked_iter`, `split_iter`, `unique_iter`), `islice`
  and `chain.from_iterable` are finished — `StopIteration` from then on, and the source is pulled no further.
-/
namespace Glom.C17

/-- what one `next()` gave -/
inductive Evt where
  | item (v : V)
  | err (e : Err)
  deriving Inhabited

/-- `it = glom(target, spec)` and then `n` calls of `next(it)`, exceptions caught and the loop continued;
    each event with the position of the source after it; `none` at the end = StopIteration -/
def nextN (src : Src) (fuel : Nat) : Nat → List StageSt → Nat → List (Option Evt × Nat)
  | 0, _, _ => []
  | n + 1, sts, pos =>
    match pullFrom src fuel sts pos with
    | (.item v, sts', pos') => (some (.item v), pos') :: nextN src fuel n sts' pos'
    | (.err e, sts', pos') => (some (.err e), pos') :: nextN src fuel n sts' pos'
    | (.eof, _, pos') => [(none, pos')]
    | (.oof, _, _) => []

inductive EventsOut where
  | opened (evs : List (Option Evt × Nat))
  | glomitRaised (e : Err) (pos : Nat)
  | oof

def runEvents (kinds : List Kind) (src : Src) (fuel n : Nat) : EventsOut :=
  match construct src fuel kinds [] 0 with
  | .ok sts pos => .opened (nextN src fuel n sts pos)
  | .err e pos => .glomitRaised e pos
  | .oof => .oof

end Glom.C17
