import Glom.Model.C16
/-
  C16 — process state OUTSIDE the accumulator tree, made explicit.

  `groupEval` takes no state: that Group mode keeps nothing between two evaluations (in
  attributes of the Group / aggregator / Limit objects, in module-level tables, in class
  attributes, in mutable default arguments) is a fact about the SOURCE, not something a
  stateless model can show.  Here the state is threaded through a history of evaluations:

  * `StateFacts` is what the extractor finds in glom/grouping.py and glom/reduction.py: every
    store to / mutation of `self.<attr>` per method, every rebinding / mutation of a module-level
    name per function, the module-level bindings that are not immutable, class-body bindings and
    mutable default arguments;
  * an evaluation RUNS methods on objects (`callsOf`), each of which READS cells (`readsOf`: the
    constructor arguments the model takes from the spec — `spec`, `n`, `subspec`, `size`, `init`,
    `op` —, and every module-level / class-level mutable binding) and WRITES the cells the facts
    say it writes;
  * `evalHistoryS` threads the set of cells written since construction: an evaluation that reads
    a written cell has NO defined result in the model (`none`: the stateless `groupEval` does not
    apply), otherwise it is `groupEval`.

  `c16_history_independent` (Props) is then a theorem about every `StateFacts` value that is
  `quiet`; that the extracted value IS quiet is part of the per-run facts obligation.  With a
  writing method (the per-type dispatch memo of seeded change s8, a counter in `Limit.glomit`)
  the theorem's hypothesis fails and the history is not the list of stand-alone evaluations
  (counter-examples in Props).
-/
namespace Glom.C16

structure StateFacts where
  /-- (Class.method, attribute): every store to / `del` of / mutating call on `self.<attribute>` -/
  selfWrites : List (String × String)
  /-- (function, name): `global` rebinding of, store into, mutating call on a module-level name -/
  globalWrites : List (String × String)
  /-- (module, name): module-level bindings whose value is not an immutable literal / a sentinel -/
  mutableGlobals : List (String × String)
  /-- (Class, name): class-body bindings other than `__slots__`; (function, parameter): default
      arguments that are not constants / names -/
  classState : List (String × String)
  deriving Repr

/-- a cell of state outside the tree -/
inductive Cell where
  | attr (obj : Nat) (name : String)       -- an attribute of spec object `obj`
  | shared (name : String)                 -- a module-level / class-level binding, a default argument
  deriving Repr, BEq, DecidableEq

/-- the methods that set up a spec object: their writes are the construction -/
def initMethods : List String :=
  ["Group.__init__", "Limit.__init__", "Sample.__init__", "Fold.__init__", "Sum.__init__", "Count.__init__",
   "Flatten.__init__", "Merge.__init__"]

/-- the methods an evaluation can run -/
def runtimeMethods : List String :=
  ["Group.glomit", "GROUP", "target_iter", "First.agg", "Max.agg", "Min.agg", "Avg.agg", "Sample.agg",
   "Limit.glomit", "Fold.glomit", "Fold._agg", "Merge._agg"]

def aggCalls (oid : Nat) : Agg → List (String × Nat)
  | .first => [("First.agg", oid)]
  | .max => [("Max.agg", oid)]
  | .min => [("Min.agg", oid)]
  | .avg => [("Avg.agg", oid)]
  | .sample .. => [("Sample.agg", oid)]
  | .sum _ | .count | .flatten _ => [("Fold.glomit", oid), ("Fold._agg", oid)]
  | .merge _ => [("Fold.glomit", oid), ("Merge._agg", oid)]
  | .clsLast | .clsCount | .unbound => []          -- the user's own classes: not glom's code

/-- (method, object) pairs an evaluation of the spec runs (GROUP and target_iter are functions:
    object 0) -/
def callsIn : GSpec → List (String × Nat)
  | .agg oid a => ("GROUP", 0) :: aggCalls oid a
  | .fn _ => [("GROUP", 0)]
  | .list .. => [("GROUP", 0)]
  | .dict _ _ _ sub => ("GROUP", 0) :: callsIn sub
  | .limit oid _ sub => ("Limit.glomit", oid) :: callsIn sub
  | .nested gid g => ("GROUP", 0) :: ("Group.glomit", gid) :: ("target_iter", 0) :: callsIn g
  | .foldG oid _ gid g =>
    ("GROUP", 0) :: ("Fold.glomit", oid) :: ("Fold._agg", oid) :: ("Merge._agg", oid) ::
      ("Group.glomit", gid) :: ("target_iter", 0) :: callsIn g

/-- the evaluation `glom(target, <Group object gid with spec g>)` -/
def callsOf (gid : Nat) (g : GSpec) : List (String × Nat) :=
  ("Group.glomit", gid) :: ("target_iter", 0) :: callsIn g

/-- the attributes of its object a method reads — what the model takes from the spec instead -/
def attrsRead : String → List String
  | "Group.glomit" => ["spec"]
  | "Limit.glomit" => ["n", "subspec"]
  | "Sample.agg" => ["size"]
  | "Fold.glomit" => ["subspec"]
  | "Fold._agg" => ["init", "op"]
  | "Merge._agg" => ["init", "op"]
  | _ => []

def writesOf (sf : StateFacts) (c : String × Nat) : List Cell :=
  ((sf.selfWrites.filter (fun w => w.1 == c.1)).map (fun w => Cell.attr c.2 w.2)) ++
  ((sf.globalWrites.filter (fun w => w.1 == c.1)).map (fun w => Cell.shared w.2))

/-- the cells a call reads: its object's constructor arguments, and every shared mutable binding -/
def readsOf (sf : StateFacts) (c : String × Nat) : List Cell :=
  (attrsRead c.1).map (Cell.attr c.2) ++
  (sf.mutableGlobals.map (fun m => Cell.shared m.2)) ++ (sf.classState.map (fun m => Cell.shared m.2))

/-- one evaluation with the cells written so far: the result (`none`: a cell it reads was written
    — by an earlier evaluation or by this one —, the stateless model does not apply) and the
    cells written afterwards -/
def evalS (sf : StateFacts) (dirty : List Cell) (gid : Nat) (g : GSpec) (items : List V) :
    Option (Except Err V) × List Cell :=
  let calls := callsOf gid g
  let written := dirty ++ calls.flatMap (writesOf sf)
  let tainted := calls.any (fun c => (readsOf sf c).any (fun r => written.contains r))
  (if tainted then none else some (groupEval g items), written)

/-- a history of evaluations in one process, the written cells threaded through (`gidOf i`: the
    number of the Group object that spec `i` of the history is — the same number as a nested
    Group when it is that very object) -/
def evalHistoryS (sf : StateFacts) (gidOf : Nat → Nat) (specs : List GSpec) (targets : List (List V)) :
    List (Nat × Nat) → List Cell → List (Option (Except Err V)) × List Cell
  | [], dirty => ([], dirty)
  | e :: es, dirty =>
    match specs[e.1]?, targets[e.2]? with
    | some g, some its =>
      let r := evalS sf dirty (gidOf e.1) g its
      let rest := evalHistoryS sf gidOf specs targets es r.2
      (r.1 :: rest.1, rest.2)
    | _, _ =>
      let rest := evalHistoryS sf gidOf specs targets es dirty
      (none :: rest.1, rest.2)

/-- **no state outside the tree**: only the constructors write attributes, no function writes a
    module-level name, there is no mutable module-level / class-level binding, no mutable default -/
def StateFacts.quiet (sf : StateFacts) : Bool :=
  sf.selfWrites.all (fun w => initMethods.contains w.1) && sf.globalWrites.isEmpty &&
  sf.mutableGlobals.isEmpty && sf.classState.isEmpty

end Glom.C16
