import Glom.Model.C18Slice
/-
  C18 — code-shaped model of `repr` / `eval(repr)` / pickling of T expressions and
  Paths, and of Path as a sequence of steps.

  Mirrors glom/core.py (and the part of the standard library it prints with):
    * `_format_t`, `_format_slice`, `format_invocation`, `_format_path`,
      `TType.__repr__`, `Path.__repr__`                          → `fmtArg`, `fmtItem`, `fmtStep`, `fmtT`, `fmtPath`, `reprObj`
      producing *token trees*: the text after Python's tokenizer matched the
      brackets.  A scalar argument (int, str, bytes, float, None, True, False,
      Ellipsis, a builtin function / class) is one atomic token `lit v`; that
      Python's lexer reads the text of such a token back as the value is
      CPython's, trusted.  Everything above the scalars is modelled: tuples
      (1-tuple comma, `()`), lists, sets (`set()`), frozensets (`frozenset()`,
      `frozenset({…})`), dicts, slice objects (`slice(a, b, c)`), nested T / S / A
      expressions and nested Path objects at any depth, in every argument
      position.  The three places repaired by commit 0224102 and the root
      handling of `_format_path` (commit 2a7aadd) are switched by the extracted
      flags `FmtFacts` so that the model is the code that exists either way.
    * `bbrepr` = `reprlib.Repr.repr` of the `_BBRepr` instance with the limits it
      was given (`Limits`, extracted from the live instance on every run)   → `truncArg`, `truncItem`, `truncStep`
      `repr1` / `_repr_iterable` / `repr_dict` / `repr_int` / `repr_str` /
      `repr_instance`: a container deeper than `maxlevel` is printed `[...]`, one
      longer than its limit loses the elements after the limit and gets a
      `...`, a scalar longer than `maxlong` / `maxstring` / `maxother` and an
      instance (nested T, Path, slice object) whose text is longer than
      `maxother` are cut in the middle.  Modelled as a pass over the arguments
      (what is lost) followed by the formatter; `'P'` segments of a Path and the
      parts of a slice object are printed with the builtin `repr` (no limits, and
      builtin functions by their `<built-in function …>` text).
    * `eval(repr(x))` in a namespace with T, S, A, Path and the builtins    → `parseArg` … `parseObj`
      a parser for exactly that expression grammar: `.name`, `.__('name')`,
      `.__star__()`, `[index]` (scalar / slice / tuple of those, Python's
      trailing-comma and `()` rules), `(args, k=v)` (positional before keyword,
      no repeated keyword), displays `(…)` `[…]` `{…}` `{k: v}`, `set()`,
      `frozenset(…)`, `slice(a, b, c)`, `Path(part, …)`; `T.__name` is rejected
      like `TType.__getattr__` rejects it; the `...` / cut texts reprlib leaves
      are not read back as the value.
    * `TType.__getstate__` / `__setstate__`                             → `getstate`, `setstate`
    * `Path.__init__` (flattening of Path / T parts, `'P'` for everything
      else, the first part — a T or, since commit 9a9d3e1, a Path — may carry any
      root, later parts must be rooted at
      T, `_t_child`'s restriction on `A`)                               → `pathInit`
    * `Path.__len__`, `__eq__`, `values`, `items`, `startswith`, `from_t`,
      `__getitem__` on the flat tuple `__ops__ = (root, op, arg, op, arg, …)`
                                                                        → `pLen` … `pGetSlice`
  No Mathlib, computable, total.
-/
namespace Glom.C18

/-- attribute names and the names in the text, as character lists
    (`str.startswith('__')` and `arg[2:]` are list operations) -/
abbrev Name := List Char

def dunder : Name := ['_', '_']
def starName : Name := ['_', '_', 's', 't', 'a', 'r', '_', '_']
def starstarName : Name := ['_', '_', 's', 't', 'a', 'r', 's', 't', 'a', 'r', '_', '_']

/-- `name.startswith('__')` -/
def isDunder (n : Name) : Bool := dunder.isPrefixOf n

/-! ### expressions -/

/-- the container types `reprlib` has a method for -/
inductive Kind where
  | tuple | list | set | frozenset | dict
  deriving DecidableEq, Repr

mutual
  /-- an argument -/
  inductive Arg (L : Type) where
    | lit (v : L)                                          -- a scalar (atomic)
    | t (root : String) (steps : List (Step L))            -- a nested T expression
    | seq (k : Kind) (xs : List (Arg L))                   -- tuple / list / set / frozenset (sets in printed order)
    | dict (kvs : List (Arg L × Arg L))                    -- dict, in printed (key) order
    | sliceObj (a b c : Arg L)                             -- a slice object that is not an index
    | path (root : String) (steps : List (Step L))         -- a nested Path object
    -- what `reprlib` leaves when a limit is exceeded (never part of a value)
    | bad (text : String)                                  -- a scalar or an instance repr cut in the middle / not an expression (`inf`)
    | fill                                                 -- `...` in place of the elements after the limit
    | deep (k : Kind)                                      -- a non-empty container below `maxlevel`: `[...]`
    | dictMore (kvs : List (Arg L × Arg L))                -- the first `maxdict` entries, then `...`
  /-- one element of an index: a value, or `slice(a, b, c)` (`none` is `None`) -/
  inductive Item (L : Type) where
    | one (a : Arg L)
    | slice (a b c : Option (Arg L))
  /-- one recorded operation `(op, arg)` -/
  inductive Step (L : Type) where
    | attr (name : Name)                                   -- ('.', name)
    | item (i : Item L)                                    -- ('[', x)   x not a tuple
    | items (is : List (Item L))                           -- ('[', (x, …))   type(arg) is tuple
    | call (args : List (Arg L)) (kwargs : List (String × Arg L))   -- ('(', (args, kwargs))
    | seg (a : Arg L)                                      -- ('P', v)   a plain Path segment
    | star                                                 -- ('x', None)
    | starstar                                             -- ('X', None)
end

/-- the objects `repr` is applied to / `eval` returns -/
inductive Obj (L : Type) where
  | tobj (root : String) (steps : List (Step L))     -- a TType with `__ops__ = (root, …steps)`
  | pobj (root : String) (steps : List (Step L))     -- a Path whose `path_t.__ops__ = (root, …steps)`

def Obj.root {L} : Obj L → String
  | .tobj r _ | .pobj r _ => r

def Obj.steps {L} : Obj L → List (Step L)
  | .tobj _ s | .pobj _ s => s

/-! ### token trees -/

inductive Tok (L : Type) where
  | root (r : String)            -- `T` / `S` / `A`
  | name (n : String)            -- another name (`Path`, `set`, `frozenset`, `slice`)
  | dot (n : Name)               -- `.n`
  | lit (v : L)                  -- an atomic literal
  | str (s : Name)               -- the string literal inside `.__('…')`
  | kw (k : String)              -- `k=`
  | comma
  | colon
  | br (children : List (Tok L))     -- `[ … ]`
  | par (children : List (Tok L))    -- `( … )`
  | brace (children : List (Tok L))  -- `{ … }`
  | fill                             -- reprlib's `...`
  | bad (text : String)              -- a text cut in the middle / a name that is not bound (`inf`, `nan`)

/-- the switches of `_format_t` extracted from the source (all `true` after commit 0224102) -/
structure FmtFacts where
  dunderGuard : Bool        -- '.' branch: `if arg.startswith('__')` → `.__(%s)`
  tupleEmptyParen : Bool    -- '[' branch: `if not arg: index = '()'`
  singletonComma : Bool     -- '[' branch: `if len(arg) == 1: index += ','`
  pathRootAware : Bool      -- `_format_path(t_path, root)`: Path.__repr__ / the 'P' branch pass the root,
                            -- a root other than T is written as (the start of) the first part
  deriving DecidableEq, Repr

/-- `sep.join(pieces)` on token lists -/
def joinSep {L} (sep : Tok L) : List (List (Tok L)) → List (Tok L)
  | [] => []
  | [p] => p
  | p :: r => p ++ sep :: joinSep sep r

/-- `sorted(kwargs)`: by key -/
def sortKw {α} (kw : List (String × α)) : List (String × α) :=
  kw.mergeSort (fun a b => decide (a.1 ≤ b.1))

theorem sizeOf_fst_lt_of_mem {α β} [SizeOf α] [SizeOf β] {p : α × β} {l : List (α × β)}
    (h : p ∈ l) : sizeOf p.1 < sizeOf l := by
  have := List.sizeOf_lt_of_mem h
  cases p; simp at *; omega

theorem sizeOf_snd_lt_of_mem {α β} [SizeOf α] [SizeOf β] {p : α × β} {l : List (α × β)}
    (h : p ∈ l) : sizeOf p.2 < sizeOf l := by
  have := List.sizeOf_lt_of_mem h
  cases p; simp at *; omega

macro "c18_dec" : tactic => `(tactic| (
  simp_wf
  first
  | done
  | omega
  | (subst_vars; simp; done)
  | (subst_vars; simp; omega)
  | (have := List.sizeOf_lt_of_mem ‹_ ∈ _›; omega)
  | (have := sizeOf_snd_lt_of_mem ‹_ ∈ _›; omega)
  | (have := sizeOf_fst_lt_of_mem ‹_ ∈ _›; omega)))

/-! ### formatting -/

def Step.isSeg {L} : Step L → Bool
  | .seg _ => true
  | _ => false

/-- the `path_parts` of `_format_path`: every `'P'` step is a part of its own, every maximal
    run of other steps (the `cur_t_path` accumulator) is one T sub-expression -/
def groupSteps {α} (isSeg : α → Bool) : List α → List (List α ⊕ α)
  | [] => []
  | x :: r =>
    if isSeg x then .inr x :: groupSteps isSeg r
    else match groupSteps isSeg r with
      | .inl g :: rest => .inl (x :: g) :: rest
      | rest => .inl [x] :: rest

/-- the text of one part of `Path(…)`: `_format_t(part, root)` for a run, `repr(part)` for a segment -/
def groupToks {L} (root : String) :
    List (Step L × List (Tok L)) ⊕ (Step L × List (Tok L)) → List (Tok L)
  | .inl g => Tok.root root :: g.flatMap (fun x => x.2)
  | .inr x => x.2

/-- `_format_t(part, root if n == 0 else T)`: only the first part can carry the root -/
def partToks {L} (root : String) :
    List (List (Step L × List (Tok L)) ⊕ (Step L × List (Tok L))) → List (List (Tok L))
  | [] => []
  | g :: rest => groupToks root g :: rest.map (groupToks "T")

/-- the root `_format_path` works with: before commit 2a7aadd it was not passed (default `T`) -/
def effRoot (aware : Bool) (root : String) : String := if aware then root else "T"

/-- `first_root`: a root other than T needs a T run as first part — an empty one is inserted
    (`path_parts.append(cur_t_path)` with `cur_t_path == []`) when the path starts with a
    plain segment or has no step at all -/
def withRootPart {α} (r : String) (groups : List (List α ⊕ α)) : List (List α ⊕ α) :=
  if r != "T" then
    match groups with
    | .inl _ :: _ => groups
    | _ => .inl [] :: groups
  else groups

/-- `_format_path(t_path, root)` on steps whose own tokens are already formatted: a lone T run is
    printed by `_format_t(cur_t_path, root)` (reading 6 of DESIGN.md), anything else as
    `Path(part, …)` whose first part carries the root and whose other T runs are rooted at `T` -/
def assemblePath {L} (aware : Bool) (root : String) (xs : List (Step L × List (Tok L))) :
    List (Tok L) :=
  match groupSteps (fun x => x.1.isSeg) xs with
  | [.inl g] => Tok.root (effRoot aware root) :: g.flatMap (fun x => x.2)
  | groups =>
    [Tok.name "Path", Tok.par (joinSep .comma
      (partToks (effRoot aware root) (withRootPart (effRoot aware root) groups)))]

/-- `_format_t(path, root)` on steps whose own tokens are already formatted:
    the first `'P'` op hands the whole path to `_format_path` -/
def assembleT {L} (aware : Bool) (root : String) (xs : List (Step L × List (Tok L))) :
    List (Tok L) :=
  if xs.any (fun x => x.1.isSeg) then assemblePath aware root xs
  else Tok.root root :: xs.flatMap (fun x => x.2)

/-- the brackets `reprlib` puts around the `', '`-joined elements of a container of `n` elements:
    `repr_tuple` (trailing comma for one element), `repr_list`, `repr_set` (`set()`),
    `repr_frozenset` (`frozenset()`, `frozenset({…})`) -/
def wrapSeq {L} (k : Kind) (n : Nat) (body : List (Tok L)) : List (Tok L) :=
  match k with
  | .tuple => [.par (body ++ (if n == 1 then [Tok.comma] else []))]
  | .list => [.br body]
  | .frozenset => if n == 0 then [.name "frozenset", .par []] else [.name "frozenset", .par [.brace body]]
  | .set | .dict => if n == 0 then [.name "set", .par []] else [.brace body]

mutual
  /-- `bbrepr(arg)` when no limit of `reprlib` is exceeded (`truncArg` below says what is lost
      otherwise), and the builtin `repr(arg)` -/
  def fmtArg {L} (F : FmtFacts) : Arg L → List (Tok L)
    | .lit v => [.lit v]
    | .t root steps => assembleT F.pathRootAware root (steps.map (fun s => (s, fmtStep F s)))
    | .seq k xs => wrapSeq k xs.length (joinSep .comma (xs.map (fun x => fmtArg F x)))
    | .dict kvs =>
      [.brace (joinSep .comma (kvs.map (fun p => fmtArg F p.1 ++ Tok.colon :: fmtArg F p.2)))]
    | .sliceObj a b c => [.name "slice", .par (joinSep .comma [fmtArg F a, fmtArg F b, fmtArg F c])]
    | .path root steps => assemblePath F.pathRootAware root (steps.map (fun s => (s, fmtStep F s)))
    | .bad s => [.bad s]
    | .fill => [.fill]
    | .deep k => wrapSeq k 2 [.fill]
    | .dictMore kvs =>
      [.brace (joinSep .comma
        (kvs.map (fun p => fmtArg F p.1 ++ Tok.colon :: fmtArg F p.2) ++ [[Tok.fill]]))]
  termination_by a => sizeOf a
  decreasing_by all_goals c18_dec
  /-- `_format_slice(x)` -/
  def fmtItem {L} (F : FmtFacts) : Item L → List (Tok L)
    | .one a => fmtArg F a
    | .slice a b c =>
      -- fmt = lambda v: "" if v is None else bbrepr(v)
      (match a with | none => [] | some x => fmtArg F x) ++ [Tok.colon] ++
      (match b with | none => [] | some x => fmtArg F x) ++
      (match c with | none => [] | some x => Tok.colon :: fmtArg F x)
  termination_by i => sizeOf i
  decreasing_by all_goals c18_dec
  /-- what one op contributes to `prepr` (for a `'P'` op: `repr(arg)`, used by `_format_path`) -/
  def fmtStep {L} (F : FmtFacts) : Step L → List (Tok L)
    | .attr name =>
      if F.dunderGuard && isDunder name then [.dot dunder, .par [.str (name.drop 2)]]
      else [.dot name]
    | .item i => [.br (fmtItem F i)]
    | .items is =>
      if is.isEmpty && F.tupleEmptyParen then [.br [.par []]]
      else [.br (joinSep .comma (is.map (fun i => fmtItem F i)) ++
                 (if is.length == 1 && F.singletonComma then [.comma] else []))]
    | .call args kwargs =>
      -- format_invocation: ', '.join(args) then ', '.join('k=v' for k in sorted(kwargs))
      [.par (joinSep .comma ((args.map (fun a => fmtArg F a)) ++
          (sortKw (kwargs.map (fun p => (p.1, fmtArg F p.2)))).map (fun p => Tok.kw p.1 :: p.2)))]
    | .seg a => fmtArg F a
    | .star => [.dot starName, .par []]
    | .starstar => [.dot starstarName, .par []]
  termination_by s => sizeOf s
  decreasing_by all_goals c18_dec
end

def fmtSteps {L} (F : FmtFacts) (steps : List (Step L)) : List (Step L × List (Tok L)) :=
  steps.map (fun s => (s, fmtStep F s))

/-- `TType.__repr__`: `_format_t(t_path[1:], t_path[0])` -/
def fmtT {L} (F : FmtFacts) (root : String) (steps : List (Step L)) : List (Tok L) :=
  assembleT F.pathRootAware root (fmtSteps F steps)

/-- `Path.__repr__`: `_format_path(self.path_t.__ops__[1:], self.path_t.__ops__[0])` -/
def fmtPath {L} (F : FmtFacts) (root : String) (steps : List (Step L)) : List (Tok L) :=
  assemblePath F.pathRootAware root (fmtSteps F steps)

def reprObj {L} (F : FmtFacts) : Obj L → List (Tok L)
  | .tobj root steps => fmtT F root steps
  | .pobj root steps => fmtPath F root steps

/-! ### the text, and `reprlib`'s limits -/

/-- how literals are printed: the size limits of the `reprlib.Repr` instance that the literal kinds
    of the model go through, and which `repr` the plain segments of a Path go through -/
structure Limits where
  maxlevel : Nat
  maxtuple : Nat
  maxlist : Nat
  maxdict : Nat
  maxset : Nat
  maxfrozenset : Nat
  maxstring : Nat
  maxlong : Nat
  maxother : Nat
  plainSeg : Bool      -- `_format_path` prints a `'P'` segment with the builtin `repr(part)` (not `bbrepr(part)`)
  deriving DecidableEq, Repr

/-- the `maxiter` argument of `_repr_iterable` / `repr_dict` -/
def Limits.maxOf (lim : Limits) : Kind → Nat
  | .tuple => lim.maxtuple
  | .list => lim.maxlist
  | .set => lim.maxset
  | .frozenset => lim.maxfrozenset
  | .dict => lim.maxdict

/-- every limit equal to `n` -/
def Limits.uniform (n : Nat) (plainSeg : Bool) : Limits := ⟨n, n, n, n, n, n, n, n, n, plainSeg⟩

/-- the `level` a segment is printed at: `repr1(part, maxlevel)` through bbrepr, none through `repr` -/
def Limits.segLevel (lim : Limits) : Nat := if lim.plainSeg then 0 else lim.maxlevel

/-- what the model needs to know about scalars (ints, strings, bytes, floats, None, …) -/
structure ScalarOps (L : Type) where
  text : L → String               -- `repr(v)`; for a builtin function / class the name `bbrepr` maps it to
  fits : Limits → L → Bool        -- `repr_int` / `repr_str` / `repr_instance` print that text in full
  cutText : Limits → L → String   -- what they print otherwise
  evaluable : L → Bool            -- the text is a Python expression for the value (false: `inf`, `nan`)
  plain : L → Bool                -- the builtin `repr` gives the same text (false: builtin functions / classes)
  plainText : L → String          -- the builtin `repr`

/-- `xs[len(xs)-j:]`: when `j > len(xs)` the start is negative and counts from the end once more -/
def tailFrom {α} (xs : List α) (j : Nat) : List α :=
  if j ≤ xs.length then xs.drop (xs.length - j) else xs.drop (2 * xs.length - j)

/-- the cut `reprlib` makes in a text longer than `max`: `s[:i] + '...' + s[len(s)-j:]` with
    `i = max(0, (max-3)//2)`, `j = max(0, max-3-i)` -/
def cutStr (max : Nat) (s : String) : String :=
  if s.length > max then
    let i := (max - 3) / 2
    let j := max - 3 - i
    String.ofList (s.toList.take i) ++ "..." ++ String.ofList (tailFrom s.toList j)
  else s

mutual
  def renderTok {L} (txt : L → String) : Tok L → String
    | .root r => r
    | .name n => n
    | .dot n => "." ++ String.ofList n
    | .lit v => txt v
    | .str s => "'" ++ String.ofList s ++ "'"      -- attribute names are identifiers: no escapes
    | .kw k => k ++ "="
    | .comma => ", "
    | .colon => ":"
    | .br ch => "[" ++ renderToks txt ch ++ "]"
    | .par ch => "(" ++ renderToks txt ch ++ ")"
    | .brace ch => "{" ++ renderBrace txt ch ++ "}"
    | .fill => "..."
    | .bad s => s
  termination_by t => sizeOf t
  decreasing_by all_goals c18_dec
  /-- a trailing comma is printed without the space (`index += ','`, `(x,)`) -/
  def renderToks {L} (txt : L → String) : List (Tok L) → String
    | [] => ""
    | [.comma] => ","
    | t :: r => renderTok txt t ++ renderToks txt r
  termination_by ts => sizeOf ts
  decreasing_by all_goals c18_dec
  /-- directly inside `{ … }` the colon of an entry is followed by a space -/
  def renderBrace {L} (txt : L → String) : List (Tok L) → String
    | [] => ""
    | .colon :: r => ": " ++ renderBrace txt r
    | t :: r => renderTok txt t ++ renderBrace txt r
  termination_by ts => sizeOf ts
  decreasing_by all_goals c18_dec
end

/-- the text `repr_str` leaves of an identifier longer than `maxstring - 2`: the repr `'name'` cut in
    the middle, without its quotes — another name (for `maxstring ≥ 5`; below, the quotes are cut too) -/
def cutName (max : Nat) (cs : Name) : Name :=
  let s := '\'' :: (cs ++ ['\''])
  let i := (max - 3) / 2
  let j := max - 3 - i
  ((s.take i ++ ['.', '.', '.'] ++ tailFrom s j).drop 1).dropLast

/-- a dunder attribute name is printed in full: `len(repr(name[2:])) <= maxstring` -/
def nameFits (F : FmtFacts) (lim : Limits) (n : Name) : Bool :=
  !(F.dunderGuard && isDunder n) || decide ((n.drop 2).length + 2 ≤ lim.maxstring)

/-- `repr_instance` on an object whose builtin repr is the token list of `a`:
    `if len(s) > self.maxother` it is cut in the middle -/
def cutInst {L} (S : ScalarOps L) (F : FmtFacts) (lim : Limits) (plain : Bool) (a : Arg L) : Arg L :=
  if plain || (renderToks S.text (fmtArg F a)).length ≤ lim.maxother then a
  else .bad (cutStr lim.maxother (renderToks S.text (fmtArg F a)))

/-- `repr_int` / `repr_str` / `repr_instance` (bbrepr), or the builtin `repr`, of a scalar -/
def truncLit {L} (S : ScalarOps L) (lim : Limits) (plain : Bool) (v : L) : Arg L :=
  if plain then (if S.plain v && S.evaluable v then .lit v else .bad (S.plainText v))
  else if S.fits lim v then (if S.evaluable v then .lit v else .bad (S.text v))
  else .bad (S.cutText lim v)

mutual
  /-- what `repr1(arg, level)` of the `_BBRepr` instance (`plain = false`) or the builtin `repr`
      (`plain = true`: no limits) keeps of an argument -/
  def truncArg {L} (S : ScalarOps L) (F : FmtFacts) (lim : Limits) (plain : Bool) (level : Nat) :
      Arg L → Arg L
    | .lit v => truncLit S lim plain v
    -- repr_instance → TType.__repr__ → _format_t, whose arguments go through bbrepr afresh
    | .t root steps => cutInst S F lim plain (.t root (steps.map (fun s => truncStep S F lim s)))
    | .path root steps => cutInst S F lim plain (.path root (steps.map (fun s => truncStep S F lim s)))
    | .seq k xs =>
      if plain then .seq k (xs.map (fun x => truncArg S F lim true level x))
      else if level == 0 && !xs.isEmpty then .deep k          -- `if level <= 0 and n: s = self.fillvalue`
      else
        let ys := (xs.map (fun x => truncArg S F lim false (level - 1) x)).take (lim.maxOf k)
        .seq k (if xs.length > lim.maxOf k then ys ++ [.fill] else ys)
    | .dict kvs =>
      if plain then .dict (kvs.map (fun p => (truncArg S F lim true level p.1, truncArg S F lim true level p.2)))
      else if kvs.isEmpty then .dict []                        -- `if n == 0: return '{}'`
      else if level == 0 then .deep .dict                      -- `if level <= 0: return '{' + self.fillvalue + '}'`
      else
        let ys := (kvs.map (fun p => (truncArg S F lim false (level - 1) p.1,
                                      truncArg S F lim false (level - 1) p.2))).take lim.maxdict
        if kvs.length > lim.maxdict then .dictMore ys else .dict ys
    -- repr_instance → slice.__repr__: the parts by the builtin repr
    | .sliceObj a b c =>
      cutInst S F lim plain (.sliceObj (truncArg S F lim true level a) (truncArg S F lim true level b)
        (truncArg S F lim true level c))
    | .bad s => .bad s
    | .fill => .fill
    | .deep k => .deep k
    | .dictMore kvs => .dictMore kvs
  termination_by a => sizeOf a
  decreasing_by all_goals c18_dec
  def truncItem {L} (S : ScalarOps L) (F : FmtFacts) (lim : Limits) : Item L → Item L
    | .one a => .one (truncArg S F lim false lim.maxlevel a)
    | .slice a b c =>
      .slice (match a with | none => none | some x => some (truncArg S F lim false lim.maxlevel x))
             (match b with | none => none | some x => some (truncArg S F lim false lim.maxlevel x))
             (match c with | none => none | some x => some (truncArg S F lim false lim.maxlevel x))
  termination_by i => sizeOf i
  decreasing_by all_goals c18_dec
  /-- every argument of a step is printed by `bbrepr(arg)` = `repr1(arg, maxlevel)`; the `'P'`
      segments of a Path by the builtin `repr(part)` (or by `bbrepr(part)`: `Limits.plainSeg`) -/
  def truncStep {L} (S : ScalarOps L) (F : FmtFacts) (lim : Limits) : Step L → Step L
    -- `'.__(%s)' % bbrepr(arg[2:])`: the name of a dunder attribute goes through `repr_str`
    | .attr n => if nameFits F lim n then .attr n else .attr (dunder ++ cutName lim.maxstring (n.drop 2))
    | .item i => .item (truncItem S F lim i)
    | .items is => .items (is.map (fun i => truncItem S F lim i))
    | .call args kwargs =>
      .call (args.map (fun a => truncArg S F lim false lim.maxlevel a))
            (kwargs.map (fun p => (p.1, truncArg S F lim false lim.maxlevel p.2)))
    | .seg a => .seg (truncArg S F lim lim.plainSeg lim.segLevel a)
    | .star => .star
    | .starstar => .starstar
  termination_by s => sizeOf s
  decreasing_by all_goals c18_dec
end

/-- `repr(x)` as glom computes it with the limits its `_BBRepr` instance has -/
def reprLim {L} (S : ScalarOps L) (F : FmtFacts) (lim : Limits) : Obj L → List (Tok L)
  | .tobj root steps => fmtT F root (steps.map (truncStep S F lim))
  | .pobj root steps => fmtPath F root (steps.map (truncStep S F lim))

/-! ### `Path.__init__` -/

/-- a positional argument of `Path(…)` -/
inductive Part (L : Type) where
  | plain (a : Arg L)                              -- anything else: one `'P'` step
  | texpr (root : String) (steps : List (Step L))  -- a TType
  | path (root : String) (steps : List (Step L))   -- a Path: its path_t is used

/-- `_t_child(parent, op, arg)`: `none` is the BadSpec for a call / wildcard on an `A` path -/
def tChild {L} (root : String) (steps : List (Step L)) (st : Step L) : Option (List (Step L)) :=
  match st with
  | .call _ _ | .star | .starstar => if root == "A" then none else some (steps ++ [st])
  | _ => some (steps ++ [st])

/-- one iteration of the loop over the remaining parts in `Path.__init__` -/
def pathStep {L} (acc : String × List (Step L)) (part : Part L) : Option (String × List (Step L)) :=
  match part with
  | .plain v => (tChild acc.1 acc.2 (.seg v)).map (fun s => (acc.1, s))
  | .texpr r s | .path r s =>
    if r != "T" then none             -- 'path segment must be path from T'
    else (s.foldlM (fun steps st => tChild acc.1 steps st) acc.2).map (fun s' => (acc.1, s'))

/-- `Path(*parts).path_t.__ops__`; `none` is the ValueError / BadSpec -/
def pathInit {L} (parts : List (Part L)) : Option (String × List (Step L)) :=
  match parts with
  | [] => some ("T", [])
  | .texpr r s :: others => others.foldlM pathStep (r, s)   -- isinstance(path_parts[0], TType): offset = 1
  | .path r s :: others => others.foldlM pathStep (r, s)    -- a Path first part stands for its path_t
  | parts => parts.foldlM pathStep ("T", [])

/-- what `Path.__init__` sees in one evaluated argument -/
def partOfArg {L} : Arg L → Part L
  | .t r s => .texpr r s
  | .path r s => .path r s
  | a => .plain a

def pathOfParts {L} (parts : Option (List (Arg L))) : Option (Arg L) :=
  match parts with
  | some parts => (pathInit (parts.map partOfArg)).map (fun rs => Arg.path rs.1 rs.2)
  | none => none

/-! ### `eval(repr(x))`: the parser -/

def Tok.isComma {L} : Tok L → Bool
  | .comma => true
  | _ => false

def Tok.isColon {L} : Tok L → Bool
  | .colon => true
  | _ => false

/-- `split` on the separator tokens of one bracket level: n separators give n + 1 pieces -/
def splitOn {L} (p : Tok L → Bool) : List (Tok L) → List (List (Tok L))
  | [] => [[]]
  | t :: r =>
    if p t then [] :: splitOn p r
    else match splitOn p r with
      | [] => [[t]]          -- unreachable: splitOn never returns []
      | s :: ss => (t :: s) :: ss

def allSome {α} : List (Option α) → Option (List α)
  | [] => some []
  | none :: _ => none
  | some a :: r => match allSome r with
    | some l => some (a :: l)
    | none => none

/-- Python's rule for a subscript / argument list / display: one trailing comma is allowed -/
def dropTrailingEmpty {α} (pieces : List (List α)) : List (List α) :=
  match pieces.getLast? with
  | some [] => pieces.dropLast
  | _ => pieces

/-- the pieces of a call's argument list: positional first, then `k=v`, no keyword twice -/
def splitCallArgs {L} (ps : List (Option String × Arg L)) :
    Option (List (Arg L) × List (String × Arg L)) :=
  let pos := ps.takeWhile (fun p => p.1.isNone)
  let rest := ps.dropWhile (fun p => p.1.isNone)
  if rest.all (fun p => p.1.isSome) then
    let kws : List (String × Arg L) := rest.filterMap (fun p => p.1.map (fun k => (k, p.2)))
    if ((kws.map (fun p => p.1) : List String)).Nodup then some (pos.map (fun p => p.2), kws) else none
  else none     -- SyntaxError: positional argument follows keyword argument

def slice3 {L} (a b c : Option (Option (Arg L))) : Option (Item L) :=
  match a, b, c with
  | some a', some b', some c' => some (.slice a' b' c')
  | _, _, _ => none

def consOpt {α} (a : Option α) (r : Option (List α)) : Option (List α) :=
  match a, r with
  | some x, some l => some (x :: l)
  | _, _ => none

def callOf {L} (ps : Option (List (Option String × Arg L))) : Option (Step L) :=
  match ps with
  | some ps => (splitCallArgs ps).map (fun ak => Step.call ak.1 ak.2)
  | none => none

def pairOpt {α β} (a : Option α) (b : Option β) : Option (α × β) :=
  match a, b with
  | some x, some y => some (x, y)
  | _, _ => none

/-- `frozenset(s)` for the set display `s` -/
def frozensetOf {L} (a : Option (Arg L)) : Option (Arg L) :=
  match a with
  | some (.seq .set xs) => some (.seq .frozenset xs)
  | _ => none

/-- `slice(a, b, c)` -/
def sliceOfArgs {L} (xs : Option (List (Arg L))) : Option (Arg L) :=
  match xs with
  | some [a, b, c] => some (.sliceObj a b c)
  | _ => none

/-! termination of the parser: the pieces of a split are no bigger than the whole -/

theorem splitOn_ne_nil {L} (p : Tok L → Bool) (toks : List (Tok L)) : splitOn p toks ≠ [] := by
  induction toks with
  | nil => simp [splitOn]
  | cons t r ih =>
    simp only [splitOn]
    split
    · simp
    · split <;> simp

theorem splitOn_sizeOf {L} (p : Tok L → Bool) (toks : List (Tok L)) :
    ∀ piece ∈ splitOn p toks, sizeOf piece ≤ sizeOf toks := by
  induction toks with
  | nil => intro piece h; simp [splitOn] at h; subst h; simp
  | cons t r ih =>
    intro piece h
    simp only [splitOn] at h
    split at h
    · simp only [List.mem_cons] at h
      rcases h with h | h
      · subst h; simp; omega
      · have := ih piece h; simp; omega
    · split at h
      · rename_i hnil; exact absurd hnil (splitOn_ne_nil p r)
      · rename_i s ss heq
        simp only [List.mem_cons] at h
        rcases h with h | h
        · subst h
          have := ih s (by rw [heq]; simp)
          simp; omega
        · have := ih piece (by rw [heq]; simp [h])
          simp; omega

theorem mem_dropTrailingEmpty {α} {pieces : List (List α)} {x : List α}
    (h : x ∈ dropTrailingEmpty pieces) : x ∈ pieces := by
  unfold dropTrailingEmpty at h
  split at h
  · exact List.dropLast_subset _ h
  · exact h

theorem piece_sizeOf {L} (p : Tok L → Bool) (toks : List (Tok L)) {x : List (Tok L)}
    (h : x ∈ dropTrailingEmpty (splitOn p toks)) : sizeOf x ≤ sizeOf toks :=
  splitOn_sizeOf p toks x (mem_dropTrailingEmpty h)

/-- the text `()` -/
def isUnitTok {L} : List (Tok L) → Bool
  | [.par []] => true
  | _ => false

/-- `k=` at the head of a piece marks a keyword argument -/
def stripKw {L} : List (Tok L) → Option String × List (Tok L)
  | .kw k :: rest => (some k, rest)
  | p => (none, p)

theorem stripKw_sizeOf {L} (p : List (Tok L)) : sizeOf (stripKw p).2 ≤ sizeOf p := by
  unfold stripKw
  split
  · simp
  · simp

macro "parse_dec" : tactic => `(tactic| (
  simp_wf
  all_goals first
  | done
  | omega
  | (simp [Prod.lex_def] <;> omega)
  | (subst_vars; simp [Prod.lex_def] <;> omega)
  | (have := piece_sizeOf _ _ ‹_ ∈ dropTrailingEmpty _›; have := stripKw_sizeOf ‹List (Tok _)›;
     simp [Prod.lex_def] <;> omega)
  | (have := piece_sizeOf _ _ ‹_ ∈ dropTrailingEmpty _›; simp [Prod.lex_def] <;> omega)))

mutual
  /-- an expression: a scalar token, a root followed by steps, a display, or one of the calls
      `set()`, `frozenset(…)`, `slice(a, b, c)`, `Path(part, …)` -/
  def parseArg {L} : List (Tok L) → Option (Arg L)
    | [.lit v] => some (.lit v)
    | .root r :: rest => (parseSteps rest).map (Arg.t r)
    | [.par ch] =>
      if ch.isEmpty then some (.seq .tuple [])
      else if (splitOn Tok.isComma ch).length == 1 then parseArg ch     -- a parenthesised expression
      else (parseElems ch).map (Arg.seq .tuple)
    | [.br ch] => (parseElems ch).map (Arg.seq .list)
    | [.brace ch] =>
      if ch.isEmpty then some (.dict [])
      else if ch.any Tok.isColon then (parseEntries ch).map Arg.dict
      else (parseElems ch).map (Arg.seq .set)
    | [.name n, .par ch] =>
      if n == "Path" then
        (if ch.isEmpty then some (.path "T" []) else pathOfParts (parseElems ch))
      else if n == "slice" then sliceOfArgs (parseElems ch)
      else if n == "set" then (if ch.isEmpty then some (.seq .set []) else none)
      else if n == "frozenset" then
        (if ch.isEmpty then some (.seq .frozenset []) else frozensetOf (parseArg ch))
      else none
    | _ => none
  termination_by toks => (sizeOf toks, 1)
  decreasing_by all_goals parse_dec
  /-- the elements of a display / the arguments of a call without keywords -/
  def parseElems {L} (toks : List (Tok L)) : Option (List (Arg L)) :=
    allSome ((dropTrailingEmpty (splitOn Tok.isComma toks)).attach.map (fun ⟨p, _hp⟩ => parseArg p))
  termination_by (sizeOf toks, 3)
  decreasing_by all_goals parse_dec
  /-- `key: value` -/
  def parseEntry {L} (toks : List (Tok L)) : Option (Arg L × Arg L) :=
    match h : splitOn Tok.isColon toks with
    | [k, v] =>
      have hk : sizeOf k ≤ sizeOf toks := splitOn_sizeOf _ _ k (by rw [h]; simp)
      have hv : sizeOf v ≤ sizeOf toks := splitOn_sizeOf _ _ v (by rw [h]; simp)
      pairOpt (parseArg k) (parseArg v)
    | _ => none
  termination_by (sizeOf toks, 2)
  decreasing_by all_goals parse_dec
  /-- the entries of a dict display -/
  def parseEntries {L} (toks : List (Tok L)) : Option (List (Arg L × Arg L)) :=
    allSome ((dropTrailingEmpty (splitOn Tok.isComma toks)).attach.map (fun ⟨p, _hp⟩ => parseEntry p))
  termination_by (sizeOf toks, 3)
  decreasing_by all_goals parse_dec
  /-- `a`, `a:b`, `a:b:c` with empty parts for `None` -/
  def parseItem {L} (toks : List (Tok L)) : Option (Item L) :=
    match h : splitOn Tok.isColon toks with
    | [p] =>
      have : sizeOf p ≤ sizeOf toks := splitOn_sizeOf _ _ p (by rw [h]; simp)
      (parseArg p).map Item.one
    | [a, b] =>
      have ha : sizeOf a ≤ sizeOf toks := splitOn_sizeOf _ _ a (by rw [h]; simp)
      have hb : sizeOf b ≤ sizeOf toks := splitOn_sizeOf _ _ b (by rw [h]; simp)
      slice3 (if a.isEmpty then some none else (parseArg a).map some)
             (if b.isEmpty then some none else (parseArg b).map some) (some none)
    | [a, b, c] =>
      have ha : sizeOf a ≤ sizeOf toks := splitOn_sizeOf _ _ a (by rw [h]; simp)
      have hb : sizeOf b ≤ sizeOf toks := splitOn_sizeOf _ _ b (by rw [h]; simp)
      have hc : sizeOf c ≤ sizeOf toks := splitOn_sizeOf _ _ c (by rw [h]; simp)
      slice3 (if a.isEmpty then some none else (parseArg a).map some)
             (if b.isEmpty then some none else (parseArg b).map some)
             (if c.isEmpty then some none else (parseArg c).map some)
    | _ => none
  termination_by (sizeOf toks, 2)
  decreasing_by all_goals parse_dec
  /-- the inside of `[ … ]` after an expression -/
  def parseIndex {L} (toks : List (Tok L)) : Option (Step L) :=
    if isUnitTok toks then some (.items [])
    else
      match h : splitOn Tok.isComma toks with
      | [p] =>
        have : sizeOf p ≤ sizeOf toks := splitOn_sizeOf _ _ p (by rw [h]; simp)
        (parseItem p).map Step.item
      | _ => (allSome ((dropTrailingEmpty (splitOn Tok.isComma toks)).attach.map
          (fun ⟨p, _hp⟩ => parseItem p))).map Step.items
  termination_by (sizeOf toks, 3)
  decreasing_by all_goals parse_dec
  /-- the inside of `( … )` after an expression -/
  def parseCall {L} (toks : List (Tok L)) : Option (Step L) :=
    if toks.isEmpty then some (.call [] [])
    else
      callOf (allSome ((dropTrailingEmpty (splitOn Tok.isComma toks)).attach.map (fun ⟨p, _hp⟩ =>
          (parseArg (stripKw p).2).map (fun a => ((stripKw p).1, a)))))
  termination_by (sizeOf toks, 3)
  decreasing_by all_goals parse_dec
  /-- the operations applied to a root, each recorded by the TType overload it triggers -/
  def parseSteps {L} : List (Tok L) → Option (List (Step L))
    | [] => some []
    | .dot ['_', '_'] :: .par [.str s] :: r =>                       -- T.__('name')
      (parseSteps r).map (Step.attr (dunder ++ s) :: ·)
    | .dot ['_', '_', 's', 't', 'a', 'r', '_', '_'] :: .par [] :: r => (parseSteps r).map (Step.star :: ·)
    | .dot ['_', '_', 's', 't', 'a', 'r', 's', 't', 'a', 'r', '_', '_'] :: .par [] :: r =>
      (parseSteps r).map (Step.starstar :: ·)
    | .dot n :: r =>
      if isDunder n then none      -- TType.__getattr__: 'T instances reserve dunder attributes'
      else (parseSteps r).map (Step.attr n :: ·)
    | .br ch :: r => consOpt (parseIndex ch) (parseSteps r)
    | .par ch :: r => consOpt (parseCall ch) (parseSteps r)
    | _ => none
  termination_by toks => (sizeOf toks, 0)
  decreasing_by all_goals parse_dec
end

/-- the whole text — `eval(repr)`: a T expression, or a Path -/
def parseObj {L} (toks : List (Tok L)) : Option (Obj L) :=
  match parseArg toks with
  | some (.t r s) => some (.tobj r s)
  | some (.path r s) => some (.pobj r s)
  | _ => none

/-! ### pickling -/

/-- `TType.__getstate__`: `({T: 'T', S: 'S', A: 'A'}[ops[0]],) + ops[1:]`; `none` is the KeyError -/
def getstate {L} (rootNames : List String) (root : String) (steps : List (Step L)) :
    Option (String × List (Step L)) :=
  if rootNames.contains root then some (root, steps) else none

/-- `TType.__setstate__`: `({'T': T, 'S': S, 'A': A}[state[0]],) + state[1:]` -/
def setstate {L} (rootNames : List String) (state : String × List (Step L)) :
    Option (String × List (Step L)) :=
  if rootNames.contains state.1 then some state else none

/-! ### Path as a sequence: the operations on the flat tuple `path_t.__ops__` -/

/-- an element of `__ops__`: the root object, an op character, or an argument -/
inductive Cell (α : Type) where
  | root (r : String)
  | op (c : String)
  | arg (a : α)
  deriving DecidableEq, Repr

/-- `(root, op, arg, op, arg, …)` -/
def flatOf {α} (root : String) (steps : List (String × α)) : List (Cell α) :=
  .root root :: steps.flatMap (fun s => [Cell.op s.1, Cell.arg s.2])

/-- `xs[::2]` -/
def everyOther {β} : List β → List β
  | [] => []
  | [x] => [x]
  | x :: _ :: r => x :: everyOther r

/-- `Path.__len__`: `(len(self.path_t.__ops__) - 1) // 2` -/
def pLen {α} (ops : List (Cell α)) : Nat := (ops.length - 1) / 2

/-- `Path.values`: `cur_t_path[2::2]` -/
def pValues {α} (ops : List (Cell α)) : List (Cell α) := everyOther (ops.drop 2)

/-- `Path.items`: `tuple(zip(cur_t_path[1::2], cur_t_path[2::2]))` -/
def pItems {α} (ops : List (Cell α)) : List (Cell α × Cell α) :=
  (everyOther (ops.drop 1)).zip (everyOther (ops.drop 2))

/-- `(cur_t_path[0],) + sum(steps, ())` -/
def rebuild {α} (ops : List (Cell α)) (steps : List (Cell α × Cell α)) : List (Cell α) :=
  ops.take 1 ++ steps.flatMap (fun s => [s.1, s.2])

/-- `Path.__getitem__(slice(a, b, c))`: the steps are sliced like a tuple; `none` is the
    ValueError for a zero step -/
def pGetSlice {α} (ops : List (Cell α)) (a b c : Option Int) : Option (List (Cell α)) :=
  (pySlice (pItems ops) a b c).map (rebuild ops)

/-- `Path.__getitem__(i)`: `(steps[i],)`; `none` is the IndexError -/
def pGetIdx {α} (ops : List (Cell α)) (i : Int) : Option (List (Cell α)) :=
  match pyIndexNat (pItems ops).length i with
  | some j => (pItems ops)[j]?.map (fun st => rebuild ops [st])
  | none => none

/-- `Path.__eq__` against a Path or a TType: the ops tuples are equal -/
def pEq {α} [DecidableEq α] (ops other : List (Cell α)) : Bool := decide (ops = other)

/-- `Path.startswith`: `self.path_t.__ops__[:len(o_path)] == o_path` -/
def pStartswith {α} [DecidableEq α] (ops other : List (Cell α)) : Bool :=
  decide (ops.take other.length = other)

/-- `Path.from_t`: an `S` root is replaced by `T` -/
def pFromT {α} (ops : List (Cell α)) : List (Cell α) :=
  match ops with
  | .root "S" :: r => .root "T" :: r
  | _ => ops

/-- `Path(p, q)` for two Path objects given by their ops: `Path.__init__` with `path_t = T`,
    the first part is used as it is (root included), every step of the second appended by
    `_t_child`; `none` is the ValueError
    ('path segment must be path from T') -/
def concatFlat {α} [DecidableEq α] (p q : List (Cell α)) : Option (List (Cell α)) :=
  -- the first part keeps its root (commit 9a9d3e1); every later part must be rooted at T
  if q.take 1 = [.root "T"] then some (p.take 1 ++ (p.drop 1 ++ q.drop 1))
  else none

/-- read a flat ops tuple back as (root, steps) -/
def unflat {α} : List (Cell α) → Option (String × List (String × α))
  | .root r :: rest =>
    let rec go : List (Cell α) → Option (List (String × α))
      | [] => some []
      | .op c :: .arg a :: r => (go r).map ((c, a) :: ·)
      | _ => none
    (go rest).map (fun st => (r, st))
  | _ => none

/-- a sequence operation on a Path given by its steps -/
inductive SeqOp (α : Type) where
  | len
  | idx (i : Int)
  | slice (a b c : Option Int)
  | values
  | items
  | eq (oroot : String) (other : List (String × α))
  | startswith (oroot : String) (other : List (String × α))
  | concat (other : List (String × α))       -- Path(p, q), both rooted at T
  | fromT
  | ne (oroot : String) (other : List (String × α))   -- p != q
  | eqOther                                  -- p == x for an x that is neither a Path nor a T
  | startswithStr (s : α)                    -- p.startswith('text'): the text becomes Path(text)
  | startswithBad                            -- p.startswith(x) for any other x

inductive SeqRes (α : Type) where
  | nat (n : Nat)
  | path (root : String) (steps : List (String × α))
  | vals (xs : List α)
  | pairs (xs : List (String × α))
  | bool (b : Bool)
  | indexError
  | valueError
  | typeError
  | other (what : String)
  deriving DecidableEq, Repr


def resOfOps {α} (o : Option (List (Cell α))) (err : SeqRes α) : SeqRes α :=
  match o with
  | none => err
  | some ops => match unflat ops with
    | some (r, st) => .path r st
    | none => .other "malformed ops"

def argsOf {α} (cells : List (Cell α)) : Option (List α) :=
  cells.foldr (fun c acc => match c, acc with
    | .arg a, some l => some (a :: l)
    | _, _ => none) (some [])

def pairsOf {α} (cells : List (Cell α × Cell α)) : Option (List (String × α)) :=
  cells.foldr (fun c acc => match c, acc with
    | (.op o, .arg a), some l => some ((o, a) :: l)
    | _, _ => none) (some [])

/-- the sequence operations of `Path`, run on the flat ops tuple of the path -/
def seqModel {α} [DecidableEq α] (root : String) (steps : List (String × α)) :
    SeqOp α → SeqRes α
  | .len => .nat (pLen (flatOf root steps))
  | .idx i => resOfOps (pGetIdx (flatOf root steps) i) .indexError
  | .slice a b c => resOfOps (pGetSlice (flatOf root steps) a b c) .valueError
  | .values => match argsOf (pValues (flatOf root steps)) with
    | some l => .vals l
    | none => .other "malformed values"
  | .items => match pairsOf (pItems (flatOf root steps)) with
    | some l => .pairs l
    | none => .other "malformed items"
  | .eq oroot other => .bool (pEq (flatOf root steps) (flatOf oroot other))
  | .startswith oroot other => .bool (pStartswith (flatOf root steps) (flatOf oroot other))
  | .concat other => resOfOps (concatFlat (flatOf root steps) (flatOf "T" other)) .valueError
  | .fromT => resOfOps (some (pFromT (flatOf root steps))) .valueError
  -- `__ne__`: `not self == other`
  | .ne oroot other => .bool (!pEq (flatOf root steps) (flatOf oroot other))
  -- `__eq__`: `return False` when `other` is neither a Path nor a TType
  | .eqOther => .bool false
  -- `if isinstance(other, basestring): other = Path(other)` — one plain segment rooted at T
  | .startswithStr s => .bool (pStartswith (flatOf root steps) (flatOf "T" [("P", s)]))
  -- `raise TypeError('can only check if Path starts with string, Path or T')`
  | .startswithBad => .typeError

/-- pickling / deep-copying the result of a sequence operation: a Path result pickles its `path_t`
    (`TType.__getstate__` / `__setstate__`: the root by name, the steps as they are — whether the root
    object is the singleton or a copy `Path.__getitem__` / `from_t` made plays no part); lengths, truth
    values and tuples of arguments are pickled by CPython -/
def pickleRes {α} (getRoots setRoots : List String) : SeqRes α → SeqRes α
  | .path r st =>
    if getRoots.contains r && setRoots.contains r then .path r st else .other "KeyError"
  | res => res

end Glom.C18
