import Glom.Model.C14
/-
  C14 — the wildcard branch of `_t_eval` **with state**: the code-shaped model of

      cur = []                                   # a NEW list per evaluation of a wildcard step
      todo = TType(); todo.__ops__ = (T,) + t_path[i+2:]
      for child in nxt:                          # one recursive evaluation PER ENTRY of `nxt`,
          try:                                   #   in order, each on the state the previous one left
              cur.append(_t_eval(child, todo, scope))
          except PathAccessError:
              pass
      break

  where the remaining steps may have effects: a method call `T.….name(*args)` (ops `.` then `(`) on a
  list (`pop`, `append`), a dict (`pop`) or a shared iterator (`__next__`) changes the target, and a
  callee may raise (`fail(cls)` of the harness classes raises an exception of the named class: only a
  PathAccessError — also one raised by the callee — is swallowed by the loop; every other class, other
  GlomErrors included, ends the evaluation).

  State threaded through the evaluation (`St`):
    * `heap`   — the target's object graph; a call replaces one cell;
    * `next`   — how many result lists have been created so far: the `id` of the list the next
                 `cur = []` creates (identity of the result's list cells is an observable: two
                 positions of the result must not be the same list object);
    * `calls`  — the log of calls made on instances of the harness's classes (receiver, method), in
                 order; calls on the builtin `list` / `dict` cannot be instrumented and are seen through
                 the heap they leave.

  `nxt` (the entries of the wildcard) is computed on the heap as it is when the wildcard step is
  reached; the remainder then runs entry by entry on the evolving state — entries that are the same
  object are evaluated once per position.

  `evalSteps` of `Glom/Model/C14.lean` is this evaluation on paths without calls
  (`Props.c14_pure_conservative`).
-/
namespace Glom.C14
open Glom

/-- a step of a path: an access (`.` / `[` / `P`), a wildcard, or a method call `.name(*args)` -/
inductive Step where
  | acc (op : String) (arg : Val)
  | star
  | starstar
  | call (name : String) (args : List Val)
  deriving Repr

/-- the `(op, arg)` pairs of `__ops__` without calls -/
def Step.ofPair (p : String × Val) : Step :=
  if p.1 == "x" then .star else if p.1 == "X" then .starstar else .acc p.1 p.2

def Step.isWild : Step → Bool
  | .star | .starstar => true
  | _ => false

/-- `TType.__stars__` on steps -/
def starsS (steps : List Step) : Nat := (steps.filter Step.isWild).length

structure St where
  heap : Heap
  next : Nat
  calls : List (Nat × String)
  deriving Repr

/-- the value of a wildcard path with the identity of its list cells -/
inductive LRes where
  | val (v : Val)
  | list (id : Nat) (xs : List LRes)
  deriving Repr, Inhabited

mutual
/-- forget the identities -/
def LRes.erase : LRes → Res
  | .val v => .val v
  | .list _ xs => .list (LRes.eraseList xs)
def LRes.eraseList : List LRes → List Res
  | [] => []
  | x :: xs => x.erase :: LRes.eraseList xs
end

mutual
/-- the identities of all list cells of a result, in pre-order -/
def LRes.labels : LRes → List Nat
  | .val _ => []
  | .list i xs => i :: LRes.labelsList xs
def LRes.labelsList : List LRes → List Nat
  | [] => []
  | x :: xs => x.labels ++ LRes.labelsList xs
end

/-! ### the methods -/

inductive CallOut where
  | noAttr                        -- `getattr(cur, name)` raises AttributeError → PathAccessError
  | unmodelled                    -- outside the modelled vocabulary (the driver skips the case)
  | raised (cls : String)         -- the call raised: propagates through every wildcard loop
  | ret (h : Heap) (v : Val)
  deriving Repr

/-- classes whose methods the harness can instrument: every class but the builtins -/
def logged (c : String) : Bool := !(builtinClasses.any (·.1 == c))

/-- `list.pop(*args)` on the items -/
def listPop (xs : List Val) (args : List Val) : Except String (List Val × Val) :=
  match args with
  | [] =>
    (match xs.getLast? with
     | none => .error "IndexError"
     | some v => .ok (xs.dropLast, v))
  | [i] =>
    (match asIndex i with
     | none => .error "TypeError"
     | some j =>
       match seqPos xs.length j with
       | none => .error "IndexError"
       | some p => .ok (xs.eraseIdx p, xs.getD p .none))
  | _ => .error "TypeError"

/-- `dict.pop(*args)` on the entries -/
def dictPop (h : Heap) (es : List (Val × Val)) (args : List Val) : Except String (List (Val × Val) × Val) :=
  match args with
  | [k] =>
    if !(k.hashable h) then .error "TypeError"
    else (match dictLookup es k with
      | some v => .ok (es.filter (fun e => !(pyKeyEq e.1 k)), v)
      | none => .error "KeyError")
  | [k, d] =>
    if !(k.hashable h) then .error "TypeError"
    else (match dictLookup es k with
      | some v => .ok (es.filter (fun e => !(pyKeyEq e.1 k)), v)
      | none => .ok (es, d))
  | _ => .error "TypeError"

/-- `It.__next__` (the harness's shared iterator: attributes `elems` — a list or tuple — and `pos`; the names are no attributes of a builtin type):
    `None` = not an iterator in working order (unmodelled) -/
def itNext (h : Heap) (attrs : List (String × Val)) : Option (Except String (List (String × Val) × Val)) :=
  match attrs.find? (·.1 == "elems"), attrs.find? (·.1 == "pos") with
  | some (_, .ref b), some (_, .int p) =>
    if p < 0 then none else
    (match h[b]? with
     | some (.list _ xs) | some (.tuple _ xs) =>
       if p.toNat < xs.length then some (.ok (setAssoc "pos" (.int (p + 1)) attrs, xs.getD p.toNat .none))
       else some (.error "StopIteration")
     | _ => none)
  | _, _ => none

/-- the harness classes with a method `fail(cls)` that raises an exception of the named class
    (one per layout: attribute object, list, dict) -/
def hasFail (cs : Classes) (c : String) : Bool := isA cs c "It" || isA cs c "LSub" || isA cs c "DSub"

/-- `recv.fail(*args)`: never returns -/
def failMethod (cs : Classes) (h : Heap) (recv : Val) (args : List Val) : CallOut :=
  match recv with
  | .ref a =>
    (match h[a]? with
     | none => .noAttr
     | some o =>
       if hasFail cs o.cls then
         (match args with
          | [.str c] => .raised c
          | _ => .raised "TypeError")
       else
         (match o with
          | .inst _ attrs => if (attrs.find? (·.1 == "fail")).isSome then .unmodelled else .noAttr
          | _ => .noAttr))
  | .none | .bool _ | .int _ | .str _ | .float _ => .noAttr
  | _ => .unmodelled

/-- what `getattr(recv, name)(*args)` does, for `name` ∈ {pop, append, __next__, fail} -/
def callMethod (cs : Classes) (h : Heap) (recv : Val) (name : String) (args : List Val) : CallOut :=
  if !(name == "pop" || name == "append" || name == "__next__" || name == "fail") then .unmodelled else
  if name == "fail" then failMethod cs h recv args else
  match recv with
  | .ref a =>
    (match h[a]? with
     | none => .noAttr
     | some (.list c xs) =>
       if name == "pop" then
         (match listPop xs args with
          | .ok (xs', v) => .ret (h.set a (.list c xs')) v
          | .error e => .raised e)
       else if name == "append" then
         (match args with
          | [v] => .ret (h.set a (.list c (xs ++ [v]))) .none
          | _ => .raised "TypeError")
       else .noAttr
     | some (.dict c es) =>
       -- (a mapping that is no dict — mappingproxy — has none of the methods)
       if name == "pop" && isA cs c "dict" then
         (match dictPop h es args with
          | .ok (es', v) => .ret (h.set a (.dict c es')) v
          | .error e => .raised e)
       else .noAttr
     | some (.tuple _ _) => .noAttr
     | some (.set c _) =>
       -- `set.pop()` takes an arbitrary element: not modelled; a frozenset has none of the three
       if name == "pop" && isA cs c "set" then .unmodelled else .noAttr
     | some (.inst c attrs) =>
       -- (`UserDict.pop` — a MutableMapping method working on `data` — is not modelled)
       if (attrs.find? (·.1 == name)).isSome || (isA cs c "UserDict" && name == "pop") then .unmodelled
       else if name == "__next__" && isA cs c "It" then
         (match args with
          | [] =>
            (match itNext h attrs with
             | some (.ok (attrs', v)) => .ret (h.set a (.inst c attrs')) v
             | some (.error e) => .raised e
             | none => .unmodelled)
          | _ => .raised "TypeError")
       else .noAttr)
  | .none | .bool _ | .int _ | .str _ | .float _ => .noAttr
  | _ => .unmodelled

def St.log (s : St) (recv : Val) (name : String) : St :=
  match recv with
  | .ref a => if logged (recv.clsName s.heap) then { s with calls := s.calls ++ [(a, name)] } else s
  | _ => s

/-- the two ops `.` name, `(` args of `_t_eval`: `getattr` (AttributeError → PathAccessError), then the
    call through `Call.glomit` (whatever it raises propagates) -/
def callStep (cs : Classes) (s : St) (cur : Val) (name : String) (args : List Val) : St × Except EErr Val :=
  match callMethod cs s.heap cur name args with
  | .noAttr => (s, .error (.pae (exc "AttributeError")))
  | .unmodelled => (s, .error (.other "<unmodelled>"))
  -- what the call raises propagates as it is: a PathAccessError raised *by the callee* is a
  -- PathAccessError (the wildcard loop drops the entry), anything else — other GlomErrors included — is not
  | .raised c => (s.log cur name, .error (if c == "PathAccessError" then .pae (exc c) else .other c))
  | .ret h v => ({ s.log cur name with heap := h }, .ok v)

/-! ### `_t_eval` -/

/-- the loop `for child in nxt: try: cur.append(_t_eval(child, todo, scope)) except PathAccessError: pass`
    — one evaluation per entry, in order, on one state; another exception ends it -/
def collectS (f : Val → St → St × Except EErr LRes) : List Val → St → St × Except EErr (List LRes)
  | [], s => (s, .ok [])
  | c :: rest, s =>
    match f c s with
    | (s1, .ok r) =>
      (match collectS f rest s1 with
       | (s2, .ok rs) => (s2, .ok (r :: rs))
       | (s2, .error e) => (s2, .error e))
    | (s1, .error (.pae _)) => collectS f rest s1
    | (s1, .error e) => (s1, .error e)

/-- what the wildcard branch does once `nxt` is known: `cur = []` (a new list), the loop, `break` -/
def wildS (f : Val → St → St × Except EErr LRes) (nxt : List Val) (s : St) : St × Except EErr LRes :=
  match collectS f nxt { s with next := s.next + 1 } with
  | (s', .ok rs) => (s', .ok (.list s.next rs))
  | (s', .error e) => (s', .error e)

def evalS (cs : Classes) : List Step → Val → St → St × Except EErr LRes
  | [], cur, s => (s, .ok (.val cur))
  | .star :: rest, cur, s => wildS (evalS cs rest) (starItems cs s.heap cur) s
  | .starstar :: rest, cur, s => wildS (evalS cs rest) (starstarItems cs s.heap cur).1 s
  | .acc op arg :: rest, cur, s =>
    (match accessStep cs s.heap op cur arg with
     | .ok v => evalS cs rest v s
     | .error e => (s, .error e))
  | .call name args :: rest, cur, s =>
    (match callStep cs s cur name args with
     | (s', .ok v) => evalS cs rest v s'
     | (s', .error e) => (s', .error e))

end Glom.C14
