import Glom.Py.Access
/-
  C01 — the extended access kernel (second generation of `Glom/Py/Access.lean`;
  the first generation stays as it is for the properties that share it).

  What is new:
    * `int()` on strings as CPython does it: Unicode whitespace is stripped,
      every Unicode decimal digit counts, single underscores between digits,
      the `sys.get_int_max_str_digits()` limit — driven by three tables read off
      the running interpreter (`PyRt`);
    * class-level behaviour of the target classes (`ClsInfo`): namedtuple
      fields, properties (that return, or raise), `__getattr__` fallbacks,
      `__missing__` of dict subclasses, `__slots__`, and the *class attributes*
      (methods, dunder names: `a.keys`, `a.__class__`) every instance reaches by
      name — as opaque objects;
    * a third outcome of a primitive: `beyond` — the access leaves the modelled
      domain (an access *on* an opaque object, a float index, …).  The model
      never guesses there.
-/
namespace Glom.C01
open Glom

/-- outcome of one Python-level access -/
inductive Acc where
  | ok (v : Val)
  | err (e : PyExc)
  | beyond                      -- outside the modelled domain
  deriving DecidableEq, Repr, Inhabited

/-- a class attribute whose value is computed by a C-level descriptor the model
    does not describe (`__dict__`, `__weakref__`, `int.real`, …): the model knows
    *that* it is reached, not what it is -/
def opaqueVal : Val := .sent "opaque"

/-- how a value identifies itself as the receiver of a bound method -/
def recvKey : Val → String
  | .ref a => "r" ++ toString a
  | .int i => "i" ++ toString i
  | .bool b => if b then "b1" else "b0"
  | .none => "n"
  | .str s => "s" ++ s
  | _ => "?"

/-- **the identity of a class attribute reached by name** (`kind` is how the class
    stores it, `owner` the class of the MRO that defines it, `cls` the receiver's
    class): a method is the bound method *of this receiver*, a classmethod is bound
    to the receiver's class, a builtin static (`__new__`) to the class `extra`, a
    constant is the very object in `owner.__dict__`, `__class__` is the class. -/
def attrToken (kind extra owner cls : String) (cur : Val) (n : String) : Val :=
  if kind == "method" then .sent ("bm|" ++ recvKey cur ++ "|" ++ n)
  else if kind == "clsmethod" then .sent ("cm|" ++ cls ++ "|" ++ n)
  else if kind == "static" then .sent ("cm|" ++ extra ++ "|" ++ n)
  else if kind == "const" then .sent ("ca|" ++ owner ++ "|" ++ n)
  else if kind == "class" then .sent ("ty|" ++ cls)
  else opaqueVal

/-- what a class-level hook (property getter, `__getattr__`, `__missing__`) does -/
inductive Behav where
  | raises (cls : String)       -- raise cls(...)
  | const (v : Val)             -- return a constant scalar
  | echo                        -- return the name / key it was asked for
  | slot (attr : String)        -- return the instance attribute `attr` (raw: object.__getattribute__)
  | table (attr : String)       -- return <raw instance attribute attr>[name]
  | glomTable (attr : String)   -- return glom(<raw instance attribute attr>, Path(name)): a nested glom call
  deriving DecidableEq, Repr, Inhabited

structure ClsInfo where
  fields : List String := []              -- namedtuple `_fields`: field i ↦ item i
  props : List (String × Behav) := []     -- data descriptors defined by this class
  attrs : List (String × String × String) := []   -- other names in the class's own `__dict__`: (name, kind, extra)
  fallback : Option Behav := none         -- `__getattr__`
  missing : Option Behav := none          -- `__missing__`
  logA : Bool := false                    -- instances log every public attribute read (`__getattribute__`)
  logI : Bool := false                    -- instances log every subscription (`__getitem__`)
  deriving Repr, Inhabited

/-- tables read off the running interpreter -/
structure PyRt where
  spaces : List Nat                       -- code points `int()` strips as whitespace
  zeros : List Nat                        -- code point of DIGIT ZERO of every Unicode decimal block
  maxDigits : Nat                         -- `sys.get_int_max_str_digits()` (0 = no limit)
  builtinAttrs : List (String × List (String × String × String))   -- builtin class ↦ its own `__dict__`: (name, kind, extra)
  deriving Repr, Inhabited

structure KEnv where
  ct : ClassTable
  info : List (String × ClsInfo)
  rt : PyRt

/-! ### `int(str)` -/

inductive Tok where
  | sp | sign (neg : Bool) | dig (d : Nat) | us | bad
  deriving DecidableEq, Repr

def PyRt.digitVal (rt : PyRt) (c : Char) : Option Nat :=
  rt.zeros.findSome? (fun z => if z ≤ c.toNat ∧ c.toNat < z + 10 then some (c.toNat - z) else none)

def PyRt.tok (rt : PyRt) (c : Char) : Tok :=
  if rt.spaces.contains c.toNat then .sp
  else match rt.digitVal c with
    | some d => .dig d
    | none =>
      if c = '+' then .sign false else if c = '-' then .sign true
      else if c = '_' then .us else .bad

/-- digits and single underscores after a first digit: value, number of digits, rest -/
def digitsGo : List Tok → Nat → Nat → Nat × Nat × List Tok
  | .dig d :: r, acc, n => digitsGo r (acc * 10 + d) (n + 1)
  | .us :: .dig d :: r, acc, n => digitsGo r (acc * 10 + d) (n + 1)
  | r, acc, n => (acc, n, r)

def dropSp : List Tok → List Tok
  | .sp :: r => dropSp r
  | r => r

def allSp : List Tok → Bool
  | [] => true
  | .sp :: r => allSp r
  | _ => false

def intOfToks (maxD : Nat) (ts : List Tok) : Option Int :=
  let ts := dropSp ts
  let sr : Bool × List Tok := match ts with
    | .sign n :: r => (n, r)
    | r => (false, r)
  match sr.2 with
  | .dig d :: r =>
    let g := digitsGo r d 1
    if allSp g.2.2 then
      if maxD != 0 && g.2.1 > maxD then none
      else some (if sr.1 then - (g.1 : Int) else (g.1 : Int))
    else none
  | _ => none

/-- `int(s)` for a `str`: `none` = ValueError -/
def PyRt.intOfStr (rt : PyRt) (s : String) : Option Int :=
  intOfToks rt.maxDigits (s.toList.map rt.tok)

/-- `int(v)`; the result is `.ok (.int i)` -/
def pyInt2 (rt : PyRt) (h : Heap) : Val → Acc
  | .int i => .ok (.int i)
  | .bool b => .ok (.int (if b then 1 else 0))
  | .str s => match rt.intOfStr s with
    | some i => .ok (.int i)
    | none => .err (exc "ValueError")
  | .none => .err (exc "TypeError")
  | .ref a => match h[a]? with
    | some _ => .err (exc "TypeError")
    | none => .beyond
  | _ => .beyond

/-! ### class-level lookups -/

def KEnv.infoOf (k : KEnv) (c : String) : ClsInfo :=
  match k.info.find? (·.1 == c) with
  | some (_, i) => i
  | none => {}

/-- first class of the MRO for which `f` gives something -/
def KEnv.findMro {α} (k : KEnv) (cls : String) (f : ClsInfo → Option α) : Option α :=
  (k.ct.mro cls).findSome? (fun c => f (k.infoOf c))

def assocGet {β} (l : List (String × β)) (n : String) : Option β :=
  match l.find? (·.1 == n) with
  | some (_, b) => some b
  | none => none

def findAttr (l : List (String × String × String)) (n : String) : Option (String × String) :=
  match l.find? (·.1 == n) with
  | some (_, ke) => some ke
  | none => none

/-- the class of the MRO that defines the attribute `n` (not modelled as a property /
    field / slot), and how it stores it: `(owner, kind, extra)` -/
def KEnv.classAttr (k : KEnv) (cls n : String) : Option (String × String × String) :=
  (k.ct.mro cls).findSome? (fun c =>
    match findAttr (k.infoOf c).attrs n with
    | some ke => some (c, ke)
    | none =>
      match assocGet k.rt.builtinAttrs c with
      | some l => (findAttr l n).map (fun ke => (c, ke))
      | none => none)

def KEnv.hasClassAttr (k : KEnv) (cls n : String) : Bool := (k.classAttr cls n).isSome

/-- values the kernel describes -/
def modelled (h : Heap) : Val → Bool
  | .none | .bool _ | .int _ | .str _ => true
  | .ref a => (h[a]?).isSome
  | _ => false

def instAttr (h : Heap) (cur : Val) (n : String) : Option Val :=
  match cur with
  | .ref a =>
    match h[a]? with
    | some (.inst _ attrs) => assocGet attrs n
    | _ => none
  | _ => none

def tupleItems (h : Heap) (cur : Val) : Option (List Val) :=
  match cur with
  | .ref a =>
    match h[a]? with
    | some (.tuple _ xs) => some xs
    | _ => none
  | _ => none

/-- hooks that do not subscript -/
def runBehav0 (h : Heap) (b : Behav) (cur arg : Val) : Acc :=
  match b with
  | .raises c => .err ⟨c⟩
  | .const v => .ok v
  | .echo => .ok arg
  | .slot a =>
    match instAttr h cur a with
    | some v => .ok v
    | none => .err (exc "AttributeError")
  | .table _ => .beyond
  | .glomTable _ => .beyond

/-! ### `cur[key]` -/

def pyGetitem2 (k : KEnv) (h : Heap) (cur key : Val) : Acc :=
  if !(modelled h key) then .beyond else
  match cur with
  | .ref a =>
    match h[a]? with
    | some (.list _ xs) | some (.tuple _ xs) =>
      match asIndex key with
      | some i => match pyIndex xs i with
        | some v => .ok v
        | none => .err (exc "IndexError")
      | none => .err (exc "TypeError")
    | some (.dict c es) =>
      if key.hashable h then
        match key with
        | .ref _ => .beyond           -- structural equality of tuple keys is not modelled
        | _ =>
          match dictLookup es key with
          | some v => .ok v
          | none =>
            match k.findMro c (·.missing) with
            | some b => runBehav0 h b cur key
            | none => .err (exc "KeyError")
      else .err (exc "TypeError")
    | some (.set ..) | some (.inst ..) => .err (exc "TypeError")
    | none => .beyond
  | .str s =>
    match asIndex key with
    | some i => match strIndex s i with
      | some v => .ok v
      | none => .err (exc "IndexError")
    | none => .err (exc "TypeError")
  | .none | .bool _ | .int _ => .err (exc "TypeError")
  | _ => .beyond

/-- **a nested glom call made by an accessor**: `glom(d, Path(arg))` with the default
    registry on a plain dict `d` — the value, or the *inner* PathAccessError (one segment,
    part 0) that call ends with; any other `d` is outside the modelled domain -/
def glomOnTable (k : KEnv) (h : Heap) (d arg : Val) : Acc :=
  match d with
  | .ref a =>
    match h[a]? with
    | some (.dict c _) =>
      if c == "dict" || c == "OrderedDict" then
        match pyGetitem2 k h d arg with
        | .ok v => .ok v
        | .err _ => .err ⟨"PathAccessError"⟩
        | .beyond => .beyond
      else .beyond
    | _ => .beyond
  | _ => .beyond

def runBehav (k : KEnv) (h : Heap) (b : Behav) (cur arg : Val) : Acc :=
  match b with
  | .glomTable a =>
    match instAttr h cur a with
    | some d => glomOnTable k h d arg
    | none => .err (exc "AttributeError")
  | .table a =>
    match instAttr h cur a with
    | some d => pyGetitem2 k h d arg
    | none => .err (exc "AttributeError")
  | b => runBehav0 h b cur arg

/-! ### `getattr(cur, name)` -/

def indexOf? (l : List String) (n : String) : Option Nat :=
  match l with
  | [] => none
  | x :: r => if x == n then some 0 else (indexOf? r n).map (· + 1)

/-- Python's lookup order: data descriptors of the class (properties, namedtuple
    fields), the instance's own attributes, other class attributes, and — whenever
    that ends in AttributeError — the `__getattr__` fallback. -/
def pyGetattr2 (k : KEnv) (h : Heap) (cur name : Val) : Acc :=
  if !(modelled h cur) then .beyond else
  match name with
  | .str n =>
    let cls := cur.clsName h
    let fb : Acc :=
      match k.findMro cls (·.fallback) with
      | some b => runBehav k h b cur name
      | none => .err (exc "AttributeError")
    match k.findMro cls (fun i => assocGet i.props n) with
    | some b =>
      match runBehav k h b cur name with
      | .err e => if e.cls == "AttributeError" then fb else .err e
      | a => a
    | none =>
      match k.findMro cls (fun i => indexOf? i.fields n) with
      | some i =>
        match tupleItems h cur with
        | some xs => match xs[i]? with
          | some v => .ok v
          | none => .beyond         -- a namedtuple cell with too few items: ill-formed heap
        | none => .beyond
      | none =>
        match instAttr h cur n with
        | some v => .ok v
        | none =>
          match k.classAttr cls n with
          | some (owner, kind, extra) => .ok (attrToken kind extra owner cls cur n)
          | none => fb
  | .none | .bool _ | .int _ | .ref _ => .err (exc "TypeError")   -- attribute name must be string
  | _ => .beyond

/-- glom's `_get_sequence_item(target, index)`: `target[int(index)]` -/
def pySeqGet2 (k : KEnv) (h : Heap) (cur seg : Val) : Acc :=
  if !(modelled h cur) then .beyond else
  match pyInt2 k.rt h seg with
  | .ok i => pyGetitem2 k h cur i
  | a => a

/-! ### what the access-logging classes of the catalogue record

  A class with `logA` logs the instance on every read of a public attribute
  (its `__getattribute__` runs first, whatever the outcome); a class with `logI`
  logs on every subscription (its `__getitem__`).  `int(seg)` runs before the
  subscription, so a segment `int()` rejects never reaches the container. -/

def startsUnderscore (n : String) : Bool := n.toList.head? == some '_'

def attrLog (k : KEnv) (h : Heap) (cur name : Val) : List Nat :=
  match cur, name with
  | .ref a, .str n => if (k.infoOf (cur.clsName h)).logA && !startsUnderscore n then [a] else []
  | _, _ => []

def itemLog (k : KEnv) (h : Heap) (cur : Val) : List Nat :=
  match cur with
  | .ref a => if (k.infoOf (cur.clsName h)).logI then [a] else []
  | _ => []

def seqLog (k : KEnv) (h : Heap) (cur seg : Val) : List Nat :=
  match pyInt2 k.rt h seg with
  | .ok _ => itemLog k h cur
  | _ => []

end Glom.C01
