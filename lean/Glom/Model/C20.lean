/-
  C20 — code-shaped model of the state glom calls share, and of what they do not share.

  Shared between calls (glom/core.py): `Path._CACHE[PATH_STAR]` (text → parsed Path),
  the registry's `_type_cache` ((type, op) → handler), `Path._STAR_WARNED`, and the two
  read-only entries of `_DEFAULT_SCOPE`.  Everything else — scope frames, `globals`
  ScopeVars, MODE, CHILD_ERRORS, accumulators — lives in dicts that `glom()` / `_glom`
  create per call (extracted facts).

  * `Path.from_text` → `fromTextP`: the membership test `text not in cache`, the
    `len(cache) > _MAX_CACHE` test, the store `cache[text] = create()` and the final
    `return cache[text]` are **separate** micro-steps: another thread may run between any
    two of them.
  * `TargetRegistry.get_handler` → `getHandlerP`: `cache_key not in self._type_cache`,
    the store, the final lookup; an unregistered type raises before anything is stored.
  * a glom evaluation, as far as shared state can see it, is a sequence of such accesses
    interleaved with user callables (`Ev`); `compile` expands it into micro-steps (`Prog`).
  * threads → `Sys`: a shared state and one residual program per thread; `Sys.step i`
    performs exactly one micro-step of thread `i` (one dict lookup / one dict store is
    atomic under the GIL — assumed, not modelled further); a schedule is any list of
    thread indices.
  * scope frames → `SHeap`: `glom()` allocates the root frame of a call as a child of the
    default scope, `_glom` allocates one child frame per evaluation step and writes only
    into the frames of its own chain; a call made from a callable inside a running call
    (`SOp.call`) starts again from the default scope.
-/
namespace Glom.C20

abbrev Err := String

/-- a parsed path, by value: its segments -/
abbrev PathV := List String

/-- `create()` in `Path.from_text`: a function of the text only -/
def create (text : String) : PathV := text.splitOn "."

/-- result of `get_handler`: a handler, `UnregisteredTarget` raised (`raise_exc=True`), or `False`
    returned (`raise_exc=False`) -/
inductive HRes where
  | found (h : String)
  | unregistered
  | noHandler
  deriving DecidableEq, Repr

abbrev TKey := String × String        -- (type name, op)

/-- the registry tables (`_op_type_map`, `_op_type_tree`): fixed while calls run -/
abbrev Reg := TKey → Option String

/-- outcome of a call: a value, or an exception class with its message / trace text -/
inductive Out where
  | val (v : String)
  | err (cls : String) (text : String)
  deriving DecidableEq, Repr, Inhabited

/-- a Python dict with string-like keys, insertion ordered -/
def dlookup {α β : Type} [DecidableEq α] (k : α) : List (α × β) → Option β
  | [] => none
  | (k', v) :: r => if k' = k then some v else dlookup k r

def dstore {α β : Type} [DecidableEq α] (k : α) (v : β) : List (α × β) → List (α × β)
  | [] => [(k, v)]
  | (k', v') :: r => if k' = k then (k, v) :: r else (k', v') :: dstore k v r

structure Sh where
  pathCache : List (String × PathV) := []
  typeCache : List (TKey × Option String) := []     -- (type, op) ↦ handler; `none` is a remembered `False`
  starWarned : Bool := false

/-! ### micro-steps -/

inductive Prog where
  | done (o : Out)
  | pcHas (t : String) (k : Bool → Prog)                 -- `text in cache`
  | pcLen (k : Nat → Prog)                               -- `len(cache)`
  | pcStore (t : String) (p : PathV) (k : Prog)          -- `cache[text] = p`
  | pcGet (t : String) (k : Option PathV → Prog)         -- `cache[text]` (`none`: KeyError)
  | tcHas (key : TKey) (k : Bool → Prog)
  | tcStore (key : TKey) (h : Option String) (k : Prog)
  | tcGet (key : TKey) (k : Option (Option String) → Prog)   -- outer `none`: KeyError
  | tcReset (k : Prog)                                   -- `register(...)`: `self._type_cache = {}`
  | user (f : String) (k : Prog)                         -- a user callable runs (a yield point)

/-- `Path.from_text(text)`; `max` = `Path._MAX_CACHE` -/
def fromTextP (max : Nat) (t : String) (k : Except Err PathV → Prog) : Prog :=
  .pcHas t fun present =>
    if present then
      .pcGet t fun r => k (match r with | some p => .ok p | none => .error "KeyError")
    else
      .pcLen fun n =>
        if n > max then k (.ok (create t))
        else .pcStore t (create t)
          (.pcGet t fun r => k (match r with | some p => .ok p | none => .error "KeyError"))

/-- what `get_handler` makes of the memo entry it reads last: `ret = self._type_cache[cache_key]`,
    `if ret is False and raise_exc: raise UnregisteredTarget` -/
def hitResult (raiseExc : Bool) : Option (Option String) → Except Err HRes
  | none => .error "KeyError"
  | some (some h) => .ok (.found h)
  | some none => .ok (if raiseExc then .unregistered else .noHandler)

/-- `registry.get_handler(op, obj, raise_exc=…)`: membership test; on a miss the tables are
    searched, an unregistered type raises BEFORE anything is stored when `raise_exc`, otherwise
    `False` is stored like a handler; the final lookup; a `False` found there (remembered by an
    earlier `raise_exc=False` lookup, of this call or of any other) raises when `raise_exc` -/
def getHandlerP (reg : Reg) (key : TKey) (raiseExc : Bool) (k : Except Err HRes → Prog) : Prog :=
  .tcHas key fun present =>
    if present then
      .tcGet key fun r => k (hitResult raiseExc r)
    else
      match reg key with
      | none =>
        if raiseExc then k (.ok .unregistered)
        else .tcStore key none (.tcGet key fun r => k (hitResult raiseExc r))
      | some h => .tcStore key (some h) (.tcGet key fun r => k (hitResult raiseExc r))

/-- `get_handler` as it was before /repo 8b51f6e: what the memo holds is returned as it is -/
def getHandlerNoRecheck (reg : Reg) (key : TKey) (raiseExc : Bool) (k : Except Err HRes → Prog) : Prog :=
  .tcHas key fun present =>
    if present then
      .tcGet key fun r => k (hitResult false r)
    else
      match reg key with
      | none =>
        if raiseExc then k (.ok .unregistered)
        else .tcStore key none (.tcGet key fun r => k (hitResult false r))
      | some h => .tcStore key (some h) (.tcGet key fun r => k (hitResult false r))

/-- a glom evaluation as far as the shared state can see it -/
inductive Ev where
  | ret (o : Out)
  | parse (t : String) (k : Except Err PathV → Ev)
  | handler (key : TKey) (raiseExc : Bool) (k : Except Err HRes → Ev)   -- `get_handler(op, obj, raise_exc=…)`
  | user (f : String) (k : Ev)
  | nested (inner : Ev) (k : Out → Ev)       -- a callable calls glom(...) itself

/-- sequential composition of micro-programs -/
def Prog.bind : Prog → (Out → Prog) → Prog
  | .done o, f => f o
  | .pcHas t k, f => .pcHas t fun b => (k b).bind f
  | .pcLen k, f => .pcLen fun n => (k n).bind f
  | .pcStore t p k, f => .pcStore t p (k.bind f)
  | .pcGet t k, f => .pcGet t fun r => (k r).bind f
  | .tcHas key k, f => .tcHas key fun b => (k b).bind f
  | .tcStore key h k, f => .tcStore key h (k.bind f)
  | .tcGet key k, f => .tcGet key fun r => (k r).bind f
  | .tcReset k, f => .tcReset (k.bind f)
  | .user g k, f => .user g (k.bind f)

def compile (max : Nat) (reg : Reg) : Ev → Prog
  | .ret o => .done o
  | .parse t k => fromTextP max t fun r => compile max reg (k r)
  | .handler key re k => getHandlerP reg key re fun r => compile max reg (k r)
  | .user f k => .user f (compile max reg k)
  | .nested inner k => (compile max reg inner).bind fun o => compile max reg (k o)

/-- a handler lookup with nobody else around: what the registry tables say -/
def lookupAlone (reg : Reg) (key : TKey) (raiseExc : Bool) : HRes :=
  match reg key with
  | some h => .found h
  | none => if raiseExc then .unregistered else .noHandler

/-- the outcome of an evaluation run with nobody else around and cold or warm caches alike:
    a parse yields `create text`, a lookup what the registry tables say -/
def denote (reg : Reg) : Ev → Out
  | .ret o => o
  | .parse t k => denote reg (k (.ok (create t)))
  | .handler key re k => denote reg (k (.ok (lookupAlone reg key re)))
  | .user _ k => denote reg k
  | .nested inner k => denote reg (k (denote reg inner))

/-! ### threads -/

structure Sys where
  sh : Sh
  threads : List Prog

/-- one micro-step of a program against the shared state -/
def Prog.step (p : Prog) (sh : Sh) : Prog × Sh :=
  match p with
  | .done o => (.done o, sh)
  | .pcHas t k => (k (dlookup t sh.pathCache).isSome, sh)
  | .pcLen k => (k sh.pathCache.length, sh)
  | .pcStore t v k => (k, { sh with pathCache := dstore t v sh.pathCache })
  | .pcGet t k => (k (dlookup t sh.pathCache), sh)
  | .tcHas key k => (k (dlookup key sh.typeCache).isSome, sh)
  | .tcStore key h k => (k, { sh with typeCache := dstore key h sh.typeCache })
  | .tcGet key k => (k (dlookup key sh.typeCache), sh)
  | .tcReset k => (k, { sh with typeCache := [] })
  | .user _ k => (k, sh)

def Sys.step (s : Sys) (i : Nat) : Sys :=
  match s.threads[i]? with
  | none => s
  | some p => let r := p.step s.sh; { sh := r.2, threads := s.threads.set i r.1 }

def Sys.run (s : Sys) : List Nat → Sys
  | [] => s
  | i :: r => (s.step i).run r

/-- run a thread alone for `n` micro-steps -/
def runAlone (p : Prog) (sh : Sh) : Nat → Prog × Sh
  | 0 => (p, sh)
  | n + 1 => let r := p.step sh; runAlone r.1 r.2 n

/-- a scheduler that switches only at user callables (the harness's granularity): run thread
    `i` until it has passed its next yield point or is done (`fuel` bounds the micro-steps) -/
def Sys.runToYield (s : Sys) (i : Nat) : Nat → Sys
  | 0 => s
  | fuel + 1 =>
    match s.threads[i]? with
    | none => s
    | some (.done _) => s
    | some (.user _ _) => s.step i
    | some _ => (s.step i).runToYield i fuel

def Sys.runSegments (s : Sys) (fuel : Nat) : List Nat → Sys
  | [] => s
  | i :: r => (s.runToYield i fuel).runSegments fuel r

/-! ### scope frames on a heap -/

structure Frame where
  vars : List (String × String)
  deriving DecidableEq, Repr

abbrev SHeap := List Frame

/-- what an evaluation does to scopes.  `maps` of the current ChainMap are the addresses in
    `chain`, innermost first; the last one is the default scope (address 0). -/
inductive SOp where
  | child (init : List (String × String))   -- `scope.new_child({...})`, `pmap[LAST_CHILD_SCOPE] = child`
  | set (depth : Nat) (k v : String)        -- `scope.maps[depth][k] = v` (MODE, CUR_ERROR, CHILD_ERRORS, globals …)
  | pop                                      -- the evaluation step returns
  | call (body : List SOp)                   -- a callable calls glom(...): `_DEFAULT_SCOPE.new_child({...})`

def writeFrame (h : SHeap) (a : Nat) (k v : String) : SHeap :=
  match h[a]? with
  | some f => h.set a ⟨dstore k v f.vars⟩
  | none => h

/-- the fresh per-call dict of `glom()` -/
def rootInit : List (String × String) :=
  [("Path", "[]"), ("Inspect", "None"), ("MODE", "AUTO"), ("MIN_MODE", "None"), ("CHILD_ERRORS", "[]"),
   ("globals", "ScopeVars({}, {})")]

mutual
def execOp (h : SHeap) (chain : List Nat) : SOp → SHeap × List Nat
  | .child init =>
    let a := h.length
    let h1 := h ++ [⟨init⟩]
    -- `pmap[LAST_CHILD_SCOPE] = scope`: the parent is the current head; never the default scope,
    -- because `_glom` is only entered with a scope `glom()` built
    (match chain with
     | p :: _ :: _ => (writeFrame h1 p "LAST_CHILD_SCOPE" (toString a), a :: chain)
     | _ => (h1, a :: chain))
  | .set depth k v =>
    if depth + 1 < chain.length then
      (match chain[depth]? with
       | some a => (writeFrame h a k v, chain)
       | none => (h, chain))
    else (h, chain)
  | .pop =>
    (match chain with
     | _ :: rest@(_ :: _ :: _) => (h, rest)
     | _ => (h, chain))
  | .call body =>
    let a := h.length
    let r := execOps (h ++ [⟨rootInit⟩]) [a, 0] body
    (r.1, chain)
def execOps (h : SHeap) (chain : List Nat) : List SOp → SHeap × List Nat
  | [] => (h, chain)
  | op :: r => let s := execOp h chain op; execOps s.1 s.2 r
end

/-! ### the recursion guard of `bbrepr`

`_BBRepr.repr1(x)`: `key = (id(x), get_ident())`; `if key in self._active: return '...'`; add the key,
render, discard it.  ONE `_BBRepr` instance (and one `reprlib.recursive_repr` set) serves every call
of every thread.  While the repr of an object runs, user code (`__repr__`) runs: it may render items —
and it may make a glom call of its own, whose error trace renders a target with the same renderer. -/

/-- how the repr of an object comes to render another object -/
inductive Via where
  | item      -- as one of its items (a container that contains itself shows `...`: what the guard is for)
  | call      -- its `__repr__` makes a glom call and renders that call's error: the trace shows the call's target
  deriving DecidableEq, Repr

/-- an object being rendered, and the object its repr renders in turn -/
inductive RChain where
  | leaf (id : Nat) (name : String)
  | node (id : Nat) (name : String) (via : Via) (inner : RChain)

/-- the texts the renderer produces, outermost first.  `perCall = false`: the guard of the source,
    keyed by (object, thread); `perCall = true`: a guard that also knows which glom call it serves -/
def renderGuarded (perCall : Bool) : List (Nat × Nat × Nat) → Nat → Nat → RChain → List String
  | active, tid, call, .leaf id name =>
    if active.contains (id, tid, if perCall then call else 0) then ["..."] else [name]
  | active, tid, call, .node id name via inner =>
    let key := (id, tid, if perCall then call else 0)
    if active.contains key then ["..."]
    else name :: renderGuarded perCall (key :: active) tid (match via with | .item => call | .call => call + 1) inner

end Glom.C20
