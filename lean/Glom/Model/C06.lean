/-
  C06 — the library's two internal caches, as glom implements them.

  `Path.from_text` (glom/core.py):
      cache = cls._CACHE[PATH_STAR]
      if text not in cache:
          if len(cache) > cls._MAX_CACHE:
              return create()
          cache[text] = create()
      return cache[text]
  `TargetRegistry.get_handler`: memo keyed by (type, op), filled on a miss unless the lookup
  raises, emptied by `register` / `register_op`.

  Everything else a glom call does is per call (C20 / C07), so a call is modelled as an
  *adaptive strategy*: it asks a sequence of queries (parse this text / handler for this
  (type, op) in this registry), each next query depending on the answers so far, and finally
  produces its outcome from the answers.  The parse function and the uncached handler lookup are
  parameters.

  Registries: a process holds the module-level `TargetRegistry` (index 0) and one per `Glommer`
  (index i > 0); each has its own registrations and its own memo, `register` on one resets that
  one's memo only.  The memo key is the *exact* type of the target; a registration may name any
  type — in particular a base of a type whose handler is already memoised (`TReg` below: types
  with their MRO, `register` as coded, lookup = nearest registered type in the MRO).

  `Vars` / `ScopeVars` (the per-evaluation variable holder behind `S(v=Vars(...))`, `A.v.x`,
  `S.globals`) are modelled on a small heap (`VHeap`), because what matters there is which dict
  *object* is written: `ScopeVars.__init__` builds `self.__dict__ = dict(base)` — a new object.
-/
namespace Glom.C06

variable {P H O : Type}

/-- `Path._CACHE = {True: {}, False: {}}` -/
structure PathCache (P : Type) where
  star : List (String × P) := []
  plain : List (String × P) := []

def PathCache.get (c : PathCache P) (b : Bool) : List (String × P) := if b then c.star else c.plain

def PathCache.set (c : PathCache P) (b : Bool) (l : List (String × P)) : PathCache P :=
  if b then { c with star := l } else { c with plain := l }

def assocGet {K V : Type} [BEq K] (l : List (K × V)) (k : K) : Option V := (l.find? (·.1 == k)).map (·.2)

/-- `Path.from_text(text)` under the current `PATH_STAR` -/
def fromText (parse : Bool → String → P) (maxCache : Nat) (pathStar : Bool) (c : PathCache P) (text : String) :
    P × PathCache P :=
  let sub := c.get pathStar
  match assocGet sub text with
  | some p => (p, c)                                       -- `return cache[text]`
  | none =>
    if sub.length > maxCache then (parse pathStar text, c) -- `return create()`: not stored
    else
      let p := parse pathStar text
      (p, c.set pathStar ((text, p) :: sub))               -- `cache[text] = create(); return cache[text]`

/-- the handler memo `_type_cache`: (type, op) ↦ the handler, or `False` (`none`) remembered from a
    lookup made with `raise_exc=False` -/
abbrev HCache (H : Type) := List ((String × String) × Option H)

/-- `get_handler(op, obj, raise_exc=raiseExc)` (glom/core.py, after 8b51f6e):
      if cache_key not in self._type_cache:
          … ret = type_map[obj_type] / type_map[closest] / False …
          if ret is False and raise_exc: raise UnregisteredTarget     -- nothing is stored
          self._type_cache[cache_key] = ret                           -- a False IS stored when raise_exc=False
      ret = self._type_cache[cache_key]
      if ret is False and raise_exc: raise UnregisteredTarget         -- a remembered False raises as well
      return ret
    The result: the handler, or `none` — which the caller sees as UnregisteredTarget (`raiseExc`) or as the
    returned value `False` (`ansOf`). -/
def getHandler (compute : String × String → Option H) (hc : HCache H) (key : String × String)
    (raiseExc : Bool := true) : Option H × HCache H :=
  match assocGet hc key with
  | some r => (r, hc)
  | none =>
    match compute key with
    | some h => (some h, (key, some h) :: hc)
    | none => if raiseExc then (none, hc) else (none, (key, none) :: hc)

/-- what a call may ask the library's shared state -/
inductive Query where
  | path (text : String)
  | handler (rg : Nat) (ty op : String) (raiseExc : Bool := true)
      -- `scope[TargetRegistry].get_handler(op, obj, raise_exc=raiseExc)`, registry `rg`

inductive Answer (P H : Type) where
  | path (p : P)
  | handler (h : Option H)      -- the handler, or (`none`) UnregisteredTarget was raised
  | noHandler                   -- `False` was returned (a lookup with `raise_exc=False`)

/-- how the caller sees the result of a lookup -/
def ansOf {P H : Type} (raiseExc : Bool) (r : Option H) : Answer P H :=
  match r with
  | some h => .handler (some h)
  | none => if raiseExc then .handler none else .noHandler

/-- `get_handler` BEFORE 8b51f6e (`return self._type_cache[cache_key]` with no second check): a `False`
    remembered from a `raise_exc=False` lookup was *returned* to a raising lookup.  Kept to show that the
    memo theorem is about the code that exists (`c06_memo_false_counterexample`). -/
def getHandlerOld {P : Type} (compute : String × String → Option H) (hc : HCache H) (key : String × String)
    (raiseExc : Bool) : Answer P H × HCache H :=
  match assocGet hc key with
  | some (some h) => (.handler (some h), hc)
  | some none => (.noHandler, hc)
  | none =>
    match compute key with
    | some h => (.handler (some h), (key, some h) :: hc)
    | none => if raiseExc then (.handler none, hc) else (.noHandler, (key, none) :: hc)

/-- a call: next query from the answers so far, or the outcome -/
abbrev Strategy (P H O : Type) := List (Answer P H) → Sum Query O

/-- the shared state of the library between calls -/
structure World (P H R : Type) where
  pc : PathCache P := {}
  pathStar : Bool := true
  reg : Nat → R                             -- the registrations in force, per registry
  hc : Nat → HCache H := fun _ => []        -- the handler memo of every registry

/-- `f[i] = x` -/
def setAt {α : Type} (f : Nat → α) (i : Nat) (x : α) : Nat → α := fun j => if j = i then x else f j

variable {R : Type}

/-- run a call against the cached world (`fuel` bounds the number of queries) -/
def runCached (parse : Bool → String → P) (compute : R → String × String → Option H) (maxCache : Nat)
    (strat : Strategy P H O) : Nat → World P H R → List (Answer P H) → Option O × World P H R
  | 0, w, _ => (none, w)
  | fuel + 1, w, answers =>
    match strat answers with
    | .inr o => (some o, w)
    | .inl (.path text) =>
      let (p, pc') := fromText parse maxCache w.pathStar w.pc text
      runCached parse compute maxCache strat fuel { w with pc := pc' } (answers ++ [.path p])
    | .inl (.handler rg ty op rx) =>
      let (h, hc') := getHandler (compute (w.reg rg)) (w.hc rg) (ty, op) rx
      runCached parse compute maxCache strat fuel { w with hc := setAt w.hc rg hc' } (answers ++ [ansOf rx h])

/-- the same call with no caches at all -/
def runPure (parse : Bool → String → P) (compute : R → String × String → Option H)
    (strat : Strategy P H O) (pathStar : Bool) (reg : Nat → R) : Nat → List (Answer P H) → Option O
  | 0, _ => none
  | fuel + 1, answers =>
    match strat answers with
    | .inr o => some o
    | .inl (.path text) => runPure parse compute strat pathStar reg fuel (answers ++ [.path (parse pathStar text)])
    | .inl (.handler rg ty op rx) =>
      runPure parse compute strat pathStar reg fuel (answers ++ [ansOf rx (compute (reg rg) (ty, op))])

/-- what happens between calls -/
inductive HOp (P H O R : Type) where
  | call (strat : Strategy P H O) (fuel : Nat)
  | setStar (b : Bool)                       -- toggling glom.core.PATH_STAR
  | register (rg : Nat) (f : R → R)          -- register()/register_op() on registry `rg`: new registrations, its memo reset

def stepWorld (parse : Bool → String → P) (compute : R → String × String → Option H) (maxCache : Nat) :
    World P H R → HOp P H O R → Option (Option O) × World P H R
  | w, .call strat fuel =>
    let (o, w') := runCached parse compute maxCache strat fuel w []
    (some o, w')
  | w, .setStar b => (none, { w with pathStar := b })
  | w, .register rg f => (none, { w with reg := setAt w.reg rg (f (w.reg rg)), hc := setAt w.hc rg [] })

/-- run a whole history, collecting the outcome of every call -/
def runHistory (parse : Bool → String → P) (compute : R → String × String → Option H) (maxCache : Nat) :
    World P H R → List (HOp P H O R) → List (Option O) × World P H R
  | w, [] => ([], w)
  | w, op :: rest =>
    let (o, w') := stepWorld parse compute maxCache w op
    let (os, w'') := runHistory parse compute maxCache w' rest
    (match o with | some x => x :: os | none => os, w'')

/-! ### concrete registrations: types with their MRO, tagged handlers

  `TargetRegistry.register(target_type, exact=False, **kw)` stores in `_op_type_map[op][target_type]`,
  for every op of `kw` and every op with an auto-discovery function (`get`, `iterate`, and the
  operations added with `register_op`: `assign`, `delete`), the keyword handler, else the handler
  already stored for exactly that type, else the auto-discovered one (`getattr` / `iter` / `setattr`
  / `delattr`: the tag `"default"`); unless `exact=True` it also enters the type into the type tree
  of each of these ops (`_register_fuzzy_type`: the tree is never pruned, so a type that was once
  registered without `exact` stays in it).

  A lookup for an object of exact type `t` (`get_handler`): `type_map[t]` when `t` itself was
  registered (exact or not); else the closest type *of the tree* the object is an instance of:
  the nearest type in `t`'s MRO that is in the tree (for real — non-virtual — subclasses that is
  what `_get_closest_type` computes: `min(candidates, key=mro.index)`), else — candidates that
  are not in the MRO at all — an ABC the object is a *virtual* instance of (`ABC.register`,
  `__subclasshook__`, `collections.abc`); its handler is then `type_map[closest]`: the handler
  *currently* stored for that type, also when it was last registered with `exact=True`.
  `object` is registered by default, so for `get` / `iterate` / `assign` / `delete` there is always
  a handler; for `keys` there is one when the instance has a `__dict__`.

  Virtual bases (`virt`) are consulted where the choice among the candidates outside the MRO is
  determined by the registrations of the case alone.  An ABC that defines `__iter__` lies below
  `_AbstractIterable` in every type tree that holds `_AbstractIterable`: the trees of the auto ops `get`,
  `iterate` and — since `register_op` builds them in registration order (165f0ee: `_AbstractIterable`
  is registered before `_ObjStyleKeys`, so its branch comes first among the siblings under `object`)
  — `assign` and `delete`; there the ABC is the first of the deepest matches.  The tree of `keys` (no
  auto op) holds `dict`, `_ObjStyleKeys`, then the user's types: for an instance with a `__dict__`
  `_ObjStyleKeys` is an earlier sibling of the ABC and wins; without one the ABC is the only match. -/

abbrev Tag := String

structure TReg where
  mro : List (String × List String) := []           -- type ↦ its MRO (itself first), as Python computed it
  entries : List ((String × String) × Tag) := []    -- `_op_type_map`: (type, op) ↦ handler, newest first
  nodefault : List (String × String) := []          -- (exact type, op) with no built-in handler (`keys` of an
                                                    -- object without `__dict__`): the lookup raises unless a
                                                    -- type of the MRO is registered for `op`
  fuzzy : List (String × String) := []              -- `_op_type_tree`: (type, op) registered at least once without `exact=True`
  virt : List (String × List String) := []          -- type ↦ the ABCs (iterable ones) its instances are virtual
                                                    -- instances of (`isinstance` holds, not in the MRO), as Python computed it

def autoOps : List String := ["get", "iterate", "assign", "delete"]

def regOps (kw : List (String × Tag)) : List String := (kw.map (·.1) ++ autoOps).eraseDups

/-- the handler `register` stores for `op` -/
def pickTag (entries : List ((String × String) × Tag)) (ty : String) (kw : List (String × Tag)) (op : String) : Tag :=
  match assocGet kw op with
  | some h => h
  | none => match assocGet entries (ty, op) with
    | some h => h
    | none => "default"

def newEntries (entries : List ((String × String) × Tag)) (ty : String) (kw : List (String × Tag)) :
    List ((String × String) × Tag) :=
  (regOps kw).map (fun op => ((ty, op), pickTag entries ty kw op))

/-- `register(ty, exact=exact, **kw)` -/
def TReg.register (r : TReg) (ty : String) (kw : List (String × Tag)) (exact : Bool := false) : TReg :=
  { r with entries := newEntries r.entries ty kw ++ r.entries,
           fuzzy := if exact then r.fuzzy else (regOps kw).map (fun op => (ty, op)) ++ r.fuzzy }

/-- the handler a lookup for exact type `ty` can get from type `c`: `type_map[c]` when `c` is the
    type itself or is in the type tree -/
def handlerVia (entries : List ((String × String) × Tag)) (fuzzy : List (String × String))
    (ty op c : String) : Option Tag :=
  if c == ty || fuzzy.contains (c, op) then assocGet entries (c, op) else none

/-- the first type of a list of candidates (nearest first) that gives a handler -/
def firstRegistered (via : String → Option Tag) : List String → Option Tag
  | [] => none
  | c :: cs => match via c with
    | some h => some h
    | none => firstRegistered via cs

def TReg.mroOf (r : TReg) (ty : String) : List String := (assocGet r.mro ty).getD [ty]

/-- the virtual bases a lookup of `op` for exact type `ty` falls back to after the MRO -/
def TReg.virtOf (r : TReg) (ty op : String) : List String :=
  if op != "keys" || r.nodefault.contains (ty, "keys") then (assocGet r.virt ty).getD [] else []

/-- the candidates of a lookup, nearest first: the MRO, then the virtual bases -/
def TReg.candidates (r : TReg) (ty op : String) : List String := r.mroOf ty ++ r.virtOf ty op

/-- the uncached lookup: nearest registered candidate, else the built-in handler (`getattr`,
    `iter`, `_ObjStyleKeys.get_keys`, `setattr`, `delattr`) when the type has one, else
    UnregisteredTarget (`none`) -/
def TReg.compute (r : TReg) (key : String × String) : Option Tag :=
  match firstRegistered (handlerVia r.entries r.fuzzy key.1 key.2) (r.candidates key.1 key.2) with
  | some h => some h
  | none => if r.nodefault.contains key then none else some "default"

/-! ### wildcard traversal: the handler lookups of `_extend_children`

  `*` / `**` (`'a.*'`, `'**'`, `T.__star__()`, `T.__starstar__()`) expand every visited container
  with
      try:    keys = get_handler('keys', item); get = get_handler('get', item)
      except UnregisteredTarget:
          try:    iterate = get_handler('iterate', item)
          except UnregisteredTarget: pass                      -- no children
          else:   children.extend(iterate(item))
      else:   for key in keys(item): children.append(get(item, key))
  i.e. per visited item up to three lookups in the registry of the call, the later ones depending
  on the answers to the earlier ones.  As a call it is the strategy `starStrategy rg tys` (`tys` =
  the exact types of the visited items, in visiting order); its outcome is the way the children of
  every item were reached. -/

/-- how the children of one item are reached -/
inductive StarUse (H : Type) where
  | keysGet (keys get : H)      -- `for key in keys(item): children.append(get(item, key))`
  | iter (h : H)                -- `children.extend(iterate(item))`
  | leaf                        -- neither: the item has no children
  deriving DecidableEq, Repr

inductive StarPhase (H : Type) where
  | keys | get (k : H) | iterate

/-- where a wildcard traversal is: the items still to expand, the lookup it is at for the first of
    them, and what it has found so far (newest first) -/
structure StarSt (H : Type) where
  todo : List String
  phase : StarPhase H
  acc : List (StarUse H)

def starOut (rg : Nat) : StarSt H → Sum Query (List (StarUse H))
  | ⟨[], _, acc⟩ => .inr acc.reverse
  | ⟨ty :: _, .keys, _⟩ => .inl (.handler rg ty "keys")
  | ⟨ty :: _, .get _, _⟩ => .inl (.handler rg ty "get")
  | ⟨ty :: _, .iterate, _⟩ => .inl (.handler rg ty "iterate")

def starStep : StarSt H → Answer P H → StarSt H
  | ⟨ty :: rest, .keys, acc⟩, .handler (some k) => ⟨ty :: rest, .get k, acc⟩
  | ⟨ty :: rest, .keys, acc⟩, .handler none => ⟨ty :: rest, .iterate, acc⟩
  | ⟨_ :: rest, .get k, acc⟩, .handler (some g) => ⟨rest, .keys, .keysGet k g :: acc⟩
  | ⟨ty :: rest, .get _, acc⟩, .handler none => ⟨ty :: rest, .iterate, acc⟩
  | ⟨_ :: rest, .iterate, acc⟩, .handler (some i) => ⟨rest, .keys, .iter i :: acc⟩
  | ⟨_ :: rest, .iterate, acc⟩, .handler none => ⟨rest, .keys, .leaf :: acc⟩
  | s, _ => s

/-- the wildcard call over items of exact types `tys` through registry `rg` -/
def starStrategy (rg : Nat) (tys : List String) : Strategy P H (List (StarUse H)) := fun answers =>
  starOut rg (answers.foldl starStep ⟨tys, .keys, []⟩)

/-- a wildcard call asks at most three lookups per item -/
def starFuel (tys : List String) : Nat := 3 * tys.length + 1

/-- the same without a memo, written as the code reads: what `_extend_children` uses for an item
    of exact type `ty` when every lookup is computed from the registrations -/
def childUse (compute : String × String → Option H) (ty : String) : StarUse H :=
  match compute (ty, "keys") with
  | some k =>
    match compute (ty, "get") with
    | some g => .keysGet k g
    | none => match compute (ty, "iterate") with
      | some i => .iter i
      | none => .leaf
  | none => match compute (ty, "iterate") with
    | some i => .iter i
    | none => .leaf

/-! ### `Vars` / `ScopeVars` on a heap of dict objects

  `Vars.__init__` keeps the caller's mapping (`self.base = base`, `self.defaults = kw`);
  `Vars.glomit` returns `ScopeVars(self.base, self.defaults)`; `ScopeVars.__init__` does
  `self.__dict__ = dict(base); self.__dict__.update(defaults)`; `A.v.name` is `setattr` on the
  ScopeVars object, i.e. a write into *its* `__dict__`; `S.v.name` reads it. -/

abbrev VDict (V : Type) := List (String × V)

def dSet {V : Type} (d : VDict V) (k : String) (v : V) : VDict V :=
  match d with
  | [] => [(k, v)]
  | (k', v') :: r => if k' == k then (k', v) :: r else (k', v') :: dSet r k v

/-- the dict objects alive: address = position -/
abbrev VHeap (V : Type) := List (VDict V)

def hSet {V : Type} : VHeap V → Nat → VDict V → VHeap V
  | [], _, _ => []
  | _ :: r, 0, d => d :: r
  | x :: r, n + 1, d => x :: hSet r n d

/-- `ScopeVars(base, defaults)`: a new dict object `dict(base)` updated with `defaults`; returns
    its address -/
def scopeVarsInit {V : Type} (h : VHeap V) (base : Nat) (defaults : VDict V) : VHeap V × Nat :=
  let d := defaults.foldl (fun d kv => dSet d kv.1 kv.2) (h.getD base [])
  (h ++ [d], h.length)

/-- what an evaluation does with its variable holder -/
inductive VOp (V : Type) where
  | write (name : String) (v : V)      -- `A.v.name`
  | read (name : String)               -- `S.v.name`

/-- run the reads / writes of one evaluation on the ScopeVars at address `a` -/
def runVOps {V : Type} : VHeap V → Nat → List (VOp V) → VHeap V × List (Option V)
  | h, _, [] => (h, [])
  | h, a, .write n v :: rest => runVOps (hSet h a (dSet (h.getD a []) n v)) a rest
  | h, a, .read n :: rest =>
    let (h', rs) := runVOps h a rest
    (h', assocGet (h.getD a []) n :: rs)

/-- one evaluation of a spec holding `Vars(<dict at base>, **defaults)` -/
def evalVars {V : Type} (h : VHeap V) (base : Nat) (defaults : VDict V) (ops : List (VOp V)) :
    VHeap V × List (Option V) :=
  let (h1, a) := scopeVarsInit h base defaults
  runVOps h1 a ops

/-- the same evaluation without a heap: a value-level dict -/
def runVOpsPure {V : Type} : VDict V → List (VOp V) → List (Option V)
  | _, [] => []
  | d, .write n v :: rest => runVOpsPure (dSet d n v) rest
  | d, .read n :: rest => assocGet d n :: runVOpsPure d rest

end Glom.C06
