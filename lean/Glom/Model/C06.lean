/-
  C06 — the library's two internal caches, as glom implements them.

  `Path.from_text` (glom/core.py):
      cache = cls._CACHE[PATH_STAR]
      if text not in cache:
          if len(cache) > cls._MAX_CACHE:
              return create()
          cache[text] = create()
      return cache[text]
  `TargetRegistry.get_handler`: memo keyed by (type, op), filled on a miss unless the lookup
  raises, emptied by `register` / `register_op`.

  Everything else a glom call does is per call (C20 / C07), so a call is modelled as an
  *adaptive strategy*: it asks a sequence of queries (parse this text / handler for this
  (type, op)), each next query depending on the answers so far, and finally produces its
  outcome from the answers.  The parse function and the uncached handler lookup are parameters.
-/
namespace Glom.C06

variable {P H O : Type}

/-- `Path._CACHE = {True: {}, False: {}}` -/
structure PathCache (P : Type) where
  star : List (String × P) := []
  plain : List (String × P) := []

def PathCache.get (c : PathCache P) (b : Bool) : List (String × P) := if b then c.star else c.plain

def PathCache.set (c : PathCache P) (b : Bool) (l : List (String × P)) : PathCache P :=
  if b then { c with star := l } else { c with plain := l }

def assocGet {K V : Type} [BEq K] (l : List (K × V)) (k : K) : Option V := (l.find? (·.1 == k)).map (·.2)

/-- `Path.from_text(text)` under the current `PATH_STAR` -/
def fromText (parse : Bool → String → P) (maxCache : Nat) (pathStar : Bool) (c : PathCache P) (text : String) :
    P × PathCache P :=
  let sub := c.get pathStar
  match assocGet sub text with
  | some p => (p, c)                                       -- `return cache[text]`
  | none =>
    if sub.length > maxCache then (parse pathStar text, c) -- `return create()`: not stored
    else
      let p := parse pathStar text
      (p, c.set pathStar ((text, p) :: sub))               -- `cache[text] = create(); return cache[text]`

/-- the handler memo `_type_cache` -/
abbrev HCache (H : Type) := List ((String × String) × H)

/-- `get_handler(op, obj)`: `none` = the lookup raised UnregisteredTarget (nothing is stored) -/
def getHandler (compute : String × String → Option H) (hc : HCache H) (key : String × String) :
    Option H × HCache H :=
  match assocGet hc key with
  | some h => (some h, hc)
  | none =>
    match compute key with
    | some h => (some h, (key, h) :: hc)
    | none => (none, hc)

/-- what a call may ask the library's shared state -/
inductive Query where
  | path (text : String)
  | handler (ty op : String)

inductive Answer (P H : Type) where
  | path (p : P)
  | handler (h : Option H)

/-- a call: next query from the answers so far, or the outcome -/
abbrev Strategy (P H O : Type) := List (Answer P H) → Sum Query O

/-- the shared state of the library between calls -/
structure World (P H R : Type) where
  pc : PathCache P := {}
  hc : HCache H := []
  pathStar : Bool := true
  reg : R                                   -- the registrations in force

variable {R : Type}

/-- run a call against the cached world (`fuel` bounds the number of queries) -/
def runCached (parse : Bool → String → P) (compute : R → String × String → Option H) (maxCache : Nat)
    (strat : Strategy P H O) : Nat → World P H R → List (Answer P H) → Option O × World P H R
  | 0, w, _ => (none, w)
  | fuel + 1, w, answers =>
    match strat answers with
    | .inr o => (some o, w)
    | .inl (.path text) =>
      let (p, pc') := fromText parse maxCache w.pathStar w.pc text
      runCached parse compute maxCache strat fuel { w with pc := pc' } (answers ++ [.path p])
    | .inl (.handler ty op) =>
      let (h, hc') := getHandler (compute w.reg) w.hc (ty, op)
      runCached parse compute maxCache strat fuel { w with hc := hc' } (answers ++ [.handler h])

/-- the same call with no caches at all -/
def runPure (parse : Bool → String → P) (compute : R → String × String → Option H)
    (strat : Strategy P H O) (pathStar : Bool) (reg : R) : Nat → List (Answer P H) → Option O
  | 0, _ => none
  | fuel + 1, answers =>
    match strat answers with
    | .inr o => some o
    | .inl (.path text) => runPure parse compute strat pathStar reg fuel (answers ++ [.path (parse pathStar text)])
    | .inl (.handler ty op) =>
      runPure parse compute strat pathStar reg fuel (answers ++ [.handler (compute reg (ty, op))])

/-- what happens between calls -/
inductive HOp (P H O R : Type) where
  | call (strat : Strategy P H O) (fuel : Nat)
  | setStar (b : Bool)                       -- toggling glom.core.PATH_STAR
  | register (f : R → R)                     -- register()/register_op(): new registrations, memo reset

def stepWorld (parse : Bool → String → P) (compute : R → String × String → Option H) (maxCache : Nat) :
    World P H R → HOp P H O R → Option (Option O) × World P H R
  | w, .call strat fuel =>
    let (o, w') := runCached parse compute maxCache strat fuel w []
    (some o, w')
  | w, .setStar b => (none, { w with pathStar := b })
  | w, .register f => (none, { w with reg := f w.reg, hc := [] })

/-- run a whole history, collecting the outcome of every call -/
def runHistory (parse : Bool → String → P) (compute : R → String × String → Option H) (maxCache : Nat) :
    World P H R → List (HOp P H O R) → List (Option O) × World P H R
  | w, [] => ([], w)
  | w, op :: rest =>
    let (o, w') := stepWorld parse compute maxCache w op
    let (os, w'') := runHistory parse compute maxCache w' rest
    (match o with | some x => x :: os | none => os, w'')

end Glom.C06
