import Glom.Model.C20
/-
  C20 — the scopes of calls that run concurrently, on ONE heap.

  Everything a call knows — its target (`scope[T]`), the user's scope bindings (`S(x=…)`, the
  `globals` ScopeVars), the mode (`MODE` / `MIN_MODE`), accumulators (the Fold / Group trees kept in
  the scope) — lives in the dicts of its scope, a `ChainMap` whose maps are objects on the heap all
  threads share.  `glom()` makes the root map of a call as a child of the module-level
  `_DEFAULT_SCOPE` (`start`), `_glom` a child map per evaluation step (`child`; it also writes
  `pmap[LAST_CHILD_SCOPE]` into the map of the calling scope), specs write into maps of the chain
  (`set depth`), reads go through the chain to the default scope (`get`).  A callable
  inside a running call may call `glom()` itself (`start` again; `finish` when it is over): the
  scope of the running call waits on the Python stack (`saved`).  Threads take turns operation by
  operation, in any order: allocation order, and hence every address, depends on the schedule.
-/
namespace Glom.C20.Sc

abbrev Vars := List (String × String)

inductive Op where
  | start (init : Vars)                 -- `glom()`: `_DEFAULT_SCOPE.new_child({T: target, MODE: AUTO, …})` — also from a
                                        -- callable inside a running call of this thread: the running call's scope waits
  | finish                              -- that `glom()` call returns (or raises): the caller's scope is current again
  | child (init : Vars)                 -- `_glom`: `scope.new_child({T: …, Spec: …, MODE: pmap[MODE], …})`, `pmap[LAST_CHILD_SCOPE] = scope`
  | set (depth : Nat) (k v : String)    -- `scope.maps[depth][k] = v`: a binding, the mode, an accumulator
  | get (k : String)                    -- `scope[k]`: the ChainMap lookup; what it returns is what the call observes
  | pop                                 -- the evaluation step returns
  deriving DecidableEq, Repr

structure Thread where
  chain : List Nat := [0]               -- `scope.maps`, innermost first; the last one is the default scope (address 0)
  saved : List (List Nat) := []         -- the chains of the calls of this thread that wait for a nested call (the Python stack)
  ops : List Op
  reads : List (Option String) := []
  deriving DecidableEq, Repr

structure Sys where
  heap : SHeap
  threads : List Thread
  deriving DecidableEq, Repr

/-- `ChainMap.__getitem__` -/
def lookupChain (h : SHeap) : List Nat → String → Option String
  | [], _ => none
  | a :: r, k =>
    match (h[a]?).bind (fun f => dlookup k f.vars) with
    | some v => some v
    | none => lookupChain h r k

def Thread.step (t : Thread) (h : SHeap) : Thread × SHeap :=
  match t.ops with
  | [] => (t, h)
  | .start init :: r => ({ t with ops := r, chain := [h.length, 0], saved := t.chain :: t.saved }, h ++ [⟨init⟩])
  | .finish :: r =>
    (match t.saved with
     | c :: rest => ({ t with ops := r, chain := c, saved := rest }, h)
     | [] => ({ t with ops := r, chain := [0] }, h))
  | .child init :: r =>
    let h1 := h ++ [⟨init⟩]
    (match t.chain with
     | p :: _ :: _ => ({ t with ops := r, chain := h.length :: t.chain }, writeFrame h1 p "LAST_CHILD_SCOPE" "<scope>")
     | _ => ({ t with ops := r, chain := h.length :: t.chain }, h1))
  | .set depth k v :: r =>
    if depth + 1 < t.chain.length then
      (match t.chain[depth]? with
       | some a => ({ t with ops := r }, writeFrame h a k v)
       | none => ({ t with ops := r }, h))
    else ({ t with ops := r }, h)
  | .get k :: r => ({ t with ops := r, reads := t.reads ++ [lookupChain h t.chain k] }, h)
  | .pop :: r =>
    (match t.chain with
     | _ :: rest@(_ :: _ :: _) => ({ t with ops := r, chain := rest }, h)
     | _ => ({ t with ops := r }, h))

def Sys.step (s : Sys) (i : Nat) : Sys :=
  match s.threads[i]? with
  | none => s
  | some t => let r := t.step s.heap; { heap := r.2, threads := s.threads.set i r.1 }

/-- any schedule: one operation of thread `i` per entry -/
def Sys.run (s : Sys) : List Nat → Sys
  | [] => s
  | i :: r => (s.step i).run r

/-- the calls before any of them has started: the heap holds the default scope only -/
def Sys.init (dflt : Vars) (progs : List (List Op)) : Sys :=
  { heap := [⟨dflt⟩], threads := progs.map fun ops => { ops := ops } }

end Glom.C20.Sc
