import Glom.Spec.C18
import Glom.Generated.C18Facts
/-
  The facts of C18 instantiated with what the extractor (extract/facts/c18.py)
  read from /repo's glom/core.py on this run.
-/
namespace Glom.C18

def genFacts : Facts :=
  { fmt := ⟨Generated.fmtDunderGuard, Generated.fmtTupleEmptyParen, Generated.fmtSingletonComma,
      Generated.fmtPathRootAware⟩
    getstateRoots := Generated.getstateRoots
    setstateRoots := Generated.setstateRoots
    getitemViaSteps := Generated.pathGetitemViaSteps
    lenExpr := Generated.pathLenExpr
    valuesExpr := Generated.pathValuesExpr
    itemsExpr := Generated.pathItemsExpr
    limitNames := Generated.reprlibLimitNames
    limitTable := Generated.bbreprLimits
    fillvalue := Generated.bbreprFillvalue
    reprIsReprlib := Generated.bbreprIsReprlib
    segRepr := Generated.fmtSegRepr
    runsMarked := Generated.fmtPathRunsMarked
    sysMaxsize := Generated.sysMaxsize }

end Glom.C18
