import Glom.Model.C13
import Glom.Generated.C13Facts
/-
  C13 environment: the `Setup` (registration sequences of `TargetRegistry.__init__`,
  `_register_default_types`, glom/mutation.py) and the hierarchy of the builtin target types,
  instantiated with the facts regenerated from /repo; plus the table-driven `Hier` the driver
  builds from a case.
-/
namespace Glom.C13

def genSetup : Setup where
  builtinOps := Generated.c13BuiltinOps.map (fun x => ⟨x.1, x.2.1, x.2.2⟩)
  defaults := Generated.c13Defaults.map (fun x => ⟨x.1, x.2.1, x.2.2.map (fun p => (p.1, hOfName p.2))⟩)
  moduleOps := Generated.c13ModuleOps.map (fun x => ⟨x.1, x.2.1, x.2.2⟩)

def builtinTab : HierTab where
  mro := Generated.c13Mro
  inst := Generated.c13Inst
  sub := Generated.c13Sub
  auto := Generated.c13Auto

def builtinHier : Hier := builtinTab.toHier

/-- the decision shape of the code the model mirrors, as read from the AST on this run -/
def shapeOK : Bool :=
  Generated.c13InitFresh && Generated.c13InitOrder && Generated.c13RegisterResetsMemo &&
  Generated.c13RegisterOpResetsMemo &&
  -- rejected calls: every write of `register` / `register_op` to `_op_type_map` / `_op_type_tree` /
  -- `_type_cache` comes after the last `raise` (validate, then write), the only earlier write being
  -- the `setdefault` of an empty per-op table; a failed lookup raises before the memo write
  Generated.c13RegisterWritesAfterLastRaise && Generated.c13RegisterOpWritesAfterLastRaise &&
  Generated.c13RegisterEarlyWrites.all (· == "_op_type_map.setdefault(k, <empty>)") &&
  Generated.c13RegisterOpEarlyWrites.isEmpty &&
  Generated.c13MemoStoresOnlySuccess && Generated.c13ClosestPicksMin &&
  Generated.c13ClosestDropsSupers && Generated.c13MatchingDeepest &&
  Generated.c13FuzzyGuardsExisting &&
  Generated.c13GlommerOwnRegistry && Generated.c13GlommerCopiesOps &&
  Generated.c13GlommerDelegates &&
  Generated.c13ModuleDelegates && Generated.c13ModuleRegistryDefault

end Glom.C13
