import Glom.Model.C13
import Glom.Generated.C13Facts
/-
  C13 environment: the `Setup` (registration sequences of `TargetRegistry.__init__`,
  `_register_default_types`, glom/mutation.py) and the hierarchy of the builtin target types,
  instantiated with the facts regenerated from /repo; plus the table-driven `Hier` the driver
  builds from a case.
-/
namespace Glom.C13

def hOfName (s : String) : Handler := if s == "False" then none else some s

/-- a hierarchy given by finite tables (what Python's `__mro__`, `isinstance`, `issubclass` and the
    auto-discovery functions answered), taken literally: `issubclass(C, C)` is *not* assumed
    (it is False for glom's `_AbstractIterable`, whose `__subclasshook__` answers for itself) -/
structure HierTab where
  top  : Ty
  mro  : List (Ty × List Ty)
  inst : List (Ty × Ty)
  sub  : List (Ty × Ty)
  auto : List (String × List (Ty × String))
  deriving Repr

def HierTab.toHier (T : HierTab) : Hier where
  mro t := (odGet t T.mro).getD (if t == T.top then [t] else [t, T.top])
  inst t c := T.inst.contains (t, c)
  sub c d := T.sub.contains (c, d)
  auto f t := match odGet f T.auto with
    | some rows => (match odGet t rows with
      | some n => hOfName n
      | none => none)
    | none => none

def genSetup : Setup where
  builtinOps := Generated.c13BuiltinOps.map (fun x => ⟨x.1, x.2.1, x.2.2⟩)
  defaults := Generated.c13Defaults.map (fun x => ⟨x.1, x.2.1, x.2.2.map (fun p => (p.1, hOfName p.2))⟩)
  moduleOps := Generated.c13ModuleOps.map (fun x => ⟨x.1, x.2.1, x.2.2⟩)

def builtinTab : HierTab where
  top := "object"
  mro := Generated.c13Mro
  inst := Generated.c13Inst
  sub := Generated.c13Sub
  auto := Generated.c13Auto

def builtinHier : Hier := builtinTab.toHier

/-- the decision shape of the code the model mirrors, as read from the AST on this run -/
def shapeOK : Bool :=
  Generated.c13InitFresh && Generated.c13InitOrder && Generated.c13RegisterResetsMemo &&
  Generated.c13RegisterOpResetsMemo && Generated.c13ClosestPicksMin &&
  Generated.c13ClosestDropsSupers && Generated.c13MatchingDeepest &&
  Generated.c13FuzzyGuardsExisting &&
  Generated.c13GlommerOwnRegistry && Generated.c13GlommerCopiesOps &&
  Generated.c13GlommerDelegates &&
  Generated.c13ModuleDelegates && Generated.c13ModuleRegistryDefault

end Glom.C13
