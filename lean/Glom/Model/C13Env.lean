import Glom.Spec.C13
import Glom.Generated.C13Facts
/-
  C13 environment: the `Setup` (registration sequences of `TargetRegistry.__init__`,
  `_register_default_types`, glom/mutation.py) and the hierarchy of the builtin target types,
  instantiated with the facts regenerated from /repo; plus the table-driven `Hier` the driver
  builds from a case.
-/
namespace Glom.C13

def genSetup : Setup where
  builtinOps := Generated.c13BuiltinOps.map (fun x => ⟨x.1, x.2.1, x.2.2⟩)
  defaults := Generated.c13Defaults.map (fun x => ⟨x.1, x.2.1, x.2.2.map (fun p => (p.1, hOfName p.2))⟩)
  moduleOps := Generated.c13ModuleOps.map (fun x => ⟨x.1, x.2.1, x.2.2⟩)

def builtinTab : HierTab where
  mro := Generated.c13Mro
  inst := Generated.c13Inst
  sub := Generated.c13Sub
  auto := Generated.c13Auto

def builtinHier : Hier := builtinTab.toHier

/-- the builtin hierarchy plus the probe subclasses (`class Sub_dict(dict): pass`,
    `class SubS_dict(dict): __slots__ = ()`, … one pair per builtin target type), with the rows the
    interpreter and glom's auto-discovery functions answered for them on this run -/
def probeTab : HierTab where
  mro := Generated.c13Mro ++ Generated.c13ProbeMro
  inst := Generated.c13Inst ++ Generated.c13ProbeInst
  sub := Generated.c13Sub ++ Generated.c13ProbeSub
  auto := Generated.c13Auto.map (fun fr => (fr.1, fr.2 ++ (odGet fr.1 Generated.c13ProbeAuto).getD []))

def probeHier : Hier := probeTab.toHier

/-- the module-level registry over a hierarchy, the sets of known types iterated in the order of
    their first registration (the order is not observable, `c13_default_glommer`) -/
def canonModuleRegS (H : Hier) (S : Setup) : Reg :=
  let r0 := freshReg H S true
  S.moduleOps.foldl (fun r o => registerOp H r o.op o.auto o.exact r.knownTypes) r0

def canonModuleReg (H : Hier) : Reg := canonModuleRegS H genSetup

/-- the registration sequences read from the source build the registries the property takes as
    given (`pinnedSetup`): a bare registry, a default registry and the module-level registry, over
    the builtin hierarchy.  (Compared as registries, not as lists of calls: merging the two `dict`
    registrations into one call, say, changes nothing.) -/
def setupOK : Bool :=
  decide (freshReg builtinHier genSetup false = freshReg builtinHier pinnedSetup false) &&
  decide (freshReg builtinHier genSetup true = freshReg builtinHier pinnedSetup true) &&
  decide (canonModuleRegS builtinHier genSetup = canonModuleRegS builtinHier pinnedSetup)

/-- glom's two duck types answer what they are meant to on the builtin target types:
    `_AbstractIterable` = has a callable `__iter__` and is not `str` / `bytes` (for `issubclass` and,
    apart from an instance of the class itself, for `isinstance`); `_ObjStyleKeys` (and the
    `_AbstractKeys` base it shares its metaclass with) = the instance has a `__dict__` with keys.
    `c13HasIter` / `c13HasDict` are read from the builtin types directly, not through glom. -/
def duckOK : Bool :=
  Generated.c13Types.all (fun t =>
    let iterable := Generated.c13HasIter.contains t && !(["str", "bytes"].contains t)
    (builtinTab.sub.contains (t, "_AbstractIterable") == iterable) &&
    (builtinTab.inst.contains (t, "_AbstractIterable") == (iterable || t == "_AbstractIterable")) &&
    (builtinTab.inst.contains (t, "_ObjStyleKeys") == (Generated.c13HasDict.contains t || t == "_ObjStyleKeys")) &&
    (builtinTab.inst.contains (t, "_AbstractKeys") == (Generated.c13HasDict.contains t || t == "_AbstractKeys")))

/-- the auto-discovery functions of the two builtin ops answer what they are meant to on the
    builtin target types: `iterate` → `iter` exactly for the types with a callable `__iter__`,
    `get` → `getattr` for every type -/
def autoOK : Bool :=
  Generated.c13Types.all (fun t =>
    builtinHier.auto "auto_iterate" t == (if Generated.c13HasIter.contains t then some "iter" else none) &&
    builtinHier.auto "auto_get" t == some "getattr")

/-- the decision shape of the code the model mirrors, as read from the AST on this run -/
def shapeOK : Bool :=
  Generated.c13InitFresh && Generated.c13InitOrder && Generated.c13RegisterResetsMemo &&
  Generated.c13RegisterOpResetsMemo &&
  -- rejected calls: every write of `register` / `register_op` to `_op_type_map` / `_op_type_tree` /
  -- `_type_cache` comes after the last `raise` (validate, then write), the only earlier write being
  -- the `setdefault` of an empty per-op table; a failed lookup raises before the memo write
  Generated.c13RegisterWritesAfterLastRaise && Generated.c13RegisterOpWritesAfterLastRaise &&
  Generated.c13RegisterEarlyWrites.all (· == "_op_type_map.setdefault(k, <empty>)") &&
  Generated.c13RegisterOpEarlyWrites.isEmpty &&
  Generated.c13MemoStoresOnlySuccess && Generated.c13MemoHitRaises &&
  -- `register_op` walks the known types in registration order (a list), not a set of types
  Generated.c13KnownTypesOrdered && Generated.c13ClosestPicksMin &&
  Generated.c13ClosestDropsSupers && Generated.c13MatchingDeepest &&
  Generated.c13FuzzyGuardsExisting && Generated.c13FuzzyReregisterMoves &&
  Generated.c13GlommerOwnRegistry && Generated.c13GlommerCopiesOps &&
  Generated.c13GlommerDelegates &&
  Generated.c13ModuleDelegates && Generated.c13ModuleRegistryDefault && duckOK && autoOK && setupOK

end Glom.C13
