import Glom.Model.C15
/-
  C15 — laziness of `Flatten(init='lazy')` and of the lazy levels of `flatten(levels=n)`:
  `itertools.chain.from_iterable` objects as PULL machines.

  `Flatten._fold` (lazy branch) returns `chain.from_iterable(iterator)` without touching the
  iterator; `flatten(levels=n, init='lazy')` nests `n` such objects.  A `chain` object holds the
  iterator it draws iterables from and the iterable it is currently walking (CPython's
  `chain_next`: `while True: if active is None: active = iter(next(source)); try: return
  next(active) except StopIteration: active = None`).

  `k` nested chain objects over a source iterator are a stack `[cur_k, …, cur_1, src]`:
  `cur_j` is what is left of the iterable chain `j` is walking, `src` what the source iterator
  has not yielded yet.  `next` on the outermost chain:
    * `cur_k` non-empty: yield its first value;
    * else the nearest level below with something left hands its first value `v` up one level,
      where it is opened (`iter(v)`; TypeError when `v` is not iterable — `v` is consumed) —
      `refill`, one internal move — and the loop continues;
    * everything empty: StopIteration.
  Nothing is fetched from the source unless every chain above it has run dry.

  An inner iterable is opened into the list of its items at once (inner generators are modelled
  as sequences, as everywhere in C15).
-/
set_option linter.unusedVariables false

namespace Glom.C15.Lazy
open Glom Glom.C15

abbrev Stack := List (List Val)

/-- the outcome of refilling the (empty) level above `below` -/
inductive Refill where
  | ok (st : Stack)          -- one iterable was taken from the nearest non-empty level and opened one level up
  | exhausted                -- StopIteration all the way down
  | typeError (st : Stack)   -- the value taken is not iterable (it is consumed)
  deriving DecidableEq, Repr

/-- `refill h0 below` = the new stack for `[] :: below` -/
def refill (h0 : Heap) : Stack → Refill
  | [] => .exhausted
  | (v :: rest) :: more =>
    match rawIter1 h0 v with
    | some ys => .ok (ys :: rest :: more)
    | none => .typeError ([] :: rest :: more)
  | [] :: more =>
    match refill h0 more with
    | .ok st' => .ok ([] :: st')
    | .exhausted => .exhausted
    | .typeError st' => .typeError ([] :: st')

/-- how many moves a value is still good for when `n` chain levels are above it -/
def expSize (h0 : Heap) : Nat → Val → Nat
  | 0, _ => 1
  | n + 1, v =>
    1 + (match rawIter1 h0 v with
         | some ys => (ys.map (expSize h0 n)).sum
         | none => 0)

def weightFrom (h0 : Heap) : Nat → Stack → Nat
  | _, [] => 0
  | d, l :: ls => (l.map (expSize h0 d)).sum + weightFrom h0 (d + 1) ls

/-- the number of moves (yields and refills) the stack is still good for: the termination measure -/
def weight (h0 : Heap) (st : Stack) : Nat := weightFrom h0 0 st

theorem refill_weight (h0 : Heap) :
    ∀ (below : Stack) (d : Nat) (st' : Stack), refill h0 below = .ok st' →
      weightFrom h0 d st' + 1 = weightFrom h0 d ([] :: below) := by
  intro below
  induction below with
  | nil => intro d st' h; simp [refill] at h
  | cons l more ih =>
    intro d st' h
    cases l with
    | nil =>
      simp only [refill] at h
      cases hr : refill h0 more with
      | ok st'' =>
        rw [hr] at h
        injection h with h; subst h
        have := ih (d + 1) st'' hr
        simp only [weightFrom, List.map_nil, List.sum_nil, Nat.zero_add] at this ⊢
        omega
      | exhausted => rw [hr] at h; cases h
      | typeError st'' => rw [hr] at h; cases h
    | cons v rest =>
      simp only [refill] at h
      cases hv : rawIter1 h0 v with
      | none => rw [hv] at h; cases h
      | some ys =>
        rw [hv] at h
        injection h with h; subst h
        simp only [weightFrom, List.map_nil, List.sum_nil, Nat.zero_add, List.map_cons, List.sum_cons,
          expSize, hv]
        omega

inductive Pull where
  | item (v : Val) (st : Stack)
  | stop (st : Stack)          -- StopIteration
  | error (st : Stack)         -- TypeError: a value that had to be iterated is not iterable
  deriving DecidableEq, Repr

/-- `next(outermost chain)` -/
def next (h0 : Heap) (st : Stack) : Pull :=
  match st with
  | [] => .stop []
  | (x :: cur) :: below => .item x (cur :: below)
  | [] :: below =>
    match h : refill h0 below with
    | .ok st' => next h0 st'
    | .exhausted => .stop ([] :: below)
    | .typeError st' => .error st'
termination_by weight h0 st
decreasing_by
  have := refill_weight h0 below 0 st' h
  simp only [weight]
  omega

/-- what one `next()` shows to an observer who also counts what the SOURCE iterator was asked for -/
inductive PullObs where
  | item (v : Val) (fetched : Nat)
  | stop (fetched : Nat)
  | error (fetched : Nat)
  deriving DecidableEq, Repr

/-- what is left in the source iterator -/
def srcLen (st : Stack) : Nat := (st.getLast?.getD []).length

theorem next_item_weight (h0 : Heap) (st : Stack) :
    ∀ (v : Val) (st' : Stack), next h0 st = .item v st' → weight h0 st' < weight h0 st := by
  fun_induction next h0 st with
  | case1 => intro v st' h; cases h
  | case2 x cur below =>
    intro v st' h
    injection h with h1 h2; subst h2
    simp only [weight, weightFrom, List.map_cons, List.sum_cons, expSize]
    omega
  | case3 below st'' hr ih =>
    intro v st' h
    have := ih v st' h
    have hw := refill_weight h0 below 0 st'' hr
    simp only [weight] at this ⊢
    omega
  | case4 below hr => intro v st' h; cases h
  | case5 below st'' hr => intro v st' h; cases h

/-- pull until StopIteration or an error; `total` = the number of items the source had at the start -/
def pulls (h0 : Heap) (total : Nat) (st : Stack) : List PullObs :=
  match h : next h0 st with
  | .item v st' => .item v (total - srcLen st') :: pulls h0 total st'
  | .stop st' => [.stop (total - srcLen st')]
  | .error st' => [.error (total - srcLen st')]
termination_by weight h0 st
decreasing_by exact next_item_weight h0 st v st' h

/-- `k` nested chain objects, freshly made over a source that will yield `xs`: nothing fetched -/
def initStack (k : Nat) (xs : List Val) : Stack := List.replicate k [] ++ [xs]

/-- the whole observable life of `flatten(gen, levels=k, init='lazy')` (or `Flatten(init='lazy')`,
    `k = 1`): what the source was asked for when the object was made (nothing), then every `next()` -/
def lazyRun (h0 : Heap) (k : Nat) (xs : List Val) : Nat × List PullObs :=
  (xs.length - srcLen (initStack k xs), pulls h0 xs.length (initStack k xs))

end Glom.C15.Lazy
