/-
  C04 — code-shaped model of how an exception travels out of `glom()`.

  Mirrors glom/core.py:
    * exception CLASSES are data: name, the rest of the MRO, and the constructor
      `ctor : Args → Option Args` = what `cls(*args)` stores in `.args`
      (`none`: the construction raises), and whether instances are falsy
      (`__bool__`/`__len__`), because `glom()` ends in `if err: raise err`;
    * `GlomError.wrap`  → `wrap`      (dynamic subclass with bases
      `(exc_type, GlomError)` unless `GlomError ⊂ exc_type`; re-construct from
      `exc.args`; return the original when the rebuilt args differ or the
      construction raises — each of the two guards is a fact read from the AST);
    * `copy.copy(e)` of a GlomError → `pyCopy` (`__reduce_ex__`: `cls(*e.args)`,
      then `__dict__` is copied; `TypeMatchError.__copy__` for its subclasses);
    * `glom()`'s keyword defaulting and its two nested `try` blocks → `effDefault`,
      `effSkip`, `glomTop`, `outer`, `handler`;
    * `_glom`'s `except Exception: …bookkeeping…; raise` → `frameG`;
      tuple / dict / list specs and `Coalesce.glomit` → `eval`.

  Everything that depends on the shape of the source is a field of `Facts`
  (filled from `Glom.Generated.C04Facts` in `Model/C04Env.lean`).
  Core Lean only, computable, total.
-/
namespace Glom.C04

/-- a value stored in `.args`: immediates by value, every other object by identity -/
inductive AVal where
  | none
  | int (i : Int)
  | str (s : String)
  | bytes (hex : String)
  | obj (id : Nat)
  deriving DecidableEq, Repr, Inhabited

abbrev Args := List AVal

structure ClassInfo where
  name : String
  bases : List String                 -- the MRO after the class itself
  ctor : Args → Option Args           -- `cls(*args).args`, `none` = raises
  falsy : Bool := false               -- `bool(instance)` is False

def ClassInfo.mro (c : ClassInfo) : List String := c.name :: c.bases

/-- an exception object: identity, class, `.args` -/
structure ExcObj where
  id : Nat
  cls : ClassInfo
  args : Args

def isInst (e : ExcObj) (c : String) : Bool := e.cls.mro.contains c

/-- `except (c₁, …)` / `isinstance(e, (c₁, …))` -/
def matchesAny (e : ExcObj) (cs : List String) : Bool := cs.any (isInst e)

/-- the object `default` is bound to: Python's `None` or the object the caller gave -/
inductive DefV where
  | none_
  | given (id : Nat)
  deriving DecidableEq, Repr

/-- what depends on the shape of the source (regenerated on every run) -/
structure Facts where
  shapeOk : Bool                      -- every statement of the handlers was recognised, in the modelled order
  defIfSkip : Option DefV             -- `default` when absent and `'skip_exc' in kwargs`   (`none` = `_MISSING`)
  defElse : Option DefV               -- `default` when absent otherwise
  skipIfMissing : List String         -- `skip_exc` when absent and `default is _MISSING`
  skipElse : List String              -- `skip_exc` when absent otherwise
  debugDefault : Bool                 -- GLOM_DEBUG
  outerCatch : List String            -- classes of the outer `except`
  copyArgsCheck : Bool                -- `if err.args != e.args: err = e`
  copyFallback : Bool                 -- `except Exception: err = e` around `copy.copy`
  wrapArgsCheck : Bool                -- `if wrapper.args != exc.args: return exc`
  wrapFallback : Bool                 -- `except Exception: return exc` in `wrap`
  errTestTruthy : Bool                -- `if err:` (true)  vs  `if err is not None:` (false)
  tmeCopyFixed : Bool                 -- `TypeMatchError.__copy__` builds `TypeMatchError(…)` rather than `type(self)(…)`
  tmeClass : ClassInfo                -- the class `TypeMatchError` itself
  frameCatch : List String            -- classes of `_glom`'s `except`
  coalesceSkipDefault : List String   -- `Coalesce(skip_exc=…)` default
  excMro : String → List String       -- MRO of glom's own exception classes

def glomMro : List String := ["GlomError", "Exception", "BaseException", "object"]

/-- C3 linearisation of `(exc_type, GlomError)` for an exception class: GlomError
    goes immediately before the first class it shares with `exc_type`'s MRO -/
def insertGlom : List String → List String
  | [] => glomMro
  | c :: r =>
    if c == "Exception" then "GlomError" :: c :: r
    else if c == "BaseException" then "GlomError" :: "Exception" :: c :: r
    else c :: insertGlom r

/-- `type(f"GlomError.wrap({exc_type.__name__})", bases, {})` -/
def wrapClass (c : ClassInfo) : ClassInfo :=
  let wn := "GlomError.wrap(" ++ c.name ++ ")"
  if glomMro.contains c.name then       -- issubclass(GlomError, exc_type): bases = (GlomError,)
    { name := wn, bases := glomMro, ctor := some, falsy := false }
  else                                   -- bases = (exc_type, GlomError): exc_type's constructor comes first
    { name := wn, bases := insertGlom c.mro, ctor := c.ctor, falsy := c.falsy }

/-- result of building a new exception object inside glom()'s handler -/
inductive Built where
  | ok (e : ExcObj)
  | raised                -- the construction raised and nothing caught it: that exception leaves glom()

/-- `GlomError.wrap(exc)` -/
def wrap (F : Facts) (e : ExcObj) : Built :=
  let wc := wrapClass e.cls
  match wc.ctor e.args with
  | some a =>
    if F.wrapArgsCheck && a != e.args then .ok e            -- re-creation changed the args
    else .ok { id := e.id + 1, cls := wc, args := a }
  | none => if F.wrapFallback then .ok e else .raised        -- maybe exception can't be re-created

def usesTmeCopy (c : ClassInfo) : Bool := c.mro.contains "TypeMatchError"

/-- `copy.copy(e)`: `TypeMatchError.__copy__` for TypeMatchError and its
    subclasses, otherwise `BaseException.__reduce_ex__` = `cls(*e.args)` followed
    by a copy of `__dict__` (which never holds `args`).  `none` = it raised. -/
def pyCopy (F : Facts) (e : ExcObj) : Option ExcObj :=
  if usesTmeCopy e.cls then
    match e.args[2]?, e.args[1]? with
    | some a2, some a1 =>
      let k := if F.tmeCopyFixed then F.tmeClass else e.cls
      (k.ctor [a2, a1]).map (fun a => { id := e.id + 1, cls := k, args := a })
    | _, _ => none                                            -- IndexError
  else
    (e.cls.ctor e.args).map (fun a => { id := e.id + 1, cls := e.cls, args := a })

structure Settings where
  default : Option Nat            -- `default=` given: identity of the object
  skipExc : Option (List String)  -- `skip_exc=` given: the class / the classes of the tuple
  debug : Option Bool             -- `glom_debug=` given
  deriving DecidableEq, Repr

/-- `kwargs.pop('default', None if 'skip_exc' in kwargs else _MISSING)` -/
def effDefault (F : Facts) (s : Settings) : Option DefV :=
  match s.default with
  | some d => some (.given d)
  | none => if s.skipExc.isSome then F.defIfSkip else F.defElse

/-- `kwargs.pop('skip_exc', () if default is _MISSING else GlomError)` -/
def effSkip (F : Facts) (s : Settings) : List String :=
  match s.skipExc with
  | some l => l
  | none => if (effDefault F s).isNone then F.skipIfMissing else F.skipElse

def effDebug (F : Facts) (s : Settings) : Bool := s.debug.getD F.debugDefault

def builtinCls (name : String) (bases : List String) : ClassInfo :=
  { name := name, bases := bases, ctor := some }

/-- `return ret` with `ret` unbound -/
def unboundLocal : ExcObj :=
  { id := 3, cls := builtinCls "UnboundLocalError" ["NameError", "Exception", "BaseException", "object"],
    args := [.str "cannot access local variable 'ret' where it is not associated with a value"] }

/-- the exception a failing re-construction raises when nothing catches it (modelled as TypeError) -/
def ctorFailure : ExcObj :=
  { id := 2, cls := builtinCls "TypeError" ["Exception", "BaseException", "object"], args := [] }

inductive Res where
  | value                   -- the computed result
  | dflt (d : DefV)         -- the object `default` is bound to
  | exc (e : ExcObj)

/-- the GlomError branch: `try: err = copy.copy(e); if err.args != e.args: err = e`
    `except Exception: err = e` -/
def copyBranch (F : Facts) (e : ExcObj) : Built :=
  match pyCopy F e with
  | some c => .ok (if F.copyArgsCheck && c.args != e.args then e else c)
  | none => if F.copyFallback then .ok e else .raised

/-- body of the outer `except Exception as e:` -/
def handler (F : Facts) (s : Settings) (e : ExcObj) : Res :=
  if effDebug F s then .exc e                                  -- if glom_debug: raise
  else
    let err : Built :=
      if isInst e "GlomError" then copyBranch F e          -- copy.copy(e), guarded
      else wrap F e                                            -- GlomError.wrap(e)
    match err with
    | .raised => .exc ctorFailure
    | .ok err =>
      if isInst err "GlomError" then                           -- err._finalize(...)
        if F.errTestTruthy && err.cls.falsy then .exc unboundLocal   -- `if err:` is False, `return ret`
        else .exc err                                          -- raise err
      else .exc e                                              -- wrapping failed: raise

/-- the outer `try … except Exception as e` -/
def outer (F : Facts) (s : Settings) (e : ExcObj) : Res :=
  if matchesAny e F.outerCatch then handler F s e else .exc e

inductive Body where
  | val
  | exc (e : ExcObj)

/-- `glom()` from `try: try: ret = _glom(...)` to `return ret` -/
def glomTop (F : Facts) (s : Settings) (b : Body) : Res :=
  match b with
  | .val => .value
  | .exc e =>
    if matchesAny e (effSkip F s) then                         -- except skip_exc:
      match effDefault F s with
      | none => outer F s e                                    --   if default is _MISSING: raise
      | some d => .dflt d                                      --   ret = default
    else outer F s e

/-! ### where the fault originates: evaluation of nested specs -/

/-- the specs of the correspondence: leaves are user callables (one of them
    raises the prepared exception object) or specs on which glom itself fails -/
inductive Sp where
  | ok                                  -- a callable that returns
  | fault                               -- the callable that raises the prepared exception
  | badPath                             -- a path glom cannot access: PathAccessError
  | badMatch                            -- `Match(int)` on a list: TypeMatchError
  | tup (xs : List Sp)
  | dct (xs : List Sp)
  | lst (x : Sp)                        -- `[x]` over a two-element target
  | frame (x : Sp)                      -- `Spec(x)`
  | first (x : Sp)                      -- `First(x)` / `Iter().first(x)` as a tuple step: `x` is the key, run on the items
  | coal (xs : List Sp) (skip : Option (List String)) (dflt : Bool)
  deriving Repr

/-- which exception object: the prepared one, or one glom created -/
inductive Origin where
  | injected
  | internal (cls : String)
  deriving DecidableEq, Repr

inductive Outc where
  | val
  | exc (o : Origin)
  deriving DecidableEq, Repr

structure EvalEnv where
  F : Facts
  injMro : List String        -- MRO of the prepared exception's class

def EvalEnv.mroOf (E : EvalEnv) : Origin → List String
  | .injected => E.injMro
  | .internal c => E.F.excMro c

def EvalEnv.caught (E : EvalEnv) (o : Origin) (classes : List String) : Bool :=
  classes.any (fun c => (E.mroOf o).contains c)

/-- `_glom`'s `except Exception as e: …record CUR_ERROR / CHILD_ERRORS…; raise`:
    whether or not the clause catches it, the same object continues -/
def frameG (E : EvalEnv) (o : Outc) : Outc :=
  match o with
  | .val => .val
  | .exc x => if E.caught x E.F.frameCatch then .exc x else .exc x

mutual
/-- `_glom(target, spec, scope)` -/
def eval (E : EvalEnv) : Sp → Outc
  | .ok => frameG E .val
  | .fault => frameG E (.exc .injected)
  | .badPath => frameG E (.exc (.internal "PathAccessError"))
  | .badMatch => frameG E (.exc (.internal "TypeMatchError"))
  | .tup xs => frameG E (evalSeq E xs)
  | .dct xs => frameG E (evalSeq E xs)
  | .lst x => frameG E (match eval E x with          -- first item
      | .val => eval E x                             -- second item
      | .exc o => .exc o)
  | .frame x => frameG E (eval E x)
  | .first x => frameG E (match eval E x with   -- `next(filter(key, items), default)`, key = `Spec(x).glom(item, scope=S)`
      | .val => .val
      | .exc o => if E.caught o ["StopIteration"] then .val   -- iterator protocol: `next` takes it for exhaustion
                  else .exc o)
  | .coal xs skip dflt => frameG E (evalCoal E xs (skip.getD E.F.coalesceSkipDefault) dflt)
/-- the `for subspec in spec` loops of `_handle_tuple` / `_handle_dict` -/
def evalSeq (E : EvalEnv) : List Sp → Outc
  | [] => .val
  | x :: r => match eval E x with
    | .val => evalSeq E r
    | .exc o => .exc o
/-- `Coalesce.glomit`: `except self.skip_exc: continue`, `else: default / raise CoalesceError` -/
def evalCoal (E : EvalEnv) : List Sp → List String → Bool → Outc
  | [], _, dflt => if dflt then .val else .exc (.internal "CoalesceError")
  | x :: r, sk, dflt => match eval E x with
    | .val => .val
    | .exc o => if E.caught o sk then evalCoal E r sk dflt else .exc o
end

end Glom.C04
