/-
  C04 — code-shaped model of how an exception travels out of `glom()`.

  Mirrors glom/core.py:
    * exception CLASSES are data: name, the rest of the MRO, the constructor
      `ctor : Args → Option Args` = what `cls(*args)` stores in `.args`
      (`none`: the construction raises), whether instances are falsy
      (`__bool__`/`__len__`; `glom()` ends in `if err …: raise err`), how `copy.copy`
      rebuilds an instance (`__reduce_ex__` from `.args`, a user `__reduce__` from the
      arguments given at construction, a user `__copy__`), whether creating a subclass
      raises (`__init_subclass__`, metaclass) and whether `__setattr__` raises;
    * exception OBJECTS: identity, class, `.args`, the arguments given at construction,
      `__cause__`, `__context__`, and `_GlomError__wrapped`;
    * the C3 linearisation (`c3merge`) of the bases `(exc_type, GlomError)` of the
      class `GlomError.wrap` creates → `wrapMro`, `wrapClass`;
    * `GlomError.wrap`  → `wrap`      (dynamic subclass with bases
      `(exc_type, GlomError)` unless `GlomError ⊂ exc_type`; re-construct from
      `exc.args`; return the original when the rebuilt args differ or the
      construction raises — each of the two guards is a fact read from the AST;
      the `type(…)` call stands outside the `try`);
    * `copy.copy(e)` of a GlomError → `pyCopy`;
    * `glom()`'s keyword defaulting and its two nested `try` blocks → `effDefault`,
      `effSkip`, `glomTop`, `outer`, `handler` (`_set_wrapped`, `_finalize` set attributes);
    * `_glom`'s `except Exception: …bookkeeping…; raise` → `frameG`;
      tuple / dict / list specs, `Coalesce.glomit`, `First`/`Iter` steps, the places where
      glom converts an exception of the target's own methods (`iterate`, `T[…]`, `T.x`,
      path access), and a callable that itself calls `glom()` with its own
      `default` / `skip_exc` / `glom_debug` → `eval`.

  Everything that depends on the shape of the source is a field of `Facts`
  (filled from `Glom.Generated.C04Facts` in `Model/C04Env.lean`).
  Core Lean only, computable, total.
-/
namespace Glom.C04

/-- a value stored in `.args`: immediates by value, every other object by identity -/
inductive AVal where
  | none
  | int (i : Int)
  | str (s : String)
  | bytes (hex : String)
  | obj (id : Nat)
  | excs (id : Nat)          -- a non-empty list of exception instances (what ExceptionGroup demands), by identity
  deriving DecidableEq, Repr, Inhabited

abbrev Args := List AVal

/-- how `copy.copy(instance)` builds the copy -/
inductive CopyKind where
  | args        -- `BaseException.__reduce_ex__`: `cls(*self.args)` (then `__dict__` is copied)
  | argsState   -- `AttributeError.__reduce__` (3.12): the state carries `.args`, which is restored after `cls(*self.args)`
  | init        -- a user `__reduce__`: `(type(self), <the arguments given at construction>)`
  | self_       -- a user `__copy__` returning `self`
  | foreign     -- a user `__copy__` returning a plain `GlomError(*self.args)` (another class)
  deriving DecidableEq, Repr

structure ClassInfo where
  name : String
  bases : List String                 -- the MRO after the class itself
  ctor : Args → Option Args           -- `cls(*args).args`, `none` = raises
  falsy : Bool := false               -- `bool(instance)` is False
  copyVia : CopyKind := .args
  sealed : Bool := false              -- creating a subclass raises (`__init_subclass__` / metaclass)
  frozen : Bool := false              -- `__setattr__` raises
  boolRaises : Bool := false          -- `__bool__` raises (`traceback.format_exc()` in `_finalize` evaluates `bool(e)`)

def ClassInfo.mro (c : ClassInfo) : List String := c.name :: c.bases

/-- an exception object -/
structure ExcObj where
  id : Nat
  cls : ClassInfo
  args : Args
  init : Args := args                 -- the arguments given at construction
  cause : Option Nat := none          -- identity of `__cause__`
  context : Option Nat := none        -- identity of `__context__`
  wrapped : Option Nat := none        -- identity of `_GlomError__wrapped`

def isInst (e : ExcObj) (c : String) : Bool := e.cls.mro.contains c

/-- `except (c₁, …)` / `isinstance(e, (c₁, …))` -/
def matchesAny (e : ExcObj) (cs : List String) : Bool := cs.any (isInst e)

/-- the object `default` is bound to: Python's `None` or the object the caller gave -/
inductive DefV where
  | none_
  | given (id : Nat)
  deriving DecidableEq, Repr

/-- what depends on the shape of the source (regenerated on every run); all of it is data -/
structure Facts where
  shapeOk : Bool                      -- every statement of the handlers was recognised, in the modelled order
  defIfSkip : Option DefV             -- `default` when absent and `'skip_exc' in kwargs`   (`none` = `_MISSING`)
  defElse : Option DefV               -- `default` when absent otherwise
  skipIfMissing : List String         -- `skip_exc` when absent and `default is _MISSING`
  skipElse : List String              -- `skip_exc` when absent otherwise
  debugDefault : Bool                 -- GLOM_DEBUG
  outerCatch : List String            -- classes of the outer `except`
  copyArgsCheck : Bool                -- `if err.args != e.args: err = e`
  copyFallback : Bool                 -- `except Exception: err = e` around `copy.copy`
  wrapArgsCheck : Bool                -- `if wrapper.args != exc.args: return exc`
  wrapFallback : Bool                 -- `except Exception: return exc` in `wrap`
  wrapTypeInTry : Bool                -- the `type(name, bases, …)` call of `wrap` is inside that `try`
  attrGuarded : Bool                  -- `err._set_wrapped(e)` and `err._finalize(…)` are inside a `try`
  errTestTruthy : Bool                -- `if err:` (true)  vs  `if err is not None:` (false)
  tmeCopyFixed : Bool                 -- `TypeMatchError.__copy__` builds `TypeMatchError(…)` rather than `type(self)(…)`
  tmeMro : List String                -- MRO of the class `TypeMatchError` itself
  frameCatch : List String            -- classes of `_glom`'s `except`
  coalesceSkipDefault : List String   -- `Coalesce(skip_exc=…)` default
  iterCatch : List String             -- `_handle_list`: classes caught around `iterate(target)`
  iterRaises : String                 --   … and the class raised instead
  getitemCatch : List String          -- `_t_eval` `[`: classes turned into PathAccessError
  getattrCatch : List String          -- `_t_eval` `.`
  pathCatch : List String             -- `_t_eval` `P` (path segment through the registered `get`)
  deriving DecidableEq, Repr

def glomMro : List String := ["GlomError", "Exception", "BaseException", "object"]

/-! ### C3 linearisation (`type.mro`) -/

/-- `h` occurs in the tail of one of the lists -/
def inTail (ls : List (List String)) (h : String) : Bool := ls.any (fun l => l.tail.contains h)

/-- the first head that is in no tail -/
def pickHead (ls : List (List String)) : List (List String) → Option String
  | [] => none
  | [] :: rest => pickHead ls rest
  | (h :: _) :: rest => if inTail ls h then pickHead ls rest else some h

def dropHead (h : String) : List String → List String
  | [] => []
  | x :: t => if x == h then t else x :: t

/-- the `merge` of C3; `none` = "Cannot create a consistent method resolution order" -/
def c3merge : Nat → List (List String) → Option (List String)
  | 0, ls => if ls.all List.isEmpty then some [] else none
  | n + 1, ls =>
    if ls.all List.isEmpty then some []
    else match pickHead ls ls with
      | none => none
      | some h => (c3merge n (ls.map (dropHead h))).map (h :: ·)

/-- `mro(C)` for `class C(B₁, …, Bₙ)` given the MROs of the bases -/
def linearize (name : String) (baseMros : List (List String)) : Option (List String) :=
  (c3merge ((baseMros.map List.length).sum + baseMros.length + 1)
    (baseMros ++ [baseMros.map (·.headD "")])).map (name :: ·)

/-- the MRO, after the new class itself, of `type(name, (exc_type, GlomError), {})` -/
def wrapMro (l : List String) : Option (List String) :=
  c3merge (l.length + 6) [l, glomMro, [l.headD "", "GlomError"]]

/-- what `wrapMro` yields for exception classes (proved in `Lemmas/C04.lean`): GlomError
    goes immediately before the first class it shares with `exc_type`'s MRO -/
def insertGlom : List String → List String
  | [] => glomMro
  | c :: r =>
    if c == "GlomError" then c :: r
    else if c == "Exception" then "GlomError" :: c :: r
    else if c == "BaseException" then "GlomError" :: "Exception" :: c :: r
    else c :: insertGlom r

def wrapName (c : ClassInfo) : String := "GlomError.wrap(" ++ c.name ++ ")"

/-- `type(f"GlomError.wrap({exc_type.__name__})", bases, {…})`; `none` = the call raises -/
def wrapClass (c : ClassInfo) : Option ClassInfo :=
  if glomMro.contains c.name then       -- issubclass(GlomError, exc_type): bases = (GlomError,)
    some { name := wrapName c, bases := glomMro, ctor := some }
  else if c.sealed then none             -- exc_type refuses to be subclassed
  else                                   -- bases = (exc_type, GlomError): exc_type's constructor comes first
    (wrapMro c.mro).map fun m =>
      { name := wrapName c, bases := m, ctor := c.ctor, falsy := c.falsy, copyVia := c.copyVia,
        sealed := c.sealed, frozen := c.frozen, boolRaises := c.boolRaises }

def builtinCls (name : String) (bases : List String) : ClassInfo :=
  { name := name, bases := bases, ctor := some }

/-- `return ret` with `ret` unbound -/
def unboundLocal : ExcObj :=
  { id := 3, cls := builtinCls "UnboundLocalError" ["NameError", "Exception", "BaseException", "object"],
    args := [.str "cannot access local variable 'ret' where it is not associated with a value"] }

/-- the exception a failing re-construction raises when nothing catches it (modelled as TypeError) -/
def ctorFailure : ExcObj :=
  { id := 2, cls := builtinCls "TypeError" ["Exception", "BaseException", "object"], args := [] }

/-- the exception a failing `type(…)` call raises (modelled as TypeError) -/
def typeFailure : ExcObj :=
  { id := 4, cls := builtinCls "TypeError" ["Exception", "BaseException", "object"], args := [.str "type()"] }

/-- the exception a refused attribute assignment raises (AttributeError), inside the handler of `e` -/
def attrFailure (e : ExcObj) : ExcObj :=
  { id := 5, cls := builtinCls "AttributeError" ["Exception", "BaseException", "object"], args := [.str "setattr"],
    context := some e.id }

/-- the exception a raising `__bool__` raises (RuntimeError), inside the handler of `e` -/
def boolFailure (e : ExcObj) : ExcObj :=
  { id := 6, cls := builtinCls "RuntimeError" ["Exception", "BaseException", "object"], args := [.str "bool"],
    context := some e.id }

/-- result of building a new exception object inside glom()'s handler -/
inductive Built where
  | ok (e : ExcObj)
  | raised (x : ExcObj)   -- something raised and nothing caught it: `x` leaves glom()

/-- `GlomError.wrap(exc)` -/
def wrap (F : Facts) (e : ExcObj) : Built :=
  match wrapClass e.cls with
  | none => if F.wrapTypeInTry && F.wrapFallback then .ok e else .raised typeFailure
  | some wc =>
    match wc.ctor e.args with
    | some a =>
      if F.wrapArgsCheck && a != e.args then .ok e            -- re-creation changed the args
      else if wc.frozen then                                   -- `wrapper.__wrapped = exc` raises, inside the try
        (if F.wrapFallback then .ok e else .raised (attrFailure e))
      else .ok { id := e.id + 1, cls := wc, args := a, init := e.args, wrapped := some e.id }
    | none => if F.wrapFallback then .ok e else .raised ctorFailure   -- maybe exception can't be re-created

def usesTmeCopy (c : ClassInfo) : Bool := c.mro.contains "TypeMatchError"

def tmeFmt : String := "expected type {0.__name__}, not {1.__name__}"

/-- the class `TypeMatchError` itself: `__init__(self, actual, expected)` stores `(FMT, expected, actual)` -/
def tmeClass (F : Facts) : ClassInfo :=
  { name := "TypeMatchError", bases := F.tmeMro.drop 1,
    ctor := fun a => match a with
      | [x, y] => some [.str tmeFmt, y, x]
      | _ => none }

def plainGlomError : ClassInfo := builtinCls "GlomError" ["Exception", "BaseException", "object"]

/-- `copy.copy(e)`: a user `__copy__` / `__reduce__` when the class has one,
    `TypeMatchError.__copy__` for TypeMatchError and its subclasses, otherwise
    `BaseException.__reduce_ex__` = `cls(*e.args)` followed by a copy of `__dict__`
    (which never holds `args`, `__cause__`, `__context__`).  `none` = it raised. -/
def pyCopy (F : Facts) (e : ExcObj) : Option ExcObj :=
  match e.cls.copyVia with
  | .self_ => some e
  | .foreign => some { id := e.id + 1, cls := plainGlomError, args := e.args }
  | k =>
    if usesTmeCopy e.cls then                                   -- `cls.__copy__` is looked up before `__reduce_ex__`
      match e.args[2]?, e.args[1]? with
      | some a2, some a1 =>
        let k := if F.tmeCopyFixed then tmeClass F else e.cls
        (k.ctor [a2, a1]).map (fun a => { id := e.id + 1, cls := k, args := a, init := [a2, a1] })
      | _, _ => none                                            -- IndexError
    else
      let from_ := if k == .init then e.init else e.args
      (e.cls.ctor from_).map (fun a =>
        { id := e.id + 1, cls := e.cls, args := if k == .argsState then e.args else a, init := from_ })

structure Settings where
  default : Option Nat            -- `default=` given: identity of the object
  skipExc : Option (List String)  -- `skip_exc=` given: the class / the classes of the tuple
  debug : Option Bool             -- `glom_debug=` given
  deriving DecidableEq, Repr

/-- `kwargs.pop('default', None if 'skip_exc' in kwargs else _MISSING)` -/
def effDefault (F : Facts) (s : Settings) : Option DefV :=
  match s.default with
  | some d => some (.given d)
  | none => if s.skipExc.isSome then F.defIfSkip else F.defElse

/-- `kwargs.pop('skip_exc', () if default is _MISSING else GlomError)` -/
def effSkip (F : Facts) (s : Settings) : List String :=
  match s.skipExc with
  | some l => l
  | none => if (effDefault F s).isNone then F.skipIfMissing else F.skipElse

def effDebug (F : Facts) (s : Settings) : Bool := s.debug.getD F.debugDefault

inductive Res where
  | value                   -- the computed result
  | dflt (d : DefV)         -- the object `default` is bound to
  | exc (e : ExcObj)

/-- the GlomError branch: `try: err = copy.copy(e); if err.args != e.args: err = e`
    `except Exception: err = e` -/
def copyBranch (F : Facts) (e : ExcObj) : Built :=
  match pyCopy F e with
  | some c => .ok (if F.copyArgsCheck && c.args != e.args then e else c)
  | none => if F.copyFallback then .ok e else .raised ctorFailure

/-- the GlomError branch of the handler: `copy.copy(e)` (guarded), then `err._set_wrapped(e)` -/
def glomErrBranch (F : Facts) (e : ExcObj) : Built :=
  match copyBranch F e with
  | .ok err =>                                                 -- err._set_wrapped(e)
    if isInst err "GlomError" then
      if err.cls.frozen then (if F.attrGuarded then .ok e else .raised (attrFailure e))
      else .ok { err with wrapped := some e.id }
    else .raised (attrFailure e)                               -- the copy has no `_set_wrapped`
  | r => r

/-- `if isinstance(err, GlomError): err._finalize(…)  else: raise`, then `if err is not None: raise err` -/
def finish (F : Facts) (e : ExcObj) (b : Built) : Res :=
  match b with
  | .raised x => .exc x
  | .ok err =>
    if isInst err "GlomError" then                             -- err._finalize(...): sets attributes
      if err.cls.frozen then (if F.attrGuarded then .exc e else .exc (attrFailure e))
      else if e.cls.boolRaises then                            --   … and formats the traceback of `e`: `bool(e)`
        (if F.attrGuarded then .exc e else .exc (boolFailure e))
      else if F.errTestTruthy && err.cls.falsy then .exc unboundLocal   -- `if err:` is False, `return ret`
      else .exc err                                            -- raise err
    else .exc e                                                -- wrapping failed: raise

/-- body of the outer `except Exception as e:` -/
def handler (F : Facts) (s : Settings) (e : ExcObj) : Res :=
  if effDebug F s then .exc e                                  -- if glom_debug: raise
  else finish F e (if isInst e "GlomError" then glomErrBranch F e   -- copy.copy(e), guarded
                   else wrap F e)                              -- GlomError.wrap(e)

/-- the outer `try … except Exception as e` -/
def outer (F : Facts) (s : Settings) (e : ExcObj) : Res :=
  if matchesAny e F.outerCatch then handler F s e else .exc e

inductive Body where
  | val
  | exc (e : ExcObj)

/-- `glom()` from `try: try: ret = _glom(...)` to `return ret` -/
def glomTop (F : Facts) (s : Settings) (b : Body) : Res :=
  match b with
  | .val => .value
  | .exc e =>
    if matchesAny e (effSkip F s) then                         -- except skip_exc:
      match effDefault F s with
      | none => outer F s e                                    --   if default is _MISSING: raise
      | some d => .dflt d                                      --   ret = default
    else outer F s e

/-! ### where the fault originates: evaluation of nested specs -/

/-- the places where glom calls a method of the TARGET (or a registered handler) inside a
    `try` and raises an error of its own for the classes the `except` names -/
inductive Conv where
  | iter        -- `_handle_list`: `iterate(target)`
  | getitem     -- `T[k]`
  | getattr     -- `T.k`
  | path        -- a path segment: the registered `get`
  deriving DecidableEq, Repr

def Facts.convCatch (F : Facts) : Conv → List String
  | .iter => F.iterCatch
  | .getitem => F.getitemCatch
  | .getattr => F.getattrCatch
  | .path => F.pathCatch

def Facts.convRaises (F : Facts) : Conv → String
  | .iter => F.iterRaises
  | _ => "PathAccessError"

/-- the specs of the correspondence: leaves are user code (one of them raises the prepared
    exception object) or specs on which glom itself fails -/
inductive Sp where
  | ok                                  -- a callable that returns
  | fault                               -- user code that raises the prepared exception (a callable spec, the function of
                                        --   `Call` / `Invoke` / `T(…)`, a `default_factory`, …)
  | faultConv (k : Conv)                -- a method of the target raises the prepared exception inside one of glom's `try` blocks
  | badPath                             -- a path glom cannot access: PathAccessError
  | badMatch                            -- `Match(int)` on a list: TypeMatchError
  | tup (xs : List Sp)
  | dct (xs : List Sp)
  | lst (x : Sp)                        -- `[x]` over a two-element target
  | frame (x : Sp)                      -- `Spec(x)`, `Auto(x)`, `Pipe(x)`, `Ref`, `Call`/`Invoke` with `x` as an argument spec, …
  | first (x : Sp)                      -- `First(x)` / `Iter().first(x)` / `Iter().map(x)` / `.filter(x)` / `__next__`: run on
                                        --   the items, below Python's iterator protocol
  | coal (xs : List Sp) (skip : Option (List String)) (dflt : Bool)
  | nest (x : Sp) (s : Settings)        -- a callable that returns `glom(target, x, **s)` (or `Spec(x).glom`, `Glommer().glom`)
  deriving Repr

inductive Outc where
  | val
  | exc (e : ExcObj)

structure EvalEnv where
  F : Facts
  inj : ExcObj                          -- the prepared exception object
  internal : String → ExcObj            -- the error object glom creates, by class (args are not modelled: given)

def toBody : Outc → Body
  | .val => .val
  | .exc e => .exc e

/-- `_glom`'s `except Exception as e: …record CUR_ERROR / CHILD_ERRORS…; raise`:
    whether or not the clause catches it, the same object continues -/
def frameG (E : EvalEnv) (o : Outc) : Outc :=
  match o with
  | .val => .val
  | .exc x => if matchesAny x E.F.frameCatch then .exc x else .exc x

mutual
/-- `_glom(target, spec, scope)` -/
def eval (E : EvalEnv) : Sp → Outc
  | .ok => frameG E .val
  | .fault => frameG E (.exc E.inj)
  | .faultConv k => frameG E (if matchesAny E.inj (E.F.convCatch k) then .exc (E.internal (E.F.convRaises k))
                              else .exc E.inj)
  | .badPath => frameG E (.exc (E.internal "PathAccessError"))
  | .badMatch => frameG E (.exc (E.internal "TypeMatchError"))
  | .tup xs => frameG E (evalSeq E xs)
  | .dct xs => frameG E (evalSeq E xs)
  | .lst x => frameG E (match eval E x with          -- first item
      | .val => eval E x                             -- second item
      | .exc o => .exc o)
  | .frame x => frameG E (eval E x)
  | .first x => frameG E (match eval E x with   -- `next(filter(key, items), default)`, key = `Spec(x).glom(item, scope=S)`
      | .val => .val
      | .exc o => if matchesAny o ["StopIteration"] then .val   -- iterator protocol: taken for exhaustion
                  else .exc o)
  | .coal xs skip dflt => frameG E (evalCoal E xs (skip.getD E.F.coalesceSkipDefault) dflt)
  | .nest x s => frameG E (match glomTop E.F s (toBody (eval E x)) with
      | .value => .val
      | .dflt _ => .val
      | .exc out => .exc out)
/-- the `for subspec in spec` loops of `_handle_tuple` / `_handle_dict` -/
def evalSeq (E : EvalEnv) : List Sp → Outc
  | [] => .val
  | x :: r => match eval E x with
    | .val => evalSeq E r
    | .exc o => .exc o
/-- `Coalesce.glomit`: `except self.skip_exc: continue`, `else: default / raise CoalesceError` -/
def evalCoal (E : EvalEnv) : List Sp → List String → Bool → Outc
  | [], _, dflt => if dflt then .val else .exc (E.internal "CoalesceError")
  | x :: r, sk, dflt => match eval E x with
    | .val => .val
    | .exc o => if matchesAny o sk then evalCoal E r sk dflt else .exc o
end

end Glom.C04
