/-
  The glom interpreter, code-shaped, generic in the representation of the scope.

  Mirrors glom/core.py (`_glom`, `AUTO`, `FILL`, `_ArgValuator.mode`, `arg_val`,
  `_handle_dict`, `_handle_list`, `_handle_tuple`, `chain_child`, `_t_eval` for
  the S/A roots, the `glomit` methods of Pipe, Val, Spec, Coalesce, Call, Invoke,
  Ref, Vars, Let, Auto, Fill, Inspect), glom/matching.py (`Match.glomit`, `_glom_match`,
  match-mode `_handle_dict`, And, Or, Not, Switch) and the generic part of
  glom/grouping.py (`Group.glomit`, the callable branch of `GROUP`).

  * A spec is a *Python object* (`Spec` below): what it means depends on the
    mode in force, exactly as in glom.
  * Everything that is Python's rather than glom's — equality, truthiness,
    isinstance, hashing, iteration, path-segment access, T-expressions on the
    target, calling a function — is a field of `Prims`.  Theorems quantify over
    all `Prims`; the driver instantiates them with executable definitions.
  * The scope is abstract (`ScopeAlg σ`): `child` is `scope.new_child({...})`
    in `_glom` (MODE / MIN_MODE copied from the parent's head frame), `bind`
    is `scope[k] = v` (the head frame), `chain` is `chain_child`.  Two
    instances: the ChainMap-of-frames one (`Glom/Model/Frames.lean`) and the
    lexical one (`Glom/Spec/Lexical.lean`).
  * `St` carries what survives an exception: the call log and the `ScopeVars`
    objects (`S.globals`, `Vars`).
-/
namespace Glom.Interp

/-! ### values, errors, specs -/

inductive V where
  | none
  | bool (b : Bool)
  | int (i : Int)
  | str (s : String)
  | skip | stop                                   -- the SKIP and STOP sentinels
  | list (xs : List V)
  | tuple (xs : List V)
  | dict (ordered : Bool) (es : List (V × V))
  | set (frozen : Bool) (xs : List V)
  | fn (name kind : String)                       -- a catalogue callable
  | ty (name : String)                            -- a class object
  | vars (id : Nat)                               -- a ScopeVars object
  | stream (xs : List V)                          -- a generator: the items it yields once it is consumed
  | specobj (kind : String)                       -- an object of the spec itself, handed on as it is
  deriving Repr, Inhabited, BEq

/-- a raised exception: its class (MRO via `Prims.isSub`) -/
structure Err where
  cls : String
  deriving Repr, DecidableEq, Inhabited

inductive Mode where
  | auto | fill | mtch | group
  deriving Repr, DecidableEq, Inhabited

/-- how a `Coalesce` decides to skip a value -/
inductive Skip where
  | never
  | pred (name kind : String)        -- callable predicate
  | anyOf (vs : List V)              -- a tuple of values: `v in skip`
  | eq (v : V)                       -- a single value: `v == skip`
  deriving Repr, Inhabited

inductive Spec where
  -- plain Python objects (interpreted by the mode in force)
  | str (s : String)
  | lit (v : V)                                   -- non-container, non-callable literal
  | tuple (xs : List Spec)
  | list (xs : List Spec)
  | dict (ordered : Bool) (es : List (Spec × Spec))
  | set (frozen : Bool) (xs : List Spec)
  | fn (name kind : String)                       -- callable
  | ty (name : String)                            -- a type
  -- TType instances
  | t (steps : List (String × V))                 -- T-rooted, literal arguments
  | sRead (name : String) (steps : List (String × V))  -- S.name… / S['name']…
  | sGlobRead (name : String)                     -- S.globals.name
  | sVarRead (var name : String)                  -- S.var.name   (var holds a ScopeVars)
  | sBind (bs : List (String × Spec))             -- S(k=v, …)
  | aBind (name : String)                         -- A.name
  | aGlob (name : String)                         -- A.globals.name
  | aVar (var name : String)                      -- A.var.name
  -- objects with a glomit method
  | pipe (steps : List Spec)
  | val (v : V)
  | specW (s : Spec) (scope : List (String × V))
  | coalesce (subs : List Spec) (dflt : Option Spec) (dfltFactory : Option (String × String))
      (skip : Skip) (skipExc : List String)
  | call (func : Spec) (args : Spec) (kwargs : Spec)
  | invoke (func : Spec) (funcIsSpec : Bool) (blocks : List (String × List Spec × List (String × Spec)))
      -- block = (op, positional, keyword): 'C' constants, 'S' specs, '*' star (positional = [args]?,
      -- keyword = [("**", kwargs)]?)
  | ref (name : String) (sub : Option Spec)
  | vars (defaults : List (String × V))
  | letB (bs : List (String × Spec))
  | auto (s : Spec)
  | fill (s : Spec)
  | mtch (s : Spec) (dflt : Option Spec)
  | group (s : Spec)
  | and (cs : List Spec) (dflt : Option Spec)
  | or (cs : List Spec) (dflt : Option Spec)
  | not (c : Spec)
  | switch (cases : List (Spec × Spec)) (dflt : Option Spec)
  | probe (id : Nat)                              -- harness object recording scope[MODE]
  | iter (sub : Spec) (viaMap : Bool)             -- Iter(sub) / Iter().map(sub): a lazily evaluated stream
  | optKey (key : V)                              -- Optional(key) as a key of a match-mode dict (no default)
  | reqKey (k : Spec)                             -- Required(k) as a key of a match-mode dict
  | reenter (viaSpec : Bool) (s : Spec)
      -- harness object: a nested top-level evaluation handed the running scope —
      -- `glom(target, s, scope=scope)` / `Spec(s).glom(target, scope=scope)` (what First / Iter().first do)
  | rprobe (id : Nat) (s : Spec)                  -- harness object: evaluates `s`, records what it yielded
  | inspect (s : Spec) (bp pm : Option (String × String))
      -- Inspect(s, breakpoint=bp, post_mortem=pm), not recursive: the callbacks are catalogue callables
  deriving Repr, Inhabited

inductive Ev where
  | call (name : String) (args : List V)          -- a catalogue callable ran
  | probe (id : Nat) (mode : Mode)
  | read (id : Nat) (r : Except Err V)            -- what the spec wrapped by read-probe `id` yielded
  deriving Repr, Inhabited

structure St where
  log : List Ev := []
  gvars : List (List (String × V)) := []          -- ScopeVars objects by id
  deriving Repr, Inhabited

/-- Python's part -/
structure Prims where
  eq : V → V → Bool                               -- `==`
  truthy : V → Bool
  hashable : V → Bool
  isinstance : V → String → Bool
  iterate : V → Except Err (List V)               -- registered `iterate`
  getSeg : V → String → Except Err V              -- one path segment (registered `get`)
  tEval : List (String × V) → V → Except Err V    -- T-rooted expression on a value
  applyFn : String → List V → List (String × V) → Except Err V   -- kind, args, kwargs
  applyTy : String → V → Except Err V             -- calling a type on the target
  isSub : String → String → Bool                  -- exception class ⊆ class
  typeName : V → String

class ScopeAlg (σ : Type) where
  child : σ → σ
  lookup : σ → String → Option V
  bind : σ → String → V → σ
  lookupRef : σ → String → Option Spec
  bindRef : σ → String → Spec → σ
  mode : σ → Mode
  setMode : σ → Mode → σ
  argMode : σ → Bool                              -- MIN_MODE is the argument mode
  setArgMode : σ → Bool → σ
  /-- `chain_child`: `chain owner lastChild` is the scope handed to the next link -/
  chain : σ → σ → σ

open ScopeAlg

/-! ### the evaluation monad: state survives exceptions, as in Python -/

def M (α : Type) : Type := St → St × Except Err α

namespace M
def run {α} (m : M α) (st : St) : St × Except Err α := m st
def pure {α} (a : α) : M α := fun st => (st, .ok a)
def bind {α β} (m : M α) (f : α → M β) : M β := fun st =>
  match m st with
  | (st', .ok a) => f a st'
  | (st', .error e) => (st', .error e)
/-- `raise` -/
def throw {α} (e : Err) : M α := fun st => (st, .error e)
def fail {α} (c : String) : M α := throw ⟨c⟩
/-- `try: … except Exception as e:` — the outcome as a value; the state is kept -/
def attempt {α} (m : M α) : M (Except Err α) := fun st =>
  match m st with
  | (st', r) => (st', .ok r)
def lift {α} (r : Except Err α) : M α := fun st => (st, r)
def logEv (e : Ev) : M Unit := fun st => ({ st with log := st.log ++ [e] }, .ok ())
def getGvars : M (List (List (String × V))) := fun st => (st, .ok st.gvars)
def setGvars (g : List (List (String × V))) : M Unit := fun st => ({ st with gvars := g }, .ok ())
end M

instance : Monad M where
  pure := M.pure
  bind := M.bind

/-- is the error caught by `except (c₁, …)`? -/
def caught (p : Prims) (classes : List String) (e : Err) : Bool :=
  classes.any (fun c => p.isSub e.cls c)

/-- the plain object a spec denotes when it is taken literally -/
def reify : Spec → Option V
  | .str s => some (.str s)
  | .lit v => some v
  | .fn n k => some (.fn n k)
  | .ty n => some (.ty n)
  | _ => Option.none

/-- `ret[field] = val` on an insertion-ordered dict -/
def dictSet (p : Prims) (es : List (V × V)) (k v : V) : List (V × V) :=
  if es.any (fun e => p.eq e.1 k) then es.map (fun e => if p.eq e.1 k then (e.1, v) else e)
  else es ++ [(k, v)]

def attrGet (attrs : List (String × V)) (k : String) : Option V :=
  (attrs.find? (·.1 == k)).map (·.2)

/-- `d[k] = v` on a string-keyed mapping whose order is never observed (frames, ScopeVars, kwargs) -/
def attrSet (attrs : List (String × V)) (k : String) (v : V) : List (String × V) :=
  (k, v) :: attrs.filter (·.1 != k)

/-- call a catalogue callable: the call is logged, then Python's part runs -/
def callFn (p : Prims) (name kind : String) (args : List V) (kwargs : List (String × V)) : M V := do
  M.logEv (.call name args)
  M.lift (p.applyFn kind args kwargs)

/-- an optional debugging callback (`Inspect(breakpoint=…, post_mortem=…)`): called without arguments -/
def callOpt (p : Prims) (cb : Option (String × String)) : M Unit :=
  match cb with
  | some (n, k) => do
    let _ ← callFn p n k [] []
    pure ()
  | Option.none => pure ()

/-- `f(*as, **kws)` for an evaluated callee: a catalogue callable is logged and run; a class is
    Python's constructor (modelled for one positional argument); anything else is not callable -/
def callValue (p : Prims) (f : V) (as : List V) (kws : List (String × V)) : M V :=
  match f with
  | .fn n k => callFn p n k as kws
  | .ty n =>
    match as, kws with
    | [a], [] => M.lift (p.applyTy n a)
    | _, _ => M.fail "Unsupported"
  | _ => M.fail "TypeError"

/-- `**kwargs`: every key must be a str (Python raises TypeError otherwise) -/
def kwargsOf (es : List (V × V)) : Option (List (String × V)) :=
  es.mapM (fun e => match e.1 with | .str s => some (s, e.2) | _ => Option.none)

section loops
variable {σ : Type} [ScopeAlg σ]

/-- the recursive evaluator handed to the loops: `scope[glom](target, spec, scope)`;
    it returns the value and the (finished) scope of the child frame it ran in -/
abbrev Rec (σ : Type) := Spec → V → σ → M (V × σ)

/-- `scope = chain_child(scope)` at the top of `_handle_tuple`'s loop: the scope itself while it
    has no child yet, afterwards its last child's scope re-wired by `chain` -/
def nextScope (cur : σ) (last : Option σ) : σ :=
  match last with
  | Option.none => cur
  | some c => chain cur c

/-- `all_args.extend(v)`: the items Python's iteration of `v` yields (a set's order is CPython's
    business: `none` here, reported as outside the modelled domain) -/
def starItems : List V → Option (List V)
  | [] => some []
  | [.list xs] | [.tuple xs] => some xs
  | [.dict _ es] => some (es.map (·.1))
  | [.str s] => some (s.toList.map (fun c => V.str (String.singleton c)))
  | _ => Option.none

/-- `_handle_tuple`: each step is evaluated in the scope `chain_child` hands on -/
def tupleLoop (rec : Rec σ) : List Spec → V → σ → Option σ → M V
  | [], res, _, _ => pure res
  | sub :: rest, res, cur, last => do
    let sc := nextScope cur last
    let r ← rec sub res sc
    match r.1 with
    | .skip => tupleLoop rec rest res sc (some r.2)
    | .stop => pure res
    | nxt => tupleLoop rec rest nxt sc (some r.2)

/-- is a dict-spec field evaluated as a spec (`type(field) in (Spec, TType)`)? -/
def Spec.isComputedKey : Spec → Bool
  | .t _ | .sRead .. | .sGlobRead _ | .sVarRead .. | .sBind _ | .aBind _ | .aGlob _ | .aVar .. | .specW .. => true
  | _ => false

/-- `_handle_dict` (auto mode): value first, SKIP test, then a computed key -/
def dictLoop (p : Prims) (rec : Rec σ) (target : V) (sc : σ) :
    List (Spec × Spec) → List (V × V) → M (List (V × V))
  | [], acc => pure acc
  | (field, sub) :: rest, acc => do
    let r ← rec sub target sc
    match r.1 with
    | .skip => dictLoop p rec target sc rest acc
    | val =>
      if field.isComputedKey then do
        let k ← rec field target sc
        if p.hashable k.1 then dictLoop p rec target sc rest (dictSet p acc k.1 val)
        else M.fail "TypeError"
      else
        match reify field with
        | some k => dictLoop p rec target sc rest (dictSet p acc k val)
        | Option.none => M.fail "Unsupported"

/-- `_handle_list`: map the sub-spec over the iteration; SKIP drops, STOP ends -/
def listLoop (rec : Rec σ) (sub : Spec) (sc : σ) : List V → List V → M (List V)
  | [], acc => pure acc
  | item :: rest, acc => do
    let r ← rec sub item sc
    match r.1 with
    | .skip => listLoop rec sub sc rest acc
    | .stop => pure acc
    | v => listLoop rec sub sc rest (acc ++ [v])

/-- evaluate every spec of a list against the same target in the same scope
    (FILL / argument mode containers, Invoke.specs) -/
def mapLoop (rec : Rec σ) (target : V) (sc : σ) : List Spec → List V → M (List V)
  | [], acc => pure acc
  | s :: rest, acc => do
    let r ← rec s target sc
    mapLoop rec target sc rest (acc ++ [r.1])

/-- `{recurse(k): recurse(v) for k, v in spec.items()}` -/
def pairLoop (p : Prims) (rec : Rec σ) (target : V) (sc : σ) :
    List (Spec × Spec) → List (V × V) → M (List (V × V))
  | [], acc => pure acc
  | (ks, vs) :: rest, acc => do
    let k ← rec ks target sc
    let v ← rec vs target sc
    if p.hashable k.1 then pairLoop p rec target sc rest (dictSet p acc k.1 v.1)
    else M.fail "TypeError"

/-- keyword bindings evaluated one after the other (`S(k=…)`, `Let`, Invoke kwargs) -/
def kwLoop (rec : Rec σ) (target : V) (sc : σ) :
    List (String × Spec) → List (String × V) → M (List (String × V))
  | [], acc => pure acc
  | (k, s) :: rest, acc => do
    let r ← rec s target sc
    kwLoop rec target sc rest (acc ++ [(k, r.1)])

def skipFunc (p : Prims) (sk : Skip) (v : V) : M Bool :=
  match sk with
  | .never => pure false
  | .pred n k => do
    let r ← callFn p n k [v] []
    pure (p.truthy r)
  | .anyOf vs => pure (vs.any (fun x => p.eq x v))
  | .eq x => pure (p.eq v x)

/-- `Coalesce.glomit`'s loop: `some v` = a sub-spec produced a value that is not skipped -/
def coalesceLoop (p : Prims) (rec : Rec σ) (target : V) (sc : σ) (sk : Skip) (skipExc : List String) :
    List Spec → M (Option V)
  | [] => pure Option.none
  | sub :: rest => do
    match ← M.attempt (rec sub target sc) with
    | .error e =>
      if caught p skipExc e then coalesceLoop p rec target sc sk skipExc rest else M.throw e
    | .ok r => do
      -- `if not self.skip_func(ret): break` stands INSIDE the `try`: an exception of the skip
      -- predicate that is in `skip_exc` passes on to the next alternative like one of the alternative
      match ← M.attempt (skipFunc p sk r.1) with
      | .error e =>
        if caught p skipExc e then coalesceLoop p rec target sc sk skipExc rest else M.throw e
      | .ok true => coalesceLoop p rec target sc sk skipExc rest
      | .ok false => pure (some r.1)

/-- `And._glomit`: every child on the same target, last result -/
def andLoop (rec : Rec σ) (target : V) (sc : σ) : List Spec → V → M V
  | [], res => pure res
  | c :: rest, _ => do
    let r ← rec c target sc
    andLoop rec target sc rest r.1

/-- `Or._glomit`: first child that passes; the last child's error propagates -/
def orLoop (p : Prims) (rec : Rec σ) (target : V) (sc : σ) : List Spec → M V
  | [] => M.fail "ValueError"                      -- `_Bool.__init__` rejects an empty Or
  | [c] => do
    let r ← rec c target sc
    pure r.1
  | c :: rest => do
    match ← M.attempt (rec c target sc) with
    | .error e => if p.isSub e.cls "GlomError" then orLoop p rec target sc rest else M.throw e
    | .ok r => pure r.1

/-- `Switch.glomit`: the value spec of the first case whose key spec passes,
    evaluated in the scope chained after that key -/
def switchLoop (p : Prims) (rec : Rec σ) (target : V) (sc : σ) : List (Spec × Spec) → M (Option V)
  | [] => pure Option.none
  | (ks, vs) :: rest => do
    match ← M.attempt (rec ks target sc) with
    | .error e => if p.isSub e.cls "GlomError" then switchLoop p rec target sc rest else M.throw e
    | .ok k => do
      let v ← rec vs target (chain sc k.2)
      pure (some v.1)

/-- element-wise matching of list/set targets: each item against the first alternative it matches -/
def altLoop (p : Prims) (rec : Rec σ) (sc : σ) (item : V) : List Spec → Option Err → M V
  | [], last => M.throw (last.getD ⟨"MatchError"⟩)
  | c :: rest, _ => do
    match ← M.attempt (rec c item sc) with
    | .ok r => pure r.1
    | .error e => if p.isSub e.cls "GlomError" then altLoop p rec sc item rest (some e) else M.throw e

def matchItemsLoop (p : Prims) (rec : Rec σ) (sc : σ) (alts : List Spec) : List V → List V → M (List V)
  | [], acc => pure acc
  | item :: rest, acc => do
    let v ← altLoop p rec sc item alts Option.none
    matchItemsLoop p rec sc alts rest (acc ++ [v])

def zipLoop (rec : Rec σ) (sc : σ) : List V → List Spec → List V → M (List V)
  | t :: ts, s :: ss, acc => do
    let r ← rec s t sc
    zipLoop rec sc ts ss (acc ++ [r.1])
  | _, _, acc => pure acc

/-- match-mode `_handle_dict`, inner loop: the first spec key the target key matches;
    the value is matched in the scope chained after that key -/
def matchKeyLoop (p : Prims) (rec : Rec σ) (sc : σ) (key val : V) :
    List (Spec × Spec) → M (Option (V × V × Spec))
  | [] => pure Option.none
  | (ks, vs) :: rest => do
    match ← M.attempt (rec ks key sc) with
    | .error e => if p.isSub e.cls "GlomError" then matchKeyLoop p rec sc key val rest else M.throw e
    | .ok k => do
      let v ← rec vs val (chain sc k.2)
      pure (some (k.1, v.1, ks))

def matchDictLoop (p : Prims) (rec : Rec σ) (sc : σ) (spec : List (Spec × Spec)) :
    List (V × V) → List (V × V) → List Spec → M (List (V × V) × List Spec)
  | [], acc, used => pure (acc, used)
  | (k, v) :: rest, acc, used => do
    match ← matchKeyLoop p rec sc k v spec with
    | Option.none => M.fail "MatchError"
    | some (k', v', ks) => matchDictLoop p rec sc spec rest (dictSet p acc k' v') (ks :: used)

/-- `Group.glomit`'s item loop (generic part): `last, ret = ret, glom(t, spec)`; STOP returns `last` -/
def groupLoop (rec : Rec σ) (sub : Spec) (sc : σ) : List V → V → M V
  | [], ret => pure ret
  | item :: rest, ret => do
    let r ← rec sub item sc
    match r.1 with
    | .stop => pure ret
    | v => groupLoop rec sub sc rest v

/-- `arg_val(target, arg, scope)`: MIN_MODE is set on the caller's frame around one `scope[glom]`
    call and restored afterwards -/
def argVal (rec : Rec σ) (target : V) (arg : Spec) (sc : σ) : M V := do
  let r ← rec arg target (setArgMode sc true)
  pure r.1

/-- string-keyed kwargs of a call: entries of an evaluated dict whose keys are strings -/
def strKeyed (es : List (V × V)) : List (String × V) :=
  es.filterMap (fun e => match e.1 with | .str s => some (s, e.2) | _ => Option.none)

/-- `Invoke.glomit`'s loop over its `(op, args, kwargs)` blocks; a keyword is taken only from the
    freshest constants/specs block that names it (`self._cur_kwargs[k] is kwargs`) -/
def invokeLoop (rec : Rec σ) (target : V) (sc : σ) :
    List (String × List Spec × List (String × Spec)) → List V → List (String × V) →
    M (List V × List (String × V))
  | [], as, kws => pure (as, kws)
  | (op, pos, kw) :: rest, as, kws => do
    let fresh := kw.filter (fun e => !(rest.any (fun b => b.1 != "*" && b.2.2.any (·.1 == e.1))))
    if op == "*" then do
      let vs ← mapLoop rec target sc pos []
      let extra : Option (List V) := starItems vs
      match extra with
      | Option.none => M.fail (match vs with | [.set ..] => "Unsupported" | _ => "TypeError")
      | some xs => do
        let kvs ← mapLoop rec target sc (kw.map (·.2)) []
        let upd : Option (List (String × V)) := match kvs with
          | [] => some []
          | [.dict _ es] => es.mapM (fun e => match e.1 with | .str k => some (k, e.2) | _ => Option.none)
          | _ => Option.none
        match upd with
        | Option.none => M.fail "TypeError"
        | some us => invokeLoop rec target sc rest (as ++ xs) (us.foldl (fun acc kv => attrSet acc kv.1 kv.2) kws)
    else if op == "C" then
      let vs := pos.filterMap reify
      let kvs := fresh.filterMap (fun e => (reify e.2).map (fun v => (e.1, v)))
      invokeLoop rec target sc rest (as ++ vs) (kvs.foldl (fun acc kv => attrSet acc kv.1 kv.2) kws)
    else do
      let vs ← mapLoop rec target sc pos []
      let kvs ← kwLoop rec target sc fresh []
      invokeLoop rec target sc rest (as ++ vs) (kvs.foldl (fun acc kv => attrSet acc kv.1 kv.2) kws)

end loops

/-- does `_glom` take the T / glomit branch for this object? -/
def Spec.isSpecLike : Spec → Bool
  | .str _ | .lit _ | .tuple _ | .list _ | .dict .. | .set .. | .fn .. | .ty _ => false
  | _ => true

/-- literal keys of a match-mode dict spec that are required (`_precedence == 0`) -/
def requiredKeys (spec : List (Spec × Spec)) : List Spec :=
  (spec.map (·.1)).filter (fun k => match k with
    | .str _ | .lit _ | .reqKey _ => true          -- `==` constants that are not Optional, and Required(…)
    | _ => false)

def specEqLit : Spec → Spec → Bool
  | .str a, .str b => a == b
  | .lit a, .lit b => a == b
  | .ty a, .ty b => a == b
  | .optKey a, .optKey b => a == b
  | .reqKey a, .reqKey b => specEqLit a b
  -- (the same key object: recognised by its shape for the key forms Required wraps here)
  | .aBind a, .aBind b => a == b
  | .sBind as, .sBind bs => as.map (·.1) == bs.map (·.1)
  | .letB as, .letB bs => as.map (·.1) == bs.map (·.1)
  | _, _ => false

/-- read / write an attribute of a ScopeVars object -/
def gvarGet (id : Nat) (name : String) : M V := do
  match ((← M.getGvars)[id]?).bind (attrGet · name) with
  | some v => pure v
  | Option.none => M.fail "PathAccessError"

def gvarSet (id : Nat) (name : String) (v : V) : M Unit := do
  let g ← M.getGvars
  match g[id]? with
  | some attrs => M.setGvars (g.set id (attrSet attrs name v))
  | Option.none => M.fail "PathAccessError"

section interp
variable {σ : Type} [ScopeAlg σ]

/-- `X.glomit` catching GlomError to return its default through `arg_val` (Match, And, Or) -/
def withDefault (p : Prims) (rec : Rec σ) (target : V) (dflt : Option Spec) (sc : σ) (m : M V) : M V := do
  match ← M.attempt m with
  | .ok v => pure v
  | .error e =>
    match dflt with
    | some d => if p.isSub e.cls "GlomError" then argVal rec target d sc else M.throw e
    | Option.none => M.throw e

/-- T / glomit objects: `spec.glomit(target, scope)` resp. `_t_eval` for the S and A roots.
    Returns the value and the spec's own scope afterwards (what a chain continues from). -/
def glomit (p : Prims) (rec : Rec σ) (spec : Spec) (target : V) (sc : σ) : M (V × σ) :=
  match spec with
  | .t steps => do
    let v ← M.lift (p.tEval steps target)
    pure (v, sc)
  | .sRead name steps =>
    match lookup sc name with
    | Option.none => M.fail "PathAccessError"
    | some v => do
      let r ← M.lift (p.tEval steps v)
      pure (r, sc)
  | .sGlobRead name =>
    match lookup sc "globals" with
    | some (.vars id) => do
      let v ← gvarGet id name
      pure (v, sc)
    | _ => M.fail "PathAccessError"
  | .sVarRead var name =>
    match lookup sc var with
    | some (.vars id) => do
      let v ← gvarGet id name
      pure (v, sc)
    | _ => M.fail "PathAccessError"
  | .sBind bs => do
    -- scope.update({k: arg_val(target, v, scope) for k, v in kwargs.items()})
    let kvs ← kwLoop (fun s t c => do let v ← argVal rec t s c; pure (v, c)) target sc bs []
    pure (target, kvs.foldl (fun c kv => bind c kv.1 kv.2) sc)
  | .aBind name => pure (target, bind sc name target)
  | .aGlob name =>
    match lookup sc "globals" with
    | some (.vars id) => do
      gvarSet id name target
      pure (target, sc)
    | _ => M.fail "PathAccessError"
  | .aVar var name =>
    match lookup sc var with
    | some (.vars id) => do
      gvarSet id name target
      pure (target, sc)
    | some _ => M.fail "AttributeError"
    | Option.none => M.fail "PathAccessError"
  | .pipe steps => do
    let v ← tupleLoop rec steps target sc Option.none
    pure (v, sc)
  | .val v => pure (v, sc)
  | .specW s bindings => do
    let sc' := bindings.foldl (fun c kv => bind c kv.1 kv.2) sc
    let r ← rec s target sc'
    pure (r.1, sc')
  | .coalesce subs dflt dfltFactory sk skipExc => do
    match ← coalesceLoop p rec target sc sk skipExc subs with
    | some v => pure (v, sc)
    | Option.none =>
      match dflt, dfltFactory with
      | some d, _ => do
        let v ← argVal rec target d sc
        pure (v, sc)
      | Option.none, some (n, k) => do
        let v ← callFn p n k [] []
        pure (v, sc)
      | Option.none, Option.none => M.fail "CoalesceError"
  | .call func args kwargs => do
    let f ← argVal rec target func sc
    let a ← argVal rec target args sc
    let kw ← argVal rec target kwargs sc
    -- `func(*args, **kwargs)`: Python unpacks any iterable (a tuple, a list, the keys of a dict, the
    -- characters of a str; the order of a set is CPython's business)
    match kw with
    | .dict _ kws =>
      match starItems [a], kwargsOf kws with
      | some as, some ks => do
        let v ← callValue p f as ks
        pure (v, sc)
      | Option.none, _ => M.fail (match a with | .set .. => "Unsupported" | _ => "TypeError")
      | _, Option.none => M.fail "TypeError"
    | _ => M.fail "TypeError"
  | .invoke func funcIsSpec blocks => do
    let f ← (if funcIsSpec then do
        let r ← rec func target sc
        pure r.1
      else match reify func with
        | some v => pure v
        | Option.none => M.fail "TypeError" : M V)
    let (as, kws) ← invokeLoop rec target sc blocks [] []
    let v ← callValue p f as kws
    pure (v, sc)
  | .ref name sub =>
    match sub with
    | Option.none =>
      match lookupRef sc name with
      | some s => do
        let r ← rec s target sc
        pure (r.1, sc)
      | Option.none => M.fail "KeyError"
    | some s => do
      let sc' := bindRef sc name s
      let r ← rec s target sc'
      pure (r.1, sc')
  | .vars defaults => do
    let g ← M.getGvars
    M.setGvars (g ++ [defaults])
    pure (.vars g.length, sc)
  | .letB bs => do
    let kvs ← kwLoop rec target sc bs []
    pure (target, kvs.foldl (fun c kv => bind c kv.1 kv.2) sc)
  | .auto s => do
    let sc' := setMode sc .auto
    let r ← rec s target sc'
    pure (r.1, sc')
  | .fill s => do
    let sc' := setMode sc .fill
    let r ← rec s target sc'
    pure (r.1, sc')
  | .group s => do
    let sc' := setMode sc .group
    let items ← M.lift (p.iterate target)
    let init := match s with
      | .dict o _ => V.dict o []
      | .list _ => V.list []
      | _ => V.none
    let v ← groupLoop rec s sc' items init
    pure (v, sc')
  | .mtch s dflt => do
    let sc' := setMode sc .mtch
    let v ← withDefault p rec target dflt sc' (do let r ← rec s target sc'; pure r.1)
    pure (v, sc')
  | .and cs dflt => do
    let v ← withDefault p rec target dflt sc (andLoop rec target sc cs target)
    pure (v, sc)
  | .or cs dflt => do
    let v ← withDefault p rec target dflt sc (orLoop p rec target sc cs)
    pure (v, sc)
  | .not c => do
    match ← M.attempt (rec c target sc) with
    | .ok _ => M.fail "MatchError"
    | .error e => if p.isSub e.cls "GlomError" then pure (target, sc) else M.throw e
  | .switch cases dflt => do
    match ← switchLoop p rec target sc cases with
    | some v => pure (v, sc)
    | Option.none =>
      match dflt with
      | some d => do
        let v ← argVal rec target d sc
        pure (v, sc)
      | Option.none => M.fail "MatchError"
  | .probe id => do
    M.logEv (.probe id (mode sc))
    pure (target, sc)
  | .iter sub viaMap => do
    -- `Iter.glomit` returns a generator that captures `scope` (the Iter object's own frame, which
    -- holds the MODE copied at creation); when a later step consumes it, every item is evaluated
    -- by `scope[glom](item, sub, scope)`.  Values are immutable here and the captured frame keeps
    -- its mode and bindings, so the items are computed at the creation site, in the creation
    -- site's scope — the lexical reading of "everything nested inside the wrapper" — and the
    -- consumer (`list`, `tuple`, iteration) forces the `stream` value.  `Iter(sub)` drops SKIP and
    -- ends at STOP like a list spec (`_iterate`); `Iter().map(sub)` yields every result (`imap`).
    let items ← M.lift (p.iterate target)
    let vs ← (if viaMap then zipLoop rec sc items (List.replicate items.length sub) []
              else listLoop rec sub sc items [])
    pure (.stream vs, sc)
  | .optKey k =>
    -- `Optional.glomit`: an `==` constant (evaluated, like every key, in a frame of its own)
    if p.eq target k then pure (target, sc) else M.fail "MatchError"
  | .reqKey k =>
    -- match-mode `_handle_dict` evaluates the wrapped key spec itself: its bindings go to the value
    rec k target sc
  | .reenter _ s => do
    -- `glom()` / `Spec.glom()` given the running scope (a ChainMap of frames) build a new root frame and
    -- `scope.update(<running scope>)`: everything the running scope shows — the innermost layer of a
    -- name bound at several depths —, MODE included; nothing of the nested frames comes back
    let r ← rec s target sc
    pure (r.1, sc)
  | .rprobe id s => do
    -- harness object (a custom spec with a `glomit`): `scope[glom](target, s, scope)`, recorded, handed on
    match ← M.attempt (rec s target sc) with
    | .ok r => do
      M.logEv (.read id (.ok r.1))
      pure (r.1, sc)
    | .error e => do
      M.logEv (.read id (.error e))
      M.throw e
  | .inspect s bp pm => do
    -- `Inspect.glomit`: `scope[Inspect] = scope[glom]; scope[glom] = self._trace`, then
    -- `scope[glom](target, self.wrapped, scope)` = `_trace`: it puts the real evaluator back (not
    -- recursive), echoes (stdout: not observed), calls `breakpoint()`, evaluates the wrapped spec
    -- with the real evaluator *in the Inspect's own scope*, and on an exception calls
    -- `post_mortem()` and re-raises.  Debugging aside, Inspect is `Spec(s)`.
    callOpt p bp
    match ← M.attempt (rec s target sc) with
    | .ok r => pure (r.1, sc)
    | .error e =>
      -- (an error that only says "outside the modelled domain" is not an exception of the program)
      if e.cls == "Unsupported" || e.cls == "OutOfFuel" then M.throw e
      else do
        callOpt p pm
        M.throw e
  | _ => M.fail "Unsupported"

/-- `_ArgValuator.mode`: containers rebuilt, everything else literal -/
def argModeFn (p : Prims) (rec : Rec σ) (spec : Spec) (target : V) (own : σ) : M V :=
  match spec with
  | .list xs => do
    let vs ← mapLoop rec target own xs []
    pure (.list vs)
  | .dict false es => do
    let kvs ← pairLoop p rec target own es []
    pure (.dict false kvs)
  | .tuple xs => do
    let vs ← mapLoop rec target own xs []
    pure (.tuple vs)
  | .set fz xs => do
    let vs ← mapLoop rec target own xs []
    if vs.all p.hashable then pure (.set fz vs) else M.fail "TypeError"
  -- only instances of EXACTLY dict / list / tuple / set / frozenset are rebuilt: an instance of a
  -- subclass (OrderedDict) is a literal — the very object of the spec, its T leaves unevaluated
  | .dict true _ => pure (.specobj "OrderedDict")
  | s => match reify s with
    | some v => pure v
    | Option.none => M.fail "Unsupported"

/-- `AUTO` -/
def autoFn (p : Prims) (rec : Rec σ) (spec : Spec) (target : V) (own : σ) : M V :=
  match spec with
  | .str s =>
    -- Path.from_text(spec) then the 'P' walk (C01); '*' segments are C14's
    match (s.splitOn ".").foldlM (fun cur seg => p.getSeg cur seg) target with
    | .ok v => pure v
    | .error _ => M.fail "PathAccessError"
  | .dict o es => do
    let kvs ← dictLoop p rec target own es []
    pure (.dict o kvs)
  | .list xs =>
    match xs with
    | [] => M.fail "IndexError"
    | sub :: _ => do
      let items ← M.lift (p.iterate target)
      let vs ← listLoop rec sub own items []
      pure (.list vs)
  | .tuple xs => tupleLoop rec xs target own Option.none
  | .fn n k => callFn p n k [target] []
  | .ty n => M.lift (p.applyTy n target)
  | _ => M.fail "TypeError"

/-- `FILL` -/
def fillFn (p : Prims) (rec : Rec σ) (spec : Spec) (target : V) (own : σ) : M V :=
  match spec with
  | .dict false es => do
    let kvs ← pairLoop p rec target own es []
    pure (.dict false kvs)
  | .list xs => do
    let vs ← mapLoop rec target own xs []
    pure (.list vs)
  | .tuple xs => do
    let vs ← mapLoop rec target own xs []
    pure (.tuple vs)
  | .set fz xs => do
    let vs ← mapLoop rec target own xs []
    if vs.all p.hashable then pure (.set fz vs) else M.fail "TypeError"
  | .fn n k => callFn p n k [target] []
  | .ty n => M.lift (p.applyTy n target)
  | .dict true _ => pure (.specobj "OrderedDict")         -- (see `argModeFn`)
  | s => match reify s with
    | some v => pure v
    | Option.none => M.fail "Unsupported"

/-- `_glom_match` -/
def matchFn (p : Prims) (rec : Rec σ) (spec : Spec) (target : V) (own : σ) : M V :=
  match spec with
  | .ty n => if p.isinstance target n then pure target else M.fail "TypeMatchError"
  | .dict _ es =>
    match target with
    | .dict _ tes => do
      let (acc, used) ← matchDictLoop p rec own es tes [] []
      if (requiredKeys es).all (fun k => used.any (specEqLit k)) then pure (.dict false acc)
      else M.fail "MatchError"
    | _ => M.fail "TypeMatchError"
  | .list alts =>
    match target with
    | .list items => do
      let vs ← matchItemsLoop p rec own alts items []
      pure (.list vs)
    | _ => M.fail "TypeMatchError"
  | .set fz alts =>
    match target with
    | .set fz' items =>
      if fz == fz' then do
        let vs ← matchItemsLoop p rec own alts items []
        pure (.set fz vs)
      else M.fail "TypeMatchError"
    | _ => M.fail "TypeMatchError"
  | .tuple xs =>
    match target with
    | .tuple items =>
      if items.length != xs.length then M.fail "MatchError"
      else do
        let vs ← zipLoop rec own items xs []
        pure (.tuple vs)
    | _ => M.fail "TypeMatchError"
  | .fn n k => do
    match ← M.attempt (callFn p n k [target] []) with
    | .ok v => if p.truthy v then pure target else M.fail "MatchError"
    | .error _ => M.fail "MatchError"
  | s => match reify s with
    | some v => if p.eq target v then pure target else M.fail "MatchError"
    | Option.none => M.fail "Unsupported"

/-- `GROUP`, generic part (accumulating dict / list specs are C16's model) -/
def groupFn (p : Prims) (spec : Spec) (target : V) : M V :=
  match spec with
  | .fn n k => callFn p n k [target] []
  | .ty n => M.lift (p.applyTy n target)
  | _ => M.fail "Unsupported"

/-- the interpreter: `interp p fuel spec target scope` is `_glom(target, spec, scope)` -/
def interp (p : Prims) : Nat → Spec → V → σ → M (V × σ)
  | 0, _, _, _ => M.fail "OutOfFuel"
  | fuel + 1, spec, target, parent =>
    let rec' : Rec σ := interp p fuel
    let own := child parent                       -- scope.new_child({MODE: pmap[MODE], …})
    if spec.isSpecLike then
      glomit p rec' spec target (setArgMode own false)      -- scope[MIN_MODE] = None
    else do
      let v ← (if argMode own then argModeFn p rec' spec target own
        else match mode own with
          | .auto => autoFn p rec' spec target own
          | .fill => fillFn p rec' spec target own
          | .mtch => matchFn p rec' spec target own
          | .group => groupFn p spec target)
      pure (v, own)

end interp

end Glom.Interp
