/-
  The glom interpreter, code-shaped, generic in the representation of the scope.

  Mirrors glom/core.py (`_glom`, `AUTO`, `FILL`, `_ArgValuator.mode`, `arg_val`,
  `_handle_dict`, `_handle_list`, `_handle_tuple`, `chain_child`, `_t_eval` for
  the S/A roots, the `glomit` methods of Pipe, Val, Spec, Coalesce, Call, Invoke,
  Ref, Vars, Let, Auto, Fill), glom/matching.py (`Match.glomit`, `_glom_match`,
  match-mode `_handle_dict`, And, Or, Not, Switch) and the generic part of
  glom/grouping.py (`Group.glomit`, the callable branch of `GROUP`).

  * A spec is a *Python object* (`Spec` below): what it means depends on the
    mode in force, exactly as in glom.
  * Everything that is Python's rather than glom's — equality, truthiness,
    isinstance, hashing, iteration, path-segment access, T-expressions on the
    target, calling a function — is a field of `Prims`.  Theorems quantify over
    all `Prims`; the driver instantiates them with executable definitions.
  * The scope is abstract (`ScopeAlg σ`): `child` is `scope.new_child({...})`
    in `_glom` (MODE / MIN_MODE copied from the parent's head frame), `bind`
    is `scope[k] = v` (the head frame), `chain` is `chain_child`.  Two
    instances: the ChainMap-of-frames one (`Glom/Model/Frames.lean`) and the
    lexical one (`Glom/Spec/Lexical.lean`).
  * `St` carries what survives an exception: the call log and the `ScopeVars`
    objects (`S.globals`, `Vars`).
-/
namespace Glom.Interp

/-! ### values, errors, specs -/

inductive V where
  | none
  | bool (b : Bool)
  | int (i : Int)
  | str (s : String)
  | skip | stop                                   -- the SKIP and STOP sentinels
  | list (xs : List V)
  | tuple (xs : List V)
  | dict (ordered : Bool) (es : List (V × V))
  | set (frozen : Bool) (xs : List V)
  | fn (name kind : String)                       -- a catalogue callable
  | ty (name : String)                            -- a class object
  | vars (id : Nat)                               -- a ScopeVars object
  deriving Repr, Inhabited, BEq

/-- a raised exception: its class (MRO via `Prims.isSub`) -/
structure Err where
  cls : String
  deriving Repr, DecidableEq, Inhabited

inductive Mode where
  | auto | fill | mtch | group
  deriving Repr, DecidableEq, Inhabited

/-- how a `Coalesce` decides to skip a value -/
inductive Skip where
  | never
  | pred (name kind : String)        -- callable predicate
  | anyOf (vs : List V)              -- a tuple of values: `v in skip`
  | eq (v : V)                       -- a single value: `v == skip`
  deriving Repr, Inhabited

inductive Spec where
  -- plain Python objects (interpreted by the mode in force)
  | str (s : String)
  | lit (v : V)                                   -- non-container, non-callable literal
  | tuple (xs : List Spec)
  | list (xs : List Spec)
  | dict (ordered : Bool) (es : List (Spec × Spec))
  | set (frozen : Bool) (xs : List Spec)
  | fn (name kind : String)                       -- callable
  | ty (name : String)                            -- a type
  -- TType instances
  | t (steps : List (String × V))                 -- T-rooted, literal arguments
  | sRead (name : String) (steps : List (String × V))  -- S.name… / S['name']…
  | sGlobRead (name : String)                     -- S.globals.name
  | sVarRead (var name : String)                  -- S.var.name   (var holds a ScopeVars)
  | sBind (bs : List (String × Spec))             -- S(k=v, …)
  | aBind (name : String)                         -- A.name
  | aGlob (name : String)                         -- A.globals.name
  | aVar (var name : String)                      -- A.var.name
  -- objects with a glomit method
  | pipe (steps : List Spec)
  | val (v : V)
  | specW (s : Spec) (scope : List (String × V))
  | coalesce (subs : List Spec) (dflt : Option Spec) (dfltFactory : Option (String × String))
      (skip : Skip) (skipExc : List String)
  | call (func : Spec) (args : Spec) (kwargs : Spec)
  | invoke (func : Spec) (funcIsSpec : Bool) (blocks : List (String × List Spec × List (String × Spec)))
      -- block = (op, positional, keyword): 'C' constants, 'S' specs, '*' star (positional = [args]?,
      -- keyword = [("**", kwargs)]?)
  | ref (name : String) (sub : Option Spec)
  | vars (defaults : List (String × V))
  | letB (bs : List (String × Spec))
  | auto (s : Spec)
  | fill (s : Spec)
  | mtch (s : Spec) (dflt : Option Spec)
  | group (s : Spec)
  | and (cs : List Spec) (dflt : Option Spec)
  | or (cs : List Spec) (dflt : Option Spec)
  | not (c : Spec)
  | switch (cases : List (Spec × Spec)) (dflt : Option Spec)
  | probe (id : Nat)                              -- harness object recording scope[MODE]
  deriving Repr, Inhabited

inductive Ev where
  | call (name : String) (args : List V)          -- a catalogue callable ran
  | probe (id : Nat) (mode : Mode)
  deriving Repr, Inhabited

structure St where
  log : List Ev := []
  gvars : List (List (String × V)) := []          -- ScopeVars objects by id
  deriving Repr, Inhabited

/-- Python's part -/
structure Prims where
  eq : V → V → Bool                               -- `==`
  truthy : V → Bool
  hashable : V → Bool
  isinstance : V → String → Bool
  iterate : V → Except Err (List V)               -- registered `iterate`
  getSeg : V → String → Except Err V              -- one path segment (registered `get`)
  tEval : List (String × V) → V → Except Err V    -- T-rooted expression on a value
  applyFn : String → List V → List (String × V) → Except Err V   -- kind, args, kwargs
  applyTy : String → V → Except Err V             -- calling a type on the target
  isSub : String → String → Bool                  -- exception class ⊆ class
  typeName : V → String

class ScopeAlg (σ : Type) where
  child : σ → σ
  lookup : σ → String → Option V
  bind : σ → String → V → σ
  lookupRef : σ → String → Option Spec
  bindRef : σ → String → Spec → σ
  mode : σ → Mode
  setMode : σ → Mode → σ
  argMode : σ → Bool                              -- MIN_MODE is the argument mode
  setArgMode : σ → Bool → σ
  /-- `chain_child`: `chain owner lastChild` is the scope handed to the next link -/
  chain : σ → σ → σ

open ScopeAlg

abbrev Out (σ : Type) := St × Except Err (V × σ)

/-- a glomit method returns a value; the scope a chain continues from is the spec's own -/
def withScope {σ} (o : St × Except Err V) (sc : σ) : Out σ :=
  match o with
  | (st, .ok v) => (st, .ok (v, sc))
  | (st, .error e) => (st, .error e)

/-- the value of a nested `scope[glom](…)` call (its scope is dropped) -/
def valOf {σ} (o : Out σ) : St × Except Err V :=
  match o with
  | (st, .ok (v, _)) => (st, .ok v)
  | (st, .error e) => (st, .error e)

def err {σ} (st : St) (c : String) : Out σ := (st, .error ⟨c⟩)

/-- is the error caught by `except (c₁, …)`? -/
def caught (p : Prims) (classes : List String) (e : Err) : Bool :=
  classes.any (fun c => p.isSub e.cls c)

/-- the plain object a spec denotes when it is taken literally -/
def reify : Spec → Option V
  | .str s => some (.str s)
  | .lit v => some v
  | .fn n k => some (.fn n k)
  | .ty n => some (.ty n)
  | _ => Option.none

/-- `ret[field] = val` on an insertion-ordered dict -/
def dictSet (p : Prims) (es : List (V × V)) (k v : V) : List (V × V) :=
  if es.any (fun e => p.eq e.1 k) then es.map (fun e => if p.eq e.1 k then (e.1, v) else e)
  else es ++ [(k, v)]

def attrGet (attrs : List (String × V)) (k : String) : Option V :=
  (attrs.find? (·.1 == k)).map (·.2)

/-- `d[k] = v` on a string-keyed mapping whose order is never observed (frames, ScopeVars, kwargs) -/
def attrSet (attrs : List (String × V)) (k : String) (v : V) : List (String × V) :=
  (k, v) :: attrs.filter (·.1 != k)

section loops
variable {σ : Type} [ScopeAlg σ]

/-- the recursive evaluator handed to the loops: `scope[glom](target, spec, scope)` -/
abbrev Rec (σ : Type) := Spec → V → σ → St → Out σ

/-- `_handle_tuple`: each step is evaluated in the scope `chain_child` hands on -/
def tupleLoop (rec : Rec σ) : List Spec → V → σ → Option σ → St → St × Except Err V
  | [], res, _, _, st => (st, .ok res)
  | sub :: rest, res, cur, last, st =>
    let sc := match last with
      | Option.none => cur
      | some c => chain cur c
    match rec sub res sc st with
    | (st', .error e) => (st', .error e)
    | (st', .ok (nxt, c')) =>
      match nxt with
      | .skip => tupleLoop rec rest res sc (some c') st'
      | .stop => (st', .ok res)
      | _ => tupleLoop rec rest nxt sc (some c') st'

/-- `_handle_dict` (auto mode): value first, SKIP test, then a computed key -/
def dictLoop (p : Prims) (rec : Rec σ) (target : V) (sc : σ) :
    List (Spec × Spec) → List (V × V) → St → St × Except Err (List (V × V))
  | [], acc, st => (st, .ok acc)
  | (field, sub) :: rest, acc, st =>
    match rec sub target sc st with
    | (st', .error e) => (st', .error e)
    | (st', .ok (.skip, _)) => dictLoop p rec target sc rest acc st'
    | (st', .ok (val, _)) =>
      match field with
      | .t _ | .sRead .. | .sGlobRead _ | .sVarRead .. | .sBind _ | .aBind _ | .aGlob _ | .aVar .. | .specW .. =>
        match rec field target sc st' with
        | (st'', .error e) => (st'', .error e)
        | (st'', .ok (k, _)) =>
          if p.hashable k then dictLoop p rec target sc rest (dictSet p acc k val) st''
          else (st'', .error ⟨"TypeError"⟩)
      | _ =>
        match reify field with
        | some k => dictLoop p rec target sc rest (dictSet p acc k val) st'
        | Option.none => (st', .error ⟨"Unsupported"⟩)

/-- `_handle_list`: map the sub-spec over the iteration; SKIP drops, STOP ends -/
def listLoop (rec : Rec σ) (sub : Spec) (sc : σ) : List V → List V → St → St × Except Err (List V)
  | [], acc, st => (st, .ok acc)
  | item :: rest, acc, st =>
    match rec sub item sc st with
    | (st', .error e) => (st', .error e)
    | (st', .ok (.skip, _)) => listLoop rec sub sc rest acc st'
    | (st', .ok (.stop, _)) => (st', .ok acc)
    | (st', .ok (v, _)) => listLoop rec sub sc rest (acc ++ [v]) st'

/-- evaluate every spec of a list against the same target in the same scope
    (FILL / argument mode containers, Invoke.specs, And) -/
def mapLoop (rec : Rec σ) (target : V) (sc : σ) : List Spec → List V → St → St × Except Err (List V)
  | [], acc, st => (st, .ok acc)
  | s :: rest, acc, st =>
    match rec s target sc st with
    | (st', .error e) => (st', .error e)
    | (st', .ok (v, _)) => mapLoop rec target sc rest (acc ++ [v]) st'

/-- `{recurse(k): recurse(v) for k, v in spec.items()}` -/
def pairLoop (p : Prims) (rec : Rec σ) (target : V) (sc : σ) :
    List (Spec × Spec) → List (V × V) → St → St × Except Err (List (V × V))
  | [], acc, st => (st, .ok acc)
  | (ks, vs) :: rest, acc, st =>
    match rec ks target sc st with
    | (st', .error e) => (st', .error e)
    | (st', .ok (k, _)) =>
      match rec vs target sc st' with
      | (st'', .error e) => (st'', .error e)
      | (st'', .ok (v, _)) =>
        if p.hashable k then pairLoop p rec target sc rest (dictSet p acc k v) st''
        else (st'', .error ⟨"TypeError"⟩)

/-- keyword bindings evaluated one after the other (`S(k=…)`, `Let`, Invoke kwargs) -/
def kwLoop (rec : Rec σ) (target : V) (sc : σ) :
    List (String × Spec) → List (String × V) → St → St × Except Err (List (String × V))
  | [], acc, st => (st, .ok acc)
  | (k, s) :: rest, acc, st =>
    match rec s target sc st with
    | (st', .error e) => (st', .error e)
    | (st', .ok (v, _)) => kwLoop rec target sc rest (acc ++ [(k, v)]) st'

def skipFunc (p : Prims) (sk : Skip) (v : V) (st : St) : St × Except Err Bool :=
  match sk with
  | .never => (st, .ok false)
  | .pred n k =>
    let st' := { st with log := st.log ++ [.call n [v]] }
    match p.applyFn k [v] [] with
    | .ok r => (st', .ok (p.truthy r))
    | .error e => (st', .error e)
  | .anyOf vs => (st, .ok (vs.any (fun x => p.eq x v)))
  | .eq x => (st, .ok (p.eq v x))

/-- `Coalesce.glomit`'s loop: `some v` = a sub-spec produced a value that is not skipped -/
def coalesceLoop (p : Prims) (rec : Rec σ) (target : V) (sc : σ) (sk : Skip) (skipExc : List String) :
    List Spec → St → St × Except Err (Option V)
  | [], st => (st, .ok Option.none)
  | sub :: rest, st =>
    match rec sub target sc st with
    | (st', .error e) =>
      if caught p skipExc e then coalesceLoop p rec target sc sk skipExc rest st'
      else (st', .error e)
    | (st', .ok (ret, _)) =>
      match skipFunc p sk ret st' with
      | (st'', .error e) => (st'', .error e)
      | (st'', .ok true) => coalesceLoop p rec target sc sk skipExc rest st''
      | (st'', .ok false) => (st'', .ok (some ret))

/-- `And._glomit`: every child on the same target, last result -/
def andLoop (rec : Rec σ) (target : V) (sc : σ) : List Spec → V → St → St × Except Err V
  | [], res, st => (st, .ok res)
  | c :: rest, _, st =>
    match rec c target sc st with
    | (st', .error e) => (st', .error e)
    | (st', .ok (v, _)) => andLoop rec target sc rest v st'

/-- `Or._glomit`: first child that passes; the last child's error propagates -/
def orLoop (p : Prims) (rec : Rec σ) (target : V) (sc : σ) : List Spec → St → St × Except Err V
  | [], st => (st, .error ⟨"ValueError"⟩)          -- `_Bool.__init__` rejects an empty Or
  | [c], st =>
    match rec c target sc st with
    | (st', .error e) => (st', .error e)
    | (st', .ok (v, _)) => (st', .ok v)
  | c :: rest, st =>
    match rec c target sc st with
    | (st', .error e) =>
      if p.isSub e.cls "GlomError" then orLoop p rec target sc rest st' else (st', .error e)
    | (st', .ok (v, _)) => (st', .ok v)

/-- `Switch.glomit`: the value spec of the first case whose key spec passes,
    evaluated in the scope chained after that key -/
def switchLoop (p : Prims) (rec : Rec σ) (target : V) (sc : σ) :
    List (Spec × Spec) → St → St × Except Err (Option V)
  | [], st => (st, .ok Option.none)
  | (ks, vs) :: rest, st =>
    match rec ks target sc st with
    | (st', .error e) =>
      if p.isSub e.cls "GlomError" then switchLoop p rec target sc rest st' else (st', .error e)
    | (st', .ok (_, c)) =>
      match rec vs target (chain sc c) st' with
      | (st'', .error e) => (st'', .error e)
      | (st'', .ok (v, _)) => (st'', .ok (some v))

/-- element-wise matching of list/set targets: each item against the first alternative it matches -/
def altLoop (p : Prims) (rec : Rec σ) (sc : σ) (item : V) :
    List Spec → Option Err → St → St × Except Err V
  | [], last, st => (st, .error (last.getD ⟨"MatchError"⟩))
  | c :: rest, _, st =>
    match rec c item sc st with
    | (st', .ok (v, _)) => (st', .ok v)
    | (st', .error e) =>
      if p.isSub e.cls "GlomError" then altLoop p rec sc item rest (some e) st' else (st', .error e)

def matchItemsLoop (p : Prims) (rec : Rec σ) (sc : σ) (alts : List Spec) :
    List V → List V → St → St × Except Err (List V)
  | [], acc, st => (st, .ok acc)
  | item :: rest, acc, st =>
    match altLoop p rec sc item alts Option.none st with
    | (st', .error e) => (st', .error e)
    | (st', .ok v) => matchItemsLoop p rec sc alts rest (acc ++ [v]) st'

def zipLoop (rec : Rec σ) (sc : σ) : List V → List Spec → List V → St → St × Except Err (List V)
  | t :: ts, s :: ss, acc, st =>
    match rec s t sc st with
    | (st', .error e) => (st', .error e)
    | (st', .ok (v, _)) => zipLoop rec sc ts ss (acc ++ [v]) st'
  | _, _, acc, st => (st, .ok acc)

/-- match-mode `_handle_dict`, inner loop: the first spec key the target key matches;
    the value is matched in the scope chained after that key -/
def matchKeyLoop (p : Prims) (rec : Rec σ) (sc : σ) (key val : V) :
    List (Spec × Spec) → St → St × Except Err (Option (V × V × Spec))
  | [], st => (st, .ok Option.none)
  | (ks, vs) :: rest, st =>
    match rec ks key sc st with
    | (st', .error e) =>
      if p.isSub e.cls "GlomError" then matchKeyLoop p rec sc key val rest st' else (st', .error e)
    | (st', .ok (k', c)) =>
      match rec vs val (chain sc c) st' with
      | (st'', .error e) => (st'', .error e)
      | (st'', .ok (v', _)) => (st'', .ok (some (k', v', ks)))

def matchDictLoop (p : Prims) (rec : Rec σ) (sc : σ) (spec : List (Spec × Spec)) :
    List (V × V) → List (V × V) → List Spec → St → St × Except Err (List (V × V) × List Spec)
  | [], acc, used, st => (st, .ok (acc, used))
  | (k, v) :: rest, acc, used, st =>
    match matchKeyLoop p rec sc k v spec st with
    | (st', .error e) => (st', .error e)
    | (st', .ok Option.none) => (st', .error ⟨"MatchError"⟩)
    | (st', .ok (some (k', v', ks))) =>
      matchDictLoop p rec sc spec rest (dictSet p acc k' v') (ks :: used) st'

/-- `Group.glomit`'s item loop (generic part): `last, ret = ret, glom(t, spec)`; STOP returns `last` -/
def groupLoop (rec : Rec σ) (sub : Spec) (sc : σ) : List V → V → St → St × Except Err V
  | [], ret, st => (st, .ok ret)
  | item :: rest, ret, st =>
    match rec sub item sc st with
    | (st', .error e) => (st', .error e)
    | (st', .ok (.stop, _)) => (st', .ok ret)
    | (st', .ok (v, _)) => groupLoop rec sub sc rest v st'

end loops

/-- does `_glom` take the T / glomit branch for this object? -/
def Spec.isSpecLike : Spec → Bool
  | .str _ | .lit _ | .tuple _ | .list _ | .dict .. | .set .. | .fn .. | .ty _ => false
  | _ => true

/-- literal keys of a match-mode dict spec that are required (`_precedence == 0`) -/
def requiredKeys (spec : List (Spec × Spec)) : List Spec :=
  (spec.map (·.1)).filter (fun k => match k with
    | .str _ | .lit _ => true
    | _ => false)

def specEqLit : Spec → Spec → Bool
  | .str a, .str b => a == b
  | .lit a, .lit b => a == b
  | _, _ => false

section interp
variable {σ : Type} [ScopeAlg σ]

/-- `arg_val(target, arg, scope)`: MIN_MODE is set on the caller's frame around one `scope[glom]` call -/
def argVal (rec : Rec σ) (target : V) (arg : Spec) (sc : σ) (st : St) : St × Except Err (V × σ) :=
  let saved := argMode sc
  match rec arg target (setArgMode sc true) st with
  | (st', .error e) => (st', .error e)
  | (st', .ok (v, _)) => (st', .ok (v, setArgMode sc saved))

/-- the default of Coalesce / Match / And / Or / Switch: `arg_val(target, default, scope)` -/
def dfltVal (rec : Rec σ) (target : V) (d : Spec) (sc : σ) (st : St) : Out σ :=
  match argVal rec target d sc st with
  | (st', .error e) => (st', .error e)
  | (st', .ok (v, sc')) => (st', .ok (v, sc'))

/-- the interpreter: `interp p fuel spec target scope st` is `_glom(target, spec, scope)` -/
def interp (p : Prims) : Nat → Spec → V → σ → St → Out σ
  | 0, _, _, _, st => err st "OutOfFuel"
  | fuel + 1, spec, target, parent, st =>
    let rec' : Rec σ := interp p fuel
    let own := child parent                       -- scope.new_child({MODE: pmap[MODE], …})
    if spec.isSpecLike then
      let sc := setArgMode own false              -- scope[MIN_MODE] = None
      match spec with
      | .t steps =>
        match p.tEval steps target with
        | .ok v => (st, .ok (v, sc))
        | .error e => (st, .error e)
      | .sRead name steps =>
        match lookup sc name with
        | Option.none => err st "PathAccessError"
        | some v =>
          match p.tEval steps v with
          | .ok r => (st, .ok (r, sc))
          | .error e => (st, .error e)
      | .sGlobRead name =>
        match lookup sc "globals" with
        | some (.vars id) =>
          match (st.gvars[id]?).bind (attrGet · name) with
          | some v => (st, .ok (v, sc))
          | Option.none => err st "PathAccessError"
        | _ => err st "PathAccessError"
      | .sVarRead var name =>
        match lookup sc var with
        | some (.vars id) =>
          match (st.gvars[id]?).bind (attrGet · name) with
          | some v => (st, .ok (v, sc))
          | Option.none => err st "PathAccessError"
        | some _ => err st "PathAccessError"
        | Option.none => err st "PathAccessError"
      | .sBind bs =>
        -- scope.update({k: arg_val(target, v, scope) for k, v in kwargs.items()})
        match kwLoop (fun s t c st => dfltVal rec' t s c st) target sc bs [] st with
        | (st', .error e) => (st', .error e)
        | (st', .ok kvs) => (st', .ok (target, kvs.foldl (fun c kv => bind c kv.1 kv.2) sc))
      | .aBind name => (st, .ok (target, bind sc name target))
      | .aGlob name =>
        match lookup sc "globals" with
        | some (.vars id) =>
          match st.gvars[id]? with
          | some attrs => ({ st with gvars := st.gvars.set id (attrSet attrs name target) }, .ok (target, sc))
          | Option.none => err st "PathAccessError"
        | _ => err st "PathAccessError"
      | .aVar var name =>
        match lookup sc var with
        | some (.vars id) =>
          match st.gvars[id]? with
          | some attrs => ({ st with gvars := st.gvars.set id (attrSet attrs name target) }, .ok (target, sc))
          | Option.none => err st "PathAccessError"
        | some _ => err st "AttributeError"
        | Option.none => err st "PathAccessError"
      | .pipe steps => withScope (tupleLoop rec' steps target sc Option.none st) sc
      | .val v => (st, .ok (v, sc))
      | .specW s bindings =>
        let sc' := bindings.foldl (fun c kv => bind c kv.1 kv.2) sc
        withScope (valOf (rec' s target sc' st)) sc'
      | .coalesce subs dflt dfltFactory sk skipExc =>
        match coalesceLoop p rec' target sc sk skipExc subs st with
        | (st', .error e) => (st', .error e)
        | (st', .ok (some v)) => (st', .ok (v, sc))
        | (st', .ok Option.none) =>
          match dflt, dfltFactory with
          | some d, _ => dfltVal rec' target d sc st'
          | Option.none, some (n, k) =>
            let st'' := { st' with log := st'.log ++ [.call n []] }
            match p.applyFn k [] [] with
            | .ok v => (st'', .ok (v, sc))
            | .error e => (st'', .error e)
          | Option.none, Option.none => err st' "CoalesceError"
      | .call func args kwargs =>
        match argVal rec' target func sc st with
        | (st1, .error e) => (st1, .error e)
        | (st1, .ok (f, sc1)) =>
          match argVal rec' target args sc1 st1 with
          | (st2, .error e) => (st2, .error e)
          | (st2, .ok (a, sc2)) =>
            match argVal rec' target kwargs sc2 st2 with
            | (st3, .error e) => (st3, .error e)
            | (st3, .ok (kw, sc3)) =>
              match f, a, kw with
              | .fn n k, .tuple as, .dict _ kws =>
                let kws' := kws.filterMap (fun e => match e.1 with | .str s => some (s, e.2) | _ => Option.none)
                let st4 := { st3 with log := st3.log ++ [.call n as] }
                (match p.applyFn k as kws' with
                 | .ok v => (st4, .ok (v, sc3))
                 | .error e => (st4, .error e))
              | .fn n k, .list as, .dict _ kws =>
                let kws' := kws.filterMap (fun e => match e.1 with | .str s => some (s, e.2) | _ => Option.none)
                let st4 := { st3 with log := st3.log ++ [.call n as] }
                (match p.applyFn k as kws' with
                 | .ok v => (st4, .ok (v, sc3))
                 | .error e => (st4, .error e))
              | _, _, _ => err st3 "TypeError"
      | .invoke func funcIsSpec blocks =>
        let fr : St × Except Err V :=
          if funcIsSpec then
            match rec' func target sc st with
            | (st', .error e) => (st', .error e)
            | (st', .ok (v, _)) => (st', .ok v)
          else match reify func with
            | some v => (st, .ok v)
            | Option.none => (st, .error ⟨"TypeError"⟩)
        match fr with
        | (st1, .error e) => (st1, .error e)
        | (st1, .ok f) =>
          -- blocks in order: 'C' literal, 'S' evaluated; kwargs only from the freshest block
          let rec goBlocks : List (String × List Spec × List (String × Spec)) → List V →
              List (String × V) → St → St × Except Err (List V × List (String × V))
            | [], as, kws, s => (s, .ok (as, kws))
            | (op, pos, kw) :: rest, as, kws, s =>
              let fresh := kw.filter (fun e => !(rest.any (fun b => b.1 != "*" && b.2.2.any (·.1 == e.1))))
              if op == "*" then
                match mapLoop rec' target sc pos [] s with
                | (s', .error e) => (s', .error e)
                | (s', .ok vs) =>
                  let extra : Option (List V) := match vs with
                    | [] => some []
                    | [.list xs] | [.tuple xs] => some xs
                    | _ => Option.none
                  match extra with
                  | Option.none => (s', .error ⟨"TypeError"⟩)
                  | some xs =>
                    match mapLoop rec' target sc (kw.map (·.2)) [] s' with
                    | (s'', .error e) => (s'', .error e)
                    | (s'', .ok kvs) =>
                      let upd : Option (List (String × V)) := match kvs with
                        | [] => some []
                        | [.dict _ es] => es.mapM (fun e => match e.1 with | .str k => some (k, e.2) | _ => Option.none)
                        | _ => Option.none
                      match upd with
                      | Option.none => (s'', .error ⟨"TypeError"⟩)
                      | some us => goBlocks rest (as ++ xs) (us.foldl (fun acc kv => attrSet acc kv.1 kv.2) kws) s''
              else if op == "C" then
                let vs := pos.filterMap reify
                let kvs := fresh.filterMap (fun e => (reify e.2).map (fun v => (e.1, v)))
                goBlocks rest (as ++ vs) (kvs.foldl (fun acc kv => attrSet acc kv.1 kv.2) kws) s
              else
                match mapLoop rec' target sc pos [] s with
                | (s', .error e) => (s', .error e)
                | (s', .ok vs) =>
                  match kwLoop rec' target sc fresh [] s' with
                  | (s'', .error e) => (s'', .error e)
                  | (s'', .ok kvs) =>
                    goBlocks rest (as ++ vs) (kvs.foldl (fun acc kv => attrSet acc kv.1 kv.2) kws) s''
          match goBlocks blocks [] [] st1 with
          | (st2, .error e) => (st2, .error e)
          | (st2, .ok (as, kws)) =>
            match f with
            | .fn n k =>
              let st3 := { st2 with log := st2.log ++ [.call n as] }
              (match p.applyFn k as kws with
               | .ok v => (st3, .ok (v, sc))
               | .error e => (st3, .error e))
            | _ => err st2 "TypeError"
      | .ref name sub =>
        match sub with
        | Option.none =>
          match lookupRef sc name with
          | some s => withScope (valOf (rec' s target sc st)) sc
          | Option.none => err st "KeyError"
        | some s => withScope (valOf (rec' s target (bindRef sc name s) st)) (bindRef sc name s)
      | .vars defaults =>
        ({ st with gvars := st.gvars ++ [defaults] }, .ok (.vars st.gvars.length, sc))
      | .letB bs =>
        match kwLoop rec' target sc bs [] st with
        | (st', .error e) => (st', .error e)
        | (st', .ok kvs) => (st', .ok (target, kvs.foldl (fun c kv => bind c kv.1 kv.2) sc))
      | .auto s => withScope (valOf (rec' s target (setMode sc .auto) st)) (setMode sc .auto)
      | .fill s => withScope (valOf (rec' s target (setMode sc .fill) st)) (setMode sc .fill)
      | .group s =>
        let sc' := setMode sc .group
        match p.iterate target with
        | .error e => (st, .error e)
        | .ok items =>
          let init := match s with
            | .dict o _ => V.dict o []
            | .list _ => V.list []
            | _ => V.none
          match groupLoop rec' s sc' items init st with
          | (st', .error e) => (st', .error e)
          | (st', .ok v) => (st', .ok (v, sc'))
      | .mtch s dflt =>
        let sc' := setMode sc .mtch
        match rec' s target sc' st with
        | (st', .ok (v, _)) => (st', .ok (v, sc'))
        | (st', .error e) =>
          match dflt with
          | some d => if p.isSub e.cls "GlomError" then dfltVal rec' target d sc' st' else (st', .error e)
          | Option.none => (st', .error e)
      | .and cs dflt =>
        match andLoop rec' target sc cs target st with
        | (st', .ok v) => (st', .ok (v, sc))
        | (st', .error e) =>
          match dflt with
          | some d => if p.isSub e.cls "GlomError" then dfltVal rec' target d sc st' else (st', .error e)
          | Option.none => (st', .error e)
      | .or cs dflt =>
        match orLoop p rec' target sc cs st with
        | (st', .ok v) => (st', .ok (v, sc))
        | (st', .error e) =>
          match dflt with
          | some d => if p.isSub e.cls "GlomError" then dfltVal rec' target d sc st' else (st', .error e)
          | Option.none => (st', .error e)
      | .not c =>
        match rec' c target sc st with
        | (st', .ok _) => err st' "MatchError"
        | (st', .error e) =>
          if p.isSub e.cls "GlomError" then (st', .ok (target, sc)) else (st', .error e)
      | .switch cases dflt =>
        match switchLoop p rec' target sc cases st with
        | (st', .error e) => (st', .error e)
        | (st', .ok (some v)) => (st', .ok (v, sc))
        | (st', .ok Option.none) =>
          match dflt with
          | some d => dfltVal rec' target d sc st'
          | Option.none => err st' "MatchError"
      | .probe id =>
        ({ st with log := st.log ++ [.probe id (mode sc)] }, .ok (target, sc))
      | _ => err st "Unsupported"
    else if argMode own then
      -- `_ArgValuator.mode`: containers rebuilt, everything else literal
      match spec with
      | .list xs =>
        match mapLoop rec' target own xs [] st with
        | (st', .error e) => (st', .error e)
        | (st', .ok vs) => (st', .ok (.list vs, own))
      | .dict o es =>
        match pairLoop p rec' target own es [] st with
        | (st', .error e) => (st', .error e)
        | (st', .ok kvs) => (st', .ok (.dict o kvs, own))
      | .tuple xs =>
        match mapLoop rec' target own xs [] st with
        | (st', .error e) => (st', .error e)
        | (st', .ok vs) => (st', .ok (.tuple vs, own))
      | .set fz xs =>
        match mapLoop rec' target own xs [] st with
        | (st', .error e) => (st', .error e)
        | (st', .ok vs) => if vs.all p.hashable then (st', .ok (.set fz vs, own)) else err st' "TypeError"
      | s => match reify s with
        | some v => (st, .ok (v, own))
        | Option.none => err st "Unsupported"
    else
      match mode own with
      | .auto =>
        match spec with
        | .str s =>
          -- Path.from_text(spec) then the 'P' walk (C01); '*' segments are C14's
          match (s.splitOn ".").foldlM (fun cur seg => p.getSeg cur seg) target with
          | .ok v => (st, .ok (v, own))
          | .error _ => err st "PathAccessError"
        | .dict o es =>
          match dictLoop p rec' target own es [] st with
          | (st', .error e) => (st', .error e)
          | (st', .ok kvs) => (st', .ok (.dict o kvs, own))
        | .list xs =>
          match xs with
          | [] => err st "IndexError"
          | sub :: _ =>
            match p.iterate target with
            | .error e => (st, .error e)
            | .ok items =>
              match listLoop rec' sub own items [] st with
              | (st', .error e) => (st', .error e)
              | (st', .ok vs) => (st', .ok (.list vs, own))
        | .tuple xs => withScope (tupleLoop rec' xs target own Option.none st) own
        | .fn n k =>
          let st' := { st with log := st.log ++ [.call n [target]] }
          (match p.applyFn k [target] [] with
           | .ok v => (st', .ok (v, own))
           | .error e => (st', .error e))
        | .ty n =>
          (match p.applyTy n target with
           | .ok v => (st, .ok (v, own))
           | .error e => (st, .error e))
        | _ => err st "TypeError"
      | .fill =>
        match spec with
        | .dict _ es =>
          match pairLoop p rec' target own es [] st with
          | (st', .error e) => (st', .error e)
          | (st', .ok kvs) => (st', .ok (.dict false kvs, own))
        | .list xs =>
          match mapLoop rec' target own xs [] st with
          | (st', .error e) => (st', .error e)
          | (st', .ok vs) => (st', .ok (.list vs, own))
        | .tuple xs =>
          match mapLoop rec' target own xs [] st with
          | (st', .error e) => (st', .error e)
          | (st', .ok vs) => (st', .ok (.tuple vs, own))
        | .set fz xs =>
          match mapLoop rec' target own xs [] st with
          | (st', .error e) => (st', .error e)
          | (st', .ok vs) => if vs.all p.hashable then (st', .ok (.set fz vs, own)) else err st' "TypeError"
        | .fn n k =>
          let st' := { st with log := st.log ++ [.call n [target]] }
          (match p.applyFn k [target] [] with
           | .ok v => (st', .ok (v, own))
           | .error e => (st', .error e))
        | .ty n =>
          (match p.applyTy n target with
           | .ok v => (st, .ok (v, own))
           | .error e => (st, .error e))
        | s => match reify s with
          | some v => (st, .ok (v, own))
          | Option.none => err st "Unsupported"
      | .mtch =>
        -- `_glom_match`
        match spec with
        | .ty n =>
          if p.isinstance target n then (st, .ok (target, own)) else err st "TypeMatchError"
        | .dict _ es =>
          match target with
          | .dict _ tes =>
            match matchDictLoop p rec' own es tes [] [] st with
            | (st', .error e) => (st', .error e)
            | (st', .ok (acc, used)) =>
              if (requiredKeys es).all (fun k => used.any (specEqLit k)) then (st', .ok (.dict false acc, own))
              else err st' "MatchError"
          | _ => err st "TypeMatchError"
        | .list alts =>
          match target with
          | .list items =>
            match matchItemsLoop p rec' own alts items [] st with
            | (st', .error e) => (st', .error e)
            | (st', .ok vs) => (st', .ok (.list vs, own))
          | _ => err st "TypeMatchError"
        | .set fz alts =>
          match target with
          | .set fz' items =>
            if fz == fz' then
              match matchItemsLoop p rec' own alts items [] st with
              | (st', .error e) => (st', .error e)
              | (st', .ok vs) => (st', .ok (.set fz vs, own))
            else err st "TypeMatchError"
          | _ => err st "TypeMatchError"
        | .tuple xs =>
          match target with
          | .tuple items =>
            if items.length != xs.length then err st "MatchError"
            else match zipLoop rec' own items xs [] st with
              | (st', .error e) => (st', .error e)
              | (st', .ok vs) => (st', .ok (.tuple vs, own))
          | _ => err st "TypeMatchError"
        | .fn n k =>
          let st' := { st with log := st.log ++ [.call n [target]] }
          (match p.applyFn k [target] [] with
           | .ok v => if p.truthy v then (st', .ok (target, own)) else err st' "MatchError"
           | .error _ => err st' "MatchError")
        | s => match reify s with
          | some v => if p.eq target v then (st, .ok (target, own)) else err st "MatchError"
          | Option.none => err st "Unsupported"
      | .group =>
        match spec with
        | .fn n k =>
          let st' := { st with log := st.log ++ [.call n [target]] }
          (match p.applyFn k [target] [] with
           | .ok v => (st', .ok (v, own))
           | .error e => (st', .error e))
        | .ty n =>
          (match p.applyTy n target with
           | .ok v => (st, .ok (v, own))
           | .error e => (st, .error e))
        | _ => err st "Unsupported"          -- accumulating dict/list specs: C16's model

end interp

end Glom.Interp
