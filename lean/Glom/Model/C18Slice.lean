/-
  Python's slice semantics on a sequence of length `n`, for every
  `start, stop, step : Option Int` (CPython: `PySlice_Unpack` +
  `PySlice_AdjustIndices`), including negative steps and out-of-range bounds.

  Used by C18 (`Path.__getitem__` = slicing the tuple of steps) and by the
  executable primitives of C02 (`T[a:b:c]` on lists / tuples / strings).
  Lemmas are in `Glom/Lemmas/C18.lean`.  No Mathlib, computable, total.
-/
namespace Glom.C18

/-- `PySlice_AdjustIndices`: clamp one given bound -/
def clampBound (n step b : Int) : Int :=
  if b < 0 then
    (if b + n < 0 then (if step < 0 then -1 else 0) else b + n)
  else if b ≥ n then (if step < 0 then n - 1 else n)
  else b

/-- first selected position (may be `-1` / `n`: nothing selected) -/
def sliceStart (n step : Int) : Option Int → Int
  | none => if step < 0 then n - 1 else 0
  | some s => clampBound n step s

/-- exclusive end position -/
def sliceStop (n step : Int) : Option Int → Int
  | none => if step < 0 then -1 else n
  | some s => clampBound n step s

/-- number of selected positions -/
def sliceLen (start stop step : Int) : Nat :=
  if step < 0 then
    (if stop < start then ((start - stop - 1) / (-step) + 1).toNat else 0)
  else
    (if start < stop then ((stop - start - 1) / step + 1).toNat else 0)

/-- the positions `slice(start, stop, step)` selects in a sequence of length `n`,
    in order (`step ≠ 0`) — what `range(*slice.indices(n))` enumerates -/
def sliceIdx (n : Nat) (start stop : Option Int) (step : Int) : List Nat :=
  let s := sliceStart n step start
  let e := sliceStop n step stop
  (List.range (sliceLen s e step)).map (fun (j : Nat) => (s + (j : Int) * step).toNat)

/-- `xs[start:stop:step]`; `none` is the ValueError for `step == 0` -/
def pySlice {α} (xs : List α) (start stop step : Option Int) : Option (List α) :=
  let st := step.getD 1
  if st = 0 then none
  else some ((sliceIdx xs.length start stop st).filterMap (fun i => xs[i]?))

/-- `xs[i]` with a negative index counting from the end; `none` is the IndexError -/
def pyIndexNat (n : Nat) (i : Int) : Option Nat :=
  let j := if i < 0 then i + n else i
  if j < 0 then none else if j.toNat < n then some j.toNat else none

end Glom.C18
