import Glom.Model.C01Reg
import Glom.Generated.TFacts
import Glom.Generated.ExcFacts
import Glom.Generated.RegFacts
import Glom.Generated.C01Facts
/-
  The environment of C01 (registry as state, extended kernel) instantiated with
  the facts regenerated from /repo and from the running interpreter:
  `_t_eval`'s branch table, the exception MROs, the default `get` registrations,
  the class table of the builtin target types, the tables `int()` and `getattr`
  on builtin objects are driven by.  Per case the harness adds the user classes
  (MRO and class-level behaviour), the user exception classes and — for handlers
  outside the catalogue — their semantics.
-/
namespace Glom.C01
open Glom

def genRt : PyRt :=
  { spaces := Generated.c01IntSpaces
    zeros := Generated.c01DecimalZeros
    maxDigits := Generated.c01IntMaxStrDigits
    builtinAttrs := Generated.c01BuiltinAttrs }

def genEnv2 (userClasses : ClassTable) (info : List (String × ClsInfo)) (userExc : ClassTable)
    (hsem : String → Heap → Val → Val → Acc) : Env :=
  { k := { ct := userClasses ++ Generated.targetClassTable, info := info, rt := genRt }
    dispatch := Generated.tDispatch
    excTable := Generated.excTable ++ userExc     -- a user class cannot shadow a builtin exception
    hsem := hsem }

/-- the `get` table of a fresh registry (`TargetRegistry()`, `Glommer()`): every
    default registration is fuzzy -/
def defaultTable : Table :=
  { map := Generated.defaultReg_get.map (fun p => (p.1, Handler.ofName p.2))
    tree := Generated.defaultReg_get.map (·.1) }

def defaultReg : Reg := { tbl := defaultTable, cache := [] }

/-- the shapes of the code the model relies on beyond `_t_eval`'s branch table:
    the registry memo (`register` / `register_op` / `get_handler`), `_get_sequence_item`,
    the spec-to-ops step (`Path.from_text` splits on `'.'` and maps `*` / `**` only under
    `PATH_STAR`, `Path.__init__` splices Path and T parts step by step and turns any other
    part into a `'P'` step, `_t_child` appends `(op, arg)`, the AUTO string shortcut and
    `Path.glomit` evaluate `path_t` with `_t_eval`; probes of `Path(...)` on fixed inputs),
    the part index expression `i // 2`, and PathAccessError carrying the caught exception,
    the path and the index as given -/
def factsOK : Bool :=
  Generated.c01RegisterResetsMemo && Generated.c01RegisterOpResetsMemo &&
  Generated.c01GetHandlerMemo && Generated.c01ExactFirst &&
  Generated.c01SeqItem == "return target[int(index)]" &&
  Generated.c01DecimalZeros.contains 48 && Generated.c01IntSpaces.contains 32 &&
  Generated.c01PathInitShape && Generated.c01FromTextShape && Generated.c01AutoStrShortcut &&
  Generated.c01TChildAppends && Generated.c01PathProbesOK &&
  Generated.tPartIdxExprs == ["i // 2"] &&
  Generated.c01PaeStoresArgs && Generated.c01PaeCarriesCaught

end Glom.C01
