import Glom.Spec.C09
import Glom.Model.C10Env
/-
  The C09-specific facts regenerated from /repo on this run: branch order of
  `_glom_match` and `core._glom`, the if-chain of `_precedence`, the
  `required` / `defaults` comprehensions of `_handle_dict`, and every statement
  of the matching code that stores into / mutates an object.
-/
namespace Glom.C09
open Glom

def genFacts9 : Facts9 :=
  { matchOrder := Generated.glomMatchOrder
    dispatchOrder := Generated.glomDispatchOrder
    precedenceRules := Generated.precedenceRules
    required := Generated.handleDictRequired
    defaults := Generated.handleDictDefaults
    mutations := Generated.matchMutations
    fresh := Generated.matchFresh
    identity := Generated.identityMarkers
    moduleWrites := Generated.matchModuleWrites
    userAttrs := Generated.matchUserAttrs
    targetTests := Generated.matchTargetTests
    identityTests := Generated.matchIdentityTests }

end Glom.C09
