import Glom.Py.PV
import Glom.Py.Val
import Glom.Model.C02Prim
/-
  The executable instance `hPrim : Prim Val HS` of the primitive semantics of
  C02: Python values with OBJECT IDENTITY.  A value is an immediate scalar or the
  address of a heap cell (`Glom.Val` / `Glom.Obj` / `Glom.Heap`, the kernel shared
  with the heap-based properties); the state `HS` is the heap.  `list`, `tuple`,
  `dict`, plain attribute objects, `slice` objects and bound methods of builtin
  values are heap cells:

      list  → .list "list" items          tuple → .tuple "tuple" items
      dict  → .dict "dict" entries        Obj   → .inst cls attrs
      slice → .inst "slice" [start, stop, step]
      x.meth → .inst "<bound>" [("self", x), ("name", "meth")]

  So `T['l'].pop()` changes the cell every other path to that list reaches,
  `T['l'] + [1]` is a NEW list whose members are the very objects of the old
  one, `dict.get` / `setdefault` return the object stored in the dict, a popped
  member is detached but stays the same object, and a call hands the callee
  the very cells its arguments evaluated to.

  Numbers and strings are delegated to the identity-free kernel
  `Glom/Model/C02Prim.lean`.  An operation outside the modelled domain returns
  the pseudo exception `<unsupported>`, or — where the signature has no
  exception — sets `HS.bad`; the driver then does not compare the model.

  Modelled, not verified: every case is compared, on every run, with the same
  operation performed by CPython itself (third leg of the C02 correspondence),
  including the state of the target afterwards.
-/
namespace Glom.C02
open Glom

abbrev HObj := Glom.Obj

structure HS where
  heap : Heap
  bad : Option String := none

def HS.get (s : HS) (a : Nat) : Option HObj := s.heap[a]?
def HS.alloc (s : HS) (o : HObj) : Val × HS := (.ref s.heap.length, { s with heap := s.heap ++ [o] })
def HS.set (s : HS) (a : Nat) (o : HObj) : HS := { s with heap := s.heap.set a o }
def HS.flag (s : HS) (why : String) : HS :=
  { s with bad := match s.bad with | some w => some w | none => some why }

def scalarPV : Val → Option PV
  | .none => some .none
  | .bool b => some (.bool b)
  | .int i => some (.int i)
  | .str x => some (.str x)
  | .float h => some (.float h)
  | .sent n => some (.sent n)
  | .ty n => some (.ty n)
  | .fn n => some (.fn n)
  | .ref _ => none

def ofScalarPV : PV → Option Val
  | .none => some .none
  | .bool b => some (.bool b)
  | .int i => some (.int i)
  | .str x => some (.str x)
  | .float h => some (.float h)
  | .sent n => some (.sent n)
  | .ty n => some (.ty n)
  | .fn n => some (.fn n)
  | _ => none

def liftPV (r : Except PyExc PV) : Except PyExc Val :=
  match r with
  | .ok p => match ofScalarPV p with
    | some v => .ok v
    | none => .error unsupported
  | .error e => .error e

/-- what a value is, in the current heap -/
inductive Shape where
  | scalar (p : PV)
  | list (a : Nat) (xs : List Val)
  | tuple (a : Nat) (xs : List Val)
  | dict (a : Nat) (es : List (Val × Val))
  | slice (start stop step : Val)
  | bound (self : Val) (name : String)
  | inst (a : Nat) (cls : String) (attrs : List (String × Val))
  | other

def shape (s : HS) (v : Val) : Shape :=
  match scalarPV v, v with
  | some p, _ => .scalar p
  | none, .ref a =>
    match s.get a with
    | some (.list _ xs) => .list a xs
    | some (.tuple _ xs) => .tuple a xs
    | some (.dict _ es) => .dict a es
    | some (.inst "slice" [("start", x), ("stop", y), ("step", z)]) => .slice x y z
    | some (.inst "<bound>" [("self", self), ("name", .str n)]) => .bound self n
    | some (.inst c attrs) => .inst a c attrs
    | _ => .other
  | none, _ => .other

def okS (s : HS) (v : Val) : Except PyExc Val × HS := (.ok v, s)
def errS (s : HS) (e : PyExc) : Except PyExc Val × HS := (.error e, s)
def allocS (s : HS) (o : HObj) : Except PyExc Val × HS := (.ok (s.alloc o).1, (s.alloc o).2)

def mkBound (s : HS) (self : Val) (name : String) : Except PyExc Val × HS :=
  allocS s (.inst "<bound>" [("self", self), ("name", .str name)])

/-! ### equality, hashing, dict lookup -/

def listEq (eq : Val → Val → Option Bool) : List Val → List Val → Option Bool
  | [], [] => some true
  | x :: xs, y :: ys =>
    match eq x y with
    | some true => listEq eq xs ys
    | r => r
  | _, _ => some false

/-- Python `==` as the container methods use it (identity first); `none`: outside
    the modelled domain (dict / object / float comparisons) -/
def hvEq (s : HS) : Nat → Val → Val → Option Bool
  | fuel, a, b =>
    match scalarPV a, scalarPV b with
    | some p, some q => pyEq p q
    | _, _ =>
      match a, b with
      | .ref x, .ref y =>
        if x == y then some true
        else match fuel with
          | 0 => none
          | fuel + 1 =>
            match s.get x, s.get y with
            | some (.list _ xs), some (.list _ ys) => listEq (hvEq s fuel) xs ys
            | some (.tuple _ xs), some (.tuple _ ys) => listEq (hvEq s fuel) xs ys
            | some (.dict ..), some (.dict ..) => none
            | some (.inst ..), some (.inst ..) => none
            | some _, some _ => some false
            | _, _ => none
      | _, _ => some false

def hvHashable (s : HS) : Nat → Val → Bool
  | 0, _ => true
  | fuel + 1, .ref a =>
    match s.get a with
    | some (.list ..) | some (.dict ..) | some (.set ..) => false
    | some (.tuple _ xs) => xs.all (hvHashable s fuel)
    | _ => true
  | _, _ => true

def eqFuel : Nat := 12

/-- position of key `k` in the entries; TypeError for an unhashable key -/
def dictIdx (s : HS) (es : List (Val × Val)) (k : Val) : Except PyExc (Option Nat) :=
  if !hvHashable s eqFuel k then .error tyErr
  else
    let rec go : List (Val × Val) → Nat → Except PyExc (Option Nat)
      | [], _ => .ok none
      | (k', _) :: r, i =>
        match hvEq s eqFuel k' k with
        | some true => .ok (some i)
        | some false => go r (i + 1)
        | none => .error unsupported
    go es 0

def dictInsertH (s : HS) (es : List (Val × Val)) (k v : Val) : Except PyExc (List (Val × Val)) :=
  match dictIdx s es k with
  | .ok (some i) => .ok (es.modify i (fun e => (e.1, v)))
  | .ok none => .ok (es ++ [(k, v)])
  | .error e => .error e

def hMkDict (s : HS) (kvs : List (Val × Val)) : Except PyExc Val × HS :=
  match kvs.foldlM (fun acc kv => dictInsertH s acc kv.1 kv.2) [] with
  | .ok es => allocS s (.dict "dict" es)
  | .error e => errS s e

/-! ### subscription, attribute access -/

def sliceFieldV (v : Val) : Except PyExc (Option Int) :=
  match scalarPV v with
  | some p => sliceField p
  | none => .error tyErr

/-- `xs[key]` for a list / tuple / str given as a list of items: one item or a sub-sequence -/
def seqGetH {α} (s : HS) (xs : List α) (key : Val) : Except PyExc (α ⊕ List α) :=
  match shape s key with
  | .slice a b c =>
    match sliceFieldV a, sliceFieldV b, sliceFieldV c with
    | .ok a', .ok b', .ok c' =>
      match C18.pySlice xs a' b' c' with
      | some ys => .ok (.inr ys)
      | none => .error ⟨"ValueError"⟩
    | _, _, _ => .error tyErr
  | .scalar p =>
    match asInt? p with
    | some i => match C18.pyIndexNat xs.length i with
      | some j => match xs[j]? with
        | some x => .ok (.inl x)
        | none => .error ⟨"IndexError"⟩
      | none => .error ⟨"IndexError"⟩
    | none => .error tyErr
  | _ => .error tyErr

def hGetitem (s : HS) (cur key : Val) : Except PyExc Val × HS :=
  match shape s cur with
  | .list _ xs =>
    match seqGetH s xs key with
    | .ok (.inl x) => okS s x
    | .ok (.inr ys) => allocS s (.list "list" ys)
    | .error e => errS s e
  | .tuple _ xs =>
    match seqGetH s xs key with
    | .ok (.inl x) => okS s x
    | .ok (.inr ys) => allocS s (.tuple "tuple" ys)
    | .error e => errS s e
  | .scalar (.str str) =>
    match seqGetH s str.toList key with
    | .ok (.inl c) => okS s (.str (String.singleton c))
    | .ok (.inr cs) => okS s (.str (String.ofList cs))
    | .error e => errS s e
  | .dict _ es =>
    match dictIdx s es key with
    | .ok (some i) => match es[i]? with
      | some e => okS s e.2
      | none => errS s unsupported
    | .ok none => errS s ⟨"KeyError"⟩
    | .error e => errS s e
  | _ => errS s tyErr

def hGetattr (s : HS) (cur name : Val) : Except PyExc Val × HS :=
  match name with
  | .str n =>
    match shape s cur with
    | .bound _ _ => errS s ⟨"AttributeError"⟩
    | .slice .. => errS s unsupported
    | .inst _ _ attrs =>
      match attrs.find? (·.1 == n) with
      | some (_, v) => okS s v
      | none => errS s ⟨"AttributeError"⟩
    | .list .. => if builtinMethods.contains ("list", n) then mkBound s cur n else errS s ⟨"AttributeError"⟩
    | .tuple .. => if builtinMethods.contains ("tuple", n) then mkBound s cur n else errS s ⟨"AttributeError"⟩
    | .dict .. => if builtinMethods.contains ("dict", n) then mkBound s cur n else errS s ⟨"AttributeError"⟩
    | .scalar p =>
      if builtinMethods.contains (pvTypeName p, n) then mkBound s cur n else errS s ⟨"AttributeError"⟩
    | .other => errS s unsupported
  | _ => errS s tyErr

/-! ### arithmetic -/

def dictMergeH (s : HS) (a b : List (Val × Val)) : Except PyExc Val × HS :=
  match b.foldlM (fun acc kv => dictInsertH s acc kv.1 kv.2) a with
  | .ok es => allocS s (.dict "dict" es)
  | .error e => errS s e

def hBin (b : BinOp) (s : HS) (x y : Val) : Except PyExc Val × HS :=
  match scalarPV x, scalarPV y with
  | some p, some q => (liftPV (pvBin b p q), s)
  | _, _ =>
    match b, shape s x, shape s y with
    | .add, .list _ xs, .list _ ys => allocS s (.list "list" (xs ++ ys))
    | .add, .tuple _ xs, .tuple _ ys => allocS s (.tuple "tuple" (xs ++ ys))
    | .mul, .list _ xs, .scalar n => match asInt? n with
      | some k => match repGuard xs.length k with
        | some e => errS s e
        | none => allocS s (.list "list" (repeatList xs k))
      | none => errS s tyErr
    | .mul, .tuple _ xs, .scalar n => match asInt? n with
      | some k => match repGuard xs.length k with
        | some e => errS s e
        | none => allocS s (.tuple "tuple" (repeatList xs k))
      | none => errS s tyErr
    | .mul, .scalar n, .list _ xs => match asInt? n with
      | some k => match repGuard xs.length k with
        | some e => errS s e
        | none => allocS s (.list "list" (repeatList xs k))
      | none => errS s tyErr
    | .mul, .scalar n, .tuple _ xs => match asInt? n with
      | some k => match repGuard xs.length k with
        | some e => errS s e
        | none => allocS s (.tuple "tuple" (repeatList xs k))
      | none => errS s tyErr
    | .mod, .scalar (.str _), _ => errS s unsupported        -- printf-style formatting
    | .bor, .dict _ a, .dict _ c => dictMergeH s a c
    | _, .slice .., _ | _, _, .slice .. => errS s unsupported
    | _, .other, _ | _, _, .other => errS s unsupported
    | _, _, _ => errS s tyErr

def hUn (u : UnOp) (s : HS) (x : Val) : Except PyExc Val × HS :=
  match scalarPV x with
  | some p => (liftPV (pvUn u p), s)
  | none => match shape s x with
    | .other => errS s unsupported
    | _ => errS s tyErr

/-! ### calls -/

def hLen (s : HS) (v : Val) : Except PyExc Val :=
  match shape s v with
  | .scalar (.str x) => .ok (.int x.length)
  | .list _ xs | .tuple _ xs => .ok (.int xs.length)
  | .dict _ es => .ok (.int es.length)
  | .other => .error unsupported
  | _ => .error tyErr

def callFnH (s : HS) (name : String) (args : List Val) (kwargs : List (String × Val)) :
    Except PyExc Val × HS :=
  match name with
  | "inc" => match bindArgs [("x", none)] args kwargs with
    | some [x] => hBin .add s x (.int 1)
    | _ => errS s tyErr
  | "add2" => match bindArgs [("a", none), ("b", none)] args kwargs with
    | some [a, b] => hBin .add s a b
    | _ => errS s tyErr
  | "neg" => match bindArgs [("x", none)] args kwargs with
    | some [x] => hUn .neg s x
    | _ => errS s tyErr
  | "ident" => match bindArgs [("x", none)] args kwargs with
    | some [x] => okS s x
    | _ => errS s tyErr
  | "kw" => match bindArgs [("a", none), ("b", some (Val.int 10))] args kwargs with
    | some [a, b] => hBin .sub s a b
    | _ => errS s tyErr
  | "mklist" => if kwargs.isEmpty then allocS s (.list "list" args) else errS s tyErr
  | "const7" => if args.isEmpty ∧ kwargs.isEmpty then okS s (.int 7) else errS s tyErr
  | "raise_value" => errS s ⟨"ValueError"⟩
  | "raise_key" => errS s ⟨"KeyError"⟩
  | "raise_type" => errS s tyErr
  | "raise_zero" => errS s zdErr
  | "raise_attr" => errS s ⟨"AttributeError"⟩
  | "raise_index" => errS s ⟨"IndexError"⟩
  | "len" => if !kwargs.isEmpty then errS s tyErr else match args with
    | [x] => (hLen s x, s)
    | _ => errS s tyErr
  | _ => errS s unsupported

def seqCountH (s : HS) (xs : List Val) (x : Val) : Except PyExc Val :=
  let step (acc : Nat) (y : Val) : Except PyExc Nat :=
    match hvEq s eqFuel y x with
    | some true => .ok (acc + 1)
    | some false => .ok acc
    | none => .error unsupported
  (xs.foldlM step 0).map (fun n => Val.int n)

def seqIndexH (s : HS) (xs : List Val) (x : Val) : Except PyExc Val :=
  let rec go : List Val → Nat → Except PyExc Val
    | [], _ => .error ⟨"ValueError"⟩
    | y :: r, i => match hvEq s eqFuel y x with
      | some true => .ok (.int i)
      | some false => go r (i + 1)
      | none => .error unsupported
  go xs 0

/-- a str method: delegated to the identity-free kernel; an argument that is not a
    scalar is shown to it as an empty container of its type -/
def strMethod (s : HS) (self : PV) (name : String) (args : List Val) : Except PyExc Val :=
  let view (v : Val) : PV := match shape s v with
    | .scalar p => p
    | .tuple .. => .tuple []
    | _ => .list []
  liftPV (callMethod self name (args.map view) [])

def callMethodH (s : HS) (self : Val) (name : String) (args : List Val) (kwargs : List (String × Val)) :
    Except PyExc Val × HS :=
  if !kwargs.isEmpty then errS s tyErr
  else match shape s self, name, args with
    | .scalar p, _, _ => (strMethod s p name args, s)
    | .list _ xs, "count", [x] => (seqCountH s xs x, s)
    | .tuple _ xs, "count", [x] => (seqCountH s xs x, s)
    | .list _ xs, "index", [x] => (seqIndexH s xs x, s)
    | .tuple _ xs, "index", [x] => (seqIndexH s xs x, s)
    | .list .., "index", [_, _] | .tuple .., "index", [_, _] => errS s unsupported
    | .list .., "index", [_, _, _] | .tuple .., "index", [_, _, _] => errS s unsupported
    -- list.pop([i]): the member is detached and returned; the list cell changes
    | .list a xs, "pop", [] =>
      match xs.getLast? with
      | some x => okS (s.set a (.list "list" xs.dropLast)) x
      | none => errS s ⟨"IndexError"⟩
    | .list a xs, "pop", [i] =>
      match shape s i with
      | .scalar p => match asInt? p with
        | some k => match C18.pyIndexNat xs.length k with
          | some j => match xs[j]? with
            | some x => okS (s.set a (.list "list" (xs.eraseIdx j))) x
            | none => errS s ⟨"IndexError"⟩
          | none => errS s ⟨"IndexError"⟩
        | none => errS s tyErr
      | _ => errS s tyErr
    | .list a xs, "append", [x] => okS (s.set a (.list "list" (xs ++ [x]))) .none
    | .dict _ es, "get", [k] =>
      match dictIdx s es k with
      | .ok (some i) => okS s ((es[i]?.map (·.2)).getD .none)
      | .ok none => okS s .none
      | .error e => errS s e
    | .dict _ es, "get", [k, d] =>
      match dictIdx s es k with
      | .ok (some i) => okS s ((es[i]?.map (·.2)).getD .none)
      | .ok none => okS s d
      | .error e => errS s e
    | .dict a es, "pop", [k] =>
      match dictIdx s es k with
      | .ok (some i) => okS (s.set a (.dict "dict" (es.eraseIdx i))) ((es[i]?.map (·.2)).getD .none)
      | .ok none => errS s ⟨"KeyError"⟩
      | .error e => errS s e
    | .dict a es, "pop", [k, d] =>
      match dictIdx s es k with
      | .ok (some i) => okS (s.set a (.dict "dict" (es.eraseIdx i))) ((es[i]?.map (·.2)).getD .none)
      | .ok none => okS s d
      | .error e => errS s e
    | .dict a es, "setdefault", [k] =>
      match dictIdx s es k with
      | .ok (some i) => okS s ((es[i]?.map (·.2)).getD .none)
      | .ok none => okS (s.set a (.dict "dict" (es ++ [(k, .none)]))) .none
      | .error e => errS s e
    | .dict a es, "setdefault", [k, v] =>
      match dictIdx s es k with
      | .ok (some i) => okS s ((es[i]?.map (·.2)).getD .none)
      | .ok none => okS (s.set a (.dict "dict" (es ++ [(k, v)]))) v
      | .error e => errS s e
    | .other, _, _ => errS s unsupported
    | _, _, _ => errS s tyErr

def hCall (s : HS) (f : Val) (args : List Val) (kwargs : List (String × Val)) : Except PyExc Val × HS :=
  match f with
  | .fn name => callFnH s name args kwargs
  | .ty _ => errS s unsupported
  | _ =>
    match shape s f with
    | .bound self name => callMethodH s self name args kwargs
    | .other => errS s unsupported
    | _ => errS s tyErr          -- object is not callable

/-- the primitives of C02 on heap values.  `revalFunc`: the callee is a callable (a
    literal in argument mode) or — for a list / tuple / dict, which `arg_val` would
    rebuild — not callable at all: the rebuilt copy is garbage nothing can reach before
    the TypeError, so the instance does not allocate it.  No glom spec object is used
    as callee. -/
def hPrim : Prim Val HS :=
  { none := .none
    getattr := hGetattr
    getitem := hGetitem
    call := hCall
    bin := hBin
    un := hUn
    mkList := fun s vs => s.alloc (.list "list" vs)
    mkTuple := fun s vs => s.alloc (.tuple "tuple" vs)
    hashKey := fun s k => (if hvHashable s eqFuel k then .ok () else .error tyErr, s)
    mkDict := hMkDict
    revalFunc := fun s _ f => (f, s) }

/-! ### trees ↔ heap (what an observer sees) -/

/-- the tree a value denotes in heap `h`; `none`: deeper than `fuel` (cyclic) or dangling -/
def toPV (h : Heap) : Nat → Val → Option PV
  | fuel, v =>
    match scalarPV v, v with
    | some p, _ => some p
    | none, .ref a =>
      match fuel with
      | 0 => none
      | fuel + 1 =>
        match h[a]? with
        | some (.list _ xs) => (xs.mapM (toPV h fuel)).map PV.list
        | some (.tuple _ xs) => (xs.mapM (toPV h fuel)).map PV.tuple
        | some (.dict _ es) =>
          (es.mapM (fun (e : Val × Val) => match toPV h fuel e.1, toPV h fuel e.2 with
            | some k, some v => some (k, v)
            | _, _ => none)).map PV.dict
        | some (.inst c attrs) =>
          (attrs.mapM (fun (e : String × Val) => (toPV h fuel e.2).map (fun v => (e.1, v)))).map (PV.obj c)
        | _ => none
    | none, _ => none

def viewFuel : Nat := 48

/-- the driver's `view` -/
def hView : HS → Val → Option PV := fun s v => toPV s.heap viewFuel v

end Glom.C02
