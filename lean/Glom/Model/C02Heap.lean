import Glom.Py.PV
import Glom.Py.Val
import Glom.Model.C02Prim
/-
  The executable instance `hPrim F n : Prim Val HS` of the primitive semantics of
  C02: Python values with OBJECT IDENTITY.  A value is an immediate scalar or the
  address of a heap cell (`Glom.Val` / `Glom.Obj` / `Glom.Heap`, the kernel shared
  with the heap-based properties); the state `HS` is the heap.  Every cell carries
  the NAME OF ITS CLASS, so instances of subclasses of the builtin containers are
  cells of the same layouts:

      list   → .list "list" items       Column / MyList      → .list "Column" items
      tuple  → .tuple "tuple" items     Point (namedtuple)   → .tuple "Point" items
      dict   → .dict "dict" entries     OrderedDict / defaultdict / Counter / Bag → .dict cls entries
      set    → .set "set" items         frozenset            → .set "frozenset" items
      Obj    → .inst cls attrs          slice → .inst "slice" [start, stop, step]
      x.meth → .inst "<bound>" [("self", x), ("name", "meth")]
      d.keys() → .inst "<view>" [("kind", "keys"), ("dict", d)]          (a live view)
      a glom `T…` object → .inst "TType" [("ops", tuple cell of its `__ops__`)]
      `Spec(x)` → .inst "Spec" [("spec", x)]     `Val(x)` → .inst "Val" [("value", x)]

  The heap may be ANY graph at the start (objects reachable by several paths,
  cycles): nothing below assumes a tree.  `T['l'].pop()` changes the cell every
  other path to that list reaches, `T['l'] + [1]` is a NEW list whose members are
  the very objects of the old one, `dict.get` / `setdefault` return the object
  stored in the dict, and a call hands the callee the very cells its arguments
  evaluated to.

  Python's data model as far as T chains reach it: attribute lookup through
  properties / `__getattr__` / descriptors of the harness' probe classes
  (`PropObj`, `DynObj`, `DescObj`: which exception class comes out), subscription
  with slices (all `Option Int` triples, `Glom/Model/C18Slice.lean`), dict views,
  the str methods of `strMethods`, every unary and binary operator on
  int / bool / float / str / list / tuple / set / frozenset / dict with the exception
  class CPython raises.  Numbers and strings are delegated to the identity-free
  kernel `Glom/Model/C02Prim.lean`.  An operation outside the modelled domain
  returns the pseudo exception `<unsupported>`, or — where the signature has no
  exception — sets `HS.bad`; the driver then does not compare the model (the
  property is still evaluated, against CPython's own outcome).

  `revalFunc` — `arg_val` over the callee of a recorded call — is `argVal` of the
  generic model on the object the heap value denotes (`objOfVal`): a glom `T`
  expression / `Spec` / `Val` object found in the target's data and used as callee is
  EVALUATED against the target, an exact list / tuple / dict / set is rebuilt, everything
  else (functions, bound methods, instances of container subclasses, attribute objects)
  is returned as it is (`hReval_plain`).  The nesting depth of spec-object callees
  inside spec-object callees is bounded by the index `n` of `hPrim F n`.

  Modelled, not verified: every case is compared, on every run, with the same
  operation performed by CPython itself (third leg of the C02 correspondence),
  including the state of the whole object graph afterwards.
-/
namespace Glom.C02
open Glom

abbrev HObj := Glom.Obj

structure HS where
  heap : Heap
  bad : Option String := none
  deriving DecidableEq

def HS.get (s : HS) (a : Nat) : Option HObj := s.heap[a]?
def HS.alloc (s : HS) (o : HObj) : Val × HS := (.ref s.heap.length, { s with heap := s.heap ++ [o] })
def HS.set (s : HS) (a : Nat) (o : HObj) : HS := { s with heap := s.heap.set a o }
def HS.flag (s : HS) (why : String) : HS :=
  { s with bad := match s.bad with | some w => some w | none => some why }

def scalarPV : Val → Option PV
  | .none => some .none
  | .bool b => some (.bool b)
  | .int i => some (.int i)
  | .str x => some (.str x)
  | .float h => some (.float h)
  | .sent n => some (.sent n)
  | .ty n => some (.ty n)
  | .fn n => some (.fn n)
  | .ref _ => none

def ofScalarPV : PV → Option Val
  | .none => some .none
  | .bool b => some (.bool b)
  | .int i => some (.int i)
  | .str x => some (.str x)
  | .float h => some (.float h)
  | .sent n => some (.sent n)
  | .ty n => some (.ty n)
  | .fn n => some (.fn n)
  | _ => none

def liftPV (r : Except PyExc PV) : Except PyExc Val :=
  match r with
  | .ok p => match ofScalarPV p with
    | some v => .ok v
    | none => .error unsupported
  | .error e => .error e

/-- what a value is, in the current heap -/
inductive Shape where
  | scalar (p : PV)
  | list (a : Nat) (cls : String) (xs : List Val)
  | tuple (a : Nat) (cls : String) (xs : List Val)
  | dict (a : Nat) (cls : String) (es : List (Val × Val))
  | set (a : Nat) (cls : String) (xs : List Val)
  | slice (start stop step : Val)
  | bound (self : Val) (name : String)
  | view (kind : String) (dict : Val)
  | inst (a : Nat) (cls : String) (attrs : List (String × Val))
  | other

def shape (s : HS) (v : Val) : Shape :=
  match scalarPV v, v with
  | some p, _ => .scalar p
  | none, .ref a =>
    match s.get a with
    | some (.list c xs) => .list a c xs
    | some (.tuple c xs) => .tuple a c xs
    | some (.dict c es) => .dict a c es
    | some (.set c xs) => .set a c xs
    | some (.inst "slice" [("start", x), ("stop", y), ("step", z)]) => .slice x y z
    | some (.inst "<bound>" [("self", self), ("name", .str n)]) => .bound self n
    | some (.inst "<view>" [("kind", .str k), ("dict", d)]) => .view k d
    | some (.inst c attrs) => .inst a c attrs
    | _ => .other
  | none, _ => .other

def okS (s : HS) (v : Val) : Except PyExc Val × HS := (.ok v, s)
def errS (s : HS) (e : PyExc) : Except PyExc Val × HS := (.error e, s)
def allocS (s : HS) (o : HObj) : Except PyExc Val × HS := (.ok (s.alloc o).1, (s.alloc o).2)

def mkBound (s : HS) (self : Val) (name : String) : Except PyExc Val × HS :=
  allocS s (.inst "<bound>" [("self", self), ("name", .str name)])

/-! ### the classes of the harness' catalogue that are not plain builtins -/

/-- namedtuple classes: field names in order -/
def namedFields : List (String × List String) := [("Point", ["x", "y"])]

/-- container subclasses whose constructor does not take what the builtin's takes
    (`type(x)()` / `type(x)(items)` raises TypeError) -/
def ctorNeedsArgs : List String := ["Point", "Pair", "Column", "Bag"]

/-- glom's own objects stored as data: any operation ON them records a new expression
    (`T['a'].x` is a T object) — outside the kernel -/
def specClasses : List String := ["TType", "Spec", "Val", "<spec>"]

/-- the probe class of the harness: every binary operation and subscription returns the
    right operand itself (and remembers it in `last`) — identity of arguments is observable -/
def probeCls : String := "Probe"

def setAttr (attrs : List (String × Val)) (n : String) (v : Val) : List (String × Val) :=
  if attrs.any (·.1 == n) then attrs.map (fun e => if e.1 == n then (n, v) else e)
  else attrs ++ [(n, v)]

/-! ### equality, hashing, dict lookup -/

def listEq (eq : Val → Val → Option Bool) : List Val → List Val → Option Bool
  | [], [] => some true
  | x :: xs, y :: ys =>
    match eq x y with
    | some true => listEq eq xs ys
    | r => r
  | _, _ => some false

/-- Python `==` as the container methods use it (identity first); `none`: outside
    the modelled domain (dict / set / object / float comparisons) -/
def hvEq (s : HS) : Nat → Val → Val → Option Bool
  | fuel, a, b =>
    match scalarPV a, scalarPV b with
    | some p, some q => pyEq p q
    | _, _ =>
      match a, b with
      | .ref x, .ref y =>
        if x == y then some true
        else match fuel with
          | 0 => none
          | fuel + 1 =>
            match s.get x, s.get y with
            | some (.list _ xs), some (.list _ ys) => listEq (hvEq s fuel) xs ys
            | some (.tuple _ xs), some (.tuple _ ys) => listEq (hvEq s fuel) xs ys
            | some (.dict ..), some (.dict ..) => none
            | some (.set ..), some (.set ..) => none
            | some (.inst ..), some (.inst ..) => none
            | some _, some _ => some false
            | _, _ => none
      | _, _ => some false

/-- the set classes that are mutable (unhashable); every other set-layout class is a frozenset -/
def mutableSetCls : List String := ["set", "MySet"]

def hvHashable (s : HS) : Nat → Val → Bool
  | 0, _ => true
  | fuel + 1, .ref a =>
    match s.get a with
    | some (.list ..) | some (.dict ..) => false
    | some (.set c _) => !(mutableSetCls.contains c)
    | some (.tuple _ xs) => xs.all (hvHashable s fuel)
    | some (.inst "slice" _) => true          -- hashable since 3.12
    | _ => true
  | _, _ => true

def eqFuel : Nat := 12

/-- position of key `k` in the entries; TypeError for an unhashable key -/
def dictIdx (s : HS) (es : List (Val × Val)) (k : Val) : Except PyExc (Option Nat) :=
  if !hvHashable s eqFuel k then .error tyErr
  else
    let rec go : List (Val × Val) → Nat → Except PyExc (Option Nat)
      | [], _ => .ok none
      | (k', _) :: r, i =>
        match hvEq s eqFuel k' k with
        | some true => .ok (some i)
        | some false => go r (i + 1)
        | none => .error unsupported
    go es 0

def dictInsertH (s : HS) (es : List (Val × Val)) (k v : Val) : Except PyExc (List (Val × Val)) :=
  match dictIdx s es k with
  | .ok (some i) => .ok (es.modify i (fun e => (e.1, v)))
  | .ok none => .ok (es ++ [(k, v)])
  | .error e => .error e

def hMkDict (s : HS) (kvs : List (Val × Val)) : Except PyExc Val × HS :=
  match kvs.foldlM (fun acc kv => dictInsertH s acc kv.1 kv.2) [] with
  | .ok es => allocS s (.dict "dict" es)
  | .error e => errS s e

/-- membership of `x` in a list of set members -/
def setMem (s : HS) (xs : List Val) (x : Val) : Except PyExc Bool :=
  let rec go : List Val → Except PyExc Bool
    | [] => .ok false
    | y :: r => match hvEq s eqFuel y x with
      | some true => .ok true
      | some false => go r
      | none => .error unsupported
  go xs

/-- the distinct members of `xs` in first-occurrence order; TypeError for an unhashable one -/
def setOfList (s : HS) (xs : List Val) : Except PyExc (List Val) :=
  xs.foldlM (fun acc x =>
    if !hvHashable s eqFuel x then .error tyErr
    else match setMem s acc x with
      | .ok true => .ok acc
      | .ok false => .ok (acc ++ [x])
      | .error e => .error e) []

/-- only sets of ints / bools / strs / None are built by the kernel: their canonical order
    (the order the harness' encoder lists members in) is computable -/
def setKeyOrd (v : Val) : Option (Nat × Int × String) :=
  match v with
  | .none => some (0, 0, "")
  | .bool b => some (1, if b then 1 else 0, "")
  | .int i => some (1, i, "")
  | .str x => some (2, 0, x)
  | _ => none

def setLe (a b : Nat × Int × String) : Bool :=
  a.1 < b.1 || (a.1 == b.1 && (a.2.1 < b.2.1 || (a.2.1 == b.2.1 && a.2.2 ≤ b.2.2)))

/-- canonical member order (None, then numbers by value, then strings); `none`: a member
    the kernel does not order -/
def setCanon (xs : List Val) : Option (List Val) :=
  match xs.mapM (fun x => (setKeyOrd x).map (fun k => (k, x))) with
  | some ks => some ((ks.toArray.qsort (fun a b => setLe a.1 b.1 && !(setLe b.1 a.1))).toList.map (·.2))
  | none => none

def hMkSet (s : HS) (ty : String) (xs : List Val) : Except PyExc Val × HS :=
  match setOfList s xs with
  | .error e => errS s e
  | .ok ys => match setCanon ys with
    | some zs => allocS s (.set ty zs)
    | none => errS s unsupported

/-! ### subscription, attribute access -/

def sliceFieldV (v : Val) : Except PyExc (Option Int) :=
  match scalarPV v with
  | some p => sliceField p
  | none => .error tyErr

/-- `xs[key]` for a list / tuple / str given as a list of items: one item or a sub-sequence -/
def seqGetH {α} (s : HS) (xs : List α) (key : Val) : Except PyExc (α ⊕ List α) :=
  match shape s key with
  | .slice a b c =>
    match sliceFieldV a, sliceFieldV b, sliceFieldV c with
    | .ok a', .ok b', .ok c' =>
      match C18.pySlice xs a' b' c' with
      | some ys => .ok (.inr ys)
      | none => .error ⟨"ValueError"⟩
    | _, _, _ => .error tyErr
  | .scalar p =>
    match asInt? p with
    | some i => match C18.pyIndexNat xs.length i with
      | some j => match xs[j]? with
        | some x => .ok (.inl x)
        | none => .error ⟨"IndexError"⟩
      | none => .error ⟨"IndexError"⟩
    | none => .error tyErr
  | _ => .error tyErr

def hGetitem (s : HS) (cur key : Val) : Except PyExc Val × HS :=
  match shape s cur with
  | .list _ _ xs =>
    match seqGetH s xs key with
    | .ok (.inl x) => okS s x
    | .ok (.inr ys) => allocS s (.list "list" ys)          -- a slice of a list subclass is a plain list
    | .error e => errS s e
  | .tuple _ _ xs =>
    match seqGetH s xs key with
    | .ok (.inl x) => okS s x
    | .ok (.inr ys) => allocS s (.tuple "tuple" ys)
    | .error e => errS s e
  | .scalar (.str str) =>
    match seqGetH s str.toList key with
    | .ok (.inl c) => okS s (.str (String.singleton c))
    | .ok (.inr cs) => okS s (.str (String.ofList cs))
    | .error e => errS s e
  | .dict _ cls es =>
    match dictIdx s es key with
    | .ok (some i) => match es[i]? with
      | some e => okS s e.2
      | none => errS s unsupported
    | .ok none =>
      if cls == "Counter" then okS s (.int 0)              -- Counter.__missing__
      else if cls == "defaultdict" then errS s unsupported -- default_factory is not in the heap
      else errS s ⟨"KeyError"⟩
    | .error e => errS s e
  | .inst a cls attrs =>
    if cls == probeCls then okS (s.set a (.inst cls (setAttr attrs "last" key))) key
    else if specClasses.contains cls then errS s unsupported
    else errS s tyErr
  | .scalar (.ty _) => errS s unsupported                  -- `list[int]` is a GenericAlias
  | .scalar (.fn n) => if n == "list" || n == "tuple" then errS s unsupported else errS s tyErr
  | .other => errS s unsupported
  | _ => errS s tyErr

/-- builtin methods the generators may name: (type, method) -/
def heapMethods : List (String × String) :=
  builtinMethods ++
  [("dict", "keys"), ("dict", "values"), ("dict", "items"),
   ("str", "lower"), ("str", "strip"), ("str", "lstrip"), ("str", "rstrip"), ("str", "split"),
   ("str", "join"), ("str", "replace"), ("str", "find"), ("str", "endswith"), ("str", "isdigit"),
   ("str", "capitalize"),
   ("set", "add"), ("set", "discard"), ("set", "union"), ("frozenset", "union")]

/-- attribute lookup on the probe classes of the harness (properties, `__getattr__`,
    descriptors): which value / which exception class comes out -/
def probeGetattr (s : HS) (cls : String) (attrs : List (String × Val)) (n : String) :
    Option (Except PyExc Val × HS) :=
  let field (k : String) : Except PyExc Val × HS := match attrs.find? (·.1 == k) with
    | some (_, v) => okS s v
    | none => errS s ⟨"AttributeError"⟩
  match cls with
  | "PropObj" =>
    -- properties: found on the class before the instance dict
    if n == "p_ok" then some (field "a")                        -- return self.a
    else if n == "p_attr" then some (errS s ⟨"AttributeError"⟩) -- raises AttributeError
    else if n == "p_val" then some (errS s ⟨"ValueError"⟩)
    else if n == "p_key" then some (errS s ⟨"KeyError"⟩)
    else if n == "p_zero" then some (errS s zdErr)
    else none
  | "DynObj" =>
    -- `__getattr__`: only when normal lookup fails
    if attrs.any (·.1 == n) then none
    else if n.startsWith "dyn_" then some (okS s (.str (String.ofList (n.toList.drop 4))))
    else if n == "boom" then some (errS s ⟨"ValueError"⟩)
    else if n == "lookup" then some (errS s ⟨"KeyError"⟩)
    else some (errS s ⟨"AttributeError"⟩)
  | "DescObj" =>
    -- `d`: a data descriptor (wins over the instance dict) returning `obj.a`;
    -- `nd`: a non-data descriptor (the instance dict wins) returning 'nd';
    -- `dbad`: a descriptor whose `__get__` raises ValueError
    if n == "d" then some (field "a")
    else if n == "nd" then (if attrs.any (·.1 == "nd") then none else some (okS s (.str "nd")))
    else if n == "dbad" then some (errS s ⟨"ValueError"⟩)
    else none
  | _ => none

def hGetattr (s : HS) (cur name : Val) : Except PyExc Val × HS :=
  match name with
  | .str n =>
    match shape s cur with
    | .bound _ _ => errS s ⟨"AttributeError"⟩
    | .view .. => errS s ⟨"AttributeError"⟩
    | .slice .. => errS s unsupported
    | .inst _ cls attrs =>
      if specClasses.contains cls then errS s unsupported
      else match probeGetattr s cls attrs n with
      | some r => r
      | none =>
        match attrs.find? (·.1 == n) with
        | some (_, v) => okS s v
        | none => errS s ⟨"AttributeError"⟩
    | .list _ cls _ =>
      if heapMethods.contains ("list", n) then mkBound s cur n
      else if cls == "list" then errS s ⟨"AttributeError"⟩ else errS s unsupported
    | .tuple _ cls xs =>
      if heapMethods.contains ("tuple", n) then mkBound s cur n
      else match namedFields.find? (·.1 == cls) with
        | some (_, fs) => match fs.idxOf? n with
          | some i => match xs[i]? with
            | some x => okS s x
            | none => errS s unsupported
          | none => errS s unsupported
        | none => if cls == "tuple" then errS s ⟨"AttributeError"⟩ else errS s unsupported
    | .dict _ cls _ =>
      if heapMethods.contains ("dict", n) then mkBound s cur n
      else if cls == "dict" then errS s ⟨"AttributeError"⟩ else errS s unsupported
    | .set _ cls _ =>
      if heapMethods.contains (cls, n) then mkBound s cur n
      else if cls == "set" || cls == "frozenset" then errS s ⟨"AttributeError"⟩ else errS s unsupported
    | .scalar p =>
      if heapMethods.contains (pvTypeName p, n) then mkBound s cur n else errS s ⟨"AttributeError"⟩
    | .other => errS s unsupported
  | _ => errS s tyErr

/-! ### arithmetic -/

def dictMergeH (s : HS) (a b : List (Val × Val)) : Except PyExc Val × HS :=
  match b.foldlM (fun acc kv => dictInsertH s acc kv.1 kv.2) a with
  | .ok es => allocS s (.dict "dict" es)
  | .error e => errS s e

/-- `a <op> b` on the member lists of two sets -/
def setOp (s : HS) (b : BinOp) (xs ys : List Val) : Except PyExc (List Val) :=
  -- which of two equal members of different types (`True` / `1`) survives is CPython's business
  if (xs ++ ys).any (fun v => match v with | .bool _ => true | _ => false) then .error unsupported else
  let keep (zs : List Val) (other : List Val) (want : Bool) : Except PyExc (List Val) :=
    zs.foldlM (fun acc z => match setMem s other z with
      | .ok m => .ok (if m == want then acc ++ [z] else acc)
      | .error e => .error e) []
  match b with
  | .band => keep xs ys true
  | .sub => keep xs ys false
  | .bor => match keep ys xs false with
    | .ok r => .ok (xs ++ r)
    | .error e => .error e
  | .bxor => match keep xs ys false, keep ys xs false with
    | .ok l, .ok r => .ok (l ++ r)
    | .error e, _ | _, .error e => .error e
  | _ => .error tyErr

def isSetOp : BinOp → Bool
  | .band | .bor | .bxor | .sub => true
  | _ => false

def seqRepeatH (s : HS) (xs : List Val) (n : PV) (mk : List Val → HObj) : Except PyExc Val × HS :=
  match asInt? n with
  | some k => match repGuard xs.length k with
    | some e => errS s e
    | none => allocS s (mk (repeatList xs k))
  | none => errS s tyErr

def hBin (b : BinOp) (s : HS) (x y : Val) : Except PyExc Val × HS :=
  match scalarPV x, scalarPV y with
  | some p, some q => (liftPV (pvBin b p q), s)
  | _, _ =>
    match shape s x, shape s y with
    -- the probe: returns the right operand itself
    | .inst a cls attrs, _ =>
      if cls == probeCls then okS (s.set a (.inst cls (setAttr attrs "last" y))) y
      else if specClasses.contains cls then errS s unsupported
      else match shape s y with
        | .inst _ c2 _ => if c2 == probeCls || specClasses.contains c2 then errS s unsupported else errS s tyErr
        | .other => errS s unsupported
        | _ => errS s tyErr
    | _, .inst _ cls _ =>
      -- a reflected operation of the probe / a spec object on the right records a new expression
      if cls == probeCls || specClasses.contains cls then errS s unsupported else errS s tyErr
    | .slice .., _ | _, .slice .. => errS s unsupported
    | .other, _ | _, .other => errS s unsupported
    | .view .., _ | _, .view .. => errS s unsupported            -- set operations of keys / items views
    | sx, sy =>
      match b, sx, sy with
      -- list / tuple (and instances of subclasses that override nothing): the result is a plain list / tuple
      | .add, .list _ _ xs, .list _ _ ys => allocS s (.list "list" (xs ++ ys))
      | .add, .tuple _ _ xs, .tuple _ _ ys => allocS s (.tuple "tuple" (xs ++ ys))
      | .mul, .list _ _ xs, .scalar n => seqRepeatH s xs n (.list "list")
      | .mul, .tuple _ _ xs, .scalar n => seqRepeatH s xs n (.tuple "tuple")
      | .mul, .scalar n, .list _ _ xs => seqRepeatH s xs n (.list "list")
      | .mul, .scalar n, .tuple _ _ xs => seqRepeatH s xs n (.tuple "tuple")
      | .mod, .scalar (.str _), _ => errS s unsupported        -- printf-style formatting
      | .bor, .dict _ c1 a, .dict _ c2 c =>
        if c1 == "dict" && c2 == "dict" then dictMergeH s a c else errS s unsupported
      | _, .dict _ c1 _, _ => if c1 == "dict" then errS s tyErr else errS s unsupported   -- Counter arithmetic
      | _, _, .dict _ c2 _ => if c2 == "dict" then errS s tyErr else errS s unsupported
      | _, .set _ c1 xs, .set _ c2 ys =>
        if !((c1 == "set" || c1 == "frozenset") && (c2 == "set" || c2 == "frozenset")) then errS s unsupported
        else if !isSetOp b then errS s tyErr
        else match setOp s b xs ys with
          | .ok zs => match setCanon zs with
            | some ws => allocS s (.set c1 ws)                 -- the type of the left operand
            | none => errS s unsupported
          | .error e => errS s e
      | _, _, _ => errS s tyErr

def hUn (u : UnOp) (s : HS) (x : Val) : Except PyExc Val × HS :=
  match scalarPV x with
  | some p => (liftPV (pvUn u p), s)
  | none => match shape s x with
    | .other => errS s unsupported
    | .inst _ cls _ => if cls == probeCls || specClasses.contains cls then errS s unsupported else errS s tyErr
    | .dict _ cls _ => if cls == "dict" then errS s tyErr else errS s unsupported    -- `-Counter`
    | _ => errS s tyErr

/-! ### calls -/

def hLen (s : HS) (v : Val) : Except PyExc Val :=
  match shape s v with
  | .scalar (.str x) => .ok (.int x.length)
  | .list _ _ xs | .tuple _ _ xs | .set _ _ xs => .ok (.int xs.length)
  | .dict _ _ es => .ok (.int es.length)
  | .view _ d => match shape s d with
    | .dict _ _ es => .ok (.int es.length)
    | _ => .error unsupported
  | .other => .error unsupported
  | .inst _ cls _ => if specClasses.contains cls then .error unsupported else .error tyErr
  | _ => .error tyErr

/-- the items an iteration over `v` yields (`list(v)`, `tuple(v)`): new tuple cells for the
    entries of an items view -/
def hIter (s : HS) (v : Val) : Except PyExc (List Val) × HS :=
  match shape s v with
  | .scalar (.str x) => (.ok (x.toList.map (fun c => Val.str (String.singleton c))), s)
  | .list _ _ xs | .tuple _ _ xs => (.ok xs, s)
  -- the iteration order of a set is an implementation detail (hash order): only for ≤ 1 member
  | .set _ _ xs => if xs.length ≤ 1 then (.ok xs, s) else (.error unsupported, s)
  | .dict _ _ es => (.ok (es.map (·.1)), s)
  | .view k d => match shape s d with
    | .dict _ _ es =>
      if k == "keys" then (.ok (es.map (·.1)), s)
      else if k == "values" then (.ok (es.map (·.2)), s)
      else
        es.foldl (fun (acc : Except PyExc (List Val) × HS) e => match acc with
          | (.ok l, s1) => (.ok (l ++ [(s1.alloc (.tuple "tuple" [e.1, e.2])).1]), (s1.alloc (.tuple "tuple" [e.1, e.2])).2)
          | r => r) (.ok [], s)
    | _ => (.error unsupported, s)
  | .other => (.error unsupported, s)
  | .inst _ cls _ => if specClasses.contains cls then (.error unsupported, s) else (.error tyErr, s)
  | _ => (.error tyErr, s)

def callFnH (s : HS) (name : String) (args : List Val) (kwargs : List (String × Val)) :
    Except PyExc Val × HS :=
  match name with
  | "inc" => match bindArgs [("x", none)] args kwargs with
    | some [x] => hBin .add s x (.int 1)
    | _ => errS s tyErr
  | "add2" => match bindArgs [("a", none), ("b", none)] args kwargs with
    | some [a, b] => hBin .add s a b
    | _ => errS s tyErr
  | "neg" => match bindArgs [("x", none)] args kwargs with
    | some [x] => hUn .neg s x
    | _ => errS s tyErr
  | "ident" => match bindArgs [("x", none)] args kwargs with
    | some [x] => okS s x
    | _ => errS s tyErr
  | "kw" => match bindArgs [("a", none), ("b", some (Val.int 10))] args kwargs with
    | some [a, b] => hBin .sub s a b
    | _ => errS s tyErr
  | "mklist" => if kwargs.isEmpty then allocS s (.list "list" args) else errS s tyErr
  | "const7" => if args.isEmpty ∧ kwargs.isEmpty then okS s (.int 7) else errS s tyErr
  | "raise_value" => errS s ⟨"ValueError"⟩
  | "raise_key" => errS s ⟨"KeyError"⟩
  | "raise_type" => errS s tyErr
  | "raise_zero" => errS s zdErr
  | "raise_attr" => errS s ⟨"AttributeError"⟩
  | "raise_index" => errS s ⟨"IndexError"⟩
  | "len" => if !kwargs.isEmpty then errS s tyErr else match args with
    | [x] => (hLen s x, s)
    | _ => errS s tyErr
  | "list" => if !kwargs.isEmpty then errS s tyErr else match args with
    | [] => allocS s (.list "list" [])
    | [x] => match hIter s x with
      | (.ok xs, s1) => allocS s1 (.list "list" xs)
      | (.error e, s1) => errS s1 e
    | _ => errS s tyErr
  | "tuple" => if !kwargs.isEmpty then errS s tyErr else match args with
    | [] => allocS s (.tuple "tuple" [])
    | [x] => match shape s x with
      | .tuple _ "tuple" _ => okS s x                   -- tuple(t) is t for an exact tuple
      | _ => match hIter s x with
        | (.ok xs, s1) => allocS s1 (.tuple "tuple" xs)
        | (.error e, s1) => errS s1 e
    | _ => errS s tyErr
  | _ => errS s unsupported

def seqCountH (s : HS) (xs : List Val) (x : Val) : Except PyExc Val :=
  let step (acc : Nat) (y : Val) : Except PyExc Nat :=
    match hvEq s eqFuel y x with
    | some true => .ok (acc + 1)
    | some false => .ok acc
    | none => .error unsupported
  (xs.foldlM step 0).map (fun n => Val.int n)

def seqIndexH (s : HS) (xs : List Val) (x : Val) : Except PyExc Val :=
  let rec go : List Val → Nat → Except PyExc Val
    | [], _ => .error ⟨"ValueError"⟩
    | y :: r, i => match hvEq s eqFuel y x with
      | some true => .ok (.int i)
      | some false => go r (i + 1)
      | none => .error unsupported
  go xs 0

/-! #### str methods (ASCII) -/

def isWs (c : Char) : Bool := c == ' ' || c == '\t' || c == '\n' || c == '\r' || c == '\x0b' || c == '\x0c'

def splitWs (cs : List Char) : List String :=
  let rec go : List Char → List Char → List String → List String
    | [], cur, acc => (if cur.isEmpty then acc else acc ++ [String.ofList cur])
    | c :: r, cur, acc =>
      if isWs c then go r [] (if cur.isEmpty then acc else acc ++ [String.ofList cur])
      else go r (cur ++ [c]) acc
  go cs [] []

/-- `s.split(sep)` for a non-empty `sep` -/
def splitSep (cs sep : List Char) : List String :=
  let rec go (fuel : Nat) (cs cur : List Char) (acc : List String) : List String :=
    match fuel with
    | 0 => acc ++ [String.ofList (cur ++ cs)]
    | fuel + 1 =>
      match cs with
      | [] => acc ++ [String.ofList cur]
      | c :: r =>
        if sep.isPrefixOf cs then go fuel (cs.drop sep.length) [] (acc ++ [String.ofList cur])
        else go fuel r (cur ++ [c]) acc
  go (cs.length + 1) cs [] []

/-- `s.replace(old, new)` -/
def replaceAll (cs old new : List Char) : List Char :=
  if old.isEmpty then
    new ++ (cs.flatMap (fun c => c :: new))
  else
    let rec go (fuel : Nat) (cs acc : List Char) : List Char :=
      match fuel with
      | 0 => acc ++ cs
      | fuel + 1 =>
        match cs with
        | [] => acc
        | c :: r =>
          if old.isPrefixOf cs then go fuel (cs.drop old.length) (acc ++ new)
          else go fuel r (acc ++ [c])
    go (cs.length + 1) cs []

def asciiLower (c : Char) : Char := if 'A' ≤ c ∧ c ≤ 'Z' then Char.ofNat (c.toNat + 32) else c
def asciiUpper (c : Char) : Char := if 'a' ≤ c ∧ c ≤ 'z' then Char.ofNat (c.toNat - 32) else c
def isAscii (x : String) : Bool := x.toList.all (fun c => c.toNat < 128)

/-- a str method on heap values; arguments that are not scalars matter only for `join` -/
def strMethodH (s : HS) (self : String) (name : String) (args : List Val) : Except PyExc Val × HS :=
  if !isAscii self then errS s unsupported else
  let strArg (v : Val) : Option String := match v with | .str x => some x | _ => none
  match name, args with
  | "lower", [] => okS s (.str (String.ofList (self.toList.map asciiLower)))
  | "capitalize", [] => okS s (.str (match self.toList with
      | [] => ""
      | c :: r => String.ofList (asciiUpper c :: r.map asciiLower)))
  | "strip", [] => okS s (.str (String.ofList ((self.toList.dropWhile isWs).reverse.dropWhile isWs).reverse))
  | "lstrip", [] => okS s (.str (String.ofList (self.toList.dropWhile isWs)))
  | "rstrip", [] => okS s (.str (String.ofList (self.toList.reverse.dropWhile isWs).reverse))
  | "isdigit", [] => okS s (.bool (!self.isEmpty && self.toList.all Char.isDigit))
  | "split", [] => allocS s (.list "list" ((splitWs self.toList).map Val.str))
  | "split", [.none] => allocS s (.list "list" ((splitWs self.toList).map Val.str))
  | "split", [a] => match strArg a with
    | some sep =>
      if sep.isEmpty then errS s ⟨"ValueError"⟩
      else if !isAscii sep then errS s unsupported
      else allocS s (.list "list" ((splitSep self.toList sep.toList).map Val.str))
    | none => match shape s a with
      | .other => errS s unsupported
      | _ => errS s tyErr
  | "replace", [a, b] => match strArg a, strArg b with
    | some o, some n =>
      if !(isAscii o && isAscii n) then errS s unsupported
      else okS s (.str (String.ofList (replaceAll self.toList o.toList n.toList)))
    | _, _ => errS s tyErr
  | "find", [a] => match strArg a with
    | some sub => okS s (.int (match findSub self.toList sub.toList with
      | some i => (i : Int)
      | none => -1))
    | none => errS s tyErr
  | "endswith", [a] => match strArg a with
    | some p => okS s (.bool (p.toList.reverse.isPrefixOf self.toList.reverse))
    | none => match shape s a with
      | .tuple .. => errS s unsupported
      | _ => errS s tyErr
  | "join", [a] =>
    match hIter s a with
    | (.error e, s1) => errS s1 e
    | (.ok xs, s1) =>
      match xs.mapM strArg with
      | some parts =>
        if parts.all isAscii then okS s1 (.str (self.intercalate parts)) else errS s1 unsupported
      | none => errS s1 tyErr
  | _, _ =>
    -- the methods of the identity-free kernel
    let view (v : Val) : PV := match shape s v with
      | .scalar p => p
      | .tuple .. => .tuple []
      | _ => .list []
    if ["upper", "count", "index", "startswith"].contains name then
      (liftPV (callMethod (.str self) name (args.map view) []), s)
    else if heapMethods.contains ("str", name) then errS s tyErr      -- wrong number of arguments
    else errS s unsupported

def setItems (s : HS) (a : Nat) (xs : List Val) : HS :=
  match s.get a with
  | some (.list c _) => s.set a (.list c xs)
  | some (.set c _) => s.set a (.set c xs)
  | _ => s.flag "setItems on a cell that is not a list / set"

def setEntries (s : HS) (a : Nat) (es : List (Val × Val)) : HS :=
  match s.get a with
  | some (.dict c _) => s.set a (.dict c es)
  | _ => s.flag "setEntries on a cell that is not a dict"

def callMethodH (s : HS) (self : Val) (name : String) (args : List Val) (kwargs : List (String × Val)) :
    Except PyExc Val × HS :=
  if !kwargs.isEmpty then
    (match shape s self with
     | .other => errS s unsupported
     | _ => errS s tyErr)
  else match shape s self, name, args with
    | .scalar (.str x), _, _ => strMethodH s x name args
    | .scalar _, _, _ => errS s unsupported
    | .list _ _ xs, "count", [x] => (seqCountH s xs x, s)
    | .tuple _ _ xs, "count", [x] => (seqCountH s xs x, s)
    | .list _ _ xs, "index", [x] => (seqIndexH s xs x, s)
    | .tuple _ _ xs, "index", [x] => (seqIndexH s xs x, s)
    | .list .., "index", [_, _] | .tuple .., "index", [_, _] => errS s unsupported
    | .list .., "index", [_, _, _] | .tuple .., "index", [_, _, _] => errS s unsupported
    -- list.pop([i]): the member is detached and returned; the list cell changes
    | .list a _ xs, "pop", [] =>
      match xs.getLast? with
      | some x => okS (setItems s a xs.dropLast) x
      | none => errS s ⟨"IndexError"⟩
    | .list a _ xs, "pop", [i] =>
      match shape s i with
      | .scalar p => match asInt? p with
        | some k =>
          -- the argument is converted to Py_ssize_t first (unlike `xs[k]`, which raises IndexError)
          if k > 9223372036854775807 ∨ k < -9223372036854775808 then errS s ovErr else
          match C18.pyIndexNat xs.length k with
          | some j => match xs[j]? with
            | some x => okS (setItems s a (xs.eraseIdx j)) x
            | none => errS s ⟨"IndexError"⟩
          | none => errS s ⟨"IndexError"⟩
        | none => errS s tyErr
      | _ => errS s tyErr
    | .list a _ xs, "append", [x] => okS (setItems s a (xs ++ [x])) .none
    | .dict _ _ es, "get", [k] =>
      match dictIdx s es k with
      | .ok (some i) => okS s ((es[i]?.map (·.2)).getD .none)
      | .ok none => okS s .none
      | .error e => errS s e
    | .dict _ _ es, "get", [k, d] =>
      match dictIdx s es k with
      | .ok (some i) => okS s ((es[i]?.map (·.2)).getD .none)
      | .ok none => okS s d
      | .error e => errS s e
    | .dict a _ es, "pop", [k] =>
      match dictIdx s es k with
      | .ok (some i) => okS (setEntries s a (es.eraseIdx i)) ((es[i]?.map (·.2)).getD .none)
      | .ok none => errS s ⟨"KeyError"⟩
      | .error e => errS s e
    | .dict a _ es, "pop", [k, d] =>
      match dictIdx s es k with
      | .ok (some i) => okS (setEntries s a (es.eraseIdx i)) ((es[i]?.map (·.2)).getD .none)
      | .ok none => okS s d
      | .error e => errS s e
    | .dict a _ es, "setdefault", [k] =>
      match dictIdx s es k with
      | .ok (some i) => okS s ((es[i]?.map (·.2)).getD .none)
      | .ok none => okS (setEntries s a (es ++ [(k, .none)])) .none
      | .error e => errS s e
    | .dict a _ es, "setdefault", [k, v] =>
      match dictIdx s es k with
      | .ok (some i) => okS s ((es[i]?.map (·.2)).getD .none)
      | .ok none => okS (setEntries s a (es ++ [(k, v)])) v
      | .error e => errS s e
    -- live views of a dict
    | .dict .., "keys", [] => allocS s (.inst "<view>" [("kind", .str "keys"), ("dict", self)])
    | .dict .., "values", [] => allocS s (.inst "<view>" [("kind", .str "values"), ("dict", self)])
    | .dict .., "items", [] => allocS s (.inst "<view>" [("kind", .str "items"), ("dict", self)])
    -- sets
    | .set a "set" xs, "add", [x] =>
      if !hvHashable s eqFuel x then errS s tyErr
      else match setMem s xs x with
        | .ok true => okS s .none
        | .ok false => match setCanon (xs ++ [x]) with
          | some ys => okS (setItems s a ys) .none
          | none => errS s unsupported
        | .error e => errS s e
    | .set a "set" xs, "discard", [x] =>
      if !hvHashable s eqFuel x then errS s tyErr
      else match xs.foldlM (fun acc y => match hvEq s eqFuel y x with
          | some true => Except.ok acc
          | some false => .ok (acc ++ [y])
          | none => .error unsupported) [] with
        | .ok ys => okS (setItems s a ys) .none
        | .error e => errS s e
    | .set _ c xs, "union", [y] =>
      if !(c == "set" || c == "frozenset") then errS s unsupported
      else match hIter s y with
        | (.error e, s1) => errS s1 e
        | (.ok ys, s1) => match setOfList s1 (xs ++ ys) with
          | .ok zs => match setCanon zs with
            | some ws => allocS s1 (.set c ws)
            | none => errS s1 unsupported
          | .error e => errS s1 e
    | .other, _, _ => errS s unsupported
    | _, _, _ => errS s tyErr

def hCall (s : HS) (f : Val) (args : List Val) (kwargs : List (String × Val)) : Except PyExc Val × HS :=
  match f with
  | .fn name => callFnH s name args kwargs
  | .ty _ => errS s unsupported
  | _ =>
    match shape s f with
    | .bound self name => callMethodH s self name args kwargs
    | .other => errS s unsupported
    | .inst _ cls _ =>
      -- calling a T object records a call; the probe classes are not callable
      if specClasses.contains cls then errS s unsupported else errS s tyErr
    | _ => errS s tyErr          -- object is not callable

/-! ### `type(v)(items)` for an instance of a container subclass -/

def pairUp : List Val → List (Val × Val)
  | k :: v :: r => (k, v) :: pairUp r
  | _ => []

/-- what an `isinstance` test in `_ArgValuator.mode` would do to an instance `v` of a subclass
    of `base`: `type(v)()` + extend / update, or `type(v)(items)` — a NEW object of the same
    class (instance attributes, a `default_factory` are not carried over: not in the heap
    either), or the TypeError of a constructor with another signature -/
def hRebuild (s : HS) (base : String) (v : Val) (vs : List Val) : Except PyExc Val × HS :=
  match v with
  | .ref a =>
    match s.get a with
    | some o =>
      if ctorNeedsArgs.contains o.cls then errS s tyErr
      else match base with
        | "list" => allocS s (.list o.cls vs)
        | "tuple" => allocS s (.tuple o.cls vs)
        | "set" | "frozenset" => hMkSet s o.cls vs
        | "dict" => match (pairUp vs).foldlM (fun acc kv => dictInsertH s acc kv.1 kv.2) [] with
          | .ok es => allocS s (.dict o.cls es)
          | .error e => errS s e
        | _ => errS s unsupported
    | none => errS s unsupported
  | _ => errS s unsupported

/-! ### a heap value as `arg_val` sees it -/

/-- the `__ops__` tuple `(root, op, arg, op, arg, …)` of a stored T object, as objects -/
def flatOfOps (conv : Val → Obj Val) (s : HS) : List Val → Bool → List (Obj Val)
  | [], _ => []
  | v :: r, isOp =>
    (if isOp then
      match v with
      | .str c => Obj.opc c
      | _ => Obj.opc "?"
     else
      -- the argument of a call is the pair (args, kwargs)
      match v with
      | .ref a => match s.get a with
        | some (.tuple "tuple" [.ref ta, .ref ka]) =>
          match s.get ta, s.get ka with
          | some (.tuple "tuple" as), some (.dict "dict" ks) =>
            Obj.cargs (as.map conv) (ks.map (fun e => (match e.1 with | .str k => k | _ => "?", conv e.2)))
          | _, _ => conv v
        | _ => conv v
      | _ => conv v) :: flatOfOps conv s r (!isOp)

/-- the object `arg_val` is handed when it is handed the heap value `v`: what `record`
    produces for the Python expression that denotes `v`.  Exact list / tuple / dict / set
    cells are containers `arg_val` rebuilds, cells of other classes with these layouts are
    instances of subclasses, `T…` / `Spec` objects are specs, everything else a literal.
    (`arg_val`'s cache — sharing INSIDE one rebuilt literal — is not modelled: beyond `fuel`
    and for cyclic containers the value is flagged.) -/
def objOfVal (s : HS) : Nat → Val → Obj Val
  | 0, v => .lit v
  | fuel + 1, v =>
    match v with
    | .ref a =>
      match s.get a with
      | some (.list c xs) =>
        if c == "list" then .list (xs.map (objOfVal s fuel)) else .sub "list" v (xs.map (objOfVal s fuel))
      | some (.tuple c xs) =>
        if c == "tuple" then .tuple (xs.map (objOfVal s fuel)) else .sub "tuple" v (xs.map (objOfVal s fuel))
      | some (.dict c es) =>
        if c == "dict" then .dict (es.map (fun e => (objOfVal s fuel e.1, objOfVal s fuel e.2)))
        else .sub "dict" v (es.flatMap (fun e => [objOfVal s fuel e.1, objOfVal s fuel e.2]))
      | some (.set c xs) =>
        if c == "set" || c == "frozenset" then .set c (xs.map (objOfVal s fuel))
        else .sub "set" v (xs.map (objOfVal s fuel))
      | some (.inst c attrs) =>
        if specClasses.contains c then
          -- glom's own objects: a `T…` expression with its `__ops__`, `Spec(x)`; others: outside
          match c, attrs with
          | "TType", [("ops", .ref t)] =>
            match s.get t with
            | some (.tuple _ (.sent root :: ops)) => .tt (.root root :: flatOfOps (objOfVal s fuel) s ops true)
            | _ => .root "?"
          | "Spec", [("spec", x)] => .spec (objOfVal s fuel x)
          | "Val", [("value", x)] => .lit x                 -- `Val(x).glomit` returns x
          | _, _ => .root c
        else .lit v
      | none => .lit v
    | _ => .lit v

/-- does `arg_val` do anything but return the value? -/
def isSpecLike (s : HS) (v : Val) : Bool :=
  match objOfVal s 1 v with
  | .lit w => w != v          -- `Val(x)` denotes x
  | .sub .. => false
  | _ => true

def objFuel : Nat := 10

/-! ### the primitives -/

/-- everything but `revalFunc` -/
def hPrimBase (rv : HS → Val → Val → Except Err Val × HS) : Prim Val HS :=
  { none := .none
    getattr := hGetattr
    getitem := hGetitem
    call := hCall
    bin := hBin
    un := hUn
    mkList := fun s vs => s.alloc (.list "list" vs)
    mkTuple := fun s vs => s.alloc (.tuple "tuple" vs)
    hashKey := fun s k => (if hvHashable s eqFuel k then .ok () else .error tyErr, s)
    mkDict := hMkDict
    mkSet := hMkSet
    rebuild := hRebuild
    revalFunc := rv }

/-- `arg_val` over a callee, given the primitives the evaluation of a spec-object callee uses -/
def hReval (F : Facts) (inner : Prim Val HS) : HS → Val → Val → Except Err Val × HS :=
  fun s target f => valOfRun (argVal F inner target (objOfVal s objFuel f)) s

/-- the primitives of C02 on heap values; `n` bounds the nesting of spec-object callees -/
def hPrim (F : Facts) : Nat → Prim Val HS
  | 0 => hPrimBase (fun s _ f =>
      if isSpecLike s f then (.error .unsupported, s.flag "spec-object callees nested too deep") else (.ok f, s))
  | n + 1 => hPrimBase (hReval F (hPrim F n))

def primDepth : Nat := 3

/-- the references a cell holds, in their natural order (a dict's: key, value, key, value, …) -/
def childrenKV : HObj → List Val
  | .dict _ es => es.flatMap (fun e => [e.1, e.2])
  | o => o.children

end Glom.C02
