import Glom.Model.C11
/-
  C11 — literal containers in `val` position: code-shaped model of `arg_val` / `_ArgValuator.mode`.

      class _ArgValuator:
          def __init__(self):
              self.cache = {}
          def mode(self, target, spec, scope):
              recur = lambda val: scope[glom](target, val, scope)
              result = spec
              if type(spec) in (list, dict):  # can contain themselves
                  if id(spec) in self.cache:
                      return self.cache[id(spec)]
                  result = self.cache[id(spec)] = type(spec)()
                  if type(spec) is dict:
                      result.update({recur(key): recur(val) for key, val in spec.items()})
                  else:
                      result.extend([recur(val) for val in spec])
              if type(spec) in (tuple, set, frozenset):  # cannot contain themselves
                  result = type(spec)([recur(val) for val in spec])
              return result

  `recur(x)` is `_glom(target, x, scope)`: a T-expression is evaluated against the *target*
  (`_t_eval`), anything else goes through `mode` again (strings are themselves: no path
  interpretation in arg mode).  One `_ArgValuator` — one `cache` — per `arg_val` call.

  The memo `cache` maps the identity of an exact list / dict of the literal to its rebuilt
  counterpart, for the whole evaluation: the entry is made **before** the children are evaluated (a
  container that contains itself is closed with its own counterpart) and is **never dropped** (a
  container reachable by two routes is rebuilt once: the rebuilt value has the sharing structure of
  the literal).  Exact tuples / sets / frozensets are rebuilt per occurrence (no memo); `tuple([])`
  and `frozenset([])` are CPython's shared empty objects, i.e. the literal's own empty tuple.

  A T-expression used as a value is a heap cell of a class flagged `tleaf` whose "attributes" are
  the expression's `(op, arg)` steps (a `List Step`).
-/
namespace Glom.Mut

/-- allocate a new cell (event `alloc`) -/
def St.alloc (st : St) (o : Obj) : St :=
  { st with heap := st.heap ++ [o], log := st.log ++ [.alloc st.heap.length] }

/-- fill a cell created during this call (event `write`) -/
def St.fill (st : St) (b : Nat) (o : Obj) : St :=
  { st with heap := st.heap.set b o, log := st.log ++ [.write b] }

end Glom.Mut

namespace Glom.C11
open Glom Glom.Mut

/-- `_ArgValuator.cache`: address of an original exact list / dict ↦ address of its rebuilt counterpart -/
abbrev Memo := List (Nat × Nat)

/-- `[recur(val) for val in spec]` -/
def argList (f : St → Memo → Val → St × Memo × Except MErr Val) :
    St → Memo → List Val → St × Memo × Except MErr (List Val)
  | st, m, [] => (st, m, .ok [])
  | st, m, x :: xs =>
    match f st m x with
    | (st1, m1, .error e) => (st1, m1, .error e)
    | (st1, m1, .ok y) =>
      match argList f st1 m1 xs with
      | (st2, m2, .error e) => (st2, m2, .error e)
      | (st2, m2, .ok ys) => (st2, m2, .ok (y :: ys))

/-- `{recur(key): recur(val) for key, val in spec.items()}`: key, then value, then the store into the
    comprehension's dict (TypeError for an unhashable key; an equal key keeps the first key object) -/
def argEntries (f : St → Memo → Val → St × Memo × Except MErr Val) :
    St → Memo → List (Val × Val) → List (Val × Val) → St × Memo × Except MErr (List (Val × Val))
  | st, m, [], acc => (st, m, .ok acc)
  | st, m, (k, v) :: r, acc =>
    match f st m k with
    | (st1, m1, .error e) => (st1, m1, .error e)
    | (st1, m1, .ok k') =>
      match f st1 m1 v with
      | (st2, m2, .error e) => (st2, m2, .error e)
      | (st2, m2, .ok v') =>
        if !k'.hashable st2.heap then (st2, m2, .error (.raised (exc "TypeError")))
        else argEntries f st2 m2 r (setEntry acc k' v')

/-- are all rebuilt set elements hashable? -/
def allHashable (h : Heap) (xs : List Val) : Bool := xs.all (·.hashable h)

/-- `scope[glom](target, v, scope)` in arg mode (`_ArgValuator.mode` with memo `m`).  The fuel bounds
    the nesting depth of the recursion (tuples nested in tuples without a list / dict in between
    have no memo; on a heap of a Python program they are finite trees). -/
def argEval (env : MEnv) (target : Val) : Nat → St → Memo → Val → St × Memo × Except MErr Val
  | 0, st, m, _ => (st, m, .error .unmodelled)
  | fuel + 1, st, m, v =>
    match v with
    | .ref a =>
      match st.heap[a]? with
      | some (.inst c steps) =>
        if env.flag c "tleaf" then
          -- a T-expression: `_t_eval(target, spec, scope)`
          match fetch env st.heap steps 0 target with
          | .ok (.leaf w) => (st, m, .ok w)
          | .ok (.node _) => (st, m, .error .unmodelled)
          | .error e => (st, m, .error e)
        else (st, m, .ok v)
      | some (.list c xs) =>
        if c == "list" then
          match m.lookup a with
          | some b => (st, m, .ok (.ref b))
          | none =>
            let b := st.heap.length
            match argList (fun st m x => argEval env target fuel st m x) (st.alloc (.list "list" [])) ((a, b) :: m) xs with
            | (st2, m2, .ok ys) => (st2.fill b (.list "list" ys), m2, .ok (.ref b))
            | (st2, m2, .error e) => (st2, m2, .error e)
        else (st, m, .ok v)
      | some (.dict c es) =>
        if c == "dict" then
          match m.lookup a with
          | some b => (st, m, .ok (.ref b))
          | none =>
            let b := st.heap.length
            match argEntries (fun st m x => argEval env target fuel st m x) (st.alloc (.dict "dict" [])) ((a, b) :: m) es [] with
            | (st2, m2, .ok es') => (st2.fill b (.dict "dict" es'), m2, .ok (.ref b))
            | (st2, m2, .error e) => (st2, m2, .error e)
        else (st, m, .ok v)
      | some (.tuple c xs) =>
        if c == "tuple" && !xs.isEmpty then
          match argList (fun st m x => argEval env target fuel st m x) st m xs with
          | (st2, m2, .ok ys) => (st2.alloc (.tuple "tuple" ys), m2, .ok (.ref st2.heap.length))
          | (st2, m2, .error e) => (st2, m2, .error e)
        else (st, m, .ok v)
      | some (.set c xs) =>
        if c == "set" || (c == "frozenset" && !xs.isEmpty) then
          match argList (fun st m x => argEval env target fuel st m x) st m xs with
          | (st2, m2, .ok ys) =>
            if allHashable st2.heap ys then (st2.alloc (.set c ys), m2, .ok (.ref st2.heap.length))
            else (st2, m2, .error (.raised (exc "TypeError")))
          | (st2, m2, .error e) => (st2, m2, .error e)
        else (st, m, .ok v)
      | none => (st, m, .ok v)
    | _ => (st, m, .ok v)

/-- what the user passes as `val` -/
inductive UVal where
  | lit (v : Val)              -- a literal: a scalar, an object, a (nested) container, a T-expression cell
  | vs (v : ValSpec)           -- a T-expression / `Spec(path)` (`.path`), `Val(x)` (`.val`: the value itself, never rebuilt)
  deriving Repr

/-- enough fuel for `argEval` on a heap of `n` cells (between two visits of the same memo-less cell
    on the recursion stack a list / dict enters the memo) -/
def argFuel (h : Heap) : Nat := (h.length + 2) * (h.length + 2)

/-- `Assign(path, lit, missing).glomit(target, scope)` preceded by `Assign.__init__`, from state `st`:
    the constructor's checks, `arg_val` (one fresh `_ArgValuator`), then the assignment of the
    evaluated value -/
def assignLitFrom (env : MEnv) (sroot : Bool) (sref : Val) (missing : Missing) (fuel : Nat) (st : St)
    (target : Val) (orig : List Step) (v : Val) : St × Except MErr Val :=
  match orig.getLast? with
  | none => (st, .error .valueError)
  | some (op, _) =>
    if !finalOk op then (st, .error .valueError) else
    match argEval env target fuel st [] v with
    | (st1, _, .error e) => (st1, .error e)
    | (st1, _, .ok v') => assignAux env sroot sref missing (orig.length + 1) st1 target orig (.val v')

/-- `glom(target, Assign(path, lit, missing=missing))` -/
def assignLit (env : MEnv) (sroot : Bool) (sref : Val) (missing : Missing) (fuel : Nat) (h : Heap)
    (target : Val) (orig : List Step) (v : Val) : St × Except MErr Val :=
  assignLitFrom env sroot sref missing fuel { heap := h } target orig v

/-- one evaluation of an Assign spec from state `st`, for either kind of value -/
def assignFrom (env : MEnv) (sroot : Bool) (sref : Val) (missing : Missing) (fuel : Nat) (st : St)
    (target : Val) (orig : List Step) : UVal → St × Except MErr Val
  | .lit v => assignLitFrom env sroot sref missing fuel st target orig v
  | .vs v => assignAux env sroot sref missing (orig.length + 1) st target orig v

/-- `glom(target, Assign(path, val, missing=missing))` for either kind of value -/
def assignU (env : MEnv) (sroot : Bool) (sref : Val) (missing : Missing) (fuel : Nat) (h : Heap)
    (target : Val) (orig : List Step) (uv : UVal) : St × Except MErr Val :=
  assignFrom env sroot sref missing fuel { heap := h } target orig uv

/-- `(Assign(path, val, …), readPath)`: see `assignThenRead` -/
def assignUThenRead (env : MEnv) (sroot : Bool) (sref : Val) (missing : Missing) (fuel : Nat) (h : Heap)
    (target : Val) (orig : List Step) (uv : UVal) (rd : List Step) :
    (St × Except MErr Val) × Option (Except MErr Nest) :=
  let out := assignU env sroot sref missing fuel h target orig uv
  (out, match out.2 with
    | .ok r => some (fetch env out.1.heap (readSteps sroot rd) 0 (if sroot then sref else r))
    | .error _ => none)

end Glom.C11
