import Glom.Model.C11
import Glom.Model.C01Env
import Glom.Generated.MutFacts
/-
  The environment of C11 / C12 instantiated with the facts regenerated from
  /repo: `_t_eval`'s branch table, exception MROs, default `get` / `assign` /
  `delete` registrations, the branch tables of `_assign_op` and `Delete._del_one`,
  plus the per-case class table and class flags of the harness' classes.
-/
namespace Glom.Mut
open Glom

/-- registrations a user made on the registry before the call (`Glommer().register(cls, get=…,
    assign=…, delete=…)`): per op, class ↦ handler name (`"False"`: registered as unsupported; a name
    the model does not know — a handler of the user's own — raises NotImplementedError).  A later
    registration of a class replaces the earlier one: the tables are searched front to back. -/
structure UReg where
  get : List (String × String) := []
  assign : List (String × String) := []
  delete : List (String × String) := []
  deriving Repr

def genEnv (userClasses : ClassTable) (flags : List (String × List String)) (ur : UReg := {}) : MEnv :=
  { t := { C01.genEnv userClasses with getReg := ur.get ++ (C01.genEnv userClasses).getReg }
    assignReg := ur.assign ++ Generated.defaultReg_assign
    deleteReg := ur.delete ++ Generated.defaultReg_delete
    assignBr := Generated.assignOpBranches
    delBr := Generated.delOneBranches
    flags := flags }

/-- the re-spelling table of `_s_first_item` for the spec class `cls` ("Assign" / "Delete"), as far
    as that class's `__init__` passes its path through the helper -/
def genSFirst (cls : String) : List (String × String) :=
  if Generated.sFirstItemCallers.contains cls then Generated.sFirstItem else []

end Glom.Mut
