/-
  C17 — code-shaped model of `glom/streaming.py` (`Iter`, `First`) and of the
  builder methods of `Invoke` (`glom/core.py`).

  What is mirrored:

  * `Iter.__init__` / `_add_op`  → `Iter`, `Iter.addOp`: an `Iter` is a subspec, a
    sentinel and `_iter_stack`, a list of `(name, args, callback)` entries,
    **newest first**; `_add_op` builds a *new* Iter whose stack is a *new* list
    `[entry] + self._iter_stack`.  Whether `_add_op` forwards `sentinel` is an
    extracted fact (`fwd`), because the code on the pinned tree does not.
  * `Iter.glomit`                → `construct`: the base generator `_iterate`, then the
    callbacks folded over it in **reversed stack order** (= chaining order).
    `windowed_iter` is a plain function, not a generator: it advances its tees
    while `glomit` runs, i.e. it pulls `size-1` items at construction (`prime`).
  * `Iter._iterate`              → `Kind.base`: `SKIP → continue`, sentinel / `STOP → return`.
  * every callback (`imap`, `ifilter`, `islice`, `takewhile`, `dropwhile`,
    `chunked_iter`, `windowed_iter`, `split_iter`, `unique_iter`,
    `chain.from_iterable`) → a **pull transducer**: `StageSt.poll : state →
    emit x | pull | done | fail e` and `StageSt.feed` (the answer to a pull).
    itertools' functions are modelled from their documentation and observed behaviour
    (`islice` mirrors CPython's `islice_next` counters `cnt`, `next`); the correspondence
    validates them, nothing else does.  boltons' four helpers are ALSO transcribed from their
    source (`Model/C17Boltons.lean`) and proved to denote these transducers
    (`Lemmas/C17Boltons.lean`).
  * the generator chain         → `pullFrom`: a demand on the outermost stage
    recursively demands from the stage below; the source carries the pull
    counter (its position).  Python's generator suspension is the recursion; an
    unbounded loop (a `filter` that never matches on an infinite source) is
    cut by fuel and reported as `oof`, never as a value.
  * `Iter.all()` = `Pipe(self, list)` → `drain`;  `Iter.first(key, default)` =
    `(self, First(key, default))` → `firstOf` (`next(filter(key, it), default)`).

  Values (`V`): ints, `None`, lists, tuples, bools, (integral) floats, strings, instances of
  user classes with their own `__eq__`, and object identity (`ref`): `is`, `==` and
  equality-inside-sets are three different relations (`V.is`, `V.pyEqAtom`, `V.key`).  `SKIP`/`STOP` are results of
  the base subspec only (`Yield`); they are not stream elements (stated bound).
  User callables are arbitrary functions `V → Except Err V` in the model and
  in every theorem; the driver instantiates them from a finite catalogue.
-/
namespace Glom.C17

/-- exception class name -/
abbrev Err := String

inductive V where
  | none
  | int (i : Int)
  | list (xs : List V)
  | tup (xs : List V)
  | bool (b : Bool)
  | flt (i : Int)            -- the float `float(i)` (integral floats: the twins of ints and bools)
  | str (s : String)
  | obj (cls : Nat)          -- instance of a user class; 0: plain `object()`, 1: `__eq__` always True
                             -- (like `mock.ANY`), 2: `__eq__` raises, 3: `__eq__` returns an object without a truth value,
                             -- 4: `__bool__` raises (array-like: "the truth value … is ambiguous")
  | ref (id : Nat) (v : V)   -- THE object number `id` (its value is `v`): two occurrences are the same Python object
  | sent (stop : Bool)       -- glom's `SKIP` (`false`) / `STOP` (`true`) objects AS DATA: an item of the source, the
                             -- result of a `map` function.  Only `Iter(subspec)` itself gives them a meaning;
                             -- everywhere else they are ordinary (falsy, hashable) values
  | gen                      -- a live iterator object that turned up as a value (`split(sep, 0)` hands out `[src]`,
                             -- `first(default=T)` the stream itself); not looked into
  deriving Repr, Inhabited

mutual
def V.beq : V → V → Bool
  | .none, .none => true
  | .int a, .int b => a == b
  | .list a, .list b => V.beqL a b
  | .tup a, .tup b => V.beqL a b
  | .bool a, .bool b => a == b
  | .flt a, .flt b => a == b
  | .str a, .str b => a == b
  | .obj a, .obj b => a == b
  | .ref i a, .ref j b => i == j && V.beq a b
  | .sent a, .sent b => a == b
  | .gen, .gen => true
  | _, _ => false
def V.beqL : List V → List V → Bool
  | [], [] => true
  | a :: as, b :: bs => V.beq a b && V.beqL as bs
  | _, _ => false
end
/-- *the same observation* (structural, identities included) — NOT Python's `==`: that is
    `V.pyEqAtom` (the `==` operator against an atom) and `V.key` (equality inside sets);
    object identity (`is`) is `V.is` -/
instance : BEq V := ⟨V.beq⟩

/-- the value without its identity -/
def V.strip : V → V
  | .ref _ v => v.strip
  | v => v

/-- `bool(x)` -/
def V.truthy : V → Bool
  | .none => false
  | .int i => i != 0
  | .list xs => !xs.isEmpty
  | .tup xs => !xs.isEmpty
  | .bool b => b
  | .flt i => i != 0
  | .str s => !s.isEmpty
  | .obj _ => true
  | .ref _ v => v.truthy
  | .sent _ => false         -- boltons' `Sentinel.__bool__` is `False`
  | .gen => true

mutual
/-- `hash(x)` does not raise -/
def V.hashable : V → Bool
  | .list _ => false
  | .tup xs => V.hashableL xs
  | .ref _ v => v.hashable
  | _ => true
def V.hashableL : List V → Bool
  | [] => true
  | x :: xs => V.hashable x && V.hashableL xs
end

/-- `iter(x)`: lists, tuples and strings are iterable, numbers, None and plain objects are not -/
def V.asIter : V → Option (List V)
  | .list xs => some xs
  | .tup xs => some xs
  | .str s => some (s.toList.map fun c => .str (String.singleton c))
  | .ref _ v => v.asIter
  | _ => Option.none

/-- **`a is b`**.  Objects with an identity (`ref`) are identical iff they are the same
    object.  Values written without an identity are *fresh* objects — a float computed at run
    time, a string or tuple built at run time — identical to nothing else, except where
    CPython keeps one object per value: `None`, `True`/`False`, the small ints, the empty
    tuple, strings of at most one (latin-1) character. -/
def V.is : V → V → Bool
  | .ref i _, .ref j _ => i == j
  | .none, .none => true
  | .int a, .int b => a == b && decide (-5 ≤ a) && decide (a ≤ 256)
  | .bool a, .bool b => a == b
  | .str a, .str b => a == b && decide (a.length ≤ 1)
  | .tup [], .tup [] => true
  | .sent a, .sent b => a == b
  | _, _ => false

/-- the number a value is in Python's numeric tower (`True == 1 == 1.0`) -/
def V.num : V → Option Int
  | .int i => some i
  | .bool b => some (if b then 1 else 0)
  | .flt i => some i
  | _ => Option.none

/-- atoms: what `split(sep=…)` takes as a single separator value -/
def V.isAtom : V → Bool
  | .none | .int _ | .bool _ | .flt _ | .str _ => true
  | _ => false

/-- `==` between two values without user-defined `__eq__`, the right one an atom -/
def V.atomEq (x a : V) : Bool :=
  match x.num, a.num with
  | some m, some n => m == n
  | _, _ =>
    match x, a with
    | .str s, .str t => s == t
    | .none, .none => true
    | _, _ => false

/-- **`x == a`** used for its truth value (`if x == a`), `a` an atom: the class of `x` decides —
    a permissive `__eq__` says yes to everything, one that raises (or returns something
    without a truth value) makes the test raise; every other value compares by value,
    numbers across `int` / `bool` / `float` -/
def V.pyEqAtom (x a : V) : Except Err Bool :=
  match x.strip with
  | .obj 1 => .ok true
  | .obj 2 => .error "ValueError"
  | .obj 3 => .error "ValueError"
  | y => .ok (y.atomEq a.strip)

mutual
/-- what a set / dict sees of a key (`hash` then `==`, identity first): numbers by their
    value, tuples element-wise, instances of user classes (which hash by identity) as themselves -/
def V.key : V → V
  | .ref i v => (match v with | .obj c => .ref i (.obj c) | _ => v.key)
  | .bool b => .int (if b then 1 else 0)
  | .flt i => .int i
  | .tup xs => .tup (V.keyL xs)
  | v => v
def V.keyL : List V → List V
  | [] => []
  | x :: xs => x.key :: V.keyL xs
end

/-- result of the base subspec of `Iter(subspec)` -/
inductive Yield where
  | val (v : V)
  | skip
  | stop
  deriving Inhabited

abbrev Fn := V → Except Err V
abbrev BaseFn := V → Except Err Yield

/-- `bool(x)` as an operation that can fail: an instance of class 4 raises -/
def V.truthyE (v : V) : Except Err Bool :=
  match v.strip with
  | .obj 4 => .error "ValueError"
  | _ => .ok v.truthy

/-! ### keys as the stages see them

  The stages of `Kind` take their key as a function whose RESULT is read for its truth value
  (`Core.push`: `y.truthy`).  What a user's key `f` is for each stage: -/

/-- `takewhile` / `dropwhile` / `first` / a callable separator of `split`: the result of the key goes through
    `bool()` (itertools, `filter`, `if sep_func(s)`), so a result without a truth value raises -/
def Fn.asPredicate (f : Fn) : Fn := fun x =>
  match f x with
  | .error e => .error e
  | .ok y => (match y.truthyE with | .ok b => .ok (.bool b) | .error e => .error e)

/-- `filter(key)` is `ifilter(lambda t: glom(t, Check(key, default=SKIP)) is not SKIP, it)`: the item is kept iff the
    check passes AND the item itself is not the SKIP object (a passing `Check` returns its target).  The check's
    validator is `bool(key result)`; a result whose `bool()` raises fails the check like a falsy one — the item is
    dropped silently, where `takewhile` / `dropwhile` raise. -/
def Fn.asFilterKey (f : Fn) : Fn := fun x =>
  match f x with
  | .error e => .error e
  | .ok y =>
    match y.truthyE with
    | .ok true => .ok (.bool (match x with | .sent false => false | _ => true))
    | _ => .ok (.bool false)

/-- what a failing `Check` gives: it raises `CheckError` (no default), or returns its default — `SKIP` drops the item,
    anything else KEEPS it (the filter only asks "is it SKIP?") -/
inductive CheckFail where
  | raises
  | skip
  | keep

/-- `filter(Check(validate=v, default=…))`: a `Check` instance is used as the check itself.  The validator fails when
    it returns the object `False` (`res is False`: a falsy `0` passes!) or raises. -/
def Fn.ofCheck (validate : Fn) (onFail : CheckFail) : Fn := fun x =>
  let failed : Bool := match validate x with
    | .ok (.bool false) => true
    | .ok _ => false
    | .error _ => true
  if failed then
    (match onFail with | .raises => .error "CheckError" | .skip => .ok (.bool false) | .keep => .ok (.bool true))
  else .ok (.bool (match x with | .sent false => false | _ => true))

/-- what `_iterate` makes of the value `yld` the subspec gave (for `Iter()` the item itself): the SKIP
    object → `continue`, the STOP object → `return`, anything else is a candidate item (which the
    sentinel test may still stop at).  This is the ONLY place where SKIP / STOP mean something. -/
def Yield.ofV : V → Yield
  | .sent false => .skip
  | .sent true => .stop
  | v => .val v

/-- `Iter(f)`: the subspec `f` as the base stage sees it -/
def BaseFn.ofFn (f : Fn) : BaseFn := fun x => (f x).map Yield.ofV

/-- the `sep` argument of `split_iter`: `None` (groups separators), a scalar, an
    iterable of separators (turned into a frozenset), or a callable (`sep_func = sep`: called
    on the item itself, not evaluated as a glom spec; its result is used for its truth value) -/
inductive Sep where
  | none
  | scalar (v : V)
  | set (vs : List V)
  | fn (f : V → Except Err V)

/-- a stage: which iterator the callback builds, with its static arguments -/
inductive Kind where
  | base (sub : BaseFn) (sentinel : Option V)          -- `_iterate`; `none` = the default `STOP`
  | map (f : Fn)
  | filter (key : Fn)
  | takewhile (key : Fn)
  | dropwhile (key : Fn)
  | slice (start : Nat) (stop : Option Nat) (step : Nat) -- `islice`; `limit(n)` = `slice 0 (some n) 1`
  | chunked (size : Nat) (fill : Option V)
  | windowed (size : Nat)
  | split (sep : Sep) (maxsplit : Option Nat)
  | unique (key : Fn)
  | flatten
  | raises (e : Err) (atInit : Bool)   -- a stage made from arguments its iterator function rejects: `islice(it, -1)`,
                                       -- `tee(it, -1)` raise when `glomit` calls the callback (`atInit`); the generator
                                       -- `chunked_iter(it, 0)` raises at its first `next()` — before it pulls anything
  | wrapIter                           -- `split_iter(it, sep, maxsplit=0)`: `yield [src]` — ONE item, a list holding the
                                       -- upstream iterator object itself, nothing pulled

/-- arguments the real code accepts and this model covers: `islice` rejects `step = 0`,
    `chunked_iter` rejects `size ≤ 0`, `windowed_iter` needs `size ≥ 1` (what the builder methods make of
    other values — `Model/C17Args.lean` — are other kinds: `raises`, `wrapIter`, the empty `slice`);
    `split … (some 0)` is a maxsplit that is used up from the start (a NEGATIVE `maxsplit`; `maxsplit = 0`
    is `wrapIter`); separator sets contain hashable values only, a single separator is an atom
    (`None`, a number, a string) -/
def Kind.wf : Kind → Bool
  | .slice _ _ step => step ≥ 1
  | .chunked size _ => size ≥ 1
  | .windowed size => size ≥ 1
  | .split sep _ => (match sep with | .set vs => vs.all V.hashable | .scalar v => v.isAtom | _ => true)
  | _ => true

/-- dynamic state of a stage.  `buf`: the open chunk / the window / `cur_group` / the
    `seen` keys; `cnt`, `nxt`: `islice`'s counters (`cnt` is also `split_count`);
    `flag`: `dropwhile` is still dropping -/
structure Core where
  kind : Kind
  buf : List V := []
  cnt : Nat := 0
  nxt : Nat := 0
  flag : Bool := true

inductive Status where
  | go
  | stop
  | fail (e : Err)

/-- `islice_next` after its skip loop: `if (stop != -1 && cnt >= stop) goto empty` -/
def sliceStatus (stop : Option Nat) (cnt nxt : Nat) : Status :=
  match stop with
  | some s => if cnt ≥ nxt ∧ cnt ≥ s then .stop else .go
  | none => .go

/-- `sep_func(x)`: `x == sep` is the item's own `==` (so `1.0`, `True` are separators when
    `sep=1`, and an item with a permissive `__eq__` always is); a frozenset membership test
    hashes `x` first and then compares as sets do -/
def isSepE (sep : Sep) (x : V) : Except Err Bool :=
  match sep with
  | .none => x.pyEqAtom V.none
  | .scalar v => x.pyEqAtom v
  | .set vs => if x.hashable then .ok ((vs.map V.key).contains x.key) else .error "TypeError"
  | .fn f => (match f x with | .ok y => .ok y.truthy | .error e => .error e)

def padTo (size : Nat) (fill : Option V) (c : List V) : List V :=
  match fill with
  | some f => c ++ List.replicate (size - c.length) f
  | none => c

/-- one upstream item arrives: outputs, new state, and whether the stage goes on -/
def Core.push (c : Core) (x : V) : List V × Core × Status :=
  match c.kind with
  | .base sub sentinel =>
    match sub x with
    | .error e => ([], c, .fail e)
    | .ok .skip => ([], c, .go)
    | .ok .stop => ([], c, .stop)
    | .ok (.val v) =>
      match sentinel with
      | some s => if v.is s then ([], c, .stop) else ([v], c, .go)     -- `yld is self.sentinel`
      | none => ([v], c, .go)
  | .map f =>
    match f x with
    | .error e => ([], c, .fail e)
    | .ok y => ([y], c, .go)
  | .filter key =>
    match key x with
    | .error e => ([], c, .fail e)
    | .ok y => if y.truthy then ([x], c, .go) else ([], c, .go)
  | .takewhile key =>
    match key x with
    | .error e => ([], c, .fail e)
    | .ok y => if y.truthy then ([x], c, .go) else ([], c, .stop)
  | .dropwhile key =>
    if c.flag then
      match key x with
      | .error e => ([], c, .fail e)
      | .ok y => if y.truthy then ([], c, .go) else ([x], { c with flag := false }, .go)
    else ([x], c, .go)
  | .slice _ stop step =>
    if c.cnt < c.nxt then
      ([], { c with cnt := c.cnt + 1 }, sliceStatus stop (c.cnt + 1) c.nxt)
    else
      let n := c.nxt + step
      let n' := match stop with
        | some s => if n > s then s else n
        | none => n
      ([x], { c with cnt := c.cnt + 1, nxt := n' }, sliceStatus stop (c.cnt + 1) n')
  | .chunked size _ =>
    let b := c.buf ++ [x]
    if b.length ≥ size then ([.list b], { c with buf := [] }, .go)
    else ([], { c with buf := b }, .go)
  | .windowed size =>
    let b := c.buf ++ [x]
    if b.length ≥ size then ([.tup b], { c with buf := b.tail }, .go)
    else ([], { c with buf := b }, .go)
  | .split sep maxsplit =>
    let active := match maxsplit with
      | some m => decide (c.cnt < m)
      | none => true
    if active then
      match isSepE sep x with
      | .error e => ([], c, .fail e)
      | .ok true =>
        if (match sep with | .none => true | _ => false) && c.buf.isEmpty then ([], c, .go)
        else ([.list c.buf], { c with buf := [], cnt := c.cnt + 1 }, .go)
      | .ok false => ([], { c with buf := c.buf ++ [x] }, .go)
    else ([], { c with buf := c.buf ++ [x] }, .go)
  | .unique key =>
    match key x with
    | .error e => ([], c, .fail e)
    | .ok k =>
      if !k.hashable then ([], c, .fail "TypeError")
      else if c.buf.contains k.key then ([], c, .go)                   -- `k not in seen`
      else ([x], { c with buf := c.buf ++ [k.key] }, .go)
  | .flatten =>
    match x.asIter with
    | some ys => (ys, c, .go)
    | none => ([], c, .fail "TypeError")
  | .raises e _ => ([], c, .fail e)          -- (never reached: the stage does not pull)
  | .wrapIter => ([], c, .stop)

/-- upstream is exhausted: what the stage still yields -/
def Core.flush (c : Core) : List V :=
  match c.kind with
  | .chunked size fill => if c.buf.isEmpty then [] else [.list (padTo size fill c.buf)]
  | .split sep _ =>
    if !c.buf.isEmpty || (match sep with | .none => false | _ => true) then [.list c.buf] else []
  | _ => []

def Core.init (k : Kind) : Core :=
  match k with
  | .slice start _ _ => { kind := k, nxt := start }
  | _ => { kind := k }

/-- a stage that ends without ever pulling (`islice(it, 0)`) -/
def Kind.initStopped : Kind → Bool
  | .slice start stop _ => (match sliceStatus stop 0 start with | .stop => true | _ => false)
  | .raises _ _ => true
  | .wrapIter => true
  | _ => false

/-- what a stage that never pulls yields before it ends -/
def Kind.initOut : Kind → List V
  | .wrapIter => [.list [.gen]]
  | _ => []

/-- … and the exception it ends with, if it does -/
def Kind.initErr : Kind → Option Err
  | .raises e _ => some e
  | _ => none

/-- the exception the stage's callback raises when `glomit` calls it (the chain is built eagerly, inside `glom()`) -/
def Kind.glomitErr : Kind → Option Err
  | .raises e true => some e
  | _ => none

/-- items `windowed_iter` pulls while `glomit` runs (advancing its tees) -/
def Kind.primeCount : Kind → Nat
  | .windowed size => size - 1
  | _ => 0

/-! ### stages as pull transducers -/

structure StageSt where
  core : Core
  out : List V := []          -- produced, not yet handed downstream
  stopped : Bool := false
  err : Option Err := none

def StageSt.init (k : Kind) : StageSt :=
  { core := Core.init k, out := if k.initStopped then k.initOut else [],
    stopped := k.initStopped && k.initErr.isNone, err := if k.initStopped then k.initErr else none }

inductive Act where
  | emit (v : V)
  | pull
  | done
  | fail (e : Err)

/-- **after an exception**: does the iterator object of the stage go on with the next element at the next
    `next()`?  `map` / `filter` objects and `itertools.takewhile` / `dropwhile` do (the exception of their
    function, or one coming from below, just passes through).  A GENERATOR is finished for good once an
    exception propagates out of it: `_iterate`, boltons' `chunked_iter` / `split_iter` / `unique_iter`; and
    `islice` and `chain.from_iterable` drop their source on any error.  (`windowed_iter`'s `zip(*tees)` goes
    on with its tees out of step — windows like `(4, 4)`: not modelled, see ASSUMPTIONS.) -/
def Kind.survives : Kind → Bool
  | .map _ | .filter _ | .takewhile _ | .dropwhile _ => true
  | _ => false

/-- the stage after an exception has passed through it (its own, or one from below) -/
def StageSt.afterError (s : StageSt) : StageSt :=
  if s.core.kind.survives then { s with err := none } else { s with err := none, out := [], stopped := true }

/-- the stage is asked for its next item -/
def StageSt.poll (s : StageSt) : Act × StageSt :=
  match s.out with
  | v :: o => (.emit v, { s with out := o })
  | [] =>
    match s.err with
    | some e => (.fail e, s.afterError)          -- the exception is raised ONCE
    | none => if s.stopped then (.done, s) else (.pull, s)

/-- the answer to a pull: an item, or `none` when upstream is exhausted -/
def StageSt.feed (s : StageSt) : Option V → StageSt
  | some x =>
    match s.core.push x with
    | (o, c, .go) => { core := c, out := o, stopped := false, err := none }
    | (o, c, .stop) => { core := c, out := o, stopped := true, err := none }
    | (o, c, .fail e) => { core := c, out := o, stopped := false, err := some e }
  | none => { s with out := s.core.flush, stopped := true }

/-! ### sources with a pull counter -/

/-- the target's iterator: a finite sequence (ending normally, or raising `e` after
    its last item — a generator that fails), or an infinite one.  The position is
    the number of items pulled so far. -/
inductive Src where
  | fin (xs : List V) (tail : Option Err)
  | inf (f : Nat → V)

inductive Res where
  | item (v : V)
  | eof
  | err (e : Err)
  | oof                      -- out of fuel: not an observation
  deriving Inhabited

def Src.next (s : Src) (pos : Nat) : Res × Nat :=
  match s with
  | .fin xs tail =>
    match xs[pos]? with
    | some v => (.item v, pos + 1)
    | none => (match tail with | some e => .err e | none => .eof, pos)
  | .inf f => (.item (f pos), pos + 1)

/-- `next()` on the iterator built from the stage states `sts` (outermost first, the
    base stage last) over source `src` at position `pos` -/
def pullFrom (src : Src) : Nat → List StageSt → Nat → Res × List StageSt × Nat
  | _, [], pos => let r := src.next pos; (r.1, [], r.2)
  | 0, sts, pos => (.oof, sts, pos)
  | fuel + 1, st :: rest, pos =>
    match st.poll with
    | (.emit v, st') => (.item v, st' :: rest, pos)
    | (.done, st') => (.eof, st' :: rest, pos)
    | (.fail e, st') => (.err e, st' :: rest, pos)
    | (.pull, st') =>
      match pullFrom src fuel rest pos with
      | (.item v, rest', pos') => pullFrom src fuel (st'.feed (some v) :: rest') pos'
      | (.eof, rest', pos') => pullFrom src fuel (st'.feed none :: rest') pos'
      | (.err e, rest', pos') => (.err e, st'.afterError :: rest', pos')     -- an exception from below passes through
      | (.oof, rest', pos') => (.oof, st' :: rest', pos')

/-! ### `glomit`: building the iterator chain -/

inductive Built where
  | ok (sts : List StageSt) (pos : Nat)
  | err (e : Err) (pos : Nat)
  | oof

/-- `windowed_iter` advancing its tees: pull `n` items from the chain below and put
    them into the new stage; an exhausted chain makes it return an empty iterator.
    (A stage that is not waiting for input while it is primed does not exist — a window
    shorter than `size` never emits — so that branch is not an observation: `oof`.) -/
def prime (src : Src) (fuel : Nat) : Nat → StageSt → List StageSt → Nat → Built
  | 0, st, below, pos => .ok (st :: below) pos
  | n + 1, st, below, pos =>
    match st.poll with
    | (.pull, _) =>
      match pullFrom src fuel below pos with
      | (.item v, below', pos') => prime src fuel n (st.feed (some v)) below' pos'
      | (.eof, below', pos') => .ok (st.feed none :: below') pos'
      | (.err e, _, pos') => .err e pos'
      | (.oof, _, _) => .oof
    | _ => .oof

/-- the `for … in reversed(self._iter_stack): iterator = callback(iterator, scope)` loop;
    `kinds` in chaining order, `acc` the chain built so far (outermost first) -/
def construct (src : Src) (fuel : Nat) : List Kind → List StageSt → Nat → Built
  | [], acc, pos => .ok acc pos
  | k :: ks, acc, pos =>
    match prime src fuel k.primeCount (StageSt.init k) acc pos with
    | .ok acc' pos' => construct src fuel ks acc' pos'
    | r => r

/-! ### consuming the iterator -/

inductive Fin where
  | gotK                 -- the k requested items were delivered
  | exhausted            -- StopIteration
  | raised (e : Err)
  | oof
  deriving Repr, DecidableEq, Inhabited

structure RunOut where
  items : List V
  fin : Fin
  pulls : Nat
  deriving Inhabited

/-- `list(islice(it, k))`, item by item -/
def takeK (src : Src) (fuel : Nat) : Nat → List StageSt → Nat → List V → RunOut × List StageSt
  | 0, sts, pos, acc => (⟨acc, .gotK, pos⟩, sts)
  | k + 1, sts, pos, acc =>
    match pullFrom src fuel sts pos with
    | (.item v, sts', pos') => takeK src fuel k sts' pos' (acc ++ [v])
    | (.eof, sts', pos') => (⟨acc, .exhausted, pos'⟩, sts')
    | (.err e, sts', pos') => (⟨acc, .raised e, pos'⟩, sts')
    | (.oof, sts', pos') => (⟨acc, .oof, pos'⟩, sts')

/-- `list(it)` (`Iter.all()` is `Pipe(self, list)`): `n` bounds the number of items -/
def drain (src : Src) (fuel : Nat) : Nat → List StageSt → Nat → List V → RunOut
  | 0, _, pos, acc => ⟨acc, .oof, pos⟩
  | n + 1, sts, pos, acc =>
    match pullFrom src fuel sts pos with
    | (.item v, sts', pos') => drain src fuel n sts' pos' (acc ++ [v])
    | (.eof, _, pos') => ⟨acc, .exhausted, pos'⟩
    | (.err e, _, pos') => ⟨acc, .raised e, pos'⟩
    | (.oof, _, pos') => ⟨acc, .oof, pos'⟩

inductive FirstOut where
  | found (v : V)
  | default
  | raised (e : Err)
  | oof
  deriving Inhabited

/-- `First(key, default)`: `next(filter(key, it), default)` -/
def firstOf (src : Src) (fuel : Nat) (key : Fn) : Nat → List StageSt → Nat → FirstOut × Nat
  | 0, _, pos => (.oof, pos)
  | n + 1, sts, pos =>
    match pullFrom src fuel sts pos with
    | (.item v, sts', pos') =>
      match key v with
      | .error e => (.raised e, pos')
      | .ok y => if y.truthy then (.found v, pos') else firstOf src fuel key n sts' pos'
    | (.eof, _, pos') => (.default, pos')
    | (.err e, _, pos') => (.raised e, pos')
    | (.oof, _, pos') => (.oof, pos')

/-! ### the caller's source after a run; pipelines over a source that was used before

  `_iterate` does one thing with the iterator `iterate(target)` gives it: the `for`
  loop calls `next()` on it (extracted fact `iterateOnlyNexts`).  For a target that is its
  own iterator (a generator, a file, any object whose `__iter__` returns `self`) that
  iterator *is* the caller's object, so the only state a run leaves behind in it is its
  position: the number of items pulled.  Nothing is pushed back, nothing is read ahead
  beyond the pulls counted, `close()` is never called.  A second pipeline over the same
  object (a later `glom` call, another value of the same dict spec, a suspended iterator
  that is resumed) starts at that position. -/

/-- what is left of a source once `p` items were taken from it -/
def Src.drop (s : Src) (p : Nat) : Src :=
  match s with
  | .fin xs tail => .fin (xs.drop p) tail
  | .inf f => .inf (fun n => f (p + n))

/-- `runTake` on a source object that is at position `p` already; `pulls` is the position after the run -/
def runTakeFrom (kinds : List Kind) (src : Src) (fuel k p : Nat) : RunOut :=
  match construct src fuel kinds [] p with
  | .ok sts pos => (takeK src fuel k sts pos []).1
  | .err e pos => ⟨[], .raised e, pos⟩
  | .oof => ⟨[], .oof, p⟩

def runAllFrom (kinds : List Kind) (src : Src) (fuel p : Nat) : RunOut :=
  match construct src fuel kinds [] p with
  | .ok sts pos => drain src fuel fuel sts pos []
  | .err e pos => ⟨[], .raised e, pos⟩
  | .oof => ⟨[], .oof, p⟩

def runFirstFrom (kinds : List Kind) (src : Src) (fuel : Nat) (key : Fn) (p : Nat) : FirstOut × Nat :=
  match construct src fuel kinds [] p with
  | .ok sts pos => firstOf src fuel key fuel sts pos
  | .err e pos => (.raised e, pos)
  | .oof => (.oof, p)

/-- a run seen from the position it started at -/
def RunOut.shift (o : RunOut) (p : Nat) : RunOut := ⟨o.items, o.fin, p + o.pulls⟩

/-- the caller's source object after a run: the items `next()` still finds on it (at most
    `r` are asked for; a source that raises at its end is not asked beyond its last item),
    whether it was found exhausted, and whether `close()` was called on it -/
structure SrcAfter where
  rest : List V
  ended : Bool
  closed : Bool

def Src.after (s : Src) (pos r : Nat) : SrcAfter :=
  match s with
  | .fin xs none => ⟨(xs.drop pos).take r, decide ((xs.drop pos).length < r), false⟩
  | .fin xs (some _) => ⟨(xs.drop pos).take r, false, false⟩
  | .inf f => ⟨(List.range r).map (fun i => f (pos + i)), false, false⟩

/-! ### several pipelines, one source object

  The steps of a caller who hands ONE source object to several pipelines, one after the
  other: separate `glom` calls, or the values of one dict spec (evaluated in order).
  `take k` creates the iterator of its pipe at its first use, takes `k` items and leaves
  it suspended (`live`), to be resumed by a later `take` on the same pipe; `all` / `first`
  run a fresh iterator to their end.  The only thing the steps share is the position of
  the source.  The sequence ends at the first exception. -/

inductive Mode where
  | take (k : Nat)
  | all
  | first (key : Fn)

structure Step where
  pipe : Nat
  mode : Mode

inductive StepOut where
  | run (o : RunOut)                       -- take / all
  | first (o : FirstOut) (pulls : Nat)

def StepOut.pulls : StepOut → Nat
  | .run o => o.pulls
  | .first _ p => p

/-- the step raised, or the model ran out of fuel: nothing follows -/
def StepOut.ends : StepOut → Bool
  | .run o => (match o.fin with | .raised _ => true | .oof => true | _ => false)
  | .first o _ => (match o with | .raised _ => true | .oof => true | _ => false)

def setAt {α : Type} (l : List α) (i : Nat) (x : α) : List α := l.set i x

def modelSteps (fuel : Nat) (src : Src) (pipes : List (List Kind)) :
    List Step → Nat → List (Option (List StageSt)) → List StepOut
  | [], _, _ => []
  | st :: rest, pos, live =>
    let kinds := pipes.getD st.pipe []
    match st.mode with
    | .take k =>
      let started : Built := match live.getD st.pipe none with
        | some sts => .ok sts pos
        | none => construct src fuel kinds [] pos
      match started with
      | .ok sts pos' =>
        let r := takeK src fuel k sts pos' []
        let o := StepOut.run r.1
        o :: (if o.ends then [] else modelSteps fuel src pipes rest r.1.pulls (setAt live st.pipe (some r.2)))
      | .err e pos' => [.run ⟨[], .raised e, pos'⟩]
      | .oof => [.run ⟨[], .oof, pos⟩]
    | .all =>
      let o := StepOut.run (runAllFrom kinds src fuel pos)
      o :: (if o.ends then [] else modelSteps fuel src pipes rest o.pulls live)
    | .first key =>
      let r := runFirstFrom kinds src fuel key pos
      let o := StepOut.first r.1 r.2
      o :: (if o.ends then [] else modelSteps fuel src pipes rest o.pulls live)

/-! ### the `Iter` object and its builder methods -/

structure Entry where
  name : String            -- `opname`
  kind : Kind              -- the callback (with the arguments it closes over)

structure Iter where
  subspec : BaseFn
  sentinel : Option V
  stack : List Entry       -- `_iter_stack`, newest first

/-- `_add_op`: `type(self)(subspec=self.subspec, _iter_stack=[(opname, args, callback)] + self._iter_stack)`.
    `fwd` — does the call pass `sentinel=self.sentinel` (extracted fact)? -/
def Iter.addOp (fwd : Bool) (self : Iter) (e : Entry) : Iter :=
  { subspec := self.subspec
    sentinel := if fwd then self.sentinel else none
    stack := e :: self.stack }

/-- the kinds of `glomit`'s chain in the order the callbacks are applied:
    `_iterate` first, then `reversed(self._iter_stack)` -/
def Iter.kinds (it : Iter) : List Kind :=
  .base it.subspec it.sentinel :: it.stack.reverse.map (·.kind)

/-- `Iter.glomit(target, scope)` -/
def Iter.glomit (it : Iter) (src : Src) (fuel : Nat) : Built :=
  construct src fuel it.kinds [] 0

/-- `it = glom(target, spec); list(islice(it, k))` with the number of source items pulled -/
def runTake (kinds : List Kind) (src : Src) (fuel k : Nat) : RunOut :=
  match construct src fuel kinds [] 0 with
  | .ok sts pos => (takeK src fuel k sts pos []).1
  | .err e pos => ⟨[], .raised e, pos⟩
  | .oof => ⟨[], .oof, 0⟩

/-- `glom(target, spec.all())` -/
def runAll (kinds : List Kind) (src : Src) (fuel : Nat) : RunOut :=
  match construct src fuel kinds [] 0 with
  | .ok sts pos => drain src fuel fuel sts pos []
  | .err e pos => ⟨[], .raised e, pos⟩
  | .oof => ⟨[], .oof, 0⟩

/-- `glom(target, spec.first(key, default))` -/
def runFirst (kinds : List Kind) (src : Src) (fuel : Nat) (key : Fn) : FirstOut × Nat :=
  match construct src fuel kinds [] 0 with
  | .ok sts pos => firstOf src fuel key fuel sts pos
  | .err e pos => (.raised e, pos)
  | .oof => (.oof, 0)

/-! ### builder calls on a heap of specs (sharing made explicit)

  Python lists are mutable and `Iter` objects are ordinary instances, so
  "chaining returns a new spec and never alters the old one" is a statement
  about a heap.  `_iter_stack` lists live in `lists`, `Iter` instances in
  `iters` (fields: subspec, sentinel, address of the stack list). -/

structure IterObj where
  subspec : BaseFn
  sentinel : Option V
  stackAddr : Nat

structure BHeap where
  lists : List (List Entry)
  iters : List IterObj

def BHeap.readStack (h : BHeap) (o : IterObj) : List Entry := (h.lists[o.stackAddr]?).getD []

def BHeap.view (h : BHeap) (i : Nat) : Option Iter :=
  (h.iters[i]?).map fun o => ⟨o.subspec, o.sentinel, h.readStack o⟩

/-- `Iter(subspec, sentinel=…)`: `kwargs.pop('_iter_stack', [])` evaluates a fresh `[]` -/
def BHeap.newIter (h : BHeap) (sub : BaseFn) (sentinel : Option V) : BHeap × Nat :=
  ({ lists := h.lists ++ [[]], iters := h.iters ++ [⟨sub, sentinel, h.lists.length⟩] }, h.iters.length)

/-- `self._add_op(...)` on the heap: `[entry] + self._iter_stack` allocates a new list,
    `type(self)(…)` a new instance; nothing existing is written -/
def BHeap.addOp (fwd : Bool) (h : BHeap) (self : Nat) (e : Entry) : BHeap × Nat :=
  match h.iters[self]? with
  | none => (h, self)
  | some o =>
    ({ lists := h.lists ++ [e :: h.readStack o]
       iters := h.iters ++ [⟨o.subspec, if fwd then o.sentinel else none, h.lists.length⟩] },
     h.iters.length)

/-- a history of builder calls: each call names an existing spec and the entry it adds -/
def BHeap.history (fwd : Bool) (h : BHeap) : List (Nat × Entry) → BHeap
  | [] => h
  | (i, e) :: r => ((h.addOp fwd i e).1).history fwd r

/-- chaining: `spec.m₁(…).m₂(…)…` starting at the object `i` — every call on the object the
    previous call returned -/
def BHeap.chain (fwd : Bool) (h : BHeap) (i : Nat) (es : List Entry) : BHeap × Nat :=
  es.foldl (fun (acc : BHeap × Nat) e => acc.1.addOp fwd acc.2 e) (h, i)

/-! ### `Invoke` builder methods (`glom/core.py`)

  `_args` is a flat tuple `(op, args, kwargs, op, args, kwargs, …)`; `_cur_kwargs`
  maps every keyword to the kwargs dict of the call that set it last (the dict's
  identity is the marker), here the index of the call. -/

inductive ICall where
  | C (pos : List V) (kw : List (String × V))                 -- constants(*a, **kw)
  | S (pos : List Fn) (kw : List (String × Fn))               -- specs(*a, **kw)
  | star (args : Option Fn) (kwargs : Option (V → Except Err (List (String × V))))

def ICall.keys : ICall → List String
  | .C _ kw => kw.map (·.1)
  | .S _ kw => kw.map (·.1)
  | .star _ _ => []

structure Invoke where
  args : List ICall                    -- `_args`, three slots per call
  cur : List (String × Nat)            -- `_cur_kwargs`: keyword → index of the call whose dict it is

def setKeys (cur : List (String × Nat)) (ks : List String) (i : Nat) : List (String × Nat) :=
  ks.foldl (fun c k => (c.filter (·.1 != k)) ++ [(k, i)]) cur

/-- `constants` / `specs` / `star`: `ret = Invoke(self.func); ret._args = self._args + (…);
    ret._cur_kwargs = dict(self._cur_kwargs); ret._cur_kwargs.update(…)` -/
def Invoke.call (self : Invoke) (c : ICall) : Invoke :=
  { args := self.args ++ [c], cur := setKeys self.cur c.keys self.args.length }

def isCur (cur : List (String × Nat)) (k : String) (i : Nat) : Bool :=
  match cur.find? (·.1 == k) with
  | some (_, j) => j == i
  | none => false

def kwSet (kw : List (String × V)) (k : String) (v : V) : List (String × V) :=
  if kw.any (·.1 == k) then kw.map (fun p => if p.1 == k then (k, v) else p) else kw ++ [(k, v)]

/-- `Invoke` instances on a heap: `_cur_kwargs` dicts are mutable objects (`dicts`), an
    instance holds its `_args` tuple (immutable) and the address of its dict -/
structure IHeap where
  dicts : List (List (String × Nat))
  objs : List (List ICall × Nat)

def IHeap.view (h : IHeap) (i : Nat) : Option Invoke :=
  (h.objs[i]?).map fun o => ⟨o.1, (h.dicts[o.2]?).getD []⟩

/-- `constants` / `specs` / `star` on the heap: `ret = self.__class__(self.func)` allocates,
    `ret._cur_kwargs = dict(self._cur_kwargs)` allocates a copy, `.update(…)` writes the copy -/
def IHeap.call (h : IHeap) (self : Nat) (c : ICall) : IHeap × Nat :=
  match h.objs[self]? with
  | none => (h, self)
  | some (args, da) =>
    ({ dicts := h.dicts ++ [setKeys ((h.dicts[da]?).getD []) c.keys args.length]
       objs := h.objs ++ [(args ++ [c], h.dicts.length)] }, h.objs.length)

def IHeap.history (h : IHeap) : List (Nat × ICall) → IHeap
  | [] => h
  | (i, c) :: r => ((h.call i c).1).history r

/-- `Invoke.glomit`: the positional and keyword arguments `func` is called with -/
def Invoke.evalArgs (inv : Invoke) (target : V) : Except Err (List V × List (String × V)) :=
  go inv.cur target inv.args 0 [] []
where
  go (cur : List (String × Nat)) (target : V) :
      List ICall → Nat → List V → List (String × V) → Except Err (List V × List (String × V))
    | [], _, a, kw => .ok (a, kw)
    | .C pos k :: r, i, a, kw =>
      go cur target r (i + 1) (a ++ pos)
        ((k.filter (fun p => isCur cur p.1 i)).foldl (fun m p => kwSet m p.1 p.2) kw)
    | .S pos k :: r, i, a, kw => do
      let vs ← pos.mapM (fun f => f target)
      let ks ← (k.filter (fun p => isCur cur p.1 i)).mapM (fun p => do return (p.1, ← p.2 target))
      go cur target r (i + 1) (a ++ vs) (ks.foldl (fun m p => kwSet m p.1 p.2) kw)
    | .star sa sk :: r, i, a, kw => do
      let a' ← (match sa with
        | some f => do
          match (← f target).asIter with
          | some xs => pure (a ++ xs)
          | none => throw "TypeError"
        | none => pure a)
      let kw' ← (match sk with
        | some f => do return (← f target).foldl (fun m p => kwSet m p.1 p.2) kw
        | none => pure kw)
      go cur target r (i + 1) a' kw'

end Glom.C17
