import Glom.Model.C10Val
/-
  C10 / C09 — code-shaped model of glom/matching.py evaluated in match mode
  (`MODE = _glom_match`, i.e. everything below a `Match(...)`).

  One evaluator serves both properties because the combinators of C10 take
  arbitrary patterns as children and the patterns of C09 contain combinators:

    core._glom dispatch        → the constructor split of `eval`
                                 (T first, then specs with `glomit`, then the mode function;
                                 order checked against the extracted `glomDispatchOrder`)
    _MType.glomit              → `.mtype`
    _MSubspec.glomit           → `.msub`
    _MExpr.glomit              → `mexprGlomit` (operand resolution, then the `matched = (op == c
                                 and lhs <cmp> rhs) or …` chain walked over the *extracted*
                                 table `mDispatch`; the op char comes from the *extracted*
                                 overload table `mRecorded`)
    _Bool.glomit               → `boolGlomit`   (default through `arg_val`, else re-raise)
    And._glomit                → `evalAnd`      (running `result`, starts as the target)
    Or._glomit                 → `evalOr`       (`children[:-1]` inside try, the last one outside)
    Not.glomit                 → `.not`
    Switch.glomit              → `evalSwitch`   (value spec errors are *not* caught; default
                                 only when no key passed)
    Check.__init__ / glomit    → `checkInit` / `checkGlomit` (early returns through `arg_val` of the
                                 default at the first failing condition, `errs` list otherwise)
    __and__/__or__/__invert__/__rand__  → `applyBin`/`applyInv` over the extracted `boolOps`
    _glom_match                → the `.ty/.dict/.list/.set/.fset/.tuple/.pred/.lit` cases
    _handle_dict               → `handleDict` (`required`, `defaults`, per-target-key
                                 first-match loop over the spec keys in spec order,
                                 `required.discard`, defaults before the required check)
    Optional.glomit, Regex.glomit, Match.glomit

  Exception classes are data: every `raise` names the class found at that site
  in the extracted table `matchRaises`, every `except` tests the class found in
  `matchCatches` against the MRO in the generated exception table.  Evaluation
  returns the outcome *and* the log of instrumented callables that ran (the log
  survives errors, as side effects do in Python).

  Not modelled: scope effects (`chain_child`, Regex groups → C07), error-trace
  bookkeeping (C05), message texts.
-/
namespace Glom.C10
open Glom Glom.MV

/-! ### environment = extracted facts -/

structure Env where
  exc : ClassTable                          -- exception class → MRO
  cls : ClassTable                          -- class of a value → MRO
  raises : List (String × List String)      -- site → class of each `raise`, in source order
  catches : List (String × List (List String))  -- site → classes of each `except`, in source order
  mRecorded : List (String × String × String)  -- (class, dunder, op char)
  mDispatch : List (String × String)        -- (op char, comparison operator)
  boolOps : List (String × String × String) -- (class, dunder, result shape)

/-- the environment at another moment / for another set of user classes: same code facts,
    another class table -/
def Env.withCls (env : Env) (ct : ClassTable) : Env := { env with cls := ct }

def raiseAt (env : Env) (site : String) (i : Nat) : PyExc :=
  ⟨match env.raises.lookup site with
    | some l => l.getD i "<no-raise>"
    | none => "<no-site>"⟩

/-- does the `i`-th `except` clause of `site` catch `e`? -/
def catchesAt (env : Env) (site : String) (i : Nat) (e : PyExc) : Bool :=
  match (env.catches.lookup site).bind (·[i]?) with
  | some cs => cs.any (fun b => env.exc.isSub e.cls b)
  | none => false

def pae : PyExc := ⟨"PathAccessError"⟩

/-! ### catalogue of user callables (predicates / validators) -/

inductive PredRes where
  | ret (v : V)
  | raise (cls : String)
  deriving Repr, DecidableEq

def sizedLen (x : V) : Option Nat :=
  match x.unsub with
  | .str s => some s.length
  | .list xs | .tuple xs | .set xs | .fset xs => some xs.length
  | .dict es => some es.length
  | _ => none

/-- `e > 0` -/
def posRes (e : V) : PredRes :=
  match pyCmp .gt e (.int 0) with
  | some b => .ret (.bool b)
  | none => .raise "TypeError"

/-- `lambda t: t[i] > 0` -/
def nthPos (i : Nat) (x : V) : PredRes :=
  match x.unsub with
  | .tuple xs | .list xs => (match xs[i]? with | some e => posRes e | none => .raise "IndexError")
  | .str s => (match s.toList[i]? with | some _ => .raise "TypeError" | none => .raise "IndexError")
  | .dict es =>
    (match es.find? (fun e => pyEq e.1 (.int i)) with
     | some e => posRes e.2
     | none => .raise "KeyError")
  | _ => .raise "TypeError"

def lenLt3 (x : V) : PredRes :=
  match sizedLen x with
  | some n => .ret (.bool (n < 3))
  | none => .raise "TypeError"

/-- each name has a Python definition in harness/props/c10.py (`PREDS`) -/
def predTable : List (String × (V → PredRes)) :=
  [("nth0_pos", nthPos 0), ("nth1_pos", nthPos 1), ("nth2_pos", nthPos 2), ("nth3_pos", nthPos 3),
   ("truthy", fun x => .ret (.bool (truthy x))),
   ("is_pos", posRes),
   ("is_str", fun x => .ret (.bool (x.unsub.cls == "str"))),
   ("always", fun _ => .ret (.bool true)),
   ("never", fun _ => .ret (.bool false)),
   ("ret_none", fun _ => .ret .none),
   ("ret_zero", fun _ => .ret (.int 0)),
   ("ret_one", fun _ => .ret (.int 1)),
   ("ret_empty", fun _ => .ret (.str "")),
   ("echo", fun x => .ret x),
   ("len_lt3", lenLt3),
   ("raises_value", fun _ => .raise "ValueError"),
   ("raises_glom", fun _ => .raise "GlomError")]

def predApply (fn : String) (x : V) : PredRes :=
  match predTable.lookup fn with
  | some f => f x
  | none => .raise "NameError"

/-! ### spec objects -/

inductive MSide where
  | m                       -- `M`
  | sub (e : TExpr)         -- `M(T…)`
  deriving Repr, DecidableEq, Inhabited

inductive Side where
  | m
  | sub (e : TExpr)
  | const (v : V)
  deriving Repr, DecidableEq, Inhabited

inductive OneOrMany (α : Type) where
  | one (a : α)
  | many (l : List α)
  deriving Repr, DecidableEq

def OneOrMany.toList {α} : OneOrMany α → List α
  | .one a => [a]
  | .many l => l

/-- an instrumented callable: occurrence id (logged when it runs; `none` for
    Check's built-in `truthy`) and catalogue name -/
abbrev Fn := Option Nat × String

/-- keyword arguments as passed to `Check(spec, **kwargs)` -/
structure CheckArgs where
  spec : Option TExpr := none
  type_ : Option (OneOrMany String) := none
  instanceOf : Option (OneOrMany String) := none
  equalTo : Option V := none
  oneOf : Option (List V) := none
  validate : Option (OneOrMany Fn) := none
  default : Option Arg := none
  deriving Repr, DecidableEq

/-- attributes of a constructed `Check` -/
structure CheckObj where
  spec : Option TExpr
  types : List String
  vals : List V
  validators : List Fn
  instanceOf : List String
  default : Option Arg
  deriving Repr, DecidableEq

inductive CharCls where
  | lower | digit | notAt | any | lit (c : Char)
  deriving Repr, DecidableEq

structure ReItem where
  cls : CharCls
  plus : Bool
  deriving Repr, DecidableEq

inductive ReFunc where
  | fullmatch | search | match_
  deriving Repr, DecidableEq

inductive KeyKind where
  | plain
  | opt (dflt : Option Arg)      -- `Optional(key, default=…)`
  | req                          -- `Required(key)`
  deriving Repr, DecidableEq

inductive Spec where
  | t (e : TExpr)                                   -- a T expression
  | val (v : V)                                     -- `Val(v)`
  | mtype                                           -- `M`
  | msub (e : TExpr)                                -- `M(T…)` used as a spec
  | mexpr (lhs : MSide) (op : CmpOp) (rhs : Side)   -- `M <op> rhs`, `M(T…) <op> rhs`
  | and (cs : List Spec) (dflt : Option Arg)
  | or (cs : List Spec) (dflt : Option Arg)
  | not (c : Spec)
  | switch (cases : List (Spec × Spec)) (dflt : Option Arg)
  | check (a : CheckArgs)
  | regex (items : List ReItem) (func : ReFunc)
  | matchS (s : Spec) (dflt : Option Arg)           -- `Match(s, default=…)`
  | ty (name : String)                              -- a class object
  | lit (v : V)                                     -- anything matched by `==`
  | pred (id : Nat) (fn : String)                   -- a plain callable
  | list (alts : List Spec)
  | set (alts : List Spec)
  | fset (alts : List Spec)
  | tuple (items : List Spec)
  | dict (es : List (KeyKind × Spec × Spec))        -- in spec (insertion) order
  deriving Repr, Inhabited

deriving instance DecidableEq for Except

abbrev Log := List Nat
abbrev Res := Except PyExc V
abbrev Out := Res × Log

/-! ### `arg_val`, T access -/

def tRes (e : TExpr) (t : V) : Res :=
  match tGet e t with
  | some v => .ok v
  | none => .error pae

/-- `arg_val(target, arg, scope)`: a T expression is evaluated against the
    target, a plain value is rebuilt (equal value) -/
def argItems : List ArgItem → V → Except PyExc (List V)
  | [], _ => .ok []
  | .const v :: r, t => (argItems r t).map (v :: ·)
  | .t e :: r, t =>
    match tGet e t with
    | some v => (argItems r t).map (v :: ·)
    | none => .error pae

def argVal (a : Arg) (t : V) : Res :=
  match a with
  | .const v => .ok v
  | .t e => tRes e t
  | .val v => .ok v                                  -- `Val.glomit` returns its value
  | .seq tup items => (argItems items t).map (fun vs => if tup then V.tuple vs else V.list vs)

/-! ### `_MExpr.glomit` -/

def dunderOf : CmpOp → String
  | .eq => "__eq__" | .ne => "__ne__" | .gt => "__gt__" | .lt => "__lt__"
  | .ge => "__ge__" | .le => "__le__"

def cmpOfName (n : String) : Option CmpOp :=
  if n == "Eq" then some .eq else if n == "NotEq" then some .ne
  else if n == "Gt" then some .gt else if n == "Lt" then some .lt
  else if n == "GtE" then some .ge else if n == "LtE" then some .le else none

def MSide.cls : MSide → String
  | .m => "_MType"
  | .sub _ => "_MSubspec"

/-- the op char the overload `cls.<dunder>` stores in the `_MExpr` -/
def opChar (env : Env) (cls : String) (op : CmpOp) : String :=
  match env.mRecorded.find? (fun r => r.1 == cls && r.2.1 == dunderOf op) with
  | some r => r.2.2
  | none => "?"

/-- `matched = (op == c₁ and lhs <o₁> rhs) or (op == c₂ and lhs <o₂> rhs) or …`;
    `none` = a comparison raised -/
def mMatched (disp : List (String × String)) (ch : String) (l r : V) : Option Bool :=
  match disp with
  | [] => some false
  | (c, o) :: rest =>
    if ch == c then
      match (cmpOfName o).bind (fun o => pyCmp o l r) with
      | none => none
      | some true => some true
      | some false => mMatched rest ch l r
    else mMatched rest ch l r

def MSide.val (s : MSide) (t : V) : Res :=
  match s with
  | .m => .ok t
  | .sub e => tRes e t

def Side.val (s : Side) (t : V) : Res :=
  match s with
  | .m => .ok t
  | .sub e => tRes e t
  | .const v => .ok v

def mexprGlomit (env : Env) (l : MSide) (op : CmpOp) (r : Side) (t : V) : Res :=
  match l.val t with
  | .error e => .error e
  | .ok lv =>
    match r.val t with
    | .error e => .error e
    | .ok rv =>
      match mMatched env.mDispatch (opChar env l.cls op) lv rv with
      | none => .error ⟨"TypeError"⟩
      | some true => .ok t
      | some false => .error (raiseAt env "_MExpr.glomit" 0)

/-! ### `_Bool.glomit` (shared by And and Or) -/

def boolGlomit (env : Env) (dflt : Option Arg) (t : V) (o : Out) : Out :=
  match o.1 with
  | .ok _ => o
  | .error e =>
    if catchesAt env "_Bool.glomit" 0 e then
      match dflt with
      | some d => (argVal d t, o.2)
      | none => o
    else o

/-! ### Check -/

def builtinTruthy : Fn := (none, "truthy")

def checkInit (a : CheckArgs) : Except PyExc CheckObj :=
  -- validate = kwargs.pop('validate', _MISSING if kwargs else truthy)   (default already popped)
  let others := a.type_.isSome || a.instanceOf.isSome || a.equalTo.isSome || a.oneOf.isSome
  let validators : List Fn :=
    match a.validate with
    | some v => v.toList
    | none => if others then [] else [builtinTruthy]
  let emptyMany : Option (OneOrMany String) → Bool
    | some (.many []) => true
    | _ => false
  if emptyMany a.instanceOf then .error ⟨"ValueError"⟩
  else if emptyMany a.type_ then .error ⟨"ValueError"⟩
  else
    let inst := match a.instanceOf with | some v => v.toList | none => []
    let types := match a.type_ with | some v => v.toList | none => []
    match a.equalTo, a.oneOf with
    | some _, some _ => .error ⟨"TypeError"⟩
    | some v, none => .ok ⟨a.spec, types, [v], validators, inst, a.default⟩
    | none, some [] => .error ⟨"ValueError"⟩
    | none, some vs => .ok ⟨a.spec, types, vs, validators, inst, a.default⟩
    | none, none => .ok ⟨a.spec, types, [], validators, inst, a.default⟩

def fnLog (f : Fn) : Log := match f.1 with | some i => [i] | none => []

inductive ValidRes where
  | errs (n : Nat)          -- loop finished; `n` messages appended to `errs`
  | useDefault              -- `return arg_val(target, self.default, scope)` from the except clause
  | raise (e : PyExc)       -- a validator raised something `except Exception` does not catch
  deriving Repr, DecidableEq

/-- continue the loop after a validator that appended `extra` messages and logged `pre` -/
def addErrs (extra : Nat) (pre : Log) (r : ValidRes × Log) : ValidRes × Log :=
  (match r.1 with
   | .errs n => .errs (n + extra)
   | other => other, pre ++ r.2)

/-- `for validator in self.validators: try: res = validator(target); if res is False: raise
    _ValidationError / except Exception: if self.default is not RAISE: return arg_val(…) /
    errs.append(…)` — `hasDefault`: `self.default is not RAISE` -/
def runValidators (env : Env) (hasDefault : Bool) : List Fn → V → ValidRes × Log
  | [], _ => (.errs 0, [])
  | f :: fs, t =>
    match predApply f.2 t with
    | .ret (.bool false) =>        -- `res is False` → _ValidationError → caught below
      if hasDefault then (.useDefault, fnLog f)
      else addErrs 1 (fnLog f) (runValidators env hasDefault fs t)
    | .ret _ => addErrs 0 (fnLog f) (runValidators env hasDefault fs t)
    | .raise c =>
      if catchesAt env "Check.glomit" 0 ⟨c⟩ then
        (if hasDefault then (.useDefault, fnLog f)
         else addErrs 1 (fnLog f) (runValidators env hasDefault fs t))
      else (.raise ⟨c⟩, fnLog f)

/-- the body of `Check.glomit` once the subject `t` is known (`t0` = the original target, returned) -/
def checkOn (env : Env) (o : CheckObj) (t t0 : V) : Out :=
  let typeBad := !o.types.isEmpty && !o.types.contains t.cls
  if typeBad && o.default.isSome then (argVal (o.default.getD (.const .none)) t, []) else
  let valsBad := !o.vals.isEmpty && !pyIn t o.vals
  if valsBad && o.default.isSome then (argVal (o.default.getD (.const .none)) t, []) else
  let vr := runValidators env o.default.isSome o.validators t
  match vr.1 with
  | .useDefault => (argVal (o.default.getD (.const .none)) t, vr.2)
  | .raise e => (.error e, vr.2)
  | .errs n =>
    let instBad := !o.instanceOf.isEmpty && !o.instanceOf.any (fun c => isInst env.cls t c)
    if instBad && o.default.isSome then (argVal (o.default.getD (.const .none)) t, vr.2) else
    let nerrs := (if typeBad then 1 else 0) + (if valsBad then 1 else 0) + n + (if instBad then 1 else 0)
    if nerrs > 0 then (.error (raiseAt env "Check.glomit" 1), vr.2)
    else (.ok t0, vr.2)

def checkGlomit (env : Env) (o : CheckObj) (t0 : V) : Out :=
  -- `if self.spec is not T: target = scope[glom](target, self.spec, scope)`
  match (match o.spec with | none => Except.ok t0 | some e => tRes e t0) with
  | .error e => (.error e, [])
  | .ok t => checkOn env o t t0

/-! ### Regex (catalogue engine: sequences of character classes, each once or `+`) -/

def CharCls.matches : CharCls → Char → Bool
  | .lower, c => 'a'.toNat ≤ c.toNat && c.toNat ≤ 'z'.toNat
  | .digit, c => '0'.toNat ≤ c.toNat && c.toNat ≤ '9'.toNat
  | .notAt, c => c != '@'
  | .any, c => c != '\n'
  | .lit x, c => c == x

/-- remainders after consuming one or more characters of the class -/
def spanRems (c : CharCls) : List Char → List (List Char)
  | [] => []
  | x :: xs => if c.matches x then xs :: spanRems c xs else []

/-- every remainder of `s` after a prefix matched by the item sequence -/
def reRems : List ReItem → List Char → List (List Char)
  | [], s => [s]
  | it :: its, s =>
    let after : List (List Char) :=
      match s with
      | [] => []
      | x :: xs => if it.cls.matches x then (if it.plus then xs :: spanRems it.cls xs else [xs]) else []
    after.flatMap (reRems its)

def tailsOf : List Char → List (List Char)
  | [] => [[]]
  | x :: xs => (x :: xs) :: tailsOf xs

def reMatches (items : List ReItem) (f : ReFunc) (s : String) : Bool :=
  match f with
  | .match_ => !(reRems items s.toList).isEmpty
  | .fullmatch => (reRems items s.toList).any (·.isEmpty)
  | .search => (tailsOf s.toList).any (fun u => !(reRems items u).isEmpty)

/-! ### `_precedence` -/

mutual
def precedence : Spec → Nat
  | .tuple items => precedenceL items
  | .fset items => precedenceL items
  | .ty _ => 2
  | .lit _ | .list _ | .set _ | .dict _ => 0
  | _ => 1                   -- everything with a `glomit` (T included) or callable
def precedenceL : List Spec → Nat
  | [] => 0
  | s :: ss => max (precedence s) (precedenceL ss)
end

/-- indices of the spec keys in `required` -/
def requiredIdx : List (KeyKind × Spec × Spec) → Nat → List Nat
  | [], _ => []
  | (k, ks, _) :: es, i =>
    let inReq := match k with
      | .plain => precedence ks == 0
      | .opt _ => false
      | .req => true
    (if inReq then [i] else []) ++ requiredIdx es (i + 1)

/-- `defaults = {key.key: key.default for Optional keys with a default}` -/
def dictDefaults : List (KeyKind × Spec × Spec) → List (V × Arg)
  | [] => []
  | (.opt (some d), .lit k, _) :: es => (k, d) :: dictDefaults es
  | _ :: es => dictDefaults es

/-! ### loops over the *target* (plain recursion; the spec-recursive part is passed in) -/

inductive AltRes where
  | hit (v : V) (last : Option PyExc)
  | miss (last : Option PyExc)            -- every alternative raised a caught error
  | raise (e : PyExc)                     -- an exception the `except` does not catch
  deriving Repr, DecidableEq

/-- `for item in target: for child in spec: try … break / except GlomError as e: last_error = e /
    else: …` -/
def itemsLoop (env : Env) (specEmpty : Bool) (alts : V → Option PyExc → AltRes × Log) :
    List V → Option PyExc → Except PyExc (List V) × Log
  | [], _ => (.ok [], [])
  | it :: its, last =>
    let r := alts it last
    match r.1 with
    | .hit v last' =>
      let r2 := itemsLoop env specEmpty alts its last'
      (r2.1.map (v :: ·), r.2 ++ r2.2)
    | .miss last' =>
      if specEmpty then (.error (raiseAt env "_glom_match/listlike" 1), r.2)
      else (match last' with
        | some e => (.error e, r.2)
        | none => (.error ⟨"UnboundLocalError"⟩, r.2))
    | .raise e => (.error e, r.2)

inductive FindRes where
  | hit (idx : Nat) (k v : V)
  | miss
  | raise (e : PyExc)
  deriving Repr, DecidableEq

def listRemove (xs : List Nat) (i : Nat) : List Nat := xs.filter (· != i)

/-- `for key, val in target.items(): for maybe_spec_key in spec_keys: … else: raise MatchError` -/
def dictLoop (env : Env) (find : V → V → FindRes × Log) :
    List (V × V) → List (V × V) → List Nat → Except PyExc (List (V × V) × List Nat) × Log
  | [], result, required => (.ok (result, required), [])
  | (k, v) :: rest, result, required =>
    let r := find k v
    match r.1 with
    | .hit i k' v' =>
      let r2 := dictLoop env find rest (dictSet result k' v') (listRemove required i)
      (r2.1, r.2 ++ r2.2)
    | .miss => (.error (raiseAt env "_handle_dict" 1), r.2)
    | .raise e => (.error e, r.2)

/-- `for key in set(defaults) - set(result): result[key] = arg_val(target, defaults[key], scope)` -/
def fillDefaults (target : V) : List (V × Arg) → List (V × V) → Except PyExc (List (V × V))
  | [], result => .ok result
  | (k, d) :: ds, result =>
    if dictHas result k then fillDefaults target ds result
    else match argVal d target with
      | .ok v => fillDefaults target ds (dictSet result k v)
      | .error e => .error e

/-- `type(spec)(result)` for set / frozenset specs: unhashable results raise TypeError -/
def mkSetLike (frozen : Bool) (xs : List V) : Res :=
  if xs.all V.hashable then .ok (if frozen then .fset (dedupEq [] xs) else .set (dedupEq [] xs))
  else .error ⟨"TypeError"⟩

/-- the constant of an `Optional(k)` key (its `glomit` compares with `!=`) -/
def optKey : KeyKind → Spec → Option V
  | .opt _, .lit k => some k
  | _, _ => none

/-! ### the evaluator -/

mutual
def eval (env : Env) : Spec → V → Out
  -- `type(spec) is TType` ---------------------------------------------------
  | .t e, t => (tRes e t, [])
  -- `_has_callable_glomit(spec)` ---------------------------------------------
  | .val v, _ => (.ok v, [])
  | .mtype, t =>
    if truthy t then (.ok t, []) else (.error (raiseAt env "_MType.glomit" 0), [])
  | .msub e, t =>
    (match tRes e t with
     | .error x => (.error x, [])
     | .ok m => if truthy m then (.ok t, []) else (.error (raiseAt env "_MSubspec.glomit" 0), []))
  | .mexpr l op r, t => (mexprGlomit env l op r t, [])
  | .and cs d, t => boolGlomit env d t (evalAnd env cs t t)
  | .or cs d, t => boolGlomit env d t (evalOr env cs t)
  | .not c, t =>
    let r := eval env c t
    (match r.1 with
     | .ok _ => (.error (raiseAt env "Not.glomit" 0), r.2)
     | .error e => if catchesAt env "Not.glomit" 0 e then (.ok t, r.2) else (.error e, r.2))
  | .switch cases d, t => evalSwitch env cases d t
  | .check a, t =>
    (match checkInit a with
     | .error e => (.error e, [])
     | .ok o => checkGlomit env o t)
  | .regex items f, t =>
    (match t with
     | .str s => if reMatches items f s then (.ok t, []) else (.error (raiseAt env "Regex.glomit" 1), [])
     | _ => (.error (raiseAt env "Regex.glomit" 0), []))
  | .matchS s d, t =>
    let r := eval env s t
    (match r.1 with
     | .ok _ => r
     | .error e =>
       if catchesAt env "Match.glomit" 0 e then
         (match d with
          | some a => (argVal a t, r.2)
          | none => r)
       else r)
  -- the mode function `_glom_match` -------------------------------------------
  | .ty n, t =>
    if isInst env.cls t n then (.ok t, []) else (.error (raiseAt env "_glom_match/type" 0), [])
  | .dict es, t =>
    (match t.unsub with
     | .dict items =>
       let r := dictLoop env (dictFind env es 0) items [] (requiredIdx es 0)
       (match r.1 with
        | .error e => (.error e, r.2)
        | .ok (result, required) =>
          match fillDefaults t (dictDefaults es) result with
          | .error e => (.error e, r.2)
          | .ok result' =>
            if required.isEmpty then (.ok (.dict result'), r.2)
            else (.error (raiseAt env "_handle_dict" 2), r.2))
     | _ => (.error (raiseAt env "_handle_dict" 0), []))
  | .list alts, t =>
    (match t.unsub with
     | .list items =>
       let r := itemsLoop env alts.isEmpty (evalAlts env alts) items none
       (r.1.map V.list, r.2)
     | _ => (.error (raiseAt env "_glom_match/listlike" 0), []))
  | .set alts, t =>
    (match t.unsub with
     | .set items =>
       let r := itemsLoop env alts.isEmpty (evalAlts env alts) items none
       (r.1.bind (mkSetLike false), r.2)
     | _ => (.error (raiseAt env "_glom_match/listlike" 0), []))
  | .fset alts, t =>
    (match t.unsub with
     | .fset items =>
       let r := itemsLoop env alts.isEmpty (evalAlts env alts) items none
       (r.1.bind (mkSetLike true), r.2)
     | _ => (.error (raiseAt env "_glom_match/listlike" 0), []))
  | .tuple ps, t =>
    (match t.unsub with
     | .tuple items =>
       if items.length != ps.length then (.error (raiseAt env "_glom_match/tuple" 1), [])
       else
         let r := evalZip env ps items
         (r.1.map V.tuple, r.2)
     | _ => (.error (raiseAt env "_glom_match/tuple" 0), []))
  | .pred id fn, t =>
    (match predApply fn t with
     | .ret v =>
       if truthy v then (.ok t, [id]) else (.error (raiseAt env "_glom_match/callable" 1), [id])
     | .raise c =>
       if catchesAt env "_glom_match/callable" 0 ⟨c⟩ then
         (.error (raiseAt env "_glom_match/callable" 0), [id])
       else (.error ⟨c⟩, [id]))
  | .lit v, t =>
    if pyEq t v then (.ok t, []) else (.error (raiseAt env "_glom_match/ne" 0), [])

/-- `And._glomit`: `result = target; for child in children: result = glom(target, child)` -/
def evalAnd (env : Env) : List Spec → V → V → Out
  | [], _, result => (.ok result, [])
  | c :: cs, t, _ =>
    let r := eval env c t
    match r.1 with
    | .ok v =>
      let r2 := evalAnd env cs t v
      (r2.1, r.2 ++ r2.2)
    | .error e => (.error e, r.2)

/-- `Or._glomit`: children[:-1] inside `try … except GlomError: pass`, the last child outside -/
def evalOr (env : Env) : List Spec → V → Out
  | [], _ => (.error ⟨"IndexError"⟩, [])       -- `self.children[-1]` on an empty tuple
  | [c], t => eval env c t
  | c :: c' :: cs, t =>
    let r := eval env c t
    match r.1 with
    | .ok _ => r
    | .error e =>
      if catchesAt env "Or._glomit" 0 e then
        let r2 := evalOr env (c' :: cs) t
        (r2.1, r.2 ++ r2.2)
      else r

/-- `Switch.glomit` -/
def evalSwitch (env : Env) : List (Spec × Spec) → Option Arg → V → Out
  | [], d, t =>
    (match d with
     | some a => (argVal a t, [])
     | none => (.error (raiseAt env "Switch.glomit" 0), []))
  | (k, v) :: rest, d, t =>
    let r := eval env k t
    match r.1 with
    | .ok _ =>
      let r2 := eval env v t
      (r2.1, r.2 ++ r2.2)
    | .error e =>
      if catchesAt env "Switch.glomit" 0 e then
        let r2 := evalSwitch env rest d t
        (r2.1, r.2 ++ r2.2)
      else (.error e, r.2)

/-- one target item against the alternatives of a list/set/frozenset spec -/
def evalAlts (env : Env) : List Spec → V → Option PyExc → AltRes × Log
  | [], _, last => (.miss last, [])
  | c :: cs, item, last =>
    let r := eval env c item
    match r.1 with
    | .ok v => (.hit v last, r.2)
    | .error e =>
      if catchesAt env "_glom_match/listlike" 0 e then
        let r2 := evalAlts env cs item (some e)
        (r2.1, r.2 ++ r2.2)
      else (.raise e, r.2)

/-- `for sub_target, sub_spec in zip(target, spec)` (lengths already equal) -/
def evalZip (env : Env) : List Spec → List V → Except PyExc (List V) × Log
  | [], _ => (.ok [], [])
  | _ :: _, [] => (.ok [], [])
  | p :: ps, x :: xs =>
    let r := eval env p x
    match r.1 with
    | .ok v =>
      let r2 := evalZip env ps xs
      (r2.1.map (v :: ·), r.2 ++ r2.2)
    | .error e => (.error e, r.2)

/-- one target (key, value) against the spec keys in spec order -/
def dictFind (env : Env) : List (KeyKind × Spec × Spec) → Nat → V → V → FindRes × Log
  | [], _, _, _ => (.miss, [])
  | (kind, ks, vs) :: es, i, key, val =>
    let kr : Out :=
      match optKey kind ks with
      | some k =>                  -- `Optional.glomit`
        if pyEq key k then (.ok key, []) else (.error (raiseAt env "Optional.glomit" 0), [])
      | none => eval env ks key
    match kr.1 with
    | .ok k' =>
      let vr := eval env vs val
      (match vr.1 with
       | .ok v' => (.hit i k' v', kr.2 ++ vr.2)
       | .error e => (.raise e, kr.2 ++ vr.2))
    | .error e =>
      if catchesAt env "_handle_dict" 0 e then
        let r2 := dictFind env es (i + 1) key val
        (r2.1, kr.2 ++ r2.2)
      else (.raise e, kr.2)
end

/-! ### operator-built trees -/

inductive OpExpr where
  | leaf (s : Spec)
  | band (a b : OpExpr)      -- `a & b`
  | bor (a b : OpExpr)       -- `a | b`
  | inv (a : OpExpr)         -- `~a`
  deriving Repr, Inhabited

/-- the Python class of a spec object, as far as operator lookup is concerned -/
inductive OpClass where
  | and_ | or_ | not_ | mexpr | mtype | msub | plain
  deriving DecidableEq, Repr

def opClass : Spec → OpClass
  | .and .. => .and_
  | .or .. => .or_
  | .not _ => .not_
  | .mexpr .. => .mexpr
  | .mtype => .mtype
  | .msub _ => .msub
  | _ => .plain

/-- the classes (own first, then bases) in which Python looks an operator up -/
def OpClass.mro : OpClass → List String
  | .and_ => ["And", "_Bool"]
  | .or_ => ["Or", "_Bool"]
  | .not_ => ["Not", "_Bool"]
  | .mexpr => ["_MExpr"]
  | .mtype => ["_MType"]
  | .msub => ["_MSubspec"]
  | .plain => []

def specMro (s : Spec) : List String := (opClass s).mro

abbrev OpTable := List (String × String × String)

def findOp (ops : OpTable) (s : Spec) (dunder : String) : Option String :=
  (specMro s).findSome? (fun c =>
    (ops.find? (fun r => r.1 == c && r.2.1 == dunder)).map (·.2.2))

def children? : Spec → Option (List Spec)
  | .and cs _ => some cs
  | .or cs _ => some cs
  | _ => none

def hasDefault : Spec → Bool
  | .and _ (some _) => true
  | .or _ (some _) => true
  | _ => false

/-- `And(*(self.children + (other,)))` (`flatten = true`), read as plain `And(self, other)` when
    `flatten = false`: that is the constructor expression the operator denotes -/
def flatAnd (flatten : Bool) (self other : Spec) : Except PyExc Spec :=
  if flatten then
    (match children? self with
     | some cs => .ok (.and (cs ++ [other]) none)
     | none => .error ⟨"AttributeError"⟩)
  else .ok (.and [self, other] none)

def flatOr (flatten : Bool) (self other : Spec) : Except PyExc Spec :=
  if flatten then
    (match children? self with
     | some cs => .ok (.or (cs ++ [other]) none)
     | none => .error ⟨"AttributeError"⟩)
  else .ok (.or [self, other] none)

/-- what an overload returns, by the shape the extractor found for it -/
def buildShape (flatten : Bool) (shape : String) (self other : Spec) : Except PyExc Spec :=
  if shape == "And(self,other)" then .ok (.and [self, other] none)
  else if shape == "Or(self,other)" then .ok (.or [self, other] none)
  else if shape == "And(*children,other)" then flatAnd flatten self other
  else if shape == "Or(*children,other)" then flatOr flatten self other
  else if shape == "default?And(self,other):And(*children,other)" then
    -- `if self.default is not _MISSING: return And(self, other)`
    (if hasDefault self then .ok (.and [self, other] none) else flatAnd flatten self other)
  else if shape == "default?Or(self,other):Or(*children,other)" then
    (if hasDefault self then .ok (.or [self, other] none) else flatOr flatten self other)
  else if shape == "Not(self)" then .ok (.not self)
  else .error ⟨"NotImplementedError"⟩

/-- `a <op> b`: `type(a).__op__`, else the reflected `type(b).__rop__`, else TypeError -/
def applyBin (env : OpTable) (flatten : Bool) (dunder rdunder : String) (a b : Spec) : Except PyExc Spec :=
  match findOp env a dunder with
  | some shape => buildShape flatten shape a b
  | none =>
    match findOp env b rdunder with
    | some shape => buildShape flatten shape b a
    | none => .error ⟨"TypeError"⟩

def applyInv (env : OpTable) (a : Spec) : Except PyExc Spec :=
  match findOp env a "__invert__" with
  | some shape => buildShape true shape a a
  | none => .error ⟨"TypeError"⟩

/-- the spec object an operator expression evaluates to (`flatten = true`), or
    the nested constructor expression it denotes (`flatten = false`) -/
def build (env : OpTable) (flatten : Bool) : OpExpr → Except PyExc Spec
  | .leaf s => .ok s
  | .band a b =>
    match build env flatten a with
    | .error e => .error e
    | .ok sa =>
      match build env flatten b with
      | .error e => .error e
      | .ok sb => applyBin env flatten "__and__" "__rand__" sa sb
  | .bor a b =>
    match build env flatten a with
    | .error e => .error e
    | .ok sa =>
      match build env flatten b with
      | .error e => .error e
      | .ok sb => applyBin env flatten "__or__" "__ror__" sa sb
  | .inv a =>
    match build env flatten a with
    | .error e => .error e
    | .ok sa => applyInv env sa

/-! ### operands that are objects which exist already; programs over spec objects

  `base = (M > 0) & (M < 100); glom(5, base); ext = base & (M < 3); glom(5, ext)`:
  a statement binds the object an operator expression evaluates to, later expressions
  take that very OBJECT as an operand (`use i`), evaluations happen in between.  The
  heap of spec objects is a list of `Spec` values: `_Bool`, `Not`, `_MExpr`, … write
  their attributes only in `__init__` (facts obligation `c10_specs_immutable`), the
  operators read `children` / `default` and build a new object, and `glomit` reads
  only — so an evaluation step leaves the heap as it is, and an operator sees of its
  operand exactly the `Spec` value it was built as. -/

inductive OpExprX where
  | leaf (s : Spec)
  | use (i : Nat)              -- the object bound by the i-th `bind` step
  | band (a b : OpExprX)
  | bor (a b : OpExprX)
  | inv (a : OpExprX)
  deriving Repr, Inhabited

/-- every `use i` replaced by the expression `f i` -/
def OpExprX.subst (f : Nat → OpExpr) : OpExprX → OpExpr
  | .leaf s => .leaf s
  | .use i => f i
  | .band a b => .band (a.subst f) (b.subst f)
  | .bor a b => .bor (a.subst f) (b.subst f)
  | .inv a => .inv (a.subst f)

def OpExprX.uses : OpExprX → List Nat
  | .leaf _ => []
  | .use i => [i]
  | .band a b | .bor a b => a.uses ++ b.uses
  | .inv a => a.uses

def OpExprX.leaves : OpExprX → List Spec
  | .leaf s => [s]
  | .use _ => []
  | .band a b | .bor a b => a.leaves ++ b.leaves
  | .inv a => a.leaves

/-- one statement of a program -/
inductive Step where
  | bind (e : OpExprX)          -- `x_n = e`   (n = number of objects bound so far)
  | eval (i : Nat) (t : V)      -- `glom(t, Match(x_i))`
  deriving Repr, Inhabited

/-- the i-th object of the heap (a name that is not bound does not occur in a decoded program) -/
def objAt (objs : List Spec) (i : Nat) : Spec := objs.getD i .mtype

/-- the expression an earlier statement bound, with its own uses inlined -/
def defAt (defs : List OpExpr) (i : Nat) : OpExpr := defs.getD i (.leaf .mtype)

/-- `x_n = e` on the heap `objs`: the operators are applied to the objects themselves -/
def bindObj (tbl : OpTable) (objs : List Spec) (e : OpExprX) : Except PyExc Spec :=
  build tbl true (e.subst (fun i => .leaf (objAt objs i)))

/-! ### copies of a spec: `copy.deepcopy(spec)`, `pickle.loads(pickle.dumps(spec))`

  A deep copy rebuilds every node of the spec from the attribute values of the original —
  *including* the marker objects that stand for "no default given" (`_MISSING` in Match / And / Or /
  Switch / Optional, `RAISE` in Check), which the `glomit` methods recognise by identity.  What the
  copy of such an attribute *is* comes from the extracted table `identityMarkers` (marker, way of
  copying, is the copy the marker itself?): when the marker survives, the slot is still "absent";
  when it does not, the slot holds an ordinary object, i.e. a default that is present.
  (A shallow `copy.copy` rebuilds the top node only and keeps the attribute objects themselves.) -/

/-- does `how` (`"deepcopy"` / `"pickle"`) map the marker to itself? -/
def markerKept (ids : List (String × String × Bool)) (marker how : String) : Bool :=
  ids.contains (marker, how, true)

/-- the copy of a `default=` slot -/
def copyDflt (kept : Bool) (marker : String) : Option Arg → Option Arg
  | some a => some a
  | none => if kept then none else some (.const (.obj marker))

def copyKind (km : Bool) : KeyKind → KeyKind
  | .opt d => .opt (copyDflt km "_MISSING" d)
  | k => k

mutual
/-- `km`: `_MISSING` survives the copy, `kr`: `RAISE` does -/
def deepCopy (km kr : Bool) : Spec → Spec
  | .and cs d => .and (deepCopyL km kr cs) (copyDflt km "_MISSING" d)
  | .or cs d => .or (deepCopyL km kr cs) (copyDflt km "_MISSING" d)
  | .not c => .not (deepCopy km kr c)
  | .switch cases d => .switch (deepCopyC km kr cases) (copyDflt km "_MISSING" d)
  | .check a => .check { a with default := copyDflt kr "RAISE" a.default }
  | .matchS s d => .matchS (deepCopy km kr s) (copyDflt km "_MISSING" d)
  | .list cs => .list (deepCopyL km kr cs)
  | .set cs => .set (deepCopyL km kr cs)
  | .fset cs => .fset (deepCopyL km kr cs)
  | .tuple cs => .tuple (deepCopyL km kr cs)
  | .dict es => .dict (deepCopyD km kr es)
  | s => s                               -- leaves: rebuilt from equal attribute values
def deepCopyL (km kr : Bool) : List Spec → List Spec
  | [] => []
  | s :: ss => deepCopy km kr s :: deepCopyL km kr ss
def deepCopyC (km kr : Bool) : List (Spec × Spec) → List (Spec × Spec)
  | [] => []
  | (k, v) :: r => (deepCopy km kr k, deepCopy km kr v) :: deepCopyC km kr r
def deepCopyD (km kr : Bool) : List (KeyKind × Spec × Spec) → List (KeyKind × Spec × Spec)
  | [] => []
  | (kind, k, v) :: r => (copyKind km kind, deepCopy km kr k, deepCopy km kr v) :: deepCopyD km kr r
end

/-- `how(spec)` for the marker table `ids` -/
def copySpec (ids : List (String × String × Bool)) (how : String) (s : Spec) : Spec :=
  if how == "copy" then s
  else deepCopy (markerKept ids "_MISSING" how) (markerKept ids "RAISE" how) s

/-! ### constructor errors (inner expressions first, left to right) -/

/- can the spec object be hashed (used as a dict key / set member)?  lists, sets, dicts are
   not; `M` and `M(…)` define `__eq__` without `__hash__` -/
mutual
def hashableSpec : Spec → Bool
  | .lit v => v.hashable
  | .list _ | .set _ | .dict _ | .mtype | .msub _ => false
  | .tuple cs | .fset cs => hashableSpecL cs
  | _ => true
def hashableSpecL : List Spec → Bool
  | [] => true
  | s :: ss => hashableSpec s && hashableSpecL ss
end

mutual
def ctorErr : Spec → Option PyExc
  | .and cs _ => (ctorErrL cs).orElse (fun _ => if cs.isEmpty then some ⟨"ValueError"⟩ else none)
  | .or cs _ => (ctorErrL cs).orElse (fun _ => if cs.isEmpty then some ⟨"ValueError"⟩ else none)
  | .not c => ctorErr c
  | .switch cases _ =>
    (ctorErrC cases).orElse (fun _ => if cases.isEmpty then some ⟨"ValueError"⟩ else none)
  | .check a => match checkInit a with | .error e => some e | .ok _ => none
  | .matchS s _ => ctorErr s
  | .list cs | .tuple cs => ctorErrL cs
  | .set cs | .fset cs =>
    (ctorErrL cs).orElse (fun _ => if hashableSpecL cs then none else some ⟨"TypeError"⟩)
  | .dict es => ctorErrD es
  | _ => none
def ctorErrL : List Spec → Option PyExc
  | [] => none
  | s :: ss => (ctorErr s).orElse (fun _ => ctorErrL ss)
def ctorErrC : List (Spec × Spec) → Option PyExc
  | [] => none
  | (k, v) :: r => ((ctorErr k).orElse (fun _ => ctorErr v)).orElse (fun _ => ctorErrC r)
def ctorErrD : List (KeyKind × Spec × Spec) → Option PyExc
  | [] => none
  | (kind, k, v) :: r =>
    (((ctorErr k).orElse (fun _ =>
      -- `hash(key)` in Optional / Required, or when the dict display is built
      if !hashableSpec k then some ⟨"TypeError"⟩ else
      match kind with
      | .plain => none
      | .opt _ => if precedence k != 0 then some ⟨"ValueError"⟩ else none
      | .req => if precedence k == 0 then some ⟨"ValueError"⟩ else none)).orElse
      (fun _ => ctorErr v)).orElse (fun _ => ctorErrD r)
end

end Glom.C10
