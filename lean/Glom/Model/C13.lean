/-
  C13 — code-shaped model of `TargetRegistry` (glom/core.py) and of the registries a
  process holds (module default registry, `Glommer` instances, bare registries).

  Mirrors glom/core.py:
    * state               → `Reg`  (`_op_type_map`, `_op_type_tree`, `_type_cache`, `_op_auto_map`;
                                    every mapping is an insertion-ordered association list with
                                    Python's dict semantics: assignment to an existing key keeps its
                                    position, a new key is appended, `pop` removes)
    * `_op_type_tree[op]`  → `Forest` (an ordered forest; first-child / next-sibling encoding, i.e.
                                    `cons ty kids rest` is the OrderedDict item `ty: kids` followed by
                                    the remaining items `rest`)
    * `_register_fuzzy_type` → `regLoop` / `regFuzzy` — the loop over the *snapshot*
                                    `list(_type_tree.items())` while `_type_tree` itself is mutated
                                    (`pop`, `_type_tree[new_type][cur_type] = sub_tree`, the KeyError
                                    fallback `_type_tree[new_type] = OrderedDict({cur_type: sub_tree})`,
                                    the recursive `elif` branch, the final `if not registered and
                                    new_type not in _type_tree`)
    * `register`           → `register`   (the two loops; handler from kwargs, else inherited from an
                                    existing entry, else auto-discovered; `if not exact`; memo reset)
    * `register_op`        → `registerOp` (ends with the memo reset)
    * `_get_matching_types`, `_get_closest_type`
                           → `matching` / `dropSupers` / `closest` (deepest match of every branch;
                                    drop candidates that are strict superclasses of another one;
                                    `min(candidates, key=mro.index or len(mro))`, first minimum wins)
    * `get_handler`        → `getHandler` (memo hit first; `if type_map:`; exact hit; tree; `ret is
                                    False and raise_exc`; memo write)
    * `TargetRegistry.__init__`, `_register_builtin_ops`, `_register_default_types`,
      the module-level `register_op('assign' / 'delete')` of glom/mutation.py, `Glommer.__init__`
                           → `freshReg`, `moduleReg` over the *extracted* registration sequences.

  The class hierarchy is a parameter (`Hier`): `mro` (C3 linearisation as computed by Python),
  `inst t c` (`isinstance(x, c)` for `type(x) is t`), `sub c d` (`issubclass(c, d)`), `auto f t`
  (what the auto-discovery function named `f` returns for type `t`).

    * the TypeError paths of `register` / `register_op`
                           → `registerChecked` / `registerOpChecked` / `Action.badCall`: a call is
                                    validated first (`firstInvalid` over the handlers the first loop
                                    of `register` picks; `firstInvalidAuto` over the auto-discovered
                                    handlers of the known types without an entry) and either rejected
                                    — an error and
                                    the SAME state — or applied (`register` / `registerOp`).  That the
                                    code has this two-phase shape is the extracted facts
                                    `c13RegisterWritesAfterLastRaise` / `c13RegisterOpWritesAfterLastRaise`.
    * the memo of failed lookups → `getHandlerV storeMisses`: the code that exists raises
                                    UnregisteredTarget *before* the memo write on the miss path and
                                    answers a memo hit through the same `if ret is False and raise_exc`
                                    test (`getHandler` = `getHandlerV false`; extracted facts
                                    `c13MemoStoresOnlySuccess` — read: no store before a raise; a `False`
                                    IS stored under `raise_exc=False` — and `c13MemoHitRaises`); the
                                    variant that also memoises the failure is `getHandlerV true` (the
                                    driver replays whichever the facts say); `getHandlerHitReturns` is
                                    the code before 8b51f6e.
    * `register_op`'s `known_types` → since 165f0ee a *list* in registration order (first occurrence
                                    over the per-op tables) = `Reg.knownTypes`; `registerOpD` passes it
                                    as the `order` of `registerOp` (extracted fact
                                    `c13KnownTypesOrdered`); before, a set — an order the model took as a
                                    parameter.

  Stated modelling bounds: a value that `register` / `register_op` reject (neither `False` nor
  callable; an auto-discovery function that raises) is written as a handler with a *reserved name*
  (`invalidNames`: `"!bad"`, `"!bad:0"`, `"!bad:none"`, `"!raise"`); such values never enter a registry (`registerChecked`).
  `register_op` iterates `known_types` — since 165f0ee a list in registration order
  (`registerOpD`: `order = Reg.knownTypes`), before that a *set*, whose order depends on object
  addresses; the order is an explicit parameter (`order`) of `registerOp` (the theorems hold for
  every order; `runD` / `canonActs` run a history with the order the code uses); `sorted(...)` orders in
  `register`/`register_op` only decide which error is raised first and the internal order of
  `_op_type_map`, neither of which a lookup can observe, so the model iterates in the given order
  (only the *reported* offending op / type follows the sorted order).  The validation loop of
  `register` executes `self._op_type_map.setdefault(op_name, OrderedDict())` before a possible
  `raise`: a missing per-op table and an empty one are the same state in the model (`Reg.map`).

  No Mathlib, computable, total (structural recursion only).
-/
namespace Glom.C13

abbrev Ty := String
abbrev Op := String
/-- a handler: `none` is Python's `False` ("not supported"), `some tag` a callable -/
abbrev Handler := Option String

structure Hier where
  mro  : Ty → List Ty
  inst : Ty → Ty → Bool
  sub  : Ty → Ty → Bool
  auto : String → Ty → Handler

/-! ### insertion-ordered dicts -/

def odGet {α β} [BEq α] (k : α) : List (α × β) → Option β
  | [] => none
  | (k', v) :: r => if k' == k then some v else odGet k r

/-- `d[k] = v`: in place when the key exists, appended otherwise -/
def odSet {α β} [BEq α] (k : α) (v : β) : List (α × β) → List (α × β)
  | [] => [(k, v)]
  | (k', v') :: r => if k' == k then (k', v) :: r else (k', v') :: odSet k v r

/-- a handler as the extractor / harness names it -/
def hOfName (s : String) : Handler := if s == "False" then none else some s

/-- a hierarchy given by finite tables (what Python's `__mro__`, `isinstance`, `issubclass` and the
    auto-discovery functions answered), taken literally: `issubclass(C, C)` is *not* assumed
    (it is False for glom's `_AbstractIterable`, whose `__subclasshook__` answers for itself).
    Outside the tables nothing holds. -/
structure HierTab where
  mro  : List (Ty × List Ty)
  inst : List (Ty × Ty)
  sub  : List (Ty × Ty)
  auto : List (String × List (Ty × String))
  deriving Repr

def HierTab.toHier (T : HierTab) : Hier where
  mro t := (odGet t T.mro).getD []
  inst t c := T.inst.contains (t, c)
  sub c d := T.sub.contains (c, d)
  auto f t := match odGet f T.auto with
    | some rows => (match odGet t rows with
      | some n => hOfName n
      | none => none)
    | none => none

/-! ### the type tree -/

inductive Forest where
  | nil
  | cons (ty : Ty) (kids : Forest) (rest : Forest)
  deriving DecidableEq, Repr, Inhabited

namespace Forest

def get? : Forest → Ty → Option Forest
  | nil, _ => none
  | cons c kids rest, k => if c == k then some kids else get? rest k

/-- `tree[k] = v` -/
def set : Forest → Ty → Forest → Forest
  | nil, k, v => cons k v nil
  | cons c kids rest, k, v => if c == k then cons c v rest else cons c kids (set rest k v)

/-- `tree.pop(k)` — the remaining items -/
def erase : Forest → Ty → Forest
  | nil, _ => nil
  | cons c kids rest, k => if c == k then rest else cons c kids (erase rest k)

def roots : Forest → List Ty
  | nil => []
  | cons c _ rest => c :: roots rest

def nodes : Forest → List Ty
  | nil => []
  | cons c kids rest => c :: (nodes kids ++ nodes rest)

/-- nesting depth of the tree (`_get_matching_types` recurses once per level) -/
def depth : Forest → Nat
  | nil => 0
  | cons _ kids rest => max (depth kids + 1) (depth rest)

/-- `{t: {t: … {t: {}}}}` with `n + 1` levels -/
def nestSelf (t : Ty) : Nat → Forest
  | 0 => cons t nil nil
  | n + 1 => cons t (nestSelf t n) nil

end Forest

/-- the end of `_register_fuzzy_type`:
    `if not registered and new_type not in _type_tree: _type_tree[new_type] = OrderedDict()` -/
def regFinish (new : Ty) (r : Forest × Bool) : Forest :=
  if r.2 then r.1 else if (r.1.get? new).isSome then r.1 else r.1.set new .nil

/-- the `for cur_type, sub_tree in list(_type_tree.items())` loop of `_register_fuzzy_type`.
    `snap` is what is left of the snapshot, `cur` the dict being mutated, the Bool is `registered`.
    Since 63b9f8a the loop starts with `if cur_type is new_type:` — a re-registration: the type keeps
    its subtree and moves to the end (`_type_tree[new_type] = _type_tree.pop(cur_type)`). -/
def regLoop (H : Hier) (new : Ty) : Forest → Forest → Bool → Forest × Bool
  | .nil, cur, reg => (cur, reg)
  | .cons c kids rest, cur, reg =>
    if c == new then
      -- _type_tree[new_type] = _type_tree.pop(cur_type)
      regLoop H new rest ((cur.erase c).set new ((cur.get? c).getD .nil)) true
    else if H.sub c new then
      -- sub_tree = _type_tree.pop(cur_type)
      let subTree := (cur.get? c).getD .nil
      let cur1 := cur.erase c
      -- try: _type_tree[new_type][cur_type] = sub_tree
      -- except KeyError: _type_tree[new_type] = OrderedDict({cur_type: sub_tree})
      let cur2 := match cur1.get? new with
        | some newKids => cur1.set new (newKids.set c subTree)
        | none => cur1.set new (.cons c subTree .nil)
      regLoop H new rest cur2 true
    else if H.sub new c then
      -- _type_tree[cur_type] = self._register_fuzzy_type(op, new_type, _type_tree=sub_tree)
      regLoop H new rest (cur.set c (regFinish new (regLoop H new kids kids false))) true
    else regLoop H new rest cur reg

/-- `_register_fuzzy_type(op, new_type, _type_tree=tree)` -/
def regFuzzy (H : Hier) (new : Ty) (tree : Forest) : Forest :=
  regFinish new (regLoop H new tree tree false)

/-- the loop as it was before 63b9f8a (finding F42): an existing key `new` was treated as "a subclass
    of the new type" (`issubclass(T, T)`), popped and — KeyError fallback — filed below a *new* key of
    the same type.  Kept for the counter-example `c13_reregistration_nests`. -/
def regLoopOld (H : Hier) (new : Ty) : Forest → Forest → Bool → Forest × Bool
  | .nil, cur, reg => (cur, reg)
  | .cons c kids rest, cur, reg =>
    if H.sub c new then
      let subTree := (cur.get? c).getD .nil
      let cur1 := cur.erase c
      let cur2 := match cur1.get? new with
        | some newKids => cur1.set new (newKids.set c subTree)
        | none => cur1.set new (.cons c subTree .nil)
      regLoopOld H new rest cur2 true
    else if H.sub new c then
      regLoopOld H new rest (cur.set c (regFinish new (regLoopOld H new kids kids false))) true
    else regLoopOld H new rest cur reg

def regFuzzyOld (H : Hier) (new : Ty) (tree : Forest) : Forest :=
  regFinish new (regLoopOld H new tree tree false)

/-- the type tree of one op after the types of `order` were registered for it in that order without
    `exact=True`: `_register_fuzzy_type` applied to each in turn, starting from the empty dict -/
def insertAll (H : Hier) (order : List Ty) : Forest :=
  order.foldl (fun tr t => regFuzzy H t tr) .nil

/-! ### `_get_closest_type` -/

/-- `mro.index(t) if t in mro else len(mro)` -/
def key (H : Hier) (t c : Ty) : Nat := (H.mro t).idxOf c

/-- `min(xs, key=…)` given the current best: the first minimal element wins -/
def pickMinAux (H : Hier) (t : Ty) (best : Ty) : List Ty → Ty
  | [] => best
  | x :: xs => if key H t x < key H t best then pickMinAux H t x xs else pickMinAux H t best xs

def pickMin (H : Hier) (t : Ty) : List Ty → Option Ty
  | [] => none
  | x :: xs => some (pickMinAux H t x xs)

/-- `_get_matching_types`: the deepest types of the tree, down every branch, that an object of
    type `t` is an instance of (`ret.extend(self._get_matching_types(obj, sub_tree) or [cur_type])`) -/
def matching (H : Hier) (t : Ty) : Forest → List Ty
  | .nil => []
  | .cons c kids rest =>
    if H.inst t c then
      (match matching H t kids with
        | [] => [c]
        | l => l) ++ matching H t rest
    else matching H t rest

/-- `[c for c in candidates if not any(o is not c and issubclass(o, c) for o in candidates)]` -/
def dropSupers (H : Hier) (cands : List Ty) : List Ty :=
  cands.filter (fun c => !(cands.any (fun o => o != c && H.sub o c)))

/-- `_get_closest_type(obj, type_tree)` -/
def closest (H : Hier) (t : Ty) (tree : Forest) : Option Ty :=
  pickMin H t (dropSupers H (matching H t tree))

/-! ### the registry -/

structure Reg where
  typeMap  : List (Op × List (Ty × Handler)) := []
  typeTree : List (Op × Forest) := []
  cache    : List ((Ty × Op) × Handler) := []
  autoMap  : List (Op × String) := []
  deriving Repr, Inhabited, DecidableEq

def Reg.map (r : Reg) (op : Op) : List (Ty × Handler) := (odGet op r.typeMap).getD []
def Reg.tree (r : Reg) (op : Op) : Forest := (odGet op r.typeTree).getD .nil

/-- keys of `dict(kwargs)` updated in the order the first loop of `register` assigns them:
    existing keys keep their position, new ones are appended -/
def opsOf (autoOps : List Op) (kw : List (Op × Handler)) : List Op :=
  (kw.map (·.1) ++ autoOps).eraseDups

/-- the handler `register` stores for `op`: the keyword argument, else the handler already
    registered for the type, else the auto-discovered one -/
def pickHandler (H : Hier) (typeMap : List (Op × List (Ty × Handler))) (autoMap : List (Op × String))
    (t : Ty) (kw : List (Op × Handler)) (op : Op) : Handler :=
  match odGet op kw with
  | some h => h
  | none =>
    match odGet t ((odGet op typeMap).getD []) with
    | some h => h
    | none =>
      match odGet op autoMap with
      | some f => H.auto f t
      | none => none     -- unreachable: op comes from kwargs or from `_op_auto_map`

/-- first loop of `register`: `new_op_map` (reads the maps as they are on entry) -/
def newOpMap (H : Hier) (typeMap : List (Op × List (Ty × Handler))) (autoMap : List (Op × String))
    (t : Ty) (kw : List (Op × Handler)) : List (Op × Handler) :=
  (opsOf (autoMap.map (·.1)) kw).map (fun op => (op, pickHandler H typeMap autoMap t kw op))

/-- second loop of `register`: `self._op_type_map[op_name][target_type] = handler` -/
def setHandlers (typeMap : List (Op × List (Ty × Handler))) (t : Ty) (newMap : List (Op × Handler)) :
    List (Op × List (Ty × Handler)) :=
  newMap.foldl (fun tm p => odSet p.1 (odSet t p.2 ((odGet p.1 tm).getD [])) tm) typeMap

/-- `TargetRegistry.register(target_type, exact=exact, **kw)` -/
def register (H : Hier) (r : Reg) (t : Ty) (exact : Bool) (kw : List (Op × Handler)) : Reg :=
  let newMap := newOpMap H r.typeMap r.autoMap t kw
  -- if not exact: for op_name in new_op_map: self._register_fuzzy_type(op_name, target_type)
  let tt := if exact then r.typeTree else
    newMap.foldl (fun tt p => odSet p.1 (regFuzzy H t ((odGet p.1 tt).getD .nil)) tt) r.typeTree
  { r with typeMap := setHandlers r.typeMap t newMap, typeTree := tt, cache := [] }

/-! ### the TypeError paths: validate, then write -/

/-- reserved handler names: values `register` / `register_op` refuse (`"!bad"`: neither `False`
    nor callable; `"!raise"`: the auto-discovery function raised) -/
def invalidNames : List String := ["!bad", "!bad:0", "!bad:none", "!raise"]

def invalidH : Handler → Bool
  | some s => invalidNames.contains s
  | none => false

inductive RegError where
  | notAType                  -- `register expected a type, not an instance`
  | badHandler (op : Op)      -- `expected handler for op … to be callable or False` / auto func raised
  | badAuto (ty : Ty)         -- `register_op`: the auto function raised / returned a non-callable for `ty`
  | badOpName                 -- `expected op_name to be a text name`
  | badAutoFunc               -- `expected auto_func to be callable`
  deriving Repr, DecidableEq

/-- an op whose picked handler `register` refuses (the code reports the first one in `sorted`
    order, the model the first one in the given order: which one is named is not observed) -/
def firstInvalid (newMap : List (Op × Handler)) : Option Op :=
  (newMap.find? (fun p => invalidH p.2)).map (·.1)

/-- `TargetRegistry.register(target_type, exact=exact, **kw)` with its TypeError path: the first
    loop (validation; reads the maps as they are on entry) either raises — nothing has been
    written — or completes, and only then the tables, the trees and the memo are written. -/
def registerChecked (H : Hier) (r : Reg) (t : Ty) (exact : Bool) (kw : List (Op × Handler)) :
    Reg × Option RegError :=
  match firstInvalid (newOpMap H r.typeMap r.autoMap t kw) with
  | some op => (r, some (.badHandler op))
  | none => (register H r t exact kw, none)

/-- every type that is a key of some per-op map (`known_types`, as a duplicate-free list in
    first-occurrence order; Python builds a *set* of them) -/
def knownTypesOf (typeMap : List (Op × List (Ty × Handler))) : List Ty :=
  (typeMap.flatMap (fun p => p.2.map (·.1))).eraseDups

def Reg.knownTypes (r : Reg) : List Ty := knownTypesOf r.typeMap

/-- the loop of `register_op` that determines support for the previously known types -/
def fillAuto (H : Hier) (auto : String) (order : List Ty) (tmap : List (Ty × Handler)) :
    List (Ty × Handler) :=
  order.foldl (fun m t =>
      match odGet t m with
      | some _ => m
      | none => odSet t (H.auto auto t) m) tmap

/-- `TargetRegistry.register_op(op_name, auto_func, exact)`; `order` is the iteration order of
    the set `known_types`; ends with the memo reset. -/
def registerOp (H : Hier) (r : Reg) (op : Op) (auto : String) (exact : Bool) (order : List Ty) : Reg :=
  let tree := if exact then r.tree op else order.foldl (fun tr t => regFuzzy H t tr) (r.tree op)
  { r with typeMap := odSet op (fillAuto H auto order (r.map op)) r.typeMap,
           typeTree := odSet op tree r.typeTree,
           autoMap := odSet op auto r.autoMap,
           cache := [] }

/-- `register_op` as coded since 165f0ee: `known_types = list(OrderedDict.fromkeys(t for m in
    self._op_type_map.values() for t in m))` — the known types in registration order; nothing about
    the call depends on memory addresses any more -/
def registerOpD (H : Hier) (r : Reg) (op : Op) (auto : String) (exact : Bool) : Reg :=
  registerOp H r op auto exact r.knownTypes

/-- a known type without an entry for `op` whose auto-discovered handler `register_op` refuses
    (the code reports the first one in `sorted(key=__name__)` order) -/
def firstInvalidAuto (H : Hier) (auto : String) (order : List Ty) (tmap : List (Ty × Handler)) :
    Option Ty :=
  order.find? (fun t => (odGet t tmap).isNone && invalidH (H.auto auto t))

/-- `register_op` with its TypeError path (validate every known type, then write) -/
def registerOpChecked (H : Hier) (r : Reg) (op : Op) (auto : String) (exact : Bool)
    (order : List Ty) : Reg × Option RegError :=
  match firstInvalidAuto H auto order (r.map op) with
  | some t => (r, some (.badAuto t))
  | none => (registerOp H r op auto exact order, none)

inductive Answer where
  | ret (h : Handler)        -- the returned handler (`none` = `False`)
  | unregistered             -- UnregisteredTarget raised
  | keyError                 -- `type_map[closest]` failed (shown unreachable)
  deriving DecidableEq, Repr, Inhabited

/-- the un-memoised part of `get_handler`: `ret` before the `raise`/memo write -/
def resolve (H : Hier) (r : Reg) (op : Op) (t : Ty) : Option Handler :=
  let typeMap := r.map op
  if typeMap.isEmpty then some none          -- `if type_map:` is false → ret = False
  else
    match odGet t typeMap with
    | some h => some h                       -- ret = type_map[obj_type]
    | none =>
      match closest H t (r.tree op) with
      | none => some none                    -- closest is None → ret = False
      | some c => odGet c typeMap            -- ret = type_map[closest]  (`none` here = KeyError)

/-- what `get_handler` answers once it knows the handler: `if ret is False and raise_exc: raise
    UnregisteredTarget(…)`, else `return ret` — the same on the miss path and (since 8b51f6e) on
    the memo-hit path -/
def answerOf (h : Handler) (raiseExc : Bool) : Answer :=
  if h.isNone && raiseExc then .unregistered else .ret h

/-- `get_handler(op, obj, raise_exc=raiseExc)` for `type(obj) is t`.
    Miss: resolve; a failed lookup with `raise_exc` raises *before* the memo write; otherwise the
    result — also a `False` under `raise_exc=False` — is stored.  Then (hit or freshly stored)
    `ret = self._type_cache[cache_key]; if ret is False and raise_exc: raise …; return ret`: a `False`
    remembered from a `raise_exc=False` lookup makes a later raising lookup raise, not return it. -/
def getHandler (H : Hier) (r : Reg) (op : Op) (t : Ty) (raiseExc : Bool) : Reg × Answer :=
  match odGet (t, op) r.cache with
  | some h => (r, answerOf h raiseExc)       -- memo hit
  | none =>
    match resolve H r op t with
    | none => (r, .keyError)
    | some h =>
      if h.isNone && raiseExc then (r, .unregistered)
      else ({ r with cache := odSet (t, op) h r.cache }, .ret h)

/-- `get_handler` with the memo policy as a parameter.  `storeMisses = false` is the code that
    exists (`raise` precedes the memo write on the miss path); `true` is the variant that memoises
    the failed lookup as well.  Both answer a memo hit with `answerOf`. -/
def getHandlerV (storeMisses : Bool) (H : Hier) (r : Reg) (op : Op) (t : Ty) (raiseExc : Bool) :
    Reg × Answer :=
  match odGet (t, op) r.cache with
  | some h => (r, answerOf h raiseExc)
  | none =>
    match resolve H r op t with
    | none => (r, .keyError)
    | some h =>
      if h.isNone && raiseExc then
        ((if storeMisses then { r with cache := odSet (t, op) h r.cache } else r), .unregistered)
      else ({ r with cache := odSet (t, op) h r.cache }, .ret h)

/-- `get_handler` as it was before 8b51f6e (finding F41): a memo hit returned whatever was stored, so
    after a `raise_exc=False` lookup had stored `False` a raising lookup of the same type *returned*
    `False` (and `glom(5, [T])` failed with "'bool' object is not callable" instead of
    UnregisteredTarget).  Kept for the counter-example of `c13_lookup_pure`. -/
def getHandlerHitReturns (H : Hier) (r : Reg) (op : Op) (t : Ty) (raiseExc : Bool) : Reg × Answer :=
  match odGet (t, op) r.cache with
  | some h => (r, .ret h)
  | none => getHandler H r op t raiseExc

/-! ### constructing registries from the extracted registration sequences -/

/-- one `self.register(T, op=handler, …)` line of `_register_default_types` -/
structure DefaultReg where
  ty : Ty
  exact : Bool
  kw : List (Op × Handler)
  deriving Repr, DecidableEq

/-- one `register_op(name, auto_func, exact)` call -/
structure OpReg where
  op : Op
  auto : String
  exact : Bool
  deriving Repr, DecidableEq

structure Setup where
  builtinOps : List OpReg        -- `_register_builtin_ops`
  defaults   : List DefaultReg   -- `_register_default_types`
  moduleOps  : List OpReg        -- module-level `register_op(...)` calls of glom/mutation.py
  deriving Repr

/-- `TargetRegistry(register_default_types=d)`.  In `__init__` the ops are registered while no
    type is known, so `known_types` is empty and its order is immaterial. -/
def freshReg (H : Hier) (S : Setup) (d : Bool) : Reg :=
  let r0 := S.builtinOps.foldl (fun r o => registerOp H r o.op o.auto o.exact []) ({} : Reg)
  if d then S.defaults.foldl (fun r x => register H r x.ty x.exact x.kw) r0 else r0

/-- the module-level registry after `import glom`: `TargetRegistry(register_default_types=True)`
    followed by the `register_op` calls of glom/mutation.py; `orders` gives the set iteration
    order of `known_types` at each of those calls -/
def moduleReg (H : Hier) (S : Setup) (orders : List (List Ty)) : Reg :=
  (S.moduleOps.zip orders).foldl (fun r p => registerOp H r p.1.op p.1.auto p.1.exact p.2)
    (freshReg H S true)

/-! ### a process: several registries, one history -/

inductive RegKind where
  | module                       -- the process-wide default registry
  | registry (defaults : Bool)   -- `TargetRegistry(register_default_types=…)`
  | glommer (defaults : Bool)    -- `Glommer(register_default_types=…)`: its own registry
  deriving DecidableEq, Repr

inductive Action where
  | register (reg : Nat) (ty : Ty) (exact : Bool) (kw : List (Op × Handler))
  | registerOp (reg : Nat) (op : Op) (auto : String) (exact : Bool) (order : List Ty)
  | lookup (reg : Nat) (op : Op) (ty : Ty) (raiseExc : Bool)
  /-- a call rejected before it reads anything: `register(<instance>, …)`,
      `register_op(<not a string>, …)`, `register_op(op, auto_func=<not callable>)` -/
  | badCall (reg : Nat) (err : RegError)
  deriving Repr, DecidableEq

/-- the registry each kind starts from.  `Glommer.__init__` builds
    `TargetRegistry(register_default_types=…)` and then calls `registry.register_op(op, auto_func)`
    for every op of the registry it is created from that the new one does not know; those calls
    are ordinary `registerOp` actions at the head of the Glommer's history (`glommerOps`). -/
def mkReg (H : Hier) (S : Setup) (orders : List (List Ty)) : RegKind → Reg
  | .module => moduleReg H S orders
  | .registry d => freshReg H S d
  | .glommer d => freshReg H S d

/-- the `(op, auto_func)` pairs `Glommer.__init__` copies from `base` into `own` -/
def glommerOps (base own : Reg) : List (Op × String) :=
  base.autoMap.filter (fun p => (odGet p.1 own.autoMap).isNone)

def updateAt {α} (f : α → α) : Nat → List α → List α
  | _, [] => []
  | 0, x :: xs => f x :: xs
  | n + 1, x :: xs => x :: updateAt f n xs

/-- run one action; lookups produce an answer -/
def step (H : Hier) (w : List Reg) : Action → List Reg × Option Answer
  | .register i t e kw => (updateAt (fun r => (registerChecked H r t e kw).1) i w, none)
  | .registerOp i op a e ord => (updateAt (fun r => (registerOpChecked H r op a e ord).1) i w, none)
  | .badCall _ _ => (w, none)
  | .lookup i op t re =>
    match w[i]? with
    | none => (w, none)
    | some r =>
      let (r', a) := getHandler H r op t re
      (updateAt (fun _ => r') i w, some a)

def run (H : Hier) : List Reg → List Action → List (Option Answer)
  | _, [] => []
  | w, a :: as => let (w', o) := step H w a; o :: run H w' as

def finalWorld (H : Hier) : List Reg → List Action → List Reg
  | w, [] => w
  | w, a :: as => finalWorld H (step H w a).1 as

/-! ### histories without an environment parameter (since 165f0ee) -/

/-- a `register_op` action with the order the code uses: the known types of its registry in
    registration order (whatever order the action carries is ignored) -/
def Action.canon (w : List Reg) : Action → Action
  | .registerOp i op a e _ => .registerOp i op a e ((w[i]?.map Reg.knownTypes).getD [])
  | a => a

/-- the history with every `register_op` canonised at the moment it runs -/
def canonActs (H : Hier) : List Reg → List Action → List Action
  | _, [] => []
  | w, a :: as => a.canon w :: canonActs H (step H w (a.canon w)).1 as

/-- run a history as the code runs it: `register_op` walks the known types in registration order -/
def runD (H : Hier) : List Reg → List Action → List (Option Answer)
  | _, [] => []
  | w, a :: as => let (w', o) := step H w (a.canon w); o :: runD H w' as

/-- what a `register_op` action says once its order field is forgotten -/
def Action.eraseOrder : Action → Action
  | .registerOp i op a e _ => .registerOp i op a e []
  | a => a

end Glom.C13
